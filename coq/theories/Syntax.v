(* Executable model of pymwp/syntax.py (BaseAnalysis dispatch, Coverage, walker "Variables",
   FindLoops), of parser.py is_func/is_loop, of Analysis.syntax_check / take_counts /
   LoopAnalysis loop selection, and of the DISPATCH side of Analysis.compute_relation
   (which rule a statement reaches, what is skipped, what is discarded uninspected).

   Code-shaped: one [*_step] per walker class with one case per Python method; which method
   runs for a node class is decided by [resolve] from the GENERATED method-name sets (what
   `hasattr(self, type(node).__name__)` sees through the MRO walker -> BaseAnalysis -> NodeHandler),
   default = the walker's own [handler].  `self.recurse(child)` is the annotated child's result
   ([ares]).  Paths in results are RELATIVE to the node the result belongs to; a parent prefixes
   them.  The keyword argument `clear` of Coverage is not threaded downwards: an entry says
   [Inh] ("fires whatever clear I was given") and the caller that supplies a clear substitutes it.
   A Python exception is an item ([VRaise]/[CErr]/[LRaise]/[EvRaise]) in the result list.
   No proofs here. *)
From Coq Require Import String List Bool Arith.
From PMGen Require Import SyntaxGen PycSchema.
From PM Require Import Tree.
Import ListNotations.
Open Scope string_scope.
Open Scope list_scope.

(* ------------------------------------------------------------------------- *)
(* node_handler                                                                *)
(* ------------------------------------------------------------------------- *)
Inductive owner := OwnWalker | OwnBase | OwnNH | OwnNone.

(* getattr(self, t_name) if hasattr(self, t_name) else self.handler *)
Definition resolve (W : list string) (c : string) : owner :=
  if in_s c W then OwnWalker
  else if in_s c BASE_METHODS then OwnBase
  else if in_s c NODEHANDLER_METHODS then OwnNH
  else OwnNone.

(* BaseAnalysis.FCall: calls named assert / assume go to Assert / Assume (both `pass`) *)
Definition fcall_special (n : node) : bool :=
  match kid1 n "name" with
  | Some f => is_cls "ID" f &&
              match attr f "name" with Some s => String.eqb s "assert" || String.eqb s "assume" | None => false end
  | None => false
  end.

Definition attr_is (n : node) (a v : string) : bool :=
  match attr n a with Some s => String.eqb s v | None => false end.
Definition attr_in (n : node) (a : string) (vs : list string) : bool :=
  match attr n a with Some s => in_s s vs | None => false end.

(* ------------------------------------------------------------------------- *)
(* class "Variables" (called vars here: the word is reserved by the source scan) *)
(* ------------------------------------------------------------------------- *)
Inductive vitem := VName (s : string) | VRaise.

Definition vnames_of (l : list vitem) : list string :=
  flat_map (fun i => match i with VName s => [s] | VRaise => [] end) l.
Definition vraises (l : list vitem) : bool :=
  existsb (fun i => match i with VRaise => true | _ => false end) l.

(* Variables.handler: isinstance(node, (ID, Decl)) and node.name and isinstance(node.name, str) *)
Definition vhandler (n : node) : list vitem :=
  if in_s (ncls n) VARS_HANDLER_CLASSES
  then match str_name n with Some s => [VName s] | None => [] end
  else [].

(* SyntaxUtils.init_vars; att(lst, attr) = [getattr(e, attr, None) ...]: a missing attribute is None and is
   dropped by names().  (The option is kept for the shape of loop_guard_of: it is always Some.) *)
Definition names_of (l : list node) : list string :=
  flat_map (fun e => if is_cls "ID" e || is_cls "Decl" e
                     then match attr e "name" with Some s => [s] | None => [] end else []) l.
Definition att (l : list node) (s : string) : list node :=
  flat_map (fun e => match kid1 e s with Some x => [x] | None => [] end) l.

Definition init_vars (init : option node) : option (list string * list string) :=
  match init with
  | None => Some ([], [])
  | Some n =>
    if is_cls "DeclList" n then
      let ds := kidl n "decls" in
      Some (names_of ds, names_of (att ds "init"))
    else
      let exp := match slot n "exprs" with Some l => l | None => [n] end in
      Some (names_of (att exp "lvalue"), names_of (att exp "rvalue"))
  end.

Fixpoint dedup (l : list string) (seen : list string) : list string :=
  match l with
  | [] => []
  | x :: t => if in_s x seen then dedup t seen else x :: dedup t (x :: seen)
  end.

(* Variables.loop_guard + Coverage.loop_compat *)
Inductive lcres := LcErr | LcNo | LcYes (x : string).

Definition loop_guard_of (init : option node) (conds nxt body : list vitem) : lcres :=
  match init_vars init with
  | None => LcErr
  | Some (iters0, srcs) =>
    if vraises conds || vraises nxt || vraises body then LcErr else
    let iters := iters0 ++ vnames_of nxt in
    let loop_x := dedup (filter (fun v => negb (in_s v iters)) (vnames_of conds ++ srcs)) [] in
    match loop_x with
    | [x] => if in_s x (vnames_of body) then LcNo else LcYes x
    | _ => LcNo
    end
  end.

Definition ores {R} (o : option (ann (list R))) : list R :=
  match o with Some x => ares x | None => [] end.

Definition vars_method (c : string) (self : node) (aks : list (string * list (ann (list vitem)))) : list vitem :=
  let rec1 s := ores (ak1 aks s) in
  if String.eqb c "Assignment" then rec1 "lvalue" ++ rec1 "rvalue"
  else if String.eqb c "BinaryOp" then rec1 "left" ++ rec1 "right"
  else if String.eqb c "Cast" then rec1 "expr"
  else if String.eqb c "Decl" then
    (if ois_cls "TypeDecl" (kid1 self "type") then vhandler self else []) ++ rec1 "init"
  else if String.eqb c "DoWhile" then rec1 "cond" ++ rec1 "stmt"
  else if String.eqb c "For" then
    match loop_guard_of (kid1 self "init") (rec1 "cond") (rec1 "next") (rec1 "stmt") with
    | LcErr => [VRaise]
    | LcYes x => (if String.eqb x "" then [] else [VName x]) ++ rec1 "stmt"
    | LcNo => rec1 "stmt"
    end
  else if String.eqb c "FuncDef" then
    match ak1 aks "decl" with
    | None => [VRaise]                                  (* node.decl.type on None *)
    | Some d => match ak1 (akids d) "type" with
                | Some t => ores (ak1 (akids t) "args")
                | None => []
                end
    end ++ rec1 "body"
  else if String.eqb c "ID" then
    (if attr_in self "name" RESERVED then [] else vhandler self)
  else if String.eqb c "If" then rec1 "iftrue" ++ rec1 "iffalse"
  else if String.eqb c "Return" then rec1 "expr"
  else if String.eqb c "UnaryOp" then (if attr_in self "op" U_OPS then rec1 "expr" else [])
  else if String.eqb c "While" then rec1 "cond" ++ rec1 "stmt"
  else [VRaise].   (* a method this model does not know: see vars_methods_known *)

Definition vars_step (c : string) (a : list (string * string)) (ks : list (string * list node))
           (aks : list (string * list (ann (list vitem)))) : list vitem :=
  let self := Node c a ks in
  let by_owner (o : owner) (none : list vitem) :=
      match o with
      | OwnWalker => vars_method c self aks
      | OwnBase => match assoc c BASE_ITER with Some s => flat_map ares (akl aks s) | None => [VRaise] end
      | OwnNH => []
      | OwnNone => none
      end in
  if String.eqb c "FuncCall" then
    (if fcall_special self then [] else by_owner (resolve VARS_METHODS c) [VRaise])
  else by_owner (resolve VARS_METHODS c) (vhandler self).

Definition vitems (n : node) : list vitem := walk vars_step n.
Definition ovitems (o : option node) : list vitem := match o with Some n => vitems n | None => [] end.

(* Coverage.loop_compat(node) on a raw node *)
Definition loop_compat (n : node) : lcres :=
  loop_guard_of (kid1 n "init") (ovitems (kid1 n "cond")) (ovitems (kid1 n "next")) (ovitems (kid1 n "stmt")).

(* sorted(self.vars) *)
Fixpoint insert_s (x : string) (l : list string) : list string :=
  match l with
  | [] => [x]
  | y :: t => if String.leb x y then x :: l else y :: insert_s x t
  end.
Definition sort_s (l : list string) : list string := fold_right insert_s [] l.

(* Variables(nodes...).vars ; None = the constructor raises *)
Definition vars_of (ns : list node) : option (list string) :=
  let items := flat_map vitems ns in
  if vraises items then None else Some (sort_s (dedup (vnames_of items) [])).

(* ------------------------------------------------------------------------- *)
(* Coverage                                                                    *)
(* ------------------------------------------------------------------------- *)
Inductive action := RmChild (p : path) (s : string) (i : nat) | RmAttr (p : path) (s : string).
Inductive cact := Inh | Act (a : action).
Inductive centry := Omit (p : path) (c : cact) | CErr (p : path).

Definition push_act (pre : path) (a : action) : action :=
  match a with RmChild p s i => RmChild (pre ++ p) s i | RmAttr p s => RmAttr (pre ++ p) s end.

(* child result seen from the parent when the parent passes its own kwargs on *)
Definition pass (pre : path) (e : centry) : centry :=
  match e with
  | Omit p Inh => Omit (pre ++ p) Inh
  | Omit p (Act a) => Omit (pre ++ p) (Act (push_act pre a))
  | CErr p => CErr (pre ++ p)
  end.
(* ... when the parent passes {**kwargs, 'clear': A} *)
Definition with_clear (A : action) (pre : path) (e : centry) : centry :=
  match e with
  | Omit p Inh => Omit (pre ++ p) (Act A)
  | Omit p (Act a) => Omit (pre ++ p) (Act (push_act pre a))
  | CErr p => CErr (pre ++ p)
  end.

Definition cres := list centry.

(* Coverage._iter_attr(owner, s) where [pre] is the path from self to owner *)
Definition cov_iter (pre : path) (s : string) (xs : list (ann cres)) : cres :=
  concat (mapi (fun i x => map (with_clear (RmChild pre s i) (pre ++ [(s, i)])) (ares x)) xs).

Definition uncast1 (o : option node) : option node :=
  match o with Some n => if is_cls "Cast" n then kid1 n "expr" else Some n | None => None end.

Definition cov_method (c : string) (self : node) (aks : list (string * list (ann cres))) : cres :=
  let fire := [Omit [] Inh] in
  let rec_pass s := match ak1 aks s with Some x => map (pass [(s, 0)]) (ares x) | None => [] end in
  let while_body :=
      match ak1 aks "stmt" with
      | Some x => if is_cls "Compound" (anode x)
                  then cov_iter [("stmt", 0)] "block_items" (akl (akids x) "block_items")
                  else map (with_clear (RmAttr [] "stmt") [("stmt", 0)]) (ares x)
      | None => [Omit [("stmt", 0)] (Act (RmAttr [] "stmt"))]       (* recurse(None) -> handler *)
      end in
  if String.eqb c "Assignment" then
    let rv := kid1 self "rvalue" in
    let cast := ois_cls "Cast" rv in
    if attr_is self "op" "=" && ois_cls "ID" (kid1 self "lvalue") && ocls_in COV_ASSIGN_ALLOW (uncast1 rv)
    then rec_pass "lvalue" ++
         (if cast then match ak1 aks "rvalue" with
                       | Some r => match ak1 (akids r) "expr" with
                                   | Some e => map (pass [("rvalue", 0); ("expr", 0)]) (ares e)
                                   | None => []
                                   end
                       | None => []
                       end
          else rec_pass "rvalue")
    else fire
  else if String.eqb c "BinaryOp" then
    if attr_in self "op" BIN_OPS && ocls_in COV_BINOP_ALLOW (uncast1 (kid1 self "left"))
       && ocls_in COV_BINOP_ALLOW (uncast1 (kid1 self "right"))
    then [] else fire
  else if String.eqb c "Cast" then rec_pass "expr"
  else if String.eqb c "Decl" then
    if ois_cls "TypeDecl" (kid1 self "type") && match kid1 self "init" with None => true | Some _ => false end
    then [] else fire
  else if String.eqb c "DoWhile" then while_body
  else if String.eqb c "For" then
    match loop_compat self with
    | LcErr => [CErr []]
    | LcNo => fire
    | LcYes _ => while_body
    end
  else if String.eqb c "FuncCall" then fire
  else if String.eqb c "FuncDef" then
    match ak1 aks "decl" with
    | None => [CErr []]
    | Some d => match ak1 (akids d) "type" with
                | Some t => match ak1 (akids t) "args" with
                            | Some x => map (pass [("decl", 0); ("type", 0); ("args", 0)]) (ares x)
                            | None => []
                            end
                | None => []
                end
    end ++ rec_pass "body"
  else if String.eqb c "If" then
    match ak1 aks "iftrue" with
    | Some x => map (with_clear (RmAttr [] "iftrue") [("iftrue", 0)]) (ares x) | None => [] end ++
    match ak1 aks "iffalse" with
    | Some x => map (with_clear (RmAttr [] "iffalse") [("iffalse", 0)]) (ares x) | None => [] end
  else if String.eqb c "Return" then rec_pass "expr"
  else if String.eqb c "UnaryOp" then
    if attr_in self "op" U_OPS && ocls_in COV_UNOP_ALLOW (kid1 self "expr") then rec_pass "expr" else fire
  else if String.eqb c "While" then while_body
  else [CErr []].  (* unknown method: see coverage_methods_known *)

Definition cov_step (c : string) (a : list (string * string)) (ks : list (string * list node))
           (aks : list (string * list (ann cres))) : cres :=
  let self := Node c a ks in
  let fire := [Omit [] Inh] in
  let by_owner (o : owner) (none : cres) :=
      match o with
      | OwnWalker => cov_method c self aks
      | OwnBase => match assoc c BASE_ITER with Some s => cov_iter [] s (akl aks s) | None => [CErr []] end
      | OwnNH => []
      | OwnNone => none
      end in
  if in_s c COV_REJECT then fire                          (* Coverage.recurse *)
  else if String.eqb c "FuncCall" then
    (if fcall_special self then [] else by_owner (resolve COVERAGE_METHODS c) [CErr []])
  else by_owner (resolve COVERAGE_METHODS c) fire.

Definition cov (n : node) : cres := walk cov_step n.

(* Coverage(node): Err when a Python exception escapes the constructor (KeyError 'clear' when the
   ROOT itself is unsupported, AttributeError from init_vars), else the (omit path, clear) list *)
Inductive res (A : Type) := Ok (a : A) | Err (msg : string).
Arguments Ok {A}. Arguments Err {A}.

Fixpoint cov_entries (l : cres) : res (list (path * action)) :=
  match l with
  | [] => Ok []
  | CErr _ :: _ => Err "AttributeError"
  | Omit _ Inh :: _ => Err "KeyError"
  | Omit p (Act a) :: t => match cov_entries t with Ok r => Ok ((p, a) :: r) | Err m => Err m end
  end.

Definition coverage (n : node) : res (list (path * action)) := cov_entries (cov n).
Definition full (n : node) : bool := match coverage n with Ok [] => true | _ => false end.

(* --- ast_mod: run the clear list --- *)
Definition empty_stmt : node := Node "EmptyStatement" [] [].

Definition action_eqb (a b : action) : bool :=
  match a, b with
  | RmChild p s i, RmChild q t j => path_eqb p q && String.eqb s t && Nat.eqb i j
  | RmAttr p s, RmAttr q t => path_eqb p q && String.eqb s t
  | _, _ => false
  end.
Definition has_act (a : action) (l : list action) : bool := existsb (action_eqb a) l.

Definition act_path (a : action) : path := match a with RmChild p _ _ => p | RmAttr p _ => p end.
Definition act_tail (a : action) : action :=
  match a with RmChild p s i => RmChild (tl p) s i | RmAttr p s => RmAttr (tl p) s end.
(* the closures whose target lies strictly below child (s,i), re-addressed relative to that child *)
Definition descend (s : string) (i : nat) (l : list action) : list action :=
  flat_map (fun a => match act_path a with
                     | st :: _ => if step_eqb st (s, i) then [act_tail a] else []
                     | [] => []
                     end) l.

(* All closures of the clear list executed.  Each closure touches one object -- rm_child removes
   THAT child object from its parent's list if still there, rm_attr overwrites one attribute with a
   fresh EmptyStatement -- so the effects commute; the result is computed in one pass over the
   ORIGINAL tree (positions = original positions = object identities):
   a child of a list slot is dropped iff its rm_child is listed, a slot is replaced by
   EmptyStatement iff its rm_attr is listed (closures aimed below it then hit a detached object). *)
Fixpoint apply_clears (acts : list action) (n : node) : node :=
  match n with
  | Node c a ks =>
    Node c a
      (map (fun sk =>
              (fst sk,
               if has_act (RmAttr [] (fst sk)) acts then [empty_stmt]
               else (fix go (i : nat) (l : list node) : list node :=
                       match l with
                       | [] => []
                       | x :: l' =>
                         (if has_act (RmChild [] (fst sk) i) acts then []
                          else [apply_clears (descend (fst sk) i acts) x]) ++ go (S i) l'
                       end) 0 (snd sk))) ks)
  end.

(* Coverage(node).ast_mod().node ; the root must not raise *)
Definition ast_mod (n : node) : res node :=
  match coverage n with
  | Ok l => Ok (apply_clears (map snd l) n)
  | Err m => Err m
  end.

(* ------------------------------------------------------------------------- *)
(* FindLoops                                                                   *)
(* ------------------------------------------------------------------------- *)
Inductive litem := LLoop (p : path) | LRaise.
Definition lpush (pre : path) (i : litem) : litem :=
  match i with LLoop p => LLoop (pre ++ p) | LRaise => LRaise end.

(* FindLoops.handler: record the node if it is a While / DoWhile / For *)
Definition fl_handler (c : string) : list litem :=
  if in_s c FINDLOOPS_HANDLER_CLASSES then [LLoop []] else [].

Definition fl_method (c : string) (self : node) (aks : list (string * list (ann (list litem)))) : list litem :=
  let rec1 s := match ak1 aks s with Some x => map (lpush [(s, 0)]) (ares x) | None => [] end in
  if String.eqb c "DoWhile" then fl_handler c ++ rec1 "stmt"
  else if String.eqb c "For" then
    match loop_compat self with
    | LcErr => [LRaise]
    | LcYes _ => fl_handler c ++ rec1 "stmt"
    | LcNo => rec1 "stmt"
    end
  else if String.eqb c "FuncDef" then rec1 "body"
  else if String.eqb c "If" then rec1 "iftrue" ++ rec1 "iffalse"
  else if String.eqb c "Switch" then rec1 "stmt"
  else if String.eqb c "While" then fl_handler c ++ rec1 "stmt"
  else [LRaise].

Definition fl_iter (s : string) (xs : list (ann (list litem))) : list litem :=
  concat (mapi (fun i x => map (lpush [(s, i)]) (ares x)) xs).

Definition fl_step (c : string) (a : list (string * string)) (ks : list (string * list node))
           (aks : list (string * list (ann (list litem)))) : list litem :=
  let self := Node c a ks in
  let by_owner (o : owner) (none : list litem) :=
      match o with
      | OwnWalker => fl_method c self aks
      | OwnBase => match assoc c BASE_ITER with Some s => fl_iter s (akl aks s) | None => [LRaise] end
      | OwnNH => []
      | OwnNone => none
      end in
  if String.eqb c "FuncCall" then
    (if fcall_special self then [] else by_owner (resolve FINDLOOPS_METHODS c) [LRaise])
  else by_owner (resolve FINDLOOPS_METHODS c) (fl_handler c).    (* unlisted class: FindLoops.handler *)

Definition fl_items (n : node) : list litem := walk fl_step n.
Definition lraises (l : list litem) : bool := existsb (fun i => match i with LRaise => true | _ => false end) l.
Definition lpaths (l : list litem) : list path := flat_map (fun i => match i with LLoop p => [p] | LRaise => [] end) l.

(* FindLoops(node).loops as paths from node; None = raises *)
Definition find_loops (n : node) : option (list path) :=
  let l := fl_items n in if lraises l then None else Some (lpaths l).

(* ------------------------------------------------------------------------- *)
(* parser.py                                                                   *)
(* ------------------------------------------------------------------------- *)
Definition is_func (n : node) : bool :=
  is_cls "FuncDef" n && match kid1 n "body" with Some b => has_slot "block_items" b | None => false end.
(* PyCParser._is_empty: `;` or a block of nothing but such statements *)
Fixpoint is_empty_body (n : node) : bool :=
  match n with
  | Node c _ ks => String.eqb c "EmptyStatement" ||
                   (String.eqb c "Compound" && forallb (fun sk => forallb is_empty_body (snd sk)) ks)
  end.
Definition is_loop (n : node) : bool :=
  (is_cls "While" n || is_cls "For" n || is_cls "DoWhile" n) &&
  match kid1 n "stmt" with
  | Some s => negb (is_empty_body s)
  | None => false
  end.

(* ------------------------------------------------------------------------- *)
(* Analysis.syntax_check / LoopAnalysis.syntax_check / take_counts             *)
(* ------------------------------------------------------------------------- *)
(* (verdict, node afterwards) *)
Definition syntax_check (n : node) (strict : bool) : res (bool * node) :=
  match coverage n with
  | Err m => Err m
  | Ok [] => Ok (true, n)
  | Ok l => if strict then Ok (false, n) else Ok (true, apply_clears (map snd l) n)
  end.

Definition funcs (ast : node) : list node := filter is_func (kidl ast "ext").

Definition osum (l : list (option nat)) : option nat :=
  fold_right (fun o acc => match o, acc with Some a, Some b => Some (a + b) | _, _ => None end) (Some 0) l.
Definition olen {A} (o : option (list A)) : option nat := option_map (@List.length A) o.

Definition loops_of (f : node) : option (list node) :=
  match find_loops f with
  | Some ps => Some (flat_map (fun p => match node_at p f with Some x => [x] | None => [] end) ps)
  | None => None
  end.

Record counts := { n_func : nat; n_loops : nat; n_func_vars : nat; n_loop_vars : nat }.

(* None = take_counts raises *)
Definition take_counts (ast : node) : option counts :=
  let fs := funcs ast in
  let lss := map loops_of fs in
  if forallb (fun o => match o with Some _ => true | None => false end) lss then
    let ls := flat_map (fun o => match o with Some l => l | None => [] end) lss in
    match osum (map (fun f => olen (vars_of [f])) fs), osum (map (fun l => olen (vars_of [l])) ls) with
    | Some fv, Some lv => Some {| n_func := List.length fs; n_loops := List.length ls; n_func_vars := fv; n_loop_vars := lv |}
    | _, _ => None
    end
  else None.

(* ------------------------------------------------------------------------- *)
(* Analysis: the dispatch of compute_relation and friends                      *)
(* ------------------------------------------------------------------------- *)
Inductive ekind :=
| KUnsupported   (* Analysis._unsupported called: warning "Unsupported syntax ..." , statement skipped *)
| KSkip          (* class in the skip list (Return Break Continue EmptyStatement Decl): silently nothing *)
| KNoop          (* reached a rule that does nothing: assert/assume call, unary_op on something that is not ++/-- of an ID *)
| KFlow          (* a flow rule is applied to the statement: binary_op / constant / id / unary rewriting *)
| KEnter         (* if / while / do-while / counted for / compound: children dispatched *)
| KForSkip       (* for_loop on a loop that is not loop_compat: silently returns the empty relation, body not visited *)
| KCond          (* sub-expression in a controlling position, never inspected: if/while/do-while/for cond *)
| KHeader        (* for-loop init / next, never inspected *)
| KDropEval      (* expression discarded uninspected although C evaluates it: operand of !e, a whole no-op unary statement, return e, arguments of assert/assume *)
| KDropSizeof    (* operand of sizeof: discarded, C does not evaluate it *)
| KRaise.        (* Python exception (assert in binary_op, init_vars) *)
Inductive event := Ev (k : ekind) (p : path).
Definition epush (pre : path) (e : event) : event := let 'Ev k p := e in Ev k (pre ++ p).

(* Analysis.rm_cast *)
Definition rmcast_step (c : string) (a : list (string * string)) (ks : list (string * list node))
           (aks : list (string * list (ann node))) : node :=
  if String.eqb c "Cast" then match ak1 aks "expr" with Some e => ares e | None => Node c a ks end
  else Node c a ks.
Definition rm_cast (n : node) : node := walk rmcast_step n.
Definition orm_cast (o : option node) : option node := option_map rm_cast o.

Definition is_atom (o : option node) : bool := ocls_in ["Constant"; "ID"] o.

(* binary_op(index, node) on an assignment whose (uncast) right side is [rv]: the asserts *)
Definition binary_op_events (rv : node) : list event :=
  if is_atom (orm_cast (kid1 rv "left")) && is_atom (orm_cast (kid1 rv "right")) then [Ev KFlow []] else [Ev KRaise []].

(* unary_asgn on `tgt = <op> right`; [rp] = path of the UnaryOp from the statement *)
Definition unary_asgn_events (u : node) (rp : path) : list event :=
  let right := kid1 u "expr" in
  let opnd := rp ++ [("expr", 0)] in
  if attr_is u "op" OP_SIZEOF then [Ev KFlow []; Ev KDropSizeof opnd]
  else if attr_is u "op" OP_NEG then [Ev KFlow []; Ev KDropEval opnd]
  else if ois_cls "Constant" right then [Ev KFlow []]
  else if ois_cls "ID" right && (attr_in u "op" INC_DEC || attr_is u "op" OP_MINUS || attr_is u "op" OP_PLUS)
       then [Ev KFlow []]          (* rewritten to assignments of atoms: dispatched again, reaches binary_op / id *)
  else [Ev KUnsupported []].

Definition ev_iter (pre : path) (s : string) (xs : list (ann (list event))) : list event :=
  concat (mapi (fun i x => map (epush (pre ++ [(s, i)])) (ares x)) xs).

(* compute_relation(index, node, dg): events relative to node.  The relation algebra and the
   early exit taken once the delta graph proves infinity are NOT modelled here. *)
Definition cr_step (c : string) (a : list (string * string)) (ks : list (string * list node))
           (aks : list (string * list (ann (list event)))) : list event :=
  let self := Node c a ks in
  let child s := match ak1 aks s with
                 | Some x => map (epush [(s, 0)]) (ares x)
                 | None => [Ev KUnsupported [(s, 0)]]     (* compute_relation(None) *)
                 end in
  let dropped k s := match kid1 self s with Some _ => [Ev k [(s, 0)]] | None => [] end in
  let stmt_dispatch :=
      match find (fun cf => in_s c (fst cf)) CR_DISPATCH with
      | Some (_, fn) =>
        if String.eqb fn "unary_op" then
          (if attr_in self "op" INC_DEC && ois_cls "ID" (orm_cast (kid1 self "expr")) then [Ev KFlow []]
           else if attr_is self "op" OP_SIZEOF then [Ev KNoop []] ++ dropped KDropSizeof "expr"
           else [Ev KNoop []; Ev KDropEval []])          (* the whole expression statement is discarded *)
        else if String.eqb fn "if_stmt" then
          let branch s :=
              match ak1 aks s with
              | None => []
              | Some b => if has_slot "block_items" (anode b)
                          then ev_iter [(s, 0)] "block_items" (akl (akids b) "block_items")
                          else map (epush [(s, 0)]) (ares b)
              end in
          [Ev KEnter []] ++ dropped KCond "cond" ++ branch "iftrue" ++ branch "iffalse"
        else if String.eqb fn "while_loop" then
          [Ev KEnter []] ++ dropped KCond "cond" ++ child "stmt"
        else if String.eqb fn "for_loop" then
          match loop_compat self with
          | LcErr => [Ev KRaise []]
          | LcNo => [Ev KForSkip []]
          | LcYes _ => [Ev KEnter []] ++ dropped KHeader "init" ++ dropped KCond "cond" ++ dropped KHeader "next" ++ child "stmt"
          end
        else if String.eqb fn "compound" then
          [Ev KEnter []] ++ ev_iter [] "block_items" (akl aks "block_items")
        else [Ev KRaise []]
      | None =>
        if String.eqb c "FuncCall" && ois_cls "ID" (kid1 self "name") &&
           match kid1 self "name" with Some f => attr_in f "name" CR_NOOP_CALLS | None => false end
        then [Ev KNoop []] ++ dropped KDropEval "args"
        else [Ev KUnsupported []]
      end in
  if in_s c CR_SKIP then [Ev KSkip []] ++ (if String.eqb c "Return" then dropped KDropEval "expr" else [])
  else if String.eqb c "Assignment" && ois_cls "ID" (kid1 self "lvalue") then
    let rv0 := kid1 self "rvalue" in
    let cast := CR_ASSIGN_UNWRAPS_CAST && ois_cls "Cast" rv0 in
    let rv := if cast then match rv0 with Some r => kid1 r "expr" | None => None end else rv0 in
    let rp := if cast then [("rvalue", 0); ("expr", 0)] else [("rvalue", 0)] in
    match rv with
    | Some r =>
      match find (fun cf => is_cls (fst cf) r) CR_ASSIGN_RV with
      | Some (_, fn) =>
        if String.eqb fn "binary_op" then binary_op_events r
        else if String.eqb fn "constant" then [Ev KFlow []]
        else if String.eqb fn "unary_asgn" then unary_asgn_events r rp
        else if String.eqb fn "id" then [Ev KFlow []]
        else [Ev KRaise []]
      | None => stmt_dispatch
      end
    | None => stmt_dispatch
    end
  else stmt_dispatch.

Definition cr_events (n : node) : list event := walk cr_step n.

(* Analysis.func: body.block_items handed to cmds one by one; events relative to the FuncDef *)
Definition func_events (f : node) : list event :=
  match kid1 f "body" with
  | Some b => concat (mapi (fun i s => map (epush [("body", 0); ("block_items", i)]) (cr_events s)) (kidl b "block_items"))
  | None => []
  end.

(* ------------------------------------------------------------------------- *)
(* Specification side of C05 (independent of the walkers above)                *)
(* ------------------------------------------------------------------------- *)
(* the node itself changes a variable: an assignment, ++/--, a call other than assert/assume *)
Definition effect_here (n : node) : bool :=
  is_cls "Assignment" n || (is_cls "UnaryOp" n && attr_in n "op" INC_DEC) ||
  (is_cls "FuncCall" n && negb (fcall_special n)).

(* evaluating the expression / executing the statement may change a variable
   (the operand of sizeof is not evaluated) *)
Fixpoint changes_var (n : node) : bool :=
  match n with
  | Node c a ks =>
    effect_here (Node c a ks) ||
    (negb (String.eqb c "UnaryOp" && attr_is (Node c a ks) "op" OP_SIZEOF) &&
     existsb (fun sk => existsb changes_var (snd sk)) ks)
  end.

Definition ochanges (f : node) (p : path) : bool :=
  match node_at p f with Some x => changes_var x | None => false end.

(* what the analysis of function f loses: statements sent to the warn-and-skip path (or silently
   skipped for-loops), conditions with an effect, discarded expressions with an effect *)
Definition c05_bad (f : node) : list (string * path) :=
  flat_map (fun e => let 'Ev k p := e in
                     match k with
                     | KUnsupported | KForSkip => [("unsupported", p)]
                     | KRaise => [("raise", p)]
                     | KCond => if ochanges f p then [("cond", p)] else []
                     | KDropEval => if ochanges f p then [("dropped", p)] else []
                     | _ => []
                     end) (func_events f).

(* ------------------------------------------------------------------------- *)
(* LoopAnalysis.run: which loops get inspected, and in which state             *)
(* ------------------------------------------------------------------------- *)
(* loops = [loop for loop in FindLoops(func).loops if LoopAnalysis.syntax_check(loop, strict)].
   Each loop object is cleaned in place when its turn comes; an enclosing loop cleaned earlier has
   already applied (some of) the same closures to it -- the closures are idempotent and commute, so
   the state in which a loop is inspected is its own cleaned subtree.  (path in func, node inspected) *)
Fixpoint loop_mode_from (f : node) (strict : bool) (ps : list path) : res (list (path * node)) :=
  match ps with
  | [] => Ok []
  | p :: ps' =>
    match node_at p f with
    | None => Err "path"
    | Some l =>
      match syntax_check l strict with
      | Err m => Err m
      | Ok (v, l') =>
        match loop_mode_from f strict ps' with
        | Err m => Err m
        | Ok r => Ok (if v && is_loop l' then (p, l') :: r else r)
        end
      end
    end
  end.

Definition loop_mode_loops (f : node) (strict : bool) : res (list (path * node)) :=
  match find_loops f with
  | None => Err "AttributeError"
  | Some ps => loop_mode_from f strict ps
  end.
