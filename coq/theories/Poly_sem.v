(* Semantics of monomials / polynomials and the basic value lemmas. *)
From Coq Require Import List Bool Arith Lia.
From PM Require Import Semiring Poly.
Import ListNotations.

Definition mval (m : mono) (c : choice) : Sc := if mmatch c (ds m) then sc m else O.

(* decide an equation / inequality between ssum-sprod expressions over opaque values by cases *)
Ltac sc_solve :=
  repeat match goal with
  | |- context[val ?p ?c] => generalize dependent (val p c); intros
  | |- context[mval ?p ?c] => generalize dependent (mval p c); intros
  | H : context[val ?p ?c] |- _ => generalize dependent (val p c); intros
  | H : context[mval ?p ?c] |- _ => generalize dependent (mval p c); intros
  end;
  repeat match goal with x : Sc |- _ => destruct x end;
  unfold sc_le in *; simpl in *; try reflexivity; try lia; try discriminate; try congruence.

Lemma val_nil c : val [] c = O.
Proof. reflexivity. Qed.

Lemma val_cons m p c : val (m :: p) c = ssum (mval m c) (val p c).
Proof.
  unfold val, terms, mval. simpl. destruct (mmatch c (ds m)); simpl.
  - reflexivity.
  - rewrite ssum_O_l. reflexivity.
Qed.

Lemma val_app p q c : val (p ++ q) c = ssum (val p c) (val q c).
Proof.
  induction p as [|m p IH]; simpl.
  - rewrite val_nil, ssum_O_l. reflexivity.
  - rewrite !val_cons, IH, ssum_assoc. reflexivity.
Qed.

Lemma val_rev p c : val (rev p) c = val p c.
Proof.
  induction p as [|m p IH]; simpl; [reflexivity|].
  rewrite val_app, IH, !val_cons, val_nil, ssum_O_r, ssum_comm. reflexivity.
Qed.

Lemma val_rev_append a b c : val (rev_append a b) c = ssum (val a c) (val b c).
Proof. rewrite rev_append_rev, val_app, val_rev. reflexivity. Qed.

Lemma val_zero_poly c : val zero_poly c = O.
Proof. reflexivity. Qed.

Lemma val_mk_poly l c : val (mk_poly l) c = val l c.
Proof. destruct l; reflexivity. Qed.

(* ---- deltas ---- *)

Lemma delta_eqb_eq a b : delta_eqb a b = true <-> a = b.
Proof.
  destruct a as [a1 a2], b as [b1 b2]. unfold delta_eqb. simpl.
  rewrite andb_true_iff, !Nat.eqb_eq. split; [intros [-> ->]; reflexivity | intros H; inversion H; auto].
Qed.

Lemma delta_eqb_refl a : delta_eqb a a = true.
Proof. apply delta_eqb_eq. reflexivity. Qed.

Lemma delta_in_In d l : delta_in d l = true <-> In d l.
Proof.
  unfold delta_in. rewrite existsb_exists. split.
  - intros [x [Hx He]]. apply delta_eqb_eq in He. subst. exact Hx.
  - intros H. exists d. split; [exact H | apply delta_eqb_refl].
Qed.

Lemma mmatch_In c l : mmatch c l = true <-> forall d, In d l -> dmatch c d = true.
Proof. unfold mmatch. apply forallb_forall. Qed.

Lemma mmatch_cons c d l : mmatch c (d :: l) = dmatch c d && mmatch c l.
Proof. reflexivity. Qed.

Lemma mmatch_app c a b : mmatch c (a ++ b) = mmatch c a && mmatch c b.
Proof. unfold mmatch. apply forallb_app. Qed.

(* insert_delta: meaning *)
Lemma insert_delta_some l d r c :
  insert_delta l d = Some r -> mmatch c r = mmatch c l && dmatch c d.
Proof.
  revert r. induction l as [|h t IH]; intros r H; simpl in H.
  - inversion H. subst. simpl. rewrite andb_true_r. reflexivity.
  - destruct (Nat.ltb (snd h) (snd d)).
    + destruct (insert_delta t d) as [r'|] eqn:E; [|discriminate].
      inversion H. subst. rewrite !mmatch_cons, (IH r' eq_refl), andb_assoc. reflexivity.
    + destruct (Nat.eqb (snd h) (snd d)) eqn:E1.
      * destruct (Nat.eqb (fst h) (fst d)) eqn:E2; [|discriminate].
        inversion H. subst. apply Nat.eqb_eq in E1, E2.
        assert (h = d) as -> by (destruct h, d; simpl in *; subst; reflexivity).
        rewrite mmatch_cons. destruct (dmatch c d), (mmatch c t); reflexivity.
      * inversion H. subst. rewrite !mmatch_cons.
        destruct (dmatch c d), (dmatch c h), (mmatch c t); reflexivity.
Qed.

Lemma insert_delta_none l d c :
  insert_delta l d = None -> mmatch c l && dmatch c d = false.
Proof.
  induction l as [|h t IH]; intros H; simpl in H; [discriminate|].
  destruct (Nat.ltb (snd h) (snd d)).
  - destruct (insert_delta t d) eqn:E; [discriminate|].
    rewrite mmatch_cons, <- andb_assoc, (IH eq_refl). apply andb_false_r.
  - destruct (Nat.eqb (snd h) (snd d)) eqn:E1; [|discriminate].
    destruct (Nat.eqb (fst h) (fst d)) eqn:E2; [discriminate|].
    apply Nat.eqb_eq in E1. apply Nat.eqb_neq in E2.
    rewrite mmatch_cons. unfold dmatch. rewrite E1.
    destruct (Nat.eqb (fst h) (c (snd d))) eqn:A; simpl; [|reflexivity].
    destruct (Nat.eqb (fst d) (c (snd d))) eqn:B; [|apply andb_false_r].
    apply Nat.eqb_eq in A, B. congruence.
Qed.

Lemma mval_insert_deltas s cur new c :
  mval (insert_deltas s cur new) c = if mmatch c cur && mmatch c new then s else O.
Proof.
  revert cur. induction new as [|d t IH]; intros cur; simpl.
  - unfold mval. simpl. rewrite andb_true_r. reflexivity.
  - destruct (insert_delta cur d) as [r|] eqn:E.
    + rewrite IH, (insert_delta_some _ _ _ c E).
      destruct (mmatch c cur), (dmatch c d), (mmatch c t); reflexivity.
    + pose proof (insert_delta_none _ _ c E) as H.
      unfold mval. simpl.
      destruct (mmatch c cur), (dmatch c d); simpl in *; try discriminate; reflexivity.
Qed.

Lemma mval_mk_mono s l c : mval (mk_mono s l) c = if mmatch c l then s else O.
Proof. unfold mk_mono. rewrite mval_insert_deltas. reflexivity. Qed.

Lemma mval_mono_copy m c : mval (mono_copy m) c = mval m c.
Proof. unfold mono_copy. rewrite mval_mk_mono. reflexivity. Qed.

Lemma val_map_copy p c : val (map mono_copy p) c = val p c.
Proof.
  induction p as [|m p IH]; simpl; [reflexivity|].
  rewrite !val_cons, IH, mval_mono_copy. reflexivity.
Qed.

Lemma val_poly_copy p c : val (poly_copy p) c = val p c.
Proof. unfold poly_copy. rewrite val_mk_poly. apply val_map_copy. Qed.

(* ---- domination ---- *)

Lemma mcontains_match self m c :
  mcontains self m = true -> mmatch c (ds self) = true -> mmatch c (ds m) = true.
Proof.
  unfold mcontains. rewrite forallb_forall. intros H Hs.
  apply mmatch_In. intros d Hd. apply H in Hd. apply delta_in_In in Hd.
  rewrite mmatch_In in Hs. apply Hs. exact Hd.
Qed.

(* m.inclusion(mn) = CONTAINS : m is dominated by mn *)
Lemma minclusion_contains m mn c :
  minclusion m mn = CONTAINS -> sc_le (mval m c) (mval mn c).
Proof.
  unfold minclusion. destruct (mcontains m mn && sc_eqb (sc mn) (ssum (sc m) (sc mn))) eqn:E.
  - intros _. apply andb_true_iff in E. destruct E as [Hc Hs].
    apply sc_eqb_eq in Hs. unfold mval.
    destruct (mmatch c (ds m)) eqn:Em.
    + rewrite (mcontains_match _ _ _ Hc Em). rewrite Hs. apply sc_le_ssum_l.
    + apply sc_le_O.
  - destruct (mcontains mn m && sc_eqb (sc m) (ssum (sc m) (sc mn))); discriminate.
Qed.

Lemma minclusion_included m mn c :
  minclusion m mn = INCLUDED -> sc_le (mval mn c) (mval m c).
Proof.
  unfold minclusion. destruct (mcontains m mn && sc_eqb (sc mn) (ssum (sc m) (sc mn))); [discriminate|].
  destruct (mcontains mn m && sc_eqb (sc m) (ssum (sc m) (sc mn))) eqn:E; [|discriminate].
  intros _. apply andb_true_iff in E. destruct E as [Hc Hs].
  apply sc_eqb_eq in Hs. unfold mval.
  destruct (mmatch c (ds mn)) eqn:Em.
  - rewrite (mcontains_match _ _ _ Hc Em). rewrite Hs. apply sc_le_ssum_r.
  - apply sc_le_O.
Qed.

(* Polynomial.inclusion: the pruned list plus the new monomial has the old value; and if the answer
   is "do not insert", the new monomial is already dominated by the pruned list *)
Lemma pincl_go_val rest mn j i acc c b i' nl :
  pincl_go rest mn j i acc = (b, i', nl) ->
  ssum (val nl c) (mval mn c) = ssum (ssum (val acc c) (val rest c)) (mval mn c) /\
  (b = false -> sc_le (mval mn c) (val nl c)).
Proof.
  revert j i acc. induction rest as [|m t IH]; intros j i acc H; simpl in H.
  - inversion H. subst. rewrite val_rev, val_nil, ssum_O_r. split; [reflexivity|discriminate].
  - destruct (minclusion m mn) eqn:E.
    + apply IH in H. destruct H as [H1 H2]. split; [|exact H2].
      rewrite H1, val_cons.
      pose proof (minclusion_contains _ _ c E) as Hle. clear - Hle. sc_solve.
    + inversion H. subst. rewrite val_rev_append. split; [reflexivity|].
      intros _. pose proof (minclusion_included _ _ c E) as Hle.
      rewrite val_cons. clear - Hle. sc_solve.
    + apply IH in H. destruct H as [H1 H2]. split; [|exact H2].
      rewrite H1, !val_cons. clear. sc_solve.
Qed.

Lemma pincl_val l mn i c b i' nl :
  pincl l mn i = (b, i', nl) ->
  ssum (val nl c) (mval mn c) = ssum (val l c) (mval mn c) /\
  (b = false -> sc_le (mval mn c) (val nl c)).
Proof.
  unfold pincl. intros H. apply (pincl_go_val _ _ _ _ _ c) in H.
  rewrite val_nil, ssum_O_l in H. exact H.
Qed.

(* when the monomial is not to be inserted, the pruned list alone has the total value *)
Lemma pincl_val_false l mn i c i' nl :
  pincl l mn i = (false, i', nl) -> val nl c = ssum (val l c) (mval mn c).
Proof.
  intros H. destruct (pincl_val _ _ _ c _ _ _ H) as [H1 H2].
  specialize (H2 eq_refl). clear - H1 H2. sc_solve.
Qed.

Lemma val_list_insert l i x c : val (list_insert l i x) c = ssum (mval x c) (val l c).
Proof.
  revert i. induction l as [|h t IH]; intros i; destruct i; simpl;
    rewrite ?val_cons, ?val_nil; try rewrite IH; clear; sc_solve.
Qed.

Lemma mval_set_sc m s c : mval (set_sc m s) c = if mmatch c (ds m) then s else O.
Proof. reflexivity. Qed.

Lemma compare_equal_eq a b : compare a b = EQUALC -> a = b.
Proof.
  revert b. induction a as [|x a IH]; intros [|y b] H; simpl in H; try discriminate; [reflexivity|].
  destruct (delta_eqb x y) eqn:E.
  - apply delta_eqb_eq in E. subst. f_equal. apply IH. exact H.
  - destruct (delta_ltb x y); discriminate.
Qed.

Lemma compare_refl a : compare a a = EQUALC.
Proof. induction a as [|x a IH]; simpl; [reflexivity|]. rewrite delta_eqb_refl. exact IH. Qed.

Lemma val_list_update_sum l i m1 m2 c :
  nth_error l i = Some m1 -> ds m1 = ds m2 ->
  val (list_update l i (fun m => set_sc m (ssum (sc m1) (sc m2)))) c = ssum (val l c) (mval m2 c).
Proof.
  revert i. induction l as [|h t IH]; intros i Hn Hd; destruct i; simpl in *; try discriminate.
  - inversion Hn. subst. rewrite !val_cons, mval_set_sc. unfold mval. rewrite Hd.
    destruct (mmatch c (ds m2)).
    + rewrite <- !ssum_assoc. f_equal. apply ssum_comm.
    + rewrite ssum_O_r. reflexivity.
  - rewrite !val_cons, (IH _ Hn Hd), ssum_assoc. reflexivity.
Qed.
