(* Semantics of Relation.while_correction (Sem_stmts.while_correction_sem_stmt). *)
From Coq Require Import String List Bool Arith Lia.
From PM Require Import Semiring Poly Poly_sem Poly_add Poly_times Poly_wf Rel Analysis Calculus Rel_sem Rel_hom
  Sem_stmts Rel_corr_base.
From PMGen Require Import RulesGen.
Import ListNotations.
Open Scope list_scope.

(* enumerate-style lists starting at 0 *)
Lemma nth_map_enum {A B} (g : nat * A -> B) (l : list A) (dA : A) (dB : B) i :
  i < length l -> nth i (map g (combine (seq 0 (length l)) l)) dB = g (i, nth i l dA).
Proof. intros H. rewrite (nth_map_combine_seq g l dA dB 0 i H). reflexivity. Qed.

Lemma enum_rec_In {A T} (G : nat * A -> list T) (l : list A) (d : A) (s : T) :
  In s (concat (map G (combine (seq 0 (length l)) l))) <->
  exists i, i < length l /\ In s (G (i, nth i l d)).
Proof.
  rewrite in_concat. split.
  - intros [x [Hx Hs]]. apply in_map_iff in Hx. destruct Hx as [[k a] [<- Hka]].
    apply (in_combine_seq l d) in Hka. destruct Hka as [i [Hi [-> ->]]].
    exists i. split; [exact Hi | exact Hs].
  - intros [i [Hi Hs]]. exists (G (i, nth i l d)). split; [|exact Hs].
    apply in_map_iff. exists (i, nth i l d). split; [reflexivity|].
    apply (in_combine_seq l d). exists i. split; [exact Hi|]. split; reflexivity.
Qed.

Definition wbad (i j : nat) : Sc -> bool := fun s => W_BAD s (Nat.eqb i j).

(* W_BAD is upward closed among the finite scalars *)
Lemma W_BAD_up s v d : W_BAD s d = true -> sc_le s v -> v <> I -> W_BAD v d = true.
Proof.
  destruct (side_conditions_are_documented) as [HW _]. rewrite !HW.
  destruct s, v, d; unfold sc_le; simpl; intros; try reflexivity; try discriminate; try lia; congruence.
Qed.

Lemma W_BAD_O d : W_BAD O d = false.
Proof.
  destruct (side_conditions_are_documented) as [HW _]. rewrite HW. reflexivity.
Qed.

(* ---- the matrix and the record list of while_correction, cell by cell ---- *)

Lemma while_mat_shape r n : shape n (rmat r) -> shape n (rmat (fst (while_correction r))).
Proof.
  intros Hs. pose proof Hs as [Hl Hr]. unfold while_correction. cbn [fst rmat]. split.
  - rewrite map_length, length_map_combine_seq. exact Hl.
  - apply Forall_forall. intros row Hrow.
    apply in_map_iff in Hrow. destruct Hrow as [rowc [<- Hrowc]].
    apply in_map_iff in Hrowc. destruct Hrowc as [[k a] [<- Hka]].
    apply (in_combine_seq (rmat r) []) in Hka. destruct Hka as [i [Hi [-> ->]]].
    rewrite map_length, length_map_combine_seq. apply (shape_row n); [exact Hs | lia].
Qed.

Lemma while_mat_mget r n i j : shape n (rmat r) -> i < n -> j < n ->
  mget (rmat (fst (while_correction r))) i j = corr_map (wbad i j) (mget (rmat r) i j).
Proof.
  intros Hs Hi Hj. pose proof (shape_row n _ i Hs Hi) as Hrow. destruct Hs as [Hl Hr].
  unfold while_correction. cbn [fst rmat]. unfold mget. rewrite map_map.
  rewrite (nth_map_enum _ (rmat r) [] []) by lia. cbv beta iota.
  rewrite map_map. rewrite (nth_map_enum _ (nth i (rmat r) []) zero_poly zero_poly) by lia.
  reflexivity.
Qed.

Lemma while_rec_In r n s : shape n (rmat r) ->
  (In s (snd (while_correction r)) <->
   exists i j, i < n /\ j < n /\ In s (snd (corr_cell (wbad i j) (mget (rmat r) i j)))).
Proof.
  intros Hs. unfold while_correction. cbn [snd]. rewrite map_map.
  rewrite (enum_rec_In _ (rmat r) []). split.
  - intros [i [Hi H]]. cbv beta iota in H. rewrite map_map in H.
    apply (enum_rec_In _ (nth i (rmat r) []) zero_poly) in H. destruct H as [j [Hj H]].
    destruct Hs as [Hl Hr]. rewrite Hl in Hi.
    rewrite (shape_row n _ i (conj Hl Hr) Hi) in Hj.
    exists i, j. split; [exact Hi|]. split; [exact Hj | exact H].
  - intros [i [j [Hi [Hj H]]]]. exists i. pose proof (shape_row n _ i Hs Hi) as Hrow.
    destruct Hs as [Hl Hr]. split; [lia|]. cbv beta iota. rewrite map_map.
    apply (enum_rec_In _ (nth i (rmat r) []) zero_poly). exists j. split; [lia | exact H].
Qed.

(* ---- variables and indices ---- *)

Lemma var_index r x : wf_rel r -> In x (rvars r) ->
  exists i, index_of_str x (rvars r) = Some i /\ i < length (rvars r).
Proof.
  intros _ Hx. apply index_of_str_In in Hx. destruct Hx as [i Hi].
  exists i. split; [exact Hi | exact (index_of_str_lt _ _ _ Hi)].
Qed.

Lemma index_var r i : wf_rel r -> i < length (rvars r) ->
  In (nth i (rvars r) EmptyString) (rvars r) /\
  index_of_str (nth i (rvars r) EmptyString) (rvars r) = Some i.
Proof.
  intros [Hnd _] Hi. split; [apply nth_In; exact Hi | apply index_of_str_nth_nodup; assumption].
Qed.

Theorem while_correction_sem_main : while_correction_sem_stmt.
Proof.
  unfold while_correction_sem_stmt. intros r Hwf Hpwf.
  pose proof (wf_rel_shape r Hwf) as Hs.
  pose proof (while_mat_shape r _ Hs) as Hs'.
  pose proof (fun i j => while_mat_mget r _ i j Hs) as Hget.
  pose proof (fun s => while_rec_In r _ s Hs) as Hrec.
  assert (Hv : rvars (fst (while_correction r)) = rvars r) by reflexivity.
  destruct (while_correction r) as [r' rec]. cbn [fst snd] in *.
  set (n := length (rvars r)) in *.
  split; [|split; [|split; [exact Hv|]]].
  - (* wf_rel r' *)
    destruct Hwf as [W1 [W2 _]]. destruct Hs' as [Hl' Hr']. unfold wf_rel. rewrite Hv.
    split; [exact W1|]. split; [exact W2|]. split; [exact Hl' | exact Hr'].
  - (* rel_pwf r' *)
    unfold rel_pwf. apply (mforall_of_mget pwf n); [exact Hs'|].
    intros i j Hi Hj. rewrite Hget by assumption. apply corr_map_pwf.
    apply rel_pwf_mget; assumption.
  - intros c Hclean.
    assert (Hfin : forall i j, i < n -> j < n -> val (mget (rmat r) i j) c <> I).
    { intros i j Hi Hj. destruct (index_var r i Hwf Hi) as [Hxi Hxe].
      destruct (index_var r j Hwf Hj) as [Hyi Hye].
      pose proof (Hclean _ _ Hxi Hyi) as H. unfold rval in H.
      rewrite (cell_idx r _ _ i j Hxe Hye) in H. exact H. }
    split; [split|].
    + (* a recorded list matches c -> the side condition fails *)
      intros [s [Hin Hm]]. apply Hrec in Hin. destruct Hin as [i [j [Hi [Hj Hin]]]].
      apply corr_cell_snd_In in Hin. destruct Hin as [m [Hmin [Hbad <-]]].
      destruct (index_var r i Hwf Hi) as [Hxi Hxe]. destruct (index_var r j Hwf Hj) as [Hyi Hye].
      unfold w_ok. apply (forallb_false_intro _ _ _ Hxi). apply (forallb_false_intro _ _ _ Hyi).
      apply negb_false_iff. unfold rval. rewrite (cell_idx r _ _ i j Hxe Hye).
      rewrite <- (index_of_str_eqb _ _ _ i j Hxe Hye).
      apply (W_BAD_up (sc m)); [exact Hbad | apply val_ge; assumption | apply Hfin; assumption].
    + (* the side condition fails -> a recorded list matches c *)
      intros H. unfold w_ok in H. apply forallb_false_elim in H. destruct H as [x [Hx H]].
      apply forallb_false_elim in H. destruct H as [y [Hy H]]. apply negb_false_iff in H.
      destruct (var_index r x Hwf Hx) as [i [Hxe Hi]]. destruct (var_index r y Hwf Hy) as [j [Hye Hj]].
      unfold rval in H. rewrite (cell_idx r x y i j Hxe Hye) in H.
      rewrite <- (index_of_str_eqb x y _ i j Hxe Hye) in H.
      assert (Hnz : val (mget (rmat r) i j) c <> O).
      { intros E. rewrite E, W_BAD_O in H. discriminate. }
      destruct (val_witness _ c _ eq_refl Hnz) as [m [Hmin [Hm Hsc]]].
      exists (ds m). split; [|exact Hm]. apply Hrec. exists i, j. split; [exact Hi|]. split; [exact Hj|].
      apply corr_cell_snd_In. exists m. split; [exact Hmin|]. split; [|reflexivity].
      unfold wbad. rewrite Hsc. exact H.
    + (* nothing recorded matches c: same values *)
      intros Hno.
      assert (Hval : forall i j, i < n -> j < n ->
                val (mget (rmat r') i j) c = val (mget (rmat r) i j) c).
      { intros i j Hi Hj. rewrite Hget by assumption. apply val_corr_map.
        intros m Hmin Hm. destruct (wbad i j (sc m)) eqn:Eb; [|reflexivity]. exfalso.
        assert (Hin : In (ds m) rec).
        { apply Hrec. exists i, j. split; [exact Hi|]. split; [exact Hj|].
          apply corr_cell_snd_In. exists m. split; [exact Hmin|]. split; [exact Eb | reflexivity]. }
        rewrite (Hno _ Hin) in Hm. discriminate. }
      assert (Hrv : forall x y, In x (rvars r) -> In y (rvars r) -> rval r' c x y = rval r c x y).
      { intros x y Hx Hy.
        destruct (var_index r x Hwf Hx) as [i [Hxe Hi]]. destruct (var_index r y Hwf Hy) as [j [Hye Hj]].
        unfold rval. rewrite (cell_idx r x y i j Hxe Hye).
        rewrite (cell_idx r' x y i j) by (rewrite Hv; assumption).
        apply Hval; assumption. }
      split.
      * unfold clean. rewrite Hv. intros x y Hx Hy. rewrite Hrv by assumption. apply Hclean; assumption.
      * exact Hrv.
Qed.

(* non-vacuity: a well-formed relation, a clean choice at which the W condition fails, one at which
   it holds *)
Example while_correction_sem_example :
  let r := Rel ["a"; "b"]%string
             [[ [Mono M []] ; [Mono P [(0, 0)]; Mono M [(1, 0)]] ];
              [ zero_poly ; [Mono M []] ]] in
  wf_rel r /\ rel_pwf r /\
  snd (while_correction r) = [[(0, 0)]] /\
  w_ok (rvars r) (rval r (fun _ => 0)) = false /\ w_ok (rvars r) (rval r (fun _ => 1)) = true.
Proof.
  cbv zeta. split; [|split; [|split; [|split]]]; try (vm_compute; reflexivity).
  - unfold wf_rel. cbn [rvars rmat]. split.
    + constructor; [cbn [In]; intros [H|[]]; discriminate|].
      constructor; [intros [] | constructor].
    + split; [repeat constructor; discriminate|]. split; [reflexivity | repeat constructor].
  - unfold rel_pwf, pwf, mwf. cbn [rmat]. repeat constructor; try discriminate; cbn; auto.
Qed.

Print Assumptions while_correction_sem_main.
