(* The m;w;p text form parses back; the `significant` display filter; Bound.calculate reads columns. *)
From Coq Require Import String Ascii List Bool Arith Lia.
From PMGen Require Import SemiringGen.
From PM Require Import Bound Bound_syntax Bound_proofs.
Import ListNotations.
Local Open Scope string_scope.
Local Open Scope list_scope.

(* ------------------------------------------------------------------ split / join *)

Lemma split_nosep sep a : ~ In sep a -> split sep a = [a].
Proof.
  induction a as [|c a IH]; intro H; [reflexivity|].
  cbn [split]. destruct (Ascii.eqb c sep) eqn:E.
  - apply Ascii.eqb_eq in E. subst. elim H. now left.
  - rewrite IH; [reflexivity|]. intro. apply H. now right.
Qed.

Lemma split_app sep a b : ~ In sep a -> split sep (a ++ sep :: b) = a :: split sep b.
Proof.
  induction a as [|c a IH]; intro H.
  - cbn [app split]. now rewrite Ascii.eqb_refl.
  - cbn [app split]. destruct (Ascii.eqb c sep) eqn:E.
    + apply Ascii.eqb_eq in E. subst. elim H. now left.
    + rewrite IH; [reflexivity|]. intro. apply H. now right.
Qed.

Lemma split_joinl sep a l : Forall (fun s => ~ In sep s) (a :: l) -> split sep (joinl [sep] (a :: l)) = a :: l.
Proof.
  revert a; induction l as [|b l IH]; intros a H; inversion H; subst.
  - now apply split_nosep.
  - rewrite joinl_cons2. cbn [app]. rewrite split_app by assumption. f_equal. now apply IH.
Qed.

Lemma In_joinl c (sep : str) l : In c (joinl sep l) -> In c sep \/ exists a, In a l /\ In c a.
Proof.
  induction l as [|a [|b l] IH]; intro H.
  - destruct H.
  - right. exists a. split; [now left|exact H].
  - rewrite joinl_cons2 in H. apply in_app_or in H as [H|H].
    + right. exists a. split; [now left|exact H].
    + apply in_app_or in H as [H|H]; [now left|].
      destruct (IH H) as [|(a' & Ha & Hc)]; [now left|].
      right. exists a'. split; [now right|exact Hc].
Qed.

Lemma csv_facts a : csv_name a -> a <> [] /\ ~ In ","%char a /\ ~ In ";"%char a.
Proof.
  unfold csv_name, csvb. intro H. apply andb_true_iff in H as [H1 H2].
  split; [destruct a; [discriminate|congruence]|].
  rewrite forallb_forall in H2.
  split; intro Hin; apply H2 in Hin; rewrite Ascii.eqb_refl in Hin; simpl in Hin;
    try discriminate; rewrite ?andb_false_r in Hin; discriminate.
Qed.

(* the text form of one component and what parse makes of it *)
Definition comp (c : str) : list str := match c with [] => [] | _ :: _ => split ","%char c end.

Lemma comp_joinl X : Forall csv_name X -> comp (joinl (L ",") X) = X.
Proof.
  intro H. destruct X as [|a X]; [reflexivity|].
  assert (Hne : joinl (L ",") (a :: X) <> []).
  { inversion H as [|? ? Ha _]; subst. apply csv_facts in Ha as [Ha _].
    destruct a; [congruence|]. destruct X; discriminate. }
  unfold comp. destruct (joinl (L ",") (a :: X)) eqn:E; [congruence|]. rewrite <- E.
  apply (split_joinl ","%char). eapply Forall_impl; [|exact H].
  intros s Hs. now apply csv_facts in Hs.
Qed.

Lemma no_semicolon_joinl X : Forall csv_name X -> ~ In ";"%char (joinl (L ",") X).
Proof.
  intros H Hin. apply In_joinl in Hin as [Hin|(a & Ha & Hc)].
  - simpl in Hin. destruct Hin as [Hin|[]]. discriminate Hin.
  - rewrite Forall_forall in H. apply H in Ha. apply csv_facts in Ha. tauto.
Qed.

(* parse (bound_str t) = t, for ANY three lists of storable names *)
Lemma parse_join3 X Y Z : Forall csv_name X -> Forall csv_name Y -> Forall csv_name Z ->
  parse (Some (joinl (L ";") (map (joinl (L ",")) [X; Y; Z]))) = [X; Y; Z].
Proof.
  intros HX HY HZ. cbn [map]. rewrite !joinl_cons2. cbn [joinl].
  set (jx := joinl (L ",") X). set (jy := joinl (L ",") Y). set (jz := joinl (L ",") Z).
  change (L ";") with [";"%char]. cbn [app].
  unfold parse.
  destruct (jx ++ ";"%char :: jy ++ ";"%char :: jz) eqn:E.
  { destruct jx; discriminate E. }
  rewrite <- E.
  rewrite split_app by (apply no_semicolon_joinl; assumption).
  rewrite split_app by (apply no_semicolon_joinl; assumption).
  rewrite split_nosep by (apply no_semicolon_joinl; assumption).
  cbn [map]. fold (comp jx) (comp jy) (comp jz).
  unfold jx, jy, jz. now rewrite !comp_joinl.
Qed.

Lemma parse_bound_str x y z : Forall csv_name x -> Forall csv_name y -> Forall csv_name z ->
  parse (Some (bound_str (mb_of_lists x y z))) = [sort_uniq x; sort_uniq y; sort_uniq z].
Proof.
  intros. unfold bound_str, bound_triple, mb_of_lists, MaxVar, hp_vars; cbn [bx by_ bz hp_variables].
  apply parse_join3; apply Forall_sort_uniq; assumption.
Qed.

(* MwpBound(bound_str b) is b again (as the sorted lists) *)
Lemma mb_init_bound_str x y z : Forall csv_name x -> Forall csv_name y -> Forall csv_name z ->
  mb_init (Some (bound_str (mb_of_lists x y z))) =
  Some (mb_of_lists (sort_uniq x) (sort_uniq y) (sort_uniq z)).
Proof. intros. unfold mb_init. now rewrite parse_bound_str. Qed.

Lemma bound_triple_sorted x y z :
  bound_triple (mb_of_lists (sort_uniq x) (sort_uniq y) (sort_uniq z)) = bound_triple (mb_of_lists x y z).
Proof.
  unfold bound_triple, mb_of_lists, MaxVar, hp_vars; cbn [bx by_ bz hp_variables].
  now rewrite !sort_uniq_idem.
Qed.

Lemma hp_eqb_refl h : hp_eqb h h = true.
Proof.
  unfold hp_eqb. induction (hp_vars h) as [|a l IH]; [reflexivity|].
  now rewrite str_eqb_refl, IH.
Qed.

Lemma mb_eqb_sorted x y z :
  mb_eqb (mb_of_lists (sort_uniq x) (sort_uniq y) (sort_uniq z)) (mb_of_lists x y z) = true.
Proof.
  unfold mb_eqb, mb_of_lists, MaxVar, hp_eqb, hp_vars; cbn [bx by_ bz hp_variables].
  rewrite !sort_uniq_idem.
  assert (R : forall l, (fix leqb (x0 y0 : list str) {struct x0} : bool :=
     match x0 with
     | [] => match y0 with [] => true | _ :: _ => false end
     | u :: x' => match y0 with [] => false | v :: y' => str_eqb u v && leqb x' y' end
     end) l l = true).
  { induction l as [|a l IH]; [reflexivity|]. now rewrite str_eqb_refl, IH. }
  now rewrite !R.
Qed.

(* ------------------------------------------------------------------ the `significant` filter *)

(* the bound lists nothing but k itself *)
Definition only_selfb (k : str) (X Y Z : list str) : bool :=
  match X, Y, Z with
  | [a], [], [] => str_eqb k a
  | [], [a], [] => str_eqb k a
  | [], [], [a] => str_eqb k a
  | _, _, _ => false
  end.

Lemma only_selfb_spec k X Y Z : only_selfb k X Y Z = true <-> X ++ Y ++ Z = [k].
Proof.
  destruct X as [|a [|a' X]], Y as [|b [|b' Y]], Z as [|d [|d' Z]]; cbn;
    try (split; [discriminate|intro H; inversion H; fail]);
    try (rewrite str_eqb_eq; split; congruence).
  all: split; try discriminate; intro H; inversion H;
    repeat match goal with H : _ ++ _ = [] |- _ => apply app_eq_nil in H; destruct H end; discriminate.
Qed.

Lemma contains_special c k s :
  plainb k = true -> In c s -> special c <> None -> str_eqb k s = false.
Proof.
  intros Hk Hin Hc. apply str_eqb_neq. intros ->.
  unfold plainb in Hk. apply andb_true_iff in Hk as [_ Hk].
  rewrite forallb_forall in Hk. apply Hk in Hin. destruct (special c); congruence.
Qed.

Ltac find_in := repeat first [left; reflexivity | right].

Lemma BP_self k X Y Z :
  plainb k = true -> str_eqb k (L "0") = false -> Forall nonempty X -> Forall nonempty Y ->
  str_eqb k (BP X Y Z false) = only_selfb k X Y Z.
Proof.
  intros Hk H0 HX HY.
  assert (Hpar : forall s, str_eqb k (L "max(" ++ s) = false).
  { intro s. apply (contains_special "("%char); auto; [simpl; find_in | discriminate]. }
  assert (Hstar : forall a b, str_eqb k (a ++ L "*" ++ b) = false).
  { intros a b. apply (contains_special "*"%char); auto; [|discriminate].
    apply in_or_app. right. now left. }
  destruct X as [|a X].
  - destruct Y as [|b Y].
    + destruct Z as [|d [|d' Z]]; [exact H0|reflexivity|].
      change (BP [] [] (d :: d' :: Z) false) with (d ++ L "*" ++ joinl (L "*") (d' :: Z)).
      cbn [only_selfb]. apply Hstar.
    + inversion HY as [|? ? Hb _]; subst. destruct b as [|cb b]; [now elim Hb|].
      destruct Y as [|b' Y], Z as [|d Z]; try reflexivity; apply Hpar.
  - inversion HX as [|? ? Ha _]; subst. destruct a as [|ca a]; [now elim Ha|].
    destruct Y as [|b Y].
    + destruct X as [|a' X], Z as [|d Z]; try reflexivity; apply Hpar.
    + assert (E : only_selfb k ((ca :: a) :: X) (b :: Y) Z = false) by (destruct X; reflexivity).
      destruct Z; (etransitivity; [apply Hpar | symmetry; exact E]).
Qed.

Definition entry_ok (kv : str * MwpBound) : Prop :=
  plainb (fst kv) = true /\ str_eqb (fst kv) (L "0") = false /\
  exists x y z, snd kv = mb_of_lists x y z /\ Forall nonempty x /\ Forall nonempty y.

Definition only_self (kv : str * MwpBound) : bool :=
  let '(X, Y, Z) := bound_triple (snd kv) in only_selfb (fst kv) X Y Z.

Lemma show_keep_significant kf kv : entry_ok kv ->
  show_keep true kf kv = show_keep false kf kv && negb (only_self kv).
Proof.
  intros (Hk & H0 & x & y & z & E & Hx & Hy). unfold show_keep, only_self. rewrite E.
  rewrite bound_poly_BP, BP_self by auto using Forall_sort_uniq.
  unfold bound_triple, mb_of_lists, MaxVar, hp_vars; cbn [bx by_ bz hp_variables negb orb].
  now rewrite andb_comm.
Qed.

Lemma filter_filter {A} (f g : A -> bool) l : filter f (filter g l) = filter (fun x => g x && f x) l.
Proof.
  induction l as [|a l IH]; [reflexivity|]. cbn [filter].
  destruct (g a); cbn [filter andb]; [destruct (f a)|]; now rewrite IH.
Qed.

(* show(significant=True) lists, in the same order, exactly the entries of show(significant=False)
   whose bound is not "k itself and nothing else" *)
Lemma show_entries_significant bd variables : Forall entry_ok bd ->
  show_entries bd true variables =
  filter (fun kv => negb (only_self kv)) (show_entries bd false variables).
Proof.
  intro H. unfold show_entries. rewrite filter_filter.
  apply filter_ext_in. intros kv Hin. rewrite Forall_forall in H.
  now apply show_keep_significant, H.
Qed.

Lemma show_entries_all bd : show_entries bd false [] = bd.
Proof.
  unfold show_entries, key_filter, show_keep. cbn [negb orb andb].
  assert (G : forall l : bdict, (forall kv, In kv l -> In (fst kv) (map fst bd)) ->
                        filter (fun kv : str * MwpBound => mem (fst kv) (map fst bd)) l = l).
  { induction l as [|kv l IH]; intro Hl; [reflexivity|]. cbn [filter].
    replace (mem (fst kv) (map fst bd)) with true.
    - f_equal. apply IH. intros. apply Hl. now right.
    - symmetry. apply mem_In. apply Hl. now left. }
  apply G. intros kv Hin. now apply in_map.
Qed.

Lemma show_entries_significant_all bd : Forall entry_ok bd ->
  show_entries bd true [] = filter (fun kv => negb (only_self kv)) bd.
Proof. intro H. now rewrite show_entries_significant, show_entries_all. Qed.

(* ------------------------------------------------------------------ Bound.calculate reads columns *)

Definition flag (s t : string) (v : str) : list str := if String.eqb s t then [v] else [].

Lemma mb_append_lists x y z s v :
  mb_append (mb_of_lists x y z) s v =
  mb_of_lists (x ++ flag s UNIT_MWP v) (y ++ flag s WEAK_MWP v) (z ++ flag s POLY_MWP v).
Proof.
  unfold mb_append, mb_of_lists, MaxVar, hp_add, flag; cbn [bx by_ bz hp_op hp_variables].
  destruct (String.eqb s UNIT_MWP), (String.eqb s WEAK_MWP), (String.eqb s POLY_MWP);
    cbn [bx by_ bz hp_op hp_variables]; rewrite ?app_nil_r; reflexivity.
Qed.

(* the variables of the rows whose cell in column j is the scalar s, in row order *)
Definition select (s : string) (j : nat) (matrix : list (list string)) (vars : list str) : list str :=
  flat_map (fun rv => flag (nth j (fst rv) ""%string) s (snd rv)) (combine matrix vars).

Lemma calc_rows_spec j vars matrix :
  forall msuf vsuf mpre vpre x y z,
    matrix = mpre ++ msuf -> vars = vpre ++ vsuf -> length mpre = length vpre ->
    length msuf = length vsuf -> Forall (fun row => j < length row) msuf ->
    calc_rows (seq (length mpre) (length msuf)) j vars matrix (mb_of_lists x y z) =
    Some (mb_of_lists (x ++ select UNIT_MWP j msuf vsuf) (y ++ select WEAK_MWP j msuf vsuf)
                      (z ++ select POLY_MWP j msuf vsuf)).
Proof.
  induction msuf as [|row msuf IH]; intros vsuf mpre vpre x y z Em Ev Hl Hs Hr.
  - destruct vsuf; [|discriminate]. cbn. now rewrite !app_nil_r.
  - destruct vsuf as [|v vsuf]; [discriminate|].
    cbn [length seq calc_rows].
    assert (N1 : nth_error matrix (length mpre) = Some row).
    { subst matrix. rewrite nth_error_app2 by lia. now rewrite Nat.sub_diag. }
    assert (N2 : nth_error vars (length mpre) = Some v).
    { subst vars. rewrite Hl, nth_error_app2 by lia. now rewrite Nat.sub_diag. }
    pose proof (Forall_inv Hr) as Hj. pose proof (Forall_inv_tail Hr) as Hr'. cbn beta in Hj.
    assert (N3 : nth_error row j = Some (nth j row ""%string)) by (now apply nth_error_nth').
    rewrite N1, N3, N2, mb_append_lists.
    specialize (IH vsuf (mpre ++ [row]) (vpre ++ [v])).
    rewrite app_length in IH. cbn [length] in IH. rewrite Nat.add_1_r in IH.
    rewrite IH; try (rewrite <- app_assoc; assumption); auto.
    all: try (rewrite !app_length; cbn [length]; lia).
    all: try (cbn [length] in Hs; lia).
    unfold select. cbn [combine flat_map fst snd]. now rewrite <- !app_assoc.
Qed.

Lemma dict_set_new {V} (d : list (str * V)) k v : ~ In k (map fst d) -> dict_set d k v = d ++ [(k, v)].
Proof.
  induction d as [|[k' v'] d IH]; intro H; [reflexivity|].
  cbn [dict_set]. destruct (str_eqb k k') eqn:E.
  - apply str_eqb_eq in E. subst. elim H. now left.
  - cbn [app]. f_equal. apply IH. intro. apply H. now right.
Qed.

Lemma calc_cols_spec vars matrix (B : nat -> MwpBound) :
  forall names k bd,
    (forall i, k <= i < k + length names ->
       calc_rows (seq 0 (length matrix)) i vars matrix (mb_of_lists [] [] []) = Some (B i)) ->
    NoDup (map fst bd ++ names) ->
    calc_cols (combine (seq k (length names)) names) vars matrix bd =
    Some (bd ++ map (fun jn => (snd jn, B (fst jn))) (combine (seq k (length names)) names)).
Proof.
  induction names as [|name names IH]; intros k bd HB Hnd.
  - cbn. now rewrite app_nil_r.
  - cbn [length seq combine calc_cols map fst snd].
    rewrite HB by (cbn [length]; lia).
    rewrite dict_set_new.
    + rewrite IH.
      * now rewrite <- app_assoc.
      * intros i Hi. apply HB. cbn [length]. lia.
      * rewrite map_app. cbn [map fst]. now rewrite <- app_assoc.
    + apply NoDup_remove_2 in Hnd. intro Hin. apply Hnd. apply in_or_app. now left.
Qed.

Definition column_bound (j : nat) (matrix : list (list string)) (vars : list str) : MwpBound :=
  mb_of_lists (select UNIT_MWP j matrix vars) (select WEAK_MWP j matrix vars) (select POLY_MWP j matrix vars).

(* for a well-formed scalar matrix, the bound of the j-th variable is read off column j *)
Lemma calculate_columns vars matrix :
  NoDup vars -> length matrix = length vars ->
  Forall (fun row => length vars <= length row) matrix ->
  calculate [] vars matrix =
  Some (map (fun jn => (snd jn, column_bound (fst jn) matrix vars)) (combine (seq 0 (length vars)) vars)).
Proof.
  intros Hnd Hl Hrows. unfold calculate.
  rewrite (calc_cols_spec vars matrix (fun j => column_bound j matrix vars)); auto.
  intros i Hi.
  pose proof (calc_rows_spec i vars matrix matrix vars [] [] [] [] []) as R.
  cbn [length app] in R. apply R; auto.
  eapply Forall_impl; [|exact Hrows]. cbn beta. intros. lia.
Qed.

Lemma combine_seq_nth {A} (l : list A) k j a :
  nth_error l j = Some a -> In (k + j, a) (combine (seq k (length l)) l).
Proof.
  revert k j; induction l as [|b l IH]; intros k [|j] H; try discriminate.
  - inversion H; subst. left. f_equal. lia.
  - right. cbn [length seq combine]. replace (k + S j) with (S k + j) by lia. now apply IH.
Qed.

Lemma dict_get_In {V} (d : list (str * V)) k v : NoDup (map fst d) -> In (k, v) d -> dict_get d k = Some v.
Proof.
  induction d as [|[k' v'] d IH]; intros Hnd Hin; [destruct Hin|].
  cbn [dict_get]. cbn [map fst] in Hnd. inversion Hnd as [|? ? Hn Hd]; subst.
  destruct Hin as [E|Hin].
  - inversion E; subst. now rewrite str_eqb_refl.
  - destruct (str_eqb k k') eqn:E.
    + apply str_eqb_eq in E. subst. elim Hn. apply (in_map fst) in Hin. exact Hin.
    + now apply IH.
Qed.

Lemma map_snd_combine_seq {A} (l : list A) k : map snd (combine (seq k (length l)) l) = l.
Proof. revert k; induction l; intro k; cbn; [reflexivity|]. now rewrite IHl. Qed.

Lemma calculate_column_of vars matrix j name :
  NoDup vars -> length matrix = length vars ->
  Forall (fun row => length vars <= length row) matrix ->
  nth_error vars j = Some name ->
  exists bd, calculate [] vars matrix = Some bd /\ map fst bd = vars /\
             dict_get bd name = Some (column_bound j matrix vars).
Proof.
  intros Hnd Hl Hrows Hj. eexists. split; [now apply calculate_columns|].
  assert (E : map fst (map (fun jn : nat * str => (snd jn, column_bound (fst jn) matrix vars))
                           (combine (seq 0 (length vars)) vars)) = vars).
  { rewrite map_map. cbn [fst]. apply map_snd_combine_seq. }
  split; [exact E|].
  apply dict_get_In; [now rewrite E|].
  apply (combine_seq_nth vars 0 j name) in Hj. cbn [plus] in Hj.
  apply (in_map (fun jn : nat * str => (snd jn, column_bound (fst jn) matrix vars))) in Hj. exact Hj.
Qed.

(* hypotheses are satisfiable on a non-trivial instance; the numbers are the real code's *)
Example calculate_example :
  let vars := [L "a"; L "b"; L "c"] in
  let m := [["m"; "o"; "p"]; ["w"; "m"; "o"]; ["o"; "i"; "m"]]%string in
  NoDup vars /\ length m = length vars /\ Forall (fun row => length vars <= length row) m /\
  option_map (fun bd => map (fun kv => (to_string (fst kv), to_string (snd kv))) (to_dict bd)) (calculate [] vars m)
    = Some [("a", "a;b;"); ("b", "b;;"); ("c", "c;;a")]%string.
Proof.
  cbv zeta. repeat split.
  - repeat constructor; simpl; intuition discriminate.
  - repeat constructor.
Qed.

Example significant_example :
  let bd := [(L "X0", mb_of_lists [L "X0"] [L "X1"] []); (L "X1", mb_of_lists [L "X1"] [] []);
             (L "X2", mb_of_lists [] [] [L "X2"]); (L "X3", mb_of_lists [] [] [])] in
  Forall entry_ok bd /\ to_string (show bd true true []) = "X0′≤max(X0,X1) ∧ X3′≤0".
Proof.
  cbv zeta. split; [|vm_compute; reflexivity].
  repeat constructor; try reflexivity; cbn [snd]; do 3 eexists; (split; [reflexivity|]);
    split; repeat constructor; discriminate.
Qed.

Lemma parse_bound_str_full x y z : Forall csv_name x -> Forall csv_name y -> Forall csv_name z ->
  let b := mb_of_lists x y z in
  parse (Some (bound_str b)) = (let '(X, Y, Z) := bound_triple b in [X; Y; Z]) /\
  exists b', mb_init (Some (bound_str b)) = Some b' /\ bound_triple b' = bound_triple b /\ mb_eqb b' b = true.
Proof.
  intros Hx Hy Hz b. split; [now apply parse_bound_str|].
  eexists. split; [now apply mb_init_bound_str|]. split; [apply bound_triple_sorted | apply mb_eqb_sorted].
Qed.

Lemma significant_all_keys bd : Forall entry_ok bd ->
  show_entries bd false [] = bd /\ show_entries bd true [] = filter (fun kv => negb (only_self kv)) bd.
Proof. intro H. split; [apply show_entries_all | now apply show_entries_significant_all]. Qed.
