(* Executable model of pymwp/bound.py (HonestPoly, MaxVar, MwpBound, Bound).

   Text is [str = list ascii] = the UTF-8 bytes of the Python str (Python compares str by code
   point, which for UTF-8 is the byte-lexicographic order used by [str_cmp]).  A Python [set] of
   names is the list of the names in insertion order; the code only ever looks at it through
   [len(..) == 0], [sorted(..)] and set equality, all of which are functions of the list.
   [var_fmt] is never assigned anywhere in pymwp (always None) and is not modelled.
   Where the Python raises (tuple unpacking in MwpBound.__init__, list indexing in
   Bound.calculate) the model returns [None].  No proofs in this file. *)
From Coq Require Import String Ascii List Bool Arith NArith.
From PMGen Require Import SemiringGen.
Import ListNotations.
Local Open Scope string_scope.
Local Open Scope list_scope.

Definition str := list ascii.
Definition L (s : string) : str := list_ascii_of_string s.
Definition to_string (l : str) : string := string_of_list_ascii l.

Fixpoint str_eqb (a b : str) : bool :=
  match a, b with
  | [], [] => true
  | x :: a', y :: b' => Ascii.eqb x y && str_eqb a' b'
  | _, _ => false
  end.

(* Python's < on str *)
Fixpoint str_cmp (a b : str) : comparison :=
  match a, b with
  | [], [] => Eq
  | [], _ :: _ => Lt
  | _ :: _, [] => Gt
  | x :: a', y :: b' =>
      match Ascii.compare x y with Eq => str_cmp a' b' | c => c end
  end.

Fixpoint mem (a : str) (l : list str) : bool :=
  match l with [] => false | b :: t => str_eqb a b || mem a t end.

(* sorted(set(l)): insertion sort that drops equal keys *)
Fixpoint insert_uniq (a : str) (l : list str) : list str :=
  match l with
  | [] => [a]
  | b :: t =>
      match str_cmp a b with
      | Lt => a :: b :: t
      | Eq => b :: t
      | Gt => b :: insert_uniq a t
      end
  end.

Definition sort_uniq (l : list str) : list str := fold_right insert_uniq [] l.

(* sep.join(l), for text and (re-used below) for token lists *)
Fixpoint joinl {A : Type} (sep : list A) (l : list (list A)) : list A :=
  match l with
  | [] => []
  | a :: t => match t with [] => a | _ :: _ => a ++ sep ++ joinl sep t end
  end.

(* s.split(sep) for a one-character separator *)
Fixpoint split (sep : ascii) (s : str) : list str :=
  match s with
  | [] => [[]]
  | c :: t =>
      if Ascii.eqb c sep then [] :: split sep t
      else match split sep t with
           | h :: r => (c :: h) :: r
           | [] => [[c]]
           end
  end.

Definition truthy (s : str) : bool := match s with [] => false | _ :: _ => true end.

(* ---------------------------------------------------------------- HonestPoly / MaxVar *)

Record HonestPoly := mkHP { hp_op : str; hp_variables : list str }.

Definition hp_empty (h : HonestPoly) : bool :=
  match hp_variables h with [] => true | _ :: _ => false end.

Definition hp_vars (h : HonestPoly) : list str := sort_uniq (hp_variables h).

(* [value]: None stands for the int 0 *)
Definition hp_value (h : HonestPoly) : option str :=
  if hp_empty h then None else Some (joinl (hp_op h) (hp_vars h)).

(* __str__ = str(self.value) *)
Definition hp_str (h : HonestPoly) : str :=
  match hp_value h with None => L "0" | Some s => s end.

Definition hp_add (h : HonestPoly) (ids : list str) : HonestPoly :=
  mkHP (hp_op h) (hp_variables h ++ ids).

Definition hp_eqb (a b : HonestPoly) : bool :=
  (fix leqb (x y : list str) : bool :=
     match x, y with
     | [], [] => true
     | u :: x', v :: y' => str_eqb u v && leqb x' y'
     | _, _ => false
     end) (hp_vars a) (hp_vars b).

Definition MaxVar (vars : list str) : HonestPoly := mkHP (L ",") vars.

(* ---------------------------------------------------------------- MwpBound *)

Record MwpBound := mkMB { bx : HonestPoly; by_ : HonestPoly; bz : HonestPoly }.

(* MwpBound.parse: a triple normally, but any number of components in general *)
Definition parse (value : option str) : list (list str) :=
  match value with
  | None | Some [] => [[]; []; []]
  | Some v =>
      map (fun c => match c with [] => [] | _ :: _ => split ","%char c end) (split ";"%char v)
  end.

Definition mb_of_lists (x y z : list str) : MwpBound :=
  mkMB (MaxVar x) (mkHP (L "+") y) (mkHP (L "*") z).

(* MwpBound.__init__: `x, y, z = self.parse(triple)` raises ValueError unless 3 components *)
Definition mb_init (triple : option str) : option MwpBound :=
  match parse triple with
  | [x; y; z] => Some (mb_of_lists x y z)
  | _ => None
  end.

Definition bound_triple (b : MwpBound) : list str * list str * list str :=
  (hp_vars (bx b), hp_vars (by_ b), hp_vars (bz b)).

Definition bound_str (b : MwpBound) : str :=
  let '(x, y, z) := bound_triple b in
  joinl (L ";") (map (joinl (L ",")) [x; y; z]).

Definition mb_eqb (a b : MwpBound) : bool :=
  hp_eqb (bx a) (bx b) && hp_eqb (by_ a) (by_ b) && hp_eqb (bz a) (bz b).

(* the term of bound_poly for a non-empty single list [h] (x or y, same code twice) *)
Definition single_term (h z : HonestPoly) (compact : bool) : str :=
  if compact then
    (if Nat.ltb 1 (length (hp_vars h)) then L "max(" ++ hp_str h ++ L ")" else hp_str h)
  else
    (if (Nat.ltb 1 (length (hp_vars h))) || negb (hp_empty z)
     then L "max(" ++ hp_str h ++ L ",0)" else hp_str h).

Definition bound_poly (b : MwpBound) (compact : bool) : str :=
  let x := bx b in let y := by_ b in let z := bz b in
  let term : option str :=
    if negb (hp_empty x) && negb (hp_empty y)
    then Some (L "max(" ++ hp_str x ++ L "," ++ hp_str y ++ L ")")
    else if negb (hp_empty x) then Some (single_term x z compact)
    else if negb (hp_empty y) then Some (single_term y z compact)
    else None in
  match term with
  | Some t =>
      if truthy t then (if hp_empty z then t else t ++ L "+" ++ hp_str z) else hp_str z
  | None => hp_str z
  end.

Definition PRIME : str := L "′".
Definition LEQ : str := L "≤".
Definition LAND : str := L "∧".

Definition leq_sym (compact : bool) : str := if compact then LEQ else L " " ++ LEQ ++ L " ".

(* MwpBound.poly *)
Definition mb_poly (b : MwpBound) (k : str) (compact : bool) : str :=
  k ++ PRIME ++ leq_sym compact ++ bound_poly b compact.

(* MwpBound.append: three independent ifs *)
Definition mb_append (b : MwpBound) (scalar : string) (v : str) : MwpBound :=
  let b1 := if String.eqb scalar UNIT_MWP then mkMB (hp_add (bx b) [v]) (by_ b) (bz b) else b in
  let b2 := if String.eqb scalar WEAK_MWP then mkMB (bx b1) (hp_add (by_ b1) [v]) (bz b1) else b1 in
  if String.eqb scalar POLY_MWP then mkMB (bx b2) (by_ b2) (hp_add (bz b2) [v]) else b2.

(* ---------------------------------------------------------------- expression tree *)

Inductive expr :=
| Var (s : str)
| Zero
| Max (l : list expr)
| Add (l : list expr)
| Mul (l : list expr).

Definition one_or (f : list expr -> expr) (l : list expr) : expr :=
  match l with [e] => e | _ => f l end.
Definition mk_add := one_or Add.
Definition mk_mul := one_or Mul.

(* the same case analysis as [bound_poly], producing a tree *)
Definition single_expr (vs : list expr) (inner : list expr) (z_empty compact : bool) : expr :=
  (* vs: what is counted by len(h.vars); inner: the comma separated arguments it prints *)
  if compact then (if Nat.ltb 1 (length vs) then Max inner else one_or Max inner)
  else (if (Nat.ltb 1 (length vs)) || negb z_empty then Max (inner ++ [Zero]) else one_or Max inner).

Definition bound_expr (b : MwpBound) (compact : bool) : expr :=
  let x := bx b in let y := by_ b in let z := bz b in
  let vx := map Var (hp_vars x) in
  let vy := map Var (hp_vars y) in
  let pz := mk_mul (map Var (hp_vars z)) in
  let term : option expr :=
    if negb (hp_empty x) && negb (hp_empty y) then Some (Max (vx ++ [mk_add vy]))
    else if negb (hp_empty x) then Some (single_expr vx vx (hp_empty z) compact)
    else if negb (hp_empty y) then Some (single_expr vy [mk_add vy] (hp_empty z) compact)
    else None in
  match term with
  | Some t => if hp_empty z then t else Add [t; pz]
  | None => if hp_empty z then Zero else pz
  end.

Inductive token := TId (s : str) | TLP | TRP | TComma | TPlus | TStar.

Fixpoint toks (e : expr) : list token :=
  match e with
  | Var s => [TId s]
  | Zero => [TId (L "0")]
  | Max l => TId (L "max") :: TLP :: joinl [TComma] (map toks l) ++ [TRP]
  | Add l => joinl [TPlus] (map toks l)
  | Mul l => joinl [TStar] (map toks l)
  end.

Definition tok_str (t : token) : str :=
  match t with
  | TId s => s
  | TLP => L "(" | TRP => L ")" | TComma => L "," | TPlus => L "+" | TStar => L "*"
  end.

Definition untok (ts : list token) : str := flat_map tok_str ts.

Definition render (e : expr) : str := untok (toks e).

(* ---------------------------------------------------------------- Bound *)

(* bound_dict: a Python dict = association list in insertion order *)
Definition bdict := list (str * MwpBound).

Fixpoint dict_set {V : Type} (d : list (str * V)) (k : str) (v : V) : list (str * V) :=
  match d with
  | [] => [(k, v)]
  | (k', v') :: t => if str_eqb k k' then (k', v) :: t else (k', v') :: dict_set t k v
  end.

Fixpoint dict_get {V : Type} (d : list (str * V)) (k : str) : option V :=
  match d with
  | [] => None
  | (k', v') :: t => if str_eqb k k' then Some v' else dict_get t k
  end.

(* Bound.__init__ from a dict of bound_str values (a dict literal has distinct keys) *)
Fixpoint bound_init (bounds : list (str * str)) : option bdict :=
  match bounds with
  | [] => Some []
  | (k, v) :: t =>
      match mb_init (Some v), bound_init t with
      | Some b, Some r => Some ((k, b) :: r)
      | _, _ => None
      end
  end.

Definition bound_variables (bd : bdict) : list str := map fst bd.

(* inner loop of Bound.calculate: for row_id in range(len(matrix)) *)
Fixpoint calc_rows (rows : list nat) (col : nat) (vars : list str)
         (matrix : list (list string)) (acc : MwpBound) : option MwpBound :=
  match rows with
  | [] => Some acc
  | r :: rest =>
      match nth_error matrix r with
      | None => None
      | Some row =>
          match nth_error row col, nth_error vars r with
          | Some cell, Some v => calc_rows rest col vars matrix (mb_append acc cell v)
          | _, _ => None          (* IndexError *)
          end
      end
  end.

(* outer loop: for col_id, name in enumerate(vars_) *)
Fixpoint calc_cols (cols : list (nat * str)) (vars : list str)
         (matrix : list (list string)) (bd : bdict) : option bdict :=
  match cols with
  | [] => Some bd
  | (c, name) :: rest =>
      match calc_rows (seq 0 (length matrix)) c vars matrix (mb_of_lists [] [] []) with
      | None => None
      | Some vb => calc_cols rest vars matrix (dict_set bd name vb)
      end
  end.

Definition calculate (bd : bdict) (vars : list str) (matrix : list (list string)) : option bdict :=
  calc_cols (combine (seq 0 (length vars)) vars) vars matrix bd.

Definition to_dict (bd : bdict) : list (str * str) :=
  map (fun kv => (fst kv, bound_str (snd kv))) bd.

(* the condition of the comprehension in Bound.show *)
Definition show_keep (significant : bool) (key_filter : list str) (kv : str * MwpBound) : bool :=
  (negb significant || negb (str_eqb (fst kv) (bound_poly (snd kv) false)))
  && mem (fst kv) key_filter.

(* `variables or list(self.bound_dict.keys())`: None and () both select every key *)
Definition key_filter (bd : bdict) (variables : list str) : list str :=
  match variables with [] => map fst bd | _ :: _ => variables end.

Definition show_entries (bd : bdict) (significant : bool) (variables : list str) : bdict :=
  filter (show_keep significant (key_filter bd variables)) bd.

Definition show (bd : bdict) (compact significant : bool) (variables : list str) : str :=
  joinl (L " " ++ LAND ++ L " ")
        (map (fun kv => fst kv ++ PRIME ++ leq_sym compact ++ bound_poly (snd kv) compact)
             (show_entries bd significant variables)).
