(* Executable model of pymwp/file_io.py del_comments and loc.

   del_comments = re.sub(pattern, replacer, text); the pattern (flags DOTALL and MULTILINE) is an
   alternation of four branches, tried in this order at every position:
     1. two slashes, then lazily anything up to an end of line (before a newline, or the end of text);
     2. slash star, then lazily anything up to the first star slash;
     3. a single quote, then any number of (backslash + any character | a character that is neither
        backslash nor single quote), then a single quote;
     4. the same with double quotes.
   replacer gives, for a match that starts with a slash, its line breaks (one space if it has none), and the match itself otherwise.
   re.sub scans left to right; on a match the replacement is emitted and scanning resumes after the
   match; otherwise the character is copied.  [match_at] is the alternation at one position, [lex]
   the scan (a skip counter makes it structural), [del_comments] the substituted text.
   Texts are lists of ascii codes.  No proofs here. *)
From Coq Require Import String Ascii List Bool Arith.
Import ListNotations.
Open Scope char_scope.
Open Scope list_scope.

Definition chars := list ascii.

Definition nl : ascii := ascii_of_nat 10.
Definition is_nl (c : ascii) : bool := Ascii.eqb c nl.

(* branch 1: number of characters before the first newline / the end *)
Fixpoint line_len (l : chars) : nat :=
  match l with
  | [] => 0
  | c :: t => if is_nl c then 0 else S (line_len t)
  end.

(* branch 2: number of characters up to and including the first star slash; None = not closed *)
Fixpoint close_len (l : chars) : option nat :=
  match l with
  | [] => None
  | c :: t =>
    match t with
    | d :: _ => if Ascii.eqb c "*" && Ascii.eqb d "/" then Some 2
                else option_map S (close_len t)
    | [] => None
    end
  end.

(* branches 3, 4: characters up to and including the closing quote q; a backslash takes the next
   character with it (any character, DOTALL); None = no closing quote (the branch fails) *)
Fixpoint lit_len (q : ascii) (esc : bool) (l : chars) : option nat :=
  match l with
  | [] => None
  | c :: t =>
    if esc then option_map S (lit_len q false t)
    else if Ascii.eqb c "\" then option_map S (lit_len q true t)
    else if Ascii.eqb c q then Some 1
    else option_map S (lit_len q false t)
  end.

Inductive token :=
| TCode (c : ascii)          (* copied character *)
| TComment (s : chars)       (* a match starting with a slash: replaced by its line breaks / one space *)
| TLit (s : chars).          (* a character / string literal: kept *)

Definition dq : ascii := ascii_of_nat 34.
Definition sq : ascii := ascii_of_nat 39.

(* the alternation at the head of [l]: (length of the match, is it a comment) *)
Definition match_at (l : chars) : option (nat * bool) :=
  match l with
  | c :: t =>
    if Ascii.eqb c "/" then
      match t with
      | d :: r =>
        if Ascii.eqb d "/" then Some (2 + line_len r, true)
        else if Ascii.eqb d "*" then
          match close_len r with Some k => Some (2 + k, true) | None => None end
        else None
      | [] => None
      end
    else if Ascii.eqb c sq then
      match lit_len sq false t with Some k => Some (1 + k, false) | None => None end
    else if Ascii.eqb c dq then
      match lit_len dq false t with Some k => Some (1 + k, false) | None => None end
    else None
  | [] => None
  end.

Fixpoint lex_from (skip : nat) (l : chars) : list token :=
  match l with
  | [] => []
  | c :: t =>
    match skip with
    | S k => lex_from k t
    | 0 =>
      match match_at l with
      | Some (len, true) => TComment (firstn len l) :: lex_from (len - 1) t
      | Some (len, false) => TLit (firstn len l) :: lex_from (len - 1) t
      | None => TCode c :: lex_from 0 t
      end
    end
  end.
Definition lex (l : chars) : list token := lex_from 0 l.

(* replacer: a comment is replaced by its line breaks, or by one space when it has none *)
Definition emit (t : token) : chars :=
  match t with
  | TCode c => [c]
  | TComment s => match filter is_nl s with [] => [" "] | nls => nls end
  | TLit s => s
  end.

Definition del_comments (l : chars) : chars := flat_map emit (lex l).

(* str.split on newline *)
Fixpoint split_nl (cur : chars) (l : chars) : list chars :=
  match l with
  | [] => [rev cur]
  | c :: t => if is_nl c then rev cur :: split_nl [] t else split_nl (c :: cur) t
  end.

(* str.isspace on ASCII: \t \n \v \f \r FS GS RS US and space *)
Definition is_space (c : ascii) : bool :=
  let n := nat_of_ascii c in
  (Nat.leb 9 n && Nat.leb n 13) || (Nat.leb 28 n && Nat.leb n 32).

(* line and len(line.strip()) *)
Definition nonblank (l : chars) : bool := existsb (fun c => negb (is_space c)) l.

(* text-mode read: universal newlines *)
Fixpoint universal_nl (l : chars) : chars :=
  match l with
  | [] => []
  | c :: t =>
    if Ascii.eqb c (ascii_of_nat 13) then
      match t with
      | d :: t' => if is_nl d then nl :: universal_nl t' else nl :: universal_nl t
      | [] => [nl]
      end
    else c :: universal_nl t
  end.

(* file_io.loc on the decoded text *)
Definition loc (text : chars) : nat :=
  List.length (filter nonblank (split_nl [] (del_comments text))).

Definition loc_file (bytes : chars) : nat := loc (universal_nl bytes).
