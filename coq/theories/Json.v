(* JSON values as Python's json module produces them (None, bool, int, str, list, dict with str keys,
   dicts in insertion order), Python truthiness, and the dict operations the serialisation code uses.
   No proofs in this file. *)
From Coq Require Import String List Bool ZArith.
Import ListNotations.
Open Scope string_scope.

Inductive json :=
| jnull
| jbool (b : bool)
| jnum (z : Z)
| jstr (s : string)
| jarr (l : list json)
| jobj (kv : list (string * json)).

(* bool(x) in Python *)
Definition truthy (j : json) : bool :=
  match j with
  | jnull => false
  | jbool b => b
  | jnum z => negb (Z.eqb z 0)
  | jstr s => negb (String.eqb s "")
  | jarr l => match l with [] => false | _ :: _ => true end
  | jobj kv => match kv with [] => false | _ :: _ => true end
  end.

(* x is not None *)
Definition not_none (j : json) : bool := match j with jnull => false | _ => true end.

(* structural equality (dict entries compared in insertion order: equality of the JSON TEXT) *)
Fixpoint json_eqb (a b : json) : bool :=
  match a, b with
  | jnull, jnull => true
  | jbool x, jbool y => Bool.eqb x y
  | jnum x, jnum y => Z.eqb x y
  | jstr x, jstr y => String.eqb x y
  | jarr x, jarr y =>
      (fix go (x y : list json) : bool :=
         match x, y with
         | [], [] => true
         | u :: x', v :: y' => json_eqb u v && go x' y'
         | _, _ => false
         end) x y
  | jobj x, jobj y =>
      (fix go (x y : list (string * json)) : bool :=
         match x, y with
         | [], [] => true
         | (k, u) :: x', (k', v) :: y' => String.eqb k k' && json_eqb u v && go x' y'
         | _, _ => false
         end) x y
  | _, _ => false
  end.

(* ---- Python dict with str keys = association list in insertion order ---- *)

Section Dict.
  Context {V : Type}.

  (* d[k] = v : an existing key keeps its position *)
  Fixpoint dset (d : list (string * V)) (k : string) (v : V) : list (string * V) :=
    match d with
    | [] => [(k, v)]
    | (k', v') :: t => if String.eqb k k' then (k', v) :: t else (k', v') :: dset t k v
    end.

  Fixpoint dget (d : list (string * V)) (k : string) : option V :=
    match d with
    | [] => None
    | (k', v') :: t => if String.eqb k k' then Some v' else dget t k
    end.

  Fixpoint ddel (d : list (string * V)) (k : string) : list (string * V) :=
    match d with
    | [] => []
    | (k', v') :: t => if String.eqb k k' then ddel t k else (k', v') :: ddel t k
    end.

  (* dict(pairs) *)
  Definition dict_of (pairs : list (string * V)) : list (string * V) :=
    fold_left (fun d kv => dset d (fst kv) (snd kv)) pairs [].

  (* {**a, **b} *)
  Definition dmerge (a b : list (string * V)) : list (string * V) :=
    fold_left (fun d kv => dset d (fst kv) (snd kv)) b a.
End Dict.

(* option / list views *)
Definition ostr (o : option string) : json := match o with None => jnull | Some s => jstr s end.
Definition jstrs (l : list string) : json := jarr (map jstr l).
Definition jnat (n : nat) : json := jnum (Z.of_nat n).
