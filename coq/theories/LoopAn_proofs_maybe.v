(* maybe_result / inspect: which variables get a result; the non-failing case never reports
   "unbounded". *)
From Coq Require Import String List Bool Arith Lia.
From PM Require Import Semiring Poly Rel Analysis LoopAn LoopAn_proofs.
From PM Require DeltaGraph Bound.
From PMGen Require Import RulesGen SemiringGen.
Import ListNotations.
Open Scope list_scope.

(* ------------------------------------------------------------------ list plumbing *)

Lemma map_res_map {A B C} (h : A -> B) (f : B -> res C) l : map_res f (map h l) = map_res (fun x => f (h x)) l.
Proof. induction l as [|x t IH]; cbn [map map_res]; [reflexivity|]. rewrite IH. reflexivity. Qed.

Lemma map_res_ext_in {A B} (f g : A -> res B) l : (forall x, In x l -> f x = g x) -> map_res f l = map_res g l.
Proof.
  induction l as [|x t IH]; intros H; cbn [map_res]; [reflexivity|].
  rewrite (H x (or_introl eq_refl)), IH; [reflexivity|]. intros y Hy. apply H. right. exact Hy.
Qed.

Lemma filter_map_pair {A B} (g : A -> B) (P : A * B -> bool) l :
  filter P (map (fun v => (v, g v)) l) = map (fun v => (v, g v)) (filter (fun v => P (v, g v)) l).
Proof.
  induction l as [|x t IH]; cbn [map filter]; [reflexivity|].
  destruct (P (x, g x)); cbn [map]; rewrite IH; reflexivity.
Qed.

Lemma map_fst_pair {A B} (g : A -> B) l : map fst (map (fun v => (v, g v)) l) = l.
Proof. rewrite map_map. cbn [fst]. apply map_id. Qed.

Lemma flat_map_snd_pair {A B} (g : A -> list B) l : flat_map snd (map (fun v => (v, g v)) l) = flat_map g l.
Proof. induction l as [|x t IH]; cbn [map flat_map snd]; [reflexivity|]. rewrite IH. reflexivity. Qed.

Lemma filter_ext_in' {A} (f g : A -> bool) l : (forall x, In x l -> f x = g x) -> filter f l = filter g l.
Proof.
  induction l as [|x t IH]; intros H; cbn [filter]; [reflexivity|].
  rewrite (H x (or_introl eq_refl)), IH; [reflexivity|]. intros y Hy. apply H. right. exact Hy.
Qed.

Lemma Forall2_impl {A B} (P Q : A -> B -> Prop) l l' : (forall x y, P x y -> Q x y) -> Forall2 P l l' -> Forall2 Q l l'.
Proof. intros H. induction 1; constructor; auto. Qed.

(* ------------------------------------------------------------------ maybe_result, normalised *)

Definition gcol (r : rel) (v : string) : choices_repr := level_seqs r (index_or0 v (rvars r)) 2.

Lemma p_bounds_eq r :
  map_res (fun v => rbind (var_eval r v []) (fun s => ROk (v, s))) (rvars r) =
  ROk (map (fun v => (v, gcol r v)) (rvars r)).
Proof.
  apply map_res_total. intros v Hv. destruct (index_of_str_In _ _ Hv) as [col Hc].
  unfold var_eval, gcol, index_or0, level_seqs. rewrite Hc. reflexivity.
Qed.

Lemma col_failing_gcol r index v : In v (rvars r) -> choices_infinite index (gcol r v) = col_failing r index v.
Proof.
  intros Hv. destruct (index_of_str_In _ _ Hv) as [col Hc]. unfold gcol, col_failing, index_or0. rewrite Hc. reflexivity.
Qed.

Definition rest_step (r : rel) (index : nat) (rf : list nat) (firsts : string -> list nat) (v : string)
  : res (string * vresult) :=
  if deps_zero (simple_matrix r rf) (fail_rows r index) (index_or0 v (rvars r))
  then rbind (get_result r index v (firsts v)) (fun x => ROk (v, x))
  else ROk (v, vresult_new v).

Lemma maybe_result_unfold r index rf firsts :
  maybe_result r index rf firsts =
  match rest_vars r index with
  | [] => ROk (map (fun v => (v, vresult_new v)) (fail_vars r index))
  | _ =>
      if choices_infinite index (red_seqs r index) then RErr "AssertionError:maybe_result" else
      if negb (first_ok index (red_seqs r index) rf) then RErr "spec:Choices.first" else
      rbind (map_res (rest_step r index rf firsts) (rest_vars r index))
            (fun l => ROk (map (fun v => (v, vresult_new v)) (fail_vars r index) ++ l))
  end.
Proof.
  unfold maybe_result. rewrite p_bounds_eq. cbn [rbind]. cbv zeta.
  assert (Efail : map fst (filter (fun vs : string * choices_repr => choices_infinite index (snd vs))
                                  (map (fun v => (v, gcol r v)) (rvars r))) = fail_vars r index).
  { rewrite filter_map_pair, map_fst_pair. cbn [snd]. unfold fail_vars.
    apply filter_ext_in'. intros v Hv. apply col_failing_gcol. exact Hv. }
  rewrite Efail.
  assert (Erest : filter (fun vs : string * choices_repr => negb (mem_strb (fst vs) (fail_vars r index)))
                         (map (fun v => (v, gcol r v)) (rvars r)) = map (fun v => (v, gcol r v)) (rest_vars r index)).
  { rewrite filter_map_pair. cbn [fst]. reflexivity. }
  rewrite Erest. fold (fail_rows r index). unfold choices_repr.
  rewrite (flat_map_snd_pair (gcol r) (rest_vars r index)), map_res_map. cbn [fst].
  change (flat_map (gcol r) (rest_vars r index)) with (red_seqs r index).
  destruct (rest_vars r index); reflexivity.
Qed.

Lemma deps_zero_spec simple rows idx :
  deps_zero simple rows idx = true <-> rows <> [] /\ forall fi, In fi rows -> cell simple fi idx = O.
Proof.
  unfold deps_zero. rewrite andb_true_iff, negb_true_iff, forallb_forall. split.
  - intros [H1 H2]. split; [intros ->; discriminate|]. intros fi Hfi. apply sc_eqb_eq. apply H2. exact Hfi.
  - intros [H1 H2]. split; [destruct rows; [congruence|reflexivity]|]. intros fi Hfi. apply sc_eqb_eq. apply H2. exact Hfi.
Qed.

Lemma maybe_result_spec r index rf firsts res :
  maybe_result r index rf firsts = ROk res ->
  exists rest_res,
    res = map (fun v => (v, vresult_new v)) (fail_vars r index) ++ rest_res /\
    map fst rest_res = rest_vars r index /\
    (rest_vars r index <> [] ->
       choices_infinite index (red_seqs r index) = false /\ first_ok index (red_seqs r index) rf = true) /\
    forall v vr, In (v, vr) rest_res ->
      In v (rest_vars r index) /\
      if deps_zero (simple_matrix r rf) (fail_rows r index) (index_or0 v (rvars r))
      then get_result r index v (firsts v) = ROk vr
      else vr = vresult_new v.
Proof.
  rewrite maybe_result_unfold. destruct (rest_vars r index) as [|v0 t] eqn:E.
  - intros H. injection H as <-. exists []. rewrite app_nil_r. split; [reflexivity|]. split; [reflexivity|]. split; [intros Hne; congruence|]. intros v vr [].
  - destruct (choices_infinite index (red_seqs r index)) eqn:Ei; [discriminate|].
    destruct (first_ok index (red_seqs r index) rf) eqn:Ef; cbn [negb]; [|discriminate].
    intros H. apply rbind_ok in H. destruct H as [l [Hl H]]. injection H as <-.
    exists l. split; [reflexivity|].
    apply map_res_ok in Hl.
    assert (HF : Forall2 (fun x y => exists b, y = (x, b) /\
                   if deps_zero (simple_matrix r rf) (fail_rows r index) (index_or0 x (rvars r))
                   then get_result r index x (firsts x) = ROk b else b = vresult_new x) (v0 :: t) l).
    { revert Hl. apply Forall2_impl. intros x y Hxy. unfold rest_step in Hxy.
      destruct (deps_zero (simple_matrix r rf) (fail_rows r index) (index_or0 x (rvars r))).
      - apply rbind_ok in Hxy. destruct Hxy as [b [Hb Hy]]. injection Hy as <-. eauto.
      - injection Hxy as <-. eauto. }
    apply Forall2_map_fst in HF. destruct HF as [H1 H2].
    split; [exact H1|]. split; [auto|]. exact H2.
Qed.

(* ------------------------------------------------------------------ the non-failing case *)

Lemma col_incl_rel r col : incl (level_seqs r col 2) (rel_infinity_deltas r [] []).
Proof.
  unfold level_seqs, col_infinity_deltas, rel_infinity_deltas, excluded. cbn [app]. intros s Hs.
  apply in_flat_map in Hs. destruct Hs as [row [Hrow Hs]]. apply in_flat_map. exists row. split; [exact Hrow|].
  apply in_flat_map. destruct (Nat.lt_ge_cases col (length row)) as [Hlt|Hge].
  - exists (nth col row zero_poly). split; [apply nth_In; exact Hlt|exact Hs].
  - rewrite nth_overflow in Hs by exact Hge. destruct Hs.
Qed.

(* when the whole relation has a valid vector, every column has one at the last level *)
Lemma nonfailing_column r index col :
  choices_infinite index (rel_infinity_deltas r [] []) = false ->
  choices_infinite index (level_seqs r col 2) = false.
Proof.
  intros H. destruct (choices_infinite index (level_seqs r col 2)) eqn:E; [|reflexivity].
  rewrite (choices_infinite_incl _ _ _ (col_incl_rel r col) E) in H. discriminate.
Qed.

Lemma all_results_spec r index firsts res :
  all_results r index firsts = ROk res ->
  map fst res = rvars r /\ forall v vr, In (v, vr) res -> In v (rvars r) /\ get_result r index v (firsts v) = ROk vr.
Proof.
  unfold all_results. intros H. apply map_res_ok in H.
  apply (Forall2_map_fst (rvars r) res (fun v vr => get_result r index v (firsts v) = ROk vr)).
  revert H. apply Forall2_impl. intros x y Hxy. apply rbind_ok in Hxy. destruct Hxy as [b [Hb Hy]]. injection Hy as <-. eauto.
Qed.

Lemma unbounded_iff r index firsts res :
  choices_infinite index (rel_infinity_deltas r [] []) = false ->
  all_results r index firsts = ROk res ->
  map fst res = rvars r /\
  forall v vr, In (v, vr) res ->
    (f_p (vr_flags vr) = false <->
     exists col, index_of_str v (rvars r) = Some col /\ choices_infinite index (level_seqs r col 2) = true).
Proof.
  intros Hnf H. apply all_results_spec in H. destruct H as [H1 H2]. split; [exact H1|].
  intros v vr Hin. destruct (H2 v vr Hin) as [_ Hg]. split.
  - intros Hp. rewrite (get_result_flag_p _ _ _ _ _ Hg) in Hp. discriminate.
  - intros [col [_ Hinf]]. rewrite (nonfailing_column r index col Hnf) in Hinf. discriminate.
Qed.

(* and the assertion of get_result cannot fire there: the only errors left are the ones that say the supplied
   vector is not a `first` the Choices specification allows *)
Lemma nonfailing_no_assert r index v c :
  choices_infinite index (rel_infinity_deltas r [] []) = false ->
  get_result r index v c <> RErr "AssertionError:get_result".
Proof.
  intros Hnf H. apply get_result_asserts in H. destruct H as [col [_ Hinf]].
  rewrite (nonfailing_column r index col Hnf) in Hinf. discriminate.
Qed.

(* ------------------------------------------------------------------ inspect *)

Lemma inspect_unfold loop rf firsts di index r :
  is_loop_stmt loop = true -> loop_relation loop = ROk (di, index, r) ->
  inspect loop rf firsts =
  if loop_infty di index r then maybe_result r index rf firsts else all_results r index firsts.
Proof.
  intros Hl Hr. unfold inspect. rewrite Hl, Hr. cbn [negb rbind]. destruct (loop_infty di index r); reflexivity.
Qed.

Lemma inspect_ok loop rf firsts res :
  inspect loop rf firsts = ROk res ->
  is_loop_stmt loop = true /\ exists di index r, loop_relation loop = ROk (di, index, r) /\
    if loop_infty di index r then maybe_result r index rf firsts = ROk res else all_results r index firsts = ROk res.
Proof.
  unfold inspect. destruct (is_loop_stmt loop); cbn [negb]; [|discriminate]. intros H. split; [reflexivity|].
  apply rbind_ok in H. destruct H as [[[di index] r] [Hr H]]. exists di, index, r. split; [exact Hr|].
  destruct (loop_infty di index r); cbn [negb] in H; exact H.
Qed.

(* every reported flag triple is nested, whichever branch produced it *)
Lemma inspect_nested loop rf firsts res v vr :
  inspect loop rf firsts = ROk res -> In (v, vr) res -> nested (vr_flags vr).
Proof.
  intros H Hin. apply inspect_ok in H. destruct H as [_ [di [index [r [_ H]]]]].
  destruct (loop_infty di index r).
  - apply maybe_result_spec in H. destruct H as [rest_res [-> [_ [_ Hrest]]]].
    apply in_app_or in Hin. destruct Hin as [Hin|Hin].
    + apply in_map_iff in Hin. destruct Hin as [u [E _]]. injection E as <- <-. apply flags_init_nested.
    + destruct (Hrest v vr Hin) as [_ Hd].
      destruct (deps_zero _ _ _); [eapply get_result_nested; eauto|subst; apply flags_init_nested].
  - apply all_results_spec in H. destruct H as [_ H]. destruct (H v vr Hin) as [_ Hg]. eapply get_result_nested; eauto.
Qed.
