(* C19: specification of loop discovery / statistics and the proofs relating the model of
   FindLoops / take_counts (Syntax.v) to it. *)
From Coq Require Import String List Bool Arith Lia.
From PMGen Require Import SyntaxGen PycSchema.
From PM Require Import Tree Syntax Syntax_proofs.
Import ListNotations.
Open Scope string_scope.
Open Scope list_scope.

(* ------------------------------------------------------------------------- *)
(* Specification                                                               *)
(* ------------------------------------------------------------------------- *)
(* the statement positions the specification walks through: (slot, is it a list slot) *)
Definition thr (c : string) : list (string * bool) :=
  if String.eqb c "FuncDef" then [("body", false)]
  else if String.eqb c "Compound" then [("block_items", true)]
  else if String.eqb c "If" then [("iftrue", false); ("iffalse", false)]
  else if String.eqb c "While" || String.eqb c "DoWhile" || String.eqb c "For" || String.eqb c "Switch" then [("stmt", false)]
  else if String.eqb c "Case" || String.eqb c "Default" then [("stmts", true)]
  else [].

Definition pfx (st : string * nat) (pn : path * node) : path * node := (st :: fst pn, snd pn).

Definition spec_step (c : string) (a : list (string * string)) (ks : list (string * list node))
           (aks : list (string * list (ann (list (path * node))))) : list (path * node) :=
  ([], Node c a ks) ::
  flat_map (fun sm : string * bool =>
              let s := fst sm in
              if snd sm then concat (mapi (fun i x => map (pfx (s, i)) (ares x)) (akl aks s))
              else match ak1 aks s with Some x => map (pfx (s, 0)) (ares x) | None => [] end) (thr c).

(* preorder (source order, any depth) through FuncDef body, Compound, If, While, DoWhile, For, Switch, Case, Default *)
Definition spec_pre (n : node) : list (path * node) := walk spec_step n.

(* a while, a do-while, or a counted for *)
Definition loop_node (n : node) : bool :=
  is_cls "While" n || is_cls "DoWhile" n ||
  (is_cls "For" n && match loop_compat n with LcYes _ => true | _ => false end).

Definition spec_loops (f : node) : list path := map fst (filter (fun pn => loop_node (snd pn)) (spec_pre f)).

(* hypothesis of the partial theorem: every node of the traversal has a class NodeHandler lists (so
   node_handler never falls through to FindLoops.handler), is not one of the three expression-list
   classes BaseAnalysis also iterates, and is not a for-loop on which init_vars raises *)
Definition plain (n : node) : bool :=
  in_s (ncls n) NODEHANDLER_METHODS && negb (in_s (ncls n) ["DeclList"; "ExprList"; "ParamList"]) &&
  negb (is_cls "For" n && match loop_compat n with LcErr => true | _ => false end).

Definition plain_tree (f : node) : Prop := Forall (fun pn => plain (snd pn) = true) (spec_pre f).

(* ------------------------------------------------------------------------- *)
(* FindLoops = the specification on plain trees                                *)
(* ------------------------------------------------------------------------- *)
Lemma spec_pre_eq c a ks :
  spec_pre (Node c a ks) =
  ([], Node c a ks) ::
  flat_map (fun sm : string * bool =>
              let s := fst sm in
              if snd sm then concat (mapi (fun i x => map (pfx (s, i)) (spec_pre x)) (kidl (Node c a ks) s))
              else match kid1 (Node c a ks) s with Some x => map (pfx (s, 0)) (spec_pre x) | None => [] end) (thr c).
Proof.
  unfold spec_pre at 1. rewrite walk_eq. unfold spec_step at 1. f_equal.
  apply flat_map_ext. intros [s m]. cbn [fst snd]. destruct m.
  - rewrite (akl_node spec_step c a ks s). unfold mapi. f_equal.
    generalize 0. induction (kidl (Node c a ks) s) as [|x l IH]; intros k; simpl; [reflexivity|].
    rewrite IH. reflexivity.
  - rewrite (ak1_node spec_step c a ks s). destruct (kid1 (Node c a ks) s); reflexivity.
Qed.

Definition lp (pn : path * node) : bool := loop_node (snd pn).

Lemma loops_pfx st l :
  map LLoop (map fst (filter lp (map (pfx st) l))) = map (lpush [st]) (map LLoop (map fst (filter lp l))).
Proof.
  induction l as [|[p n] l IH]; [reflexivity|].
  cbn [map filter]. replace (lp (pfx st (p, n))) with (loop_node n) by reflexivity.
  replace (lp (p, n)) with (loop_node n) by reflexivity.
  destruct (loop_node n); cbn [map fst pfx]; rewrite IH; reflexivity.
Qed.

Lemma filter_concat {A} (f : A -> bool) (ls : list (list A)) : filter f (concat ls) = concat (map (filter f) ls).
Proof. induction ls; simpl; [reflexivity|]. rewrite filter_app, IHls. reflexivity. Qed.

Lemma Forall_concat {A} (P : A -> Prop) (ls : list (list A)) : Forall P (concat ls) <-> Forall (Forall P) ls.
Proof.
  induction ls; simpl; split; intros H; try constructor.
  - apply Forall_app in H. tauto.
  - apply Forall_app in H. apply IHls. tauto.
  - inversion H; subst. apply Forall_app. split; [assumption | apply IHls; assumption].
Qed.

Lemma Forall_map_pfx (P : node -> Prop) st l :
  Forall (fun pn => P (snd pn)) (map (pfx st) l) <-> Forall (fun pn => P (snd pn)) l.
Proof. rewrite Forall_map. reflexivity. Qed.

Definition fl_ok (x : node) : Prop := plain_tree x -> fl_items x = map LLoop (spec_loops x).

(* one single-slot child *)
Lemma rec1_spec c a ks s :
  Forall (fun sk => Forall fl_ok (snd sk)) ks ->
  Forall (fun pn => plain (snd pn) = true)
         (match kid1 (Node c a ks) s with Some x => map (pfx (s, 0)) (spec_pre x) | None => [] end) ->
  match ak1 (annk fl_step ks) s with Some x => map (lpush [(s, 0)]) (ares x) | None => [] end =
  map LLoop (map fst (filter lp (match kid1 (Node c a ks) s with Some x => map (pfx (s, 0)) (spec_pre x) | None => [] end))).
Proof.
  intros IH HP. rewrite (ak1_node fl_step c a ks s).
  destruct (kid1 (Node c a ks) s) as [x|] eqn:E; simpl; [|reflexivity].
  rewrite ares_annotate. rewrite loops_pfx.
  pose proof (Forall_kid1 fl_ok c a ks s x IH E) as Hx. unfold fl_ok in Hx.
  fold (fl_items x). rewrite Hx; [reflexivity|].
  unfold plain_tree. apply (Forall_map_pfx (fun n => plain n = true)) in HP. exact HP.
Qed.

(* a list slot *)
Lemma iter_spec c a ks s :
  Forall (fun sk => Forall fl_ok (snd sk)) ks ->
  Forall (fun pn => plain (snd pn) = true)
         (concat (mapi (fun i x => map (pfx (s, i)) (spec_pre x)) (kidl (Node c a ks) s))) ->
  fl_iter s (akl (annk fl_step ks) s) =
  map LLoop (map fst (filter lp (concat (mapi (fun i x => map (pfx (s, i)) (spec_pre x)) (kidl (Node c a ks) s))))).
Proof.
  intros IH HP. rewrite (akl_node fl_step c a ks s).
  pose proof (Forall_kidl fl_ok c a ks s IH) as F. unfold fl_iter, mapi in *.
  revert HP. generalize 0. induction (kidl (Node c a ks) s) as [|x l IHl]; intros k HP; simpl; [reflexivity|].
  inversion F as [|? ? Fx Fl]; subst. simpl in HP. apply Forall_app in HP. destruct HP as [HPa HPb].
  rewrite filter_app, map_app, map_app. rewrite ares_annotate. f_equal.
  - rewrite loops_pfx. fold (fl_items x). rewrite Fx; [reflexivity|].
    apply (Forall_map_pfx (fun n => plain n = true)) in HPa. exact HPa.
  - apply IHl; assumption.
Qed.

Lemma in_nh_cases c : in_s c NODEHANDLER_METHODS = true -> In c NODEHANDLER_METHODS.
Proof. apply in_s_In. Qed.

Ltac str_neq := let H := fresh in intro H; discriminate H.

Lemma fl_items_eq c a ks : fl_items (Node c a ks) = fl_step c a ks (annk fl_step ks).
Proof. reflexivity. Qed.

Lemma app_nil_r' {A} (l : list A) : l ++ [] = l. Proof. apply app_nil_r. Qed.

Ltac thr_is c v :=
  change (thr c) with v in *; cbn [flat_map fst snd] in *; rewrite ?app_nil_r in *.

Theorem find_loops_plain f : plain_tree f -> fl_items f = map LLoop (spec_loops f).
Proof.
  induction f as [c a ks IH] using node_ind'. fold fl_ok in IH. intros HP.
  unfold plain_tree in HP. rewrite spec_pre_eq in HP. inversion HP as [|? ? Hn Hrest]; subst. clear HP.
  unfold spec_loops. rewrite spec_pre_eq. rewrite fl_items_eq. fold lp.
  unfold plain in Hn. cbn [ncls snd] in Hn. apply andb_true_iff in Hn. destruct Hn as [Hn Hfor].
  apply andb_true_iff in Hn. destruct Hn as [Hnh Hnl].
  apply negb_true_iff in Hnl. apply in_nh_cases in Hnh.
  assert (Hlc : c = "For" -> loop_compat (Node c a ks) <> LcErr).
  { intros ->. apply negb_true_iff in Hfor. unfold is_cls in Hfor. cbn [ncls] in Hfor.
    intro E. rewrite E in Hfor. discriminate. }
  clear Hfor.
  cbn [In NODEHANDLER_METHODS] in Hnh.
  repeat match goal with H : _ \/ _ |- _ => destruct H as [H|H] end; try contradiction; subst c;
    try discriminate Hnl.
  all: cbn [filter].
  (* 30 classes; the ones neither walked through nor loops first *)
  all: try (change (fl_step _ a ks (annk fl_step ks)) with (@nil litem); reflexivity).
  - (* Case *)
    thr_is "Case" [("stmts", true)].
    change (fl_step "Case" a ks (annk fl_step ks)) with (fl_iter "stmts" (akl (annk fl_step ks) "stmts")).
    change (lp ([], Node "Case" a ks)) with false. cbv iota.
    apply (iter_spec "Case" a ks "stmts" IH Hrest).
  - (* Compound *)
    thr_is "Compound" [("block_items", true)].
    change (fl_step "Compound" a ks (annk fl_step ks)) with (fl_iter "block_items" (akl (annk fl_step ks) "block_items")).
    change (lp ([], Node "Compound" a ks)) with false. cbv iota.
    apply (iter_spec "Compound" a ks "block_items" IH Hrest).
  - (* Default *)
    thr_is "Default" [("stmts", true)].
    change (fl_step "Default" a ks (annk fl_step ks)) with (fl_iter "stmts" (akl (annk fl_step ks) "stmts")).
    change (lp ([], Node "Default" a ks)) with false. cbv iota.
    apply (iter_spec "Default" a ks "stmts" IH Hrest).
  - (* DoWhile *)
    thr_is "DoWhile" [("stmt", false)].
    change (fl_step "DoWhile" a ks (annk fl_step ks)) with
        (LLoop [] :: match ak1 (annk fl_step ks) "stmt" with Some x => map (lpush [("stmt", 0)]) (ares x) | None => [] end).
    change (lp ([], Node "DoWhile" a ks)) with true. cbv iota. cbn [map fst]. f_equal.
    apply (rec1_spec "DoWhile" a ks "stmt" IH Hrest).
  - (* For *)
    thr_is "For" [("stmt", false)].
    specialize (Hlc eq_refl).
    change (fl_step "For" a ks (annk fl_step ks)) with
        (match loop_compat (Node "For" a ks) with
         | LcErr => [LRaise]
         | LcYes _ => LLoop [] :: match ak1 (annk fl_step ks) "stmt" with Some x => map (lpush [("stmt", 0)]) (ares x) | None => [] end
         | LcNo => match ak1 (annk fl_step ks) "stmt" with Some x => map (lpush [("stmt", 0)]) (ares x) | None => [] end
         end).
    change (lp ([], Node "For" a ks)) with (match loop_compat (Node "For" a ks) with LcYes _ => true | _ => false end).
    destruct (loop_compat (Node "For" a ks)) eqn:E; [contradiction| |]; cbv iota.
    + apply (rec1_spec "For" a ks "stmt" IH Hrest).
    + cbn [map fst]. f_equal. apply (rec1_spec "For" a ks "stmt" IH Hrest).
  - (* FuncCall *)
    change (fl_step "FuncCall" a ks (annk fl_step ks)) with (if fcall_special (Node "FuncCall" a ks) then @nil litem else []).
    destruct (fcall_special (Node "FuncCall" a ks)); reflexivity.
  - (* FuncDef *)
    thr_is "FuncDef" [("body", false)].
    change (fl_step "FuncDef" a ks (annk fl_step ks)) with
        (match ak1 (annk fl_step ks) "body" with Some x => map (lpush [("body", 0)]) (ares x) | None => [] end).
    change (lp ([], Node "FuncDef" a ks)) with false. cbv iota.
    apply (rec1_spec "FuncDef" a ks "body" IH Hrest).
  - (* If *)
    thr_is "If" [("iftrue", false); ("iffalse", false)].
    apply Forall_app in Hrest. destruct Hrest as [H1 H2].
    change (fl_step "If" a ks (annk fl_step ks)) with
        (match ak1 (annk fl_step ks) "iftrue" with Some x => map (lpush [("iftrue", 0)]) (ares x) | None => [] end ++
         match ak1 (annk fl_step ks) "iffalse" with Some x => map (lpush [("iffalse", 0)]) (ares x) | None => [] end).
    change (lp ([], Node "If" a ks)) with false. cbv iota.
    rewrite filter_app, map_app, map_app. f_equal.
    + apply (rec1_spec "If" a ks "iftrue" IH H1).
    + apply (rec1_spec "If" a ks "iffalse" IH H2).
  - (* Switch *)
    thr_is "Switch" [("stmt", false)].
    change (fl_step "Switch" a ks (annk fl_step ks)) with
        (match ak1 (annk fl_step ks) "stmt" with Some x => map (lpush [("stmt", 0)]) (ares x) | None => [] end).
    change (lp ([], Node "Switch" a ks)) with false. cbv iota.
    apply (rec1_spec "Switch" a ks "stmt" IH Hrest).
  - (* While *)
    thr_is "While" [("stmt", false)].
    change (fl_step "While" a ks (annk fl_step ks)) with
        (LLoop [] :: match ak1 (annk fl_step ks) "stmt" with Some x => map (lpush [("stmt", 0)]) (ares x) | None => [] end).
    change (lp ([], Node "While" a ks)) with true. cbv iota. cbn [map fst]. f_equal.
    apply (rec1_spec "While" a ks "stmt" IH Hrest).
Qed.

Lemma lraises_map_LLoop l : lraises (map LLoop l) = false.
Proof. induction l; simpl; [reflexivity | exact IHl]. Qed.
Lemma lpaths_map_LLoop l : lpaths (map LLoop l) = l.
Proof. induction l; simpl; [reflexivity | f_equal; exact IHl]. Qed.

Theorem find_loops_partial f : plain_tree f -> find_loops f = Some (spec_loops f).
Proof.
  intros H. unfold find_loops. rewrite (find_loops_plain f H), lraises_map_LLoop, lpaths_map_LLoop. reflexivity.
Qed.

(* ------------------------------------------------------------------------- *)
(* the full statement is false: a block-level typedef is recorded as a loop (D12) *)
(* ------------------------------------------------------------------------- *)
Definition int_type : node := Node "TypeDecl" [("declname", "T"); ("quals", ""); ("align", "")] [("type", [Node "IdentifierType" [("names", "int")] []])].
Definition d12_func : node :=
  Node "FuncDef" []
    [("decl", [Node "Decl" [("name", "f"); ("quals", ""); ("align", ""); ("storage", ""); ("funcspec", "")]
                 [("type", [Node "FuncDecl" [] [("args", []); ("type", [Node "TypeDecl" [("declname", "f"); ("quals", ""); ("align", "")]
                                                                          [("type", [Node "IdentifierType" [("names", "void")] []])]])]]);
                  ("init", []); ("bitsize", [])]]);
     ("param_decls", []);
     ("body", [Node "Compound" [] [("block_items", [Node "Typedef" [("name", "T"); ("quals", ""); ("storage", "typedef")] [("type", [int_type])]])]])].

Lemma find_loops_refuted :
  exists f, wf_pyc f = true /\ is_func f = true /\ spec_loops f = [] /\
            find_loops f = Some [[("body", 0); ("block_items", 0)]].
Proof. exists d12_func. vm_compute. repeat split. Qed.

(* non-vacuity of the partial theorem: a nest of loops meets [plain_tree] and has loops *)
Definition ex_id (x : string) : node := Node "ID" [("name", x)] [].
Definition ex_lt (x y : string) : node := Node "BinaryOp" [("op", "<")] [("left", [ex_id x]); ("right", [ex_id y])].
Definition ex_asg (x y z : string) : node :=
  Node "Assignment" [("op", "=")] [("lvalue", [ex_id x]); ("rvalue", [Node "BinaryOp" [("op", "+")] [("left", [ex_id y]); ("right", [ex_id z])]])].
Definition ex_while (c body : node) : node := Node "While" [] [("cond", [c]); ("stmt", [body])].
Definition ex_block (l : list node) : node := Node "Compound" [] [("block_items", l)].
Definition ex_for (i n : string) (body : node) : node :=
  Node "For" []
    [("init", [Node "Assignment" [("op", "=")] [("lvalue", [ex_id i]); ("rvalue", [Node "Constant" [("type", "int"); ("value", "0")] []])]]);
     ("cond", [ex_lt i n]);
     ("next", [Node "UnaryOp" [("op", "p++")] [("expr", [ex_id i])]]);
     ("stmt", [body])].
Definition ex_func (body : node) : node :=
  Node "FuncDef" [] [("decl", []); ("param_decls", []); ("body", [body])].
Definition ex_nest : node :=
  ex_func (ex_block [ex_for "i" "n" (ex_block [ex_while (ex_lt "x" "y") (ex_block [ex_asg "x" "x" "y"])]);
                     Node "If" [] [("cond", [ex_lt "x" "y"]); ("iftrue", [ex_while (ex_lt "y" "n") (ex_asg "y" "y" "x")]); ("iffalse", [])]]).

Example plain_nonvacuous :
  Forall (fun pn => plain (snd pn) = true) (spec_pre ex_nest) /\
  spec_loops ex_nest = [[("body", 0); ("block_items", 0)];
                        [("body", 0); ("block_items", 0); ("stmt", 0); ("block_items", 0)];
                        [("body", 0); ("block_items", 1); ("iftrue", 0)]].
Proof.
  split; [|vm_compute; reflexivity].
  apply Forall_forall. intros pn Hin.
  assert (H : forallb (fun pn => plain (snd pn)) (spec_pre ex_nest) = true) by (vm_compute; reflexivity).
  rewrite forallb_forall in H. apply H. exact Hin.
Qed.

(* ------------------------------------------------------------------------- *)
(* statistics                                                                  *)
(* ------------------------------------------------------------------------- *)
Definition spec_loop_nodes (f : node) : list node := map snd (filter lp (spec_pre f)).

Lemma node_at_pfx st p x c a ks i s :
  st = (s, i) -> nth_error (kidl (Node c a ks) s) i = Some x -> node_at (st :: p) (Node c a ks) = node_at p x.
Proof. intros -> E. simpl. rewrite E. reflexivity. Qed.

(* every entry of the traversal is (path, node at that path) *)
Lemma spec_pre_node_at f : Forall (fun pn => node_at (fst pn) f = Some (snd pn)) (spec_pre f).
Proof.
  induction f as [c a ks IH] using node_ind'.
  rewrite spec_pre_eq. constructor; [reflexivity|].
  apply Forall_flat_map. apply Forall_forall. intros [s m] _. simpl. destruct m.
  - pose proof (Forall_kidl _ c a ks s IH) as F.
    assert (G : forall k l, Forall (fun x => Forall (fun pn => node_at (fst pn) x = Some (snd pn)) (spec_pre x)) l ->
                (forall i x, nth_error l i = Some x -> nth_error (kidl (Node c a ks) s) (k + i) = Some x) ->
                Forall (fun pn => node_at (fst pn) (Node c a ks) = Some (snd pn))
                       (concat (mapi_from (fun i x => map (pfx (s, i)) (spec_pre x)) k l))).
    { intros k l. revert k. induction l as [|x l IHl]; intros k Fl Hn; simpl; [constructor|].
      inversion Fl; subst. apply Forall_app. split.
      - apply Forall_map. eapply Forall_impl; [|exact H1]. intros [p n] Hp. simpl in *.
        specialize (Hn 0 x eq_refl). rewrite Nat.add_0_r in Hn. rewrite Hn. exact Hp.
      - apply IHl; [assumption|]. intros i y Hy. specialize (Hn (S i) y Hy).
        replace (S k + i) with (k + S i) by lia. exact Hn. }
    apply (G 0 _ F). intros i x Hx. exact Hx.
  - destruct (kid1 (Node c a ks) s) as [x|] eqn:E; [|constructor].
    pose proof (Forall_kid1 _ c a ks s x IH E) as Hx.
    apply Forall_map. eapply Forall_impl; [|exact Hx]. intros [p n] Hp. simpl in *.
    unfold kid1 in E. destruct (kidl (Node c a ks) s) as [|y l] eqn:K; [discriminate|]. inversion E; subst.
    simpl. exact Hp.
Qed.

Lemma loops_of_partial f : plain_tree f -> loops_of f = Some (spec_loop_nodes f).
Proof.
  intros H. unfold loops_of. rewrite (find_loops_partial f H). f_equal.
  unfold spec_loops, spec_loop_nodes.
  pose proof (spec_pre_node_at f) as F.
  induction (spec_pre f) as [|[p n] l IHl]; simpl; [reflexivity|].
  inversion F; subst. unfold lp at 1 3. simpl. destruct (loop_node n); simpl.
  - simpl in H2. rewrite H2. simpl. f_equal. apply IHl. assumption.
  - apply IHl. assumption.
Qed.

(* sorted(vars): duplicates removed, ascending *)
Lemma dedup_not_seen l seen x : In x (dedup l seen) -> ~ In x seen.
Proof.
  revert seen. induction l as [|y l IH]; intros seen H; simpl in H; [contradiction|].
  destruct (in_s y seen) eqn:E.
  - apply IH. exact H.
  - destruct H as [->|H]; [apply in_s_false; exact E|]. apply IH in H. intro. apply H. right. assumption.
Qed.

Lemma dedup_nodup l seen : NoDup (dedup l seen).
Proof.
  revert seen. induction l as [|y l IH]; intros seen; simpl; [constructor|].
  destruct (in_s y seen); [apply IH|]. constructor; [|apply IH].
  intro H. apply dedup_not_seen in H. apply H. left. reflexivity.
Qed.

Lemma insert_s_perm x l : forall y, In y (insert_s x l) <-> y = x \/ In y l.
Proof.
  induction l as [|z l IH]; intros y; simpl; [intuition|].
  destruct (String.leb x z); simpl; [intuition|]. rewrite IH. intuition.
Qed.

Lemma insert_s_nodup x l : NoDup l -> ~ In x l -> NoDup (insert_s x l).
Proof.
  induction l as [|z l IH]; intros N H; simpl; [constructor; [auto|constructor]|].
  destruct (String.leb x z); [constructor; assumption|].
  inversion N; subst. constructor.
  - rewrite insert_s_perm. intros [->|Hi]; [apply H; left; reflexivity | contradiction].
  - apply IH; [assumption|]. intro. apply H. right. assumption.
Qed.

Lemma sort_s_in l y : In y (sort_s l) <-> In y l.
Proof. induction l as [|x l IH]; simpl; [reflexivity|]. rewrite insert_s_perm, IH. intuition. Qed.

Lemma sort_s_nodup l : NoDup l -> NoDup (sort_s l).
Proof.
  induction l as [|x l IH]; intros N; simpl; [constructor|]. inversion N; subst.
  apply insert_s_nodup; [apply IH; assumption|]. rewrite sort_s_in. assumption.
Qed.

Lemma sort_s_length l : length (sort_s l) = length l.
Proof.
  induction l as [|x l IH]; simpl; [reflexivity|]. rewrite <- IH. generalize (sort_s l). intros m.
  induction m as [|z m IHm]; simpl; [reflexivity|]. destruct (String.leb x z); simpl; [reflexivity|]. rewrite IHm. reflexivity.
Qed.

(* the variable list of a node has no repetitions: its length is the number of distinct names found *)
Lemma vars_of_nodup ns l : vars_of ns = Some l -> NoDup l /\ (forall x, In x l <-> In x (vnames_of (flat_map vitems ns))).
Proof.
  unfold vars_of. destruct (vraises (flat_map vitems ns)); [discriminate|]. intros E. inversion E; subst. split.
  - apply sort_s_nodup, dedup_nodup.
  - intros x. rewrite sort_s_in. generalize (vnames_of (flat_map vitems ns)). intros m.
    assert (G : forall seen, In x (dedup m seen) <-> In x m /\ ~ In x seen).
    { induction m as [|y m IHm]; intros seen; simpl; [tauto|].
      destruct (in_s y seen) eqn:Es.
      - rewrite IHm. apply in_s_In in Es. split; [tauto|]. intros [[->|H] N]; [contradiction|tauto].
      - apply in_s_false in Es. simpl. rewrite IHm. simpl.
        destruct (String.eqb_spec x y) as [->|Ne]; [tauto|]. intuition congruence. }
    rewrite G. simpl. tauto.
Qed.

Definition count_spec (ast : node) (cnt : counts) : Prop :=
  let fs := filter is_func (kidl ast "ext") in
  let ls := flat_map spec_loop_nodes fs in
  n_func cnt = length fs /\ n_loops cnt = length ls /\
  (exists vf, Forall2 (fun f v => vars_of [f] = Some v) fs vf /\ n_func_vars cnt = fold_right (fun v acc => length v + acc) 0 vf) /\
  (exists vl, Forall2 (fun l v => vars_of [l] = Some v) ls vl /\ n_loop_vars cnt = fold_right (fun v acc => length v + acc) 0 vl).

Lemma osum_vars (ns : list node) n :
  osum (map (fun f => olen (vars_of [f])) ns) = Some n ->
  exists vs, Forall2 (fun f v => vars_of [f] = Some v) ns vs /\ n = fold_right (fun v acc => length v + acc) 0 vs.
Proof.
  revert n. induction ns as [|f ns IH]; intros n H; simpl in H.
  - inversion H. exists []. split; [constructor | reflexivity].
  - destruct (vars_of [f]) as [v|] eqn:E; simpl in H; [|discriminate].
    destruct (osum (map (fun f0 => olen (vars_of [f0])) ns)) as [m|] eqn:Em; [|discriminate].
    inversion H; subst. destruct (IH m eq_refl) as [vs [F Hm]]. exists (v :: vs). split; [constructor; assumption|].
    simpl. rewrite Hm. reflexivity.
Qed.

Theorem counts_partial ast cnt :
  Forall plain_tree (filter is_func (kidl ast "ext")) -> take_counts ast = Some cnt -> count_spec ast cnt.
Proof.
  intros HP. unfold take_counts, funcs. set (fs := filter is_func (kidl ast "ext")) in *.
  assert (HL : map loops_of fs = map (fun f => Some (spec_loop_nodes f)) fs).
  { induction fs as [|f l IHl]; simpl; [reflexivity|]. inversion HP; subst. rewrite loops_of_partial by assumption. f_equal. apply IHl. assumption. }
  rewrite HL.
  assert (HA : forallb (fun o : option (list node) => match o with Some _ => true | None => false end)
                       (map (fun f => Some (spec_loop_nodes f)) fs) = true).
  { clear. induction fs; simpl; [reflexivity | assumption]. }
  rewrite HA.
  assert (HF : flat_map (fun o : option (list node) => match o with Some l => l | None => [] end)
                        (map (fun f => Some (spec_loop_nodes f)) fs) = flat_map spec_loop_nodes fs).
  { clear. induction fs; simpl; [reflexivity | f_equal; assumption]. }
  rewrite HF.
  destruct (osum (map (fun f => olen (vars_of [f])) fs)) as [fv|] eqn:E1; [|discriminate].
  destruct (osum (map (fun l => olen (vars_of [l])) (flat_map spec_loop_nodes fs))) as [lv|] eqn:E2; [|discriminate].
  intros E. inversion E; subst. unfold count_spec. simpl. fold fs.
  split; [reflexivity|]. split; [reflexivity|]. split; [apply osum_vars; assumption | apply osum_vars; assumption].
Qed.
