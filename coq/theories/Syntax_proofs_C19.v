(* C19: specification of loop discovery / statistics and the proofs relating the model of
   FindLoops / take_counts (Syntax.v) to it. *)
From Coq Require Import String List Bool Arith Lia.
From PMGen Require Import SyntaxGen PycSchema.
From PM Require Import Tree Syntax Syntax_proofs.
Import ListNotations.
Open Scope string_scope.
Open Scope list_scope.

(* ------------------------------------------------------------------------- *)
(* Specification                                                               *)
(* ------------------------------------------------------------------------- *)
(* the positions the specification walks through: (slot, is it a list slot).  Statement positions:
   FuncDef body, Compound, If, While, DoWhile, For, Switch, Case, Default; plus the three list nodes
   BaseAnalysis iterates (ExprList, DeclList, ParamList), which in a parsed C file hold expressions and
   declarations only -- never a loop -- so that on parse trees they contribute nothing. *)
Definition thr (c : string) : list (string * bool) :=
  if String.eqb c "FuncDef" then [("body", false)]
  else if String.eqb c "Compound" then [("block_items", true)]
  else if String.eqb c "If" then [("iftrue", false); ("iffalse", false)]
  else if String.eqb c "While" || String.eqb c "DoWhile" || String.eqb c "For" || String.eqb c "Switch" then [("stmt", false)]
  else if String.eqb c "Case" || String.eqb c "Default" then [("stmts", true)]
  else if String.eqb c "ExprList" then [("exprs", true)]
  else if String.eqb c "DeclList" then [("decls", true)]
  else if String.eqb c "ParamList" then [("params", true)]
  else [].

Definition pfx (st : string * nat) (pn : path * node) : path * node := (st :: fst pn, snd pn).

Definition spec_step (c : string) (a : list (string * string)) (ks : list (string * list node))
           (aks : list (string * list (ann (list (path * node))))) : list (path * node) :=
  ([], Node c a ks) ::
  flat_map (fun sm : string * bool =>
              let s := fst sm in
              if snd sm then concat (mapi (fun i x => map (pfx (s, i)) (ares x)) (akl aks s))
              else match ak1 aks s with Some x => map (pfx (s, 0)) (ares x) | None => [] end) (thr c).

(* preorder (source order, any depth) *)
Definition spec_pre (n : node) : list (path * node) := walk spec_step n.

(* a while, a do-while, or a counted for *)
Definition loop_node (n : node) : bool :=
  is_cls "While" n || is_cls "DoWhile" n ||
  (is_cls "For" n && match loop_compat n with LcYes _ => true | _ => false end).

Definition spec_loops (f : node) : list path := map fst (filter (fun pn => loop_node (snd pn)) (spec_pre f)).

(* ------------------------------------------------------------------------- *)
(* FindLoops = the specification                                               *)
(* ------------------------------------------------------------------------- *)
Lemma spec_pre_eq c a ks :
  spec_pre (Node c a ks) =
  ([], Node c a ks) ::
  flat_map (fun sm : string * bool =>
              let s := fst sm in
              if snd sm then concat (mapi (fun i x => map (pfx (s, i)) (spec_pre x)) (kidl (Node c a ks) s))
              else match kid1 (Node c a ks) s with Some x => map (pfx (s, 0)) (spec_pre x) | None => [] end) (thr c).
Proof.
  unfold spec_pre at 1. rewrite walk_eq. unfold spec_step at 1. f_equal.
  apply flat_map_ext. intros [s m]. cbn [fst snd]. destruct m.
  - rewrite (akl_node spec_step c a ks s). unfold mapi. f_equal.
    generalize 0. induction (kidl (Node c a ks) s) as [|x l IH]; intros k; simpl; [reflexivity|].
    rewrite IH. reflexivity.
  - rewrite (ak1_node spec_step c a ks s). destruct (kid1 (Node c a ks) s); reflexivity.
Qed.

Definition lp (pn : path * node) : bool := loop_node (snd pn).

Lemma loops_pfx st l :
  map LLoop (map fst (filter lp (map (pfx st) l))) = map (lpush [st]) (map LLoop (map fst (filter lp l))).
Proof.
  induction l as [|[p n] l IH]; [reflexivity|].
  cbn [map filter]. replace (lp (pfx st (p, n))) with (loop_node n) by reflexivity.
  replace (lp (p, n)) with (loop_node n) by reflexivity.
  destruct (loop_node n); cbn [map fst pfx]; rewrite IH; reflexivity.
Qed.

Lemma filter_concat {A} (f : A -> bool) (ls : list (list A)) : filter f (concat ls) = concat (map (filter f) ls).
Proof. induction ls; simpl; [reflexivity|]. rewrite filter_app, IHls. reflexivity. Qed.

Lemma Forall_concat {A} (P : A -> Prop) (ls : list (list A)) : Forall P (concat ls) <-> Forall (Forall P) ls.
Proof.
  induction ls; simpl; split; intros H; try constructor.
  - apply Forall_app in H. tauto.
  - apply Forall_app in H. apply IHls. tauto.
  - inversion H; subst. apply Forall_app. split; [assumption | apply IHls; assumption].
Qed.

Lemma lraises_app a b : lraises (a ++ b) = lraises a || lraises b.
Proof. unfold lraises. apply existsb_app. Qed.
Lemma lraises_lpush pre l : lraises (map (lpush pre) l) = lraises l.
Proof. induction l as [|[p|] l IH]; simpl; [reflexivity | exact IH | reflexivity]. Qed.

(* no exception below x => FindLoops on x is the specification on x *)
Definition fl_ok (x : node) : Prop := lraises (fl_items x) = false -> fl_items x = map LLoop (spec_loops x).

Definition fl_rec1 (ks : list (string * list node)) (s : string) : list litem :=
  match ak1 (annk fl_step ks) s with Some x => map (lpush [(s, 0)]) (ares x) | None => [] end.

Lemma rec1_spec c a ks s :
  Forall (fun sk => Forall fl_ok (snd sk)) ks -> lraises (fl_rec1 ks s) = false ->
  fl_rec1 ks s =
  map LLoop (map fst (filter lp (match kid1 (Node c a ks) s with Some x => map (pfx (s, 0)) (spec_pre x) | None => [] end))).
Proof.
  intros IH Hr. unfold fl_rec1 in *. rewrite (ak1_node fl_step c a ks s) in *.
  destruct (kid1 (Node c a ks) s) as [x|] eqn:E; simpl in *; [|reflexivity].
  rewrite ares_annotate in *. rewrite loops_pfx. rewrite lraises_lpush in Hr.
  pose proof (Forall_kid1 fl_ok c a ks s x IH E) as Hx. unfold fl_ok in Hx.
  fold (fl_items x) in *. rewrite (Hx Hr). reflexivity.
Qed.

Lemma iter_spec c a ks s :
  Forall (fun sk => Forall fl_ok (snd sk)) ks -> lraises (fl_iter s (akl (annk fl_step ks) s)) = false ->
  fl_iter s (akl (annk fl_step ks) s) =
  map LLoop (map fst (filter lp (concat (mapi (fun i x => map (pfx (s, i)) (spec_pre x)) (kidl (Node c a ks) s))))).
Proof.
  intros IH. rewrite (akl_node fl_step c a ks s).
  pose proof (Forall_kidl fl_ok c a ks s IH) as F. unfold fl_iter, mapi in *.
  generalize 0. induction (kidl (Node c a ks) s) as [|x l IHl]; intros k Hr; simpl; [reflexivity|].
  inversion F as [|? ? Fx Fl]; subst. simpl in Hr. rewrite lraises_app, ares_annotate, lraises_lpush in Hr.
  apply orb_false_iff in Hr. destruct Hr as [Hr1 Hr2].
  rewrite filter_app, map_app, map_app. rewrite ares_annotate. f_equal.
  - rewrite loops_pfx. fold (fl_items x) in *. rewrite (Fx Hr1). reflexivity.
  - apply IHl; assumption.
Qed.

Lemma fl_items_eq c a ks : fl_items (Node c a ks) = fl_step c a ks (annk fl_step ks).
Proof. reflexivity. Qed.

Ltac thr_is c v :=
  change (thr c) with v in *; cbn [flat_map fst snd] in *; rewrite ?app_nil_r in *.

(* classes that are neither walked through nor recorded *)
Lemma fl_other c a ks aks :
  c <> "FuncDef" -> c <> "Compound" -> c <> "If" -> c <> "While" -> c <> "DoWhile" -> c <> "For" -> c <> "Switch" ->
  c <> "Case" -> c <> "Default" -> c <> "ExprList" -> c <> "DeclList" -> c <> "ParamList" -> c <> "FuncCall" ->
  fl_step c a ks aks = [] /\ thr c = [] /\ loop_node (Node c a ks) = false.
Proof.
  intros N1 N2 N3 N4 N5 N6 N7 N8 N9 N10 N11 N12 N13.
  apply String.eqb_neq in N1, N2, N3, N4, N5, N6, N7, N8, N9, N10, N11, N12, N13.
  split; [|split].
  - unfold fl_step. rewrite N13. unfold resolve, fl_handler.
    change FINDLOOPS_METHODS with ["DoWhile"; "For"; "FuncDef"; "If"; "Switch"; "While"].
    change BASE_METHODS with ["Case"; "Compound"; "DeclList"; "Default"; "ExprList"; "ParamList"].
    change FINDLOOPS_HANDLER_CLASSES with ["While"; "DoWhile"; "For"].
    unfold in_s at 1 2. cbn [existsb]. rewrite N1, N2, N3, N4, N5, N6, N7, N8, N9, N10, N11, N12. cbn [orb].
    destruct (in_s c NODEHANDLER_METHODS); [reflexivity|]. unfold in_s. cbn [existsb]. rewrite N4, N5, N6. reflexivity.
  - unfold thr. rewrite N1, N2, N3, N4, N5, N6, N7, N8, N9, N10, N11, N12. reflexivity.
  - unfold loop_node, is_cls. cbn [ncls]. rewrite N4, N5, N6. reflexivity.
Qed.

Theorem find_loops_spec_items f : fl_ok f.
Proof.
  induction f as [c a ks IH] using node_ind'. fold fl_ok in IH. intros Hr.
  unfold spec_loops. rewrite spec_pre_eq. rewrite fl_items_eq in *. fold lp. cbn [filter].
  destruct (String.eqb_spec c "FuncDef") as [->|N1].
  { thr_is "FuncDef" [("body", false)].
    change (fl_step "FuncDef" a ks (annk fl_step ks)) with (fl_rec1 ks "body") in *.
    change (lp ([], Node "FuncDef" a ks)) with false. cbv iota. apply (rec1_spec "FuncDef" a ks "body" IH Hr). }
  destruct (String.eqb_spec c "Compound") as [->|N2].
  { thr_is "Compound" [("block_items", true)].
    change (fl_step "Compound" a ks (annk fl_step ks)) with (fl_iter "block_items" (akl (annk fl_step ks) "block_items")) in *.
    change (lp ([], Node "Compound" a ks)) with false. cbv iota. apply (iter_spec "Compound" a ks "block_items" IH Hr). }
  destruct (String.eqb_spec c "If") as [->|N3].
  { thr_is "If" [("iftrue", false); ("iffalse", false)].
    change (fl_step "If" a ks (annk fl_step ks)) with (fl_rec1 ks "iftrue" ++ fl_rec1 ks "iffalse") in *.
    change (lp ([], Node "If" a ks)) with false. cbv iota.
    rewrite lraises_app in Hr. apply orb_false_iff in Hr. destruct Hr as [H1 H2].
    rewrite filter_app, map_app, map_app. f_equal;
      [apply (rec1_spec "If" a ks "iftrue" IH H1) | apply (rec1_spec "If" a ks "iffalse" IH H2)]. }
  destruct (String.eqb_spec c "While") as [->|N4].
  { thr_is "While" [("stmt", false)].
    change (fl_step "While" a ks (annk fl_step ks)) with (LLoop [] :: fl_rec1 ks "stmt") in *.
    change (lp ([], Node "While" a ks)) with true. cbv iota. cbn [map fst]. f_equal.
    apply (rec1_spec "While" a ks "stmt" IH Hr). }
  destruct (String.eqb_spec c "DoWhile") as [->|N5].
  { thr_is "DoWhile" [("stmt", false)].
    change (fl_step "DoWhile" a ks (annk fl_step ks)) with (LLoop [] :: fl_rec1 ks "stmt") in *.
    change (lp ([], Node "DoWhile" a ks)) with true. cbv iota. cbn [map fst]. f_equal.
    apply (rec1_spec "DoWhile" a ks "stmt" IH Hr). }
  destruct (String.eqb_spec c "For") as [->|N6].
  { thr_is "For" [("stmt", false)].
    change (fl_step "For" a ks (annk fl_step ks)) with
        (match loop_compat (Node "For" a ks) with
         | LcErr => [LRaise]
         | LcYes _ => LLoop [] :: fl_rec1 ks "stmt"
         | LcNo => fl_rec1 ks "stmt"
         end) in *.
    change (lp ([], Node "For" a ks)) with (match loop_compat (Node "For" a ks) with LcYes _ => true | _ => false end).
    destruct (loop_compat (Node "For" a ks)) eqn:E; [discriminate| |]; cbv iota.
    - apply (rec1_spec "For" a ks "stmt" IH Hr).
    - cbn [map fst]. f_equal. apply (rec1_spec "For" a ks "stmt" IH Hr). }
  destruct (String.eqb_spec c "Switch") as [->|N7].
  { thr_is "Switch" [("stmt", false)].
    change (fl_step "Switch" a ks (annk fl_step ks)) with (fl_rec1 ks "stmt") in *.
    change (lp ([], Node "Switch" a ks)) with false. cbv iota. apply (rec1_spec "Switch" a ks "stmt" IH Hr). }
  destruct (String.eqb_spec c "Case") as [->|N8].
  { thr_is "Case" [("stmts", true)].
    change (fl_step "Case" a ks (annk fl_step ks)) with (fl_iter "stmts" (akl (annk fl_step ks) "stmts")) in *.
    change (lp ([], Node "Case" a ks)) with false. cbv iota. apply (iter_spec "Case" a ks "stmts" IH Hr). }
  destruct (String.eqb_spec c "Default") as [->|N9].
  { thr_is "Default" [("stmts", true)].
    change (fl_step "Default" a ks (annk fl_step ks)) with (fl_iter "stmts" (akl (annk fl_step ks) "stmts")) in *.
    change (lp ([], Node "Default" a ks)) with false. cbv iota. apply (iter_spec "Default" a ks "stmts" IH Hr). }
  destruct (String.eqb_spec c "ExprList") as [->|N10].
  { thr_is "ExprList" [("exprs", true)].
    change (fl_step "ExprList" a ks (annk fl_step ks)) with (fl_iter "exprs" (akl (annk fl_step ks) "exprs")) in *.
    change (lp ([], Node "ExprList" a ks)) with false. cbv iota. apply (iter_spec "ExprList" a ks "exprs" IH Hr). }
  destruct (String.eqb_spec c "DeclList") as [->|N11].
  { thr_is "DeclList" [("decls", true)].
    change (fl_step "DeclList" a ks (annk fl_step ks)) with (fl_iter "decls" (akl (annk fl_step ks) "decls")) in *.
    change (lp ([], Node "DeclList" a ks)) with false. cbv iota. apply (iter_spec "DeclList" a ks "decls" IH Hr). }
  destruct (String.eqb_spec c "ParamList") as [->|N12].
  { thr_is "ParamList" [("params", true)].
    change (fl_step "ParamList" a ks (annk fl_step ks)) with (fl_iter "params" (akl (annk fl_step ks) "params")) in *.
    change (lp ([], Node "ParamList" a ks)) with false. cbv iota. apply (iter_spec "ParamList" a ks "params" IH Hr). }
  destruct (String.eqb_spec c "FuncCall") as [->|N13].
  { change (fl_step "FuncCall" a ks (annk fl_step ks)) with (if fcall_special (Node "FuncCall" a ks) then @nil litem else []).
    destruct (fcall_special (Node "FuncCall" a ks)); reflexivity. }
  destruct (fl_other c a ks (annk fl_step ks)) as [E1 [E2 E3]]; try assumption.
  rewrite E1, E2. unfold lp. cbn [snd]. rewrite E3. reflexivity.
Qed.

Lemma lraises_map_LLoop l : lraises (map LLoop l) = false.
Proof. induction l; simpl; [reflexivity | exact IHl]. Qed.
Lemma lpaths_map_LLoop l : lpaths (map LLoop l) = l.
Proof. induction l; simpl; [reflexivity | f_equal; exact IHl]. Qed.

(* whenever FindLoops returns (the only exception left is the variable walker raising on a FuncDef
   without a declaration, which no parse tree has), it returns the specification's loops *)
Theorem find_loops_spec f l : find_loops f = Some l -> l = spec_loops f.
Proof.
  unfold find_loops. destruct (lraises (fl_items f)) eqn:Hr; [discriminate|]. intros H. inversion H; subst.
  rewrite (find_loops_spec_items f Hr). apply lpaths_map_LLoop.
Qed.

(* regression (D12, fixed by c343838): a block-level typedef is no longer recorded *)
Definition int_type : node := Node "TypeDecl" [("declname", "T"); ("quals", ""); ("align", "")] [("type", [Node "IdentifierType" [("names", "int")] []])].
Definition d12_func : node :=
  Node "FuncDef" []
    [("decl", [Node "Decl" [("name", "f"); ("quals", ""); ("align", ""); ("storage", ""); ("funcspec", "")]
                 [("type", [Node "FuncDecl" [] [("args", []); ("type", [Node "TypeDecl" [("declname", "f"); ("quals", ""); ("align", "")]
                                                                          [("type", [Node "IdentifierType" [("names", "void")] []])]])]]);
                  ("init", []); ("bitsize", [])]]);
     ("param_decls", []);
     ("body", [Node "Compound" [] [("block_items", [Node "Typedef" [("name", "T"); ("quals", ""); ("storage", "typedef")] [("type", [int_type])]])]])].

Example find_loops_d12 : wf_pyc d12_func = true /\ is_func d12_func = true /\ find_loops d12_func = Some [] /\ vars_of [d12_func] = Some [].
Proof. vm_compute. repeat split. Qed.

(* a nest of loops: in branches, blocks, other loops *)
Definition ex_id (x : string) : node := Node "ID" [("name", x)] [].
Definition ex_lt (x y : string) : node := Node "BinaryOp" [("op", "<")] [("left", [ex_id x]); ("right", [ex_id y])].
Definition ex_asg (x y z : string) : node :=
  Node "Assignment" [("op", "=")] [("lvalue", [ex_id x]); ("rvalue", [Node "BinaryOp" [("op", "+")] [("left", [ex_id y]); ("right", [ex_id z])]])].
Definition ex_while (c body : node) : node := Node "While" [] [("cond", [c]); ("stmt", [body])].
Definition ex_block (l : list node) : node := Node "Compound" [] [("block_items", l)].
Definition ex_for (i n : string) (body : node) : node :=
  Node "For" []
    [("init", [Node "Assignment" [("op", "=")] [("lvalue", [ex_id i]); ("rvalue", [Node "Constant" [("type", "int"); ("value", "0")] []])]]);
     ("cond", [ex_lt i n]);
     ("next", [Node "UnaryOp" [("op", "p++")] [("expr", [ex_id i])]]);
     ("stmt", [body])].
Definition ex_func (body : node) : node :=
  Node "FuncDef" [] [("decl", []); ("param_decls", []); ("body", [body])].
Definition ex_nest : node :=
  ex_func (ex_block [ex_for "i" "n" (ex_block [ex_while (ex_lt "x" "y") (ex_block [ex_asg "x" "x" "y"])]);
                     Node "If" [] [("cond", [ex_lt "x" "y"]); ("iftrue", [ex_while (ex_lt "y" "n") (ex_asg "y" "y" "x")]); ("iffalse", [])]]).

Example find_loops_example :
  find_loops ex_nest = Some [[("body", 0); ("block_items", 0)];
                             [("body", 0); ("block_items", 0); ("stmt", 0); ("block_items", 0)];
                             [("body", 0); ("block_items", 1); ("iftrue", 0)]].
Proof. vm_compute. reflexivity. Qed.

(* ------------------------------------------------------------------------- *)
(* statistics                                                                  *)
(* ------------------------------------------------------------------------- *)
Definition spec_loop_nodes (f : node) : list node := map snd (filter lp (spec_pre f)).

Lemma node_at_pfx st p x c a ks i s :
  st = (s, i) -> nth_error (kidl (Node c a ks) s) i = Some x -> node_at (st :: p) (Node c a ks) = node_at p x.
Proof. intros -> E. simpl. rewrite E. reflexivity. Qed.

(* every entry of the traversal is (path, node at that path) *)
Lemma spec_pre_node_at f : Forall (fun pn => node_at (fst pn) f = Some (snd pn)) (spec_pre f).
Proof.
  induction f as [c a ks IH] using node_ind'.
  rewrite spec_pre_eq. constructor; [reflexivity|].
  apply Forall_flat_map. apply Forall_forall. intros [s m] _. simpl. destruct m.
  - pose proof (Forall_kidl _ c a ks s IH) as F.
    assert (G : forall k l, Forall (fun x => Forall (fun pn => node_at (fst pn) x = Some (snd pn)) (spec_pre x)) l ->
                (forall i x, nth_error l i = Some x -> nth_error (kidl (Node c a ks) s) (k + i) = Some x) ->
                Forall (fun pn => node_at (fst pn) (Node c a ks) = Some (snd pn))
                       (concat (mapi_from (fun i x => map (pfx (s, i)) (spec_pre x)) k l))).
    { intros k l. revert k. induction l as [|x l IHl]; intros k Fl Hn; simpl; [constructor|].
      inversion Fl; subst. apply Forall_app. split.
      - apply Forall_map. eapply Forall_impl; [|exact H1]. intros [p n] Hp. simpl in *.
        specialize (Hn 0 x eq_refl). rewrite Nat.add_0_r in Hn. rewrite Hn. exact Hp.
      - apply IHl; [assumption|]. intros i y Hy. specialize (Hn (S i) y Hy).
        replace (S k + i) with (k + S i) by lia. exact Hn. }
    apply (G 0 _ F). intros i x Hx. exact Hx.
  - destruct (kid1 (Node c a ks) s) as [x|] eqn:E; [|constructor].
    pose proof (Forall_kid1 _ c a ks s x IH E) as Hx.
    apply Forall_map. eapply Forall_impl; [|exact Hx]. intros [p n] Hp. simpl in *.
    unfold kid1 in E. destruct (kidl (Node c a ks) s) as [|y l] eqn:K; [discriminate|]. inversion E; subst.
    simpl. exact Hp.
Qed.

Lemma loops_of_spec f l : loops_of f = Some l -> l = spec_loop_nodes f.
Proof.
  unfold loops_of. destruct (find_loops f) as [ps|] eqn:E; [|discriminate]. intros H. inversion H; subst. clear H.
  rewrite (find_loops_spec f ps E).
  unfold spec_loops, spec_loop_nodes.
  pose proof (spec_pre_node_at f) as F.
  induction (spec_pre f) as [|[p n] l IHl]; simpl; [reflexivity|].
  inversion F as [|? ? Fx Fl]; subst. unfold lp at 1 3. simpl. destruct (loop_node n); simpl.
  - simpl in Fx. rewrite Fx. simpl. f_equal. apply IHl. assumption.
  - apply IHl. assumption.
Qed.

(* sorted(vars): duplicates removed, ascending *)
Lemma dedup_not_seen l seen x : In x (dedup l seen) -> ~ In x seen.
Proof.
  revert seen. induction l as [|y l IH]; intros seen H; simpl in H; [contradiction|].
  destruct (in_s y seen) eqn:E.
  - apply IH. exact H.
  - destruct H as [->|H]; [apply in_s_false; exact E|]. apply IH in H. intro. apply H. right. assumption.
Qed.

Lemma dedup_nodup l seen : NoDup (dedup l seen).
Proof.
  revert seen. induction l as [|y l IH]; intros seen; simpl; [constructor|].
  destruct (in_s y seen); [apply IH|]. constructor; [|apply IH].
  intro H. apply dedup_not_seen in H. apply H. left. reflexivity.
Qed.

Lemma insert_s_perm x l : forall y, In y (insert_s x l) <-> y = x \/ In y l.
Proof.
  induction l as [|z l IH]; intros y; simpl; [intuition|].
  destruct (String.leb x z); simpl; [intuition|]. rewrite IH. intuition.
Qed.

Lemma insert_s_nodup x l : NoDup l -> ~ In x l -> NoDup (insert_s x l).
Proof.
  induction l as [|z l IH]; intros N H; simpl; [constructor; [auto|constructor]|].
  destruct (String.leb x z); [constructor; assumption|].
  inversion N; subst. constructor.
  - rewrite insert_s_perm. intros [->|Hi]; [apply H; left; reflexivity | contradiction].
  - apply IH; [assumption|]. intro. apply H. right. assumption.
Qed.

Lemma sort_s_in l y : In y (sort_s l) <-> In y l.
Proof. induction l as [|x l IH]; simpl; [reflexivity|]. rewrite insert_s_perm, IH. intuition. Qed.

Lemma sort_s_nodup l : NoDup l -> NoDup (sort_s l).
Proof.
  induction l as [|x l IH]; intros N; simpl; [constructor|]. inversion N; subst.
  apply insert_s_nodup; [apply IH; assumption|]. rewrite sort_s_in. assumption.
Qed.

Lemma sort_s_length l : length (sort_s l) = length l.
Proof.
  induction l as [|x l IH]; simpl; [reflexivity|]. rewrite <- IH. generalize (sort_s l). intros m.
  induction m as [|z m IHm]; simpl; [reflexivity|]. destruct (String.leb x z); simpl; [reflexivity|]. rewrite IHm. reflexivity.
Qed.

(* the variable list of a node has no repetitions: its length is the number of distinct names found *)
Lemma vars_of_nodup ns l : vars_of ns = Some l -> NoDup l /\ (forall x, In x l <-> In x (vnames_of (flat_map vitems ns))).
Proof.
  unfold vars_of. destruct (vraises (flat_map vitems ns)); [discriminate|]. intros E. inversion E; subst. split.
  - apply sort_s_nodup, dedup_nodup.
  - intros x. rewrite sort_s_in. generalize (vnames_of (flat_map vitems ns)). intros m.
    assert (G : forall seen, In x (dedup m seen) <-> In x m /\ ~ In x seen).
    { induction m as [|y m IHm]; intros seen; simpl; [tauto|].
      destruct (in_s y seen) eqn:Es.
      - rewrite IHm. apply in_s_In in Es. split; [tauto|]. intros [[->|H] N]; [contradiction|tauto].
      - apply in_s_false in Es. simpl. rewrite IHm. simpl.
        destruct (String.eqb_spec x y) as [->|Ne]; [tauto|]. intuition congruence. }
    rewrite G. simpl. tauto.
Qed.

Definition count_spec (ast : node) (cnt : counts) : Prop :=
  let fs := filter is_func (kidl ast "ext") in
  let ls := flat_map spec_loop_nodes fs in
  n_func cnt = length fs /\ n_loops cnt = length ls /\
  (exists vf, Forall2 (fun f v => vars_of [f] = Some v) fs vf /\ n_func_vars cnt = fold_right (fun v acc => length v + acc) 0 vf) /\
  (exists vl, Forall2 (fun l v => vars_of [l] = Some v) ls vl /\ n_loop_vars cnt = fold_right (fun v acc => length v + acc) 0 vl).

Lemma osum_vars (ns : list node) n :
  osum (map (fun f => olen (vars_of [f])) ns) = Some n ->
  exists vs, Forall2 (fun f v => vars_of [f] = Some v) ns vs /\ n = fold_right (fun v acc => length v + acc) 0 vs.
Proof.
  revert n. induction ns as [|f ns IH]; intros n H; simpl in H.
  - inversion H. exists []. split; [constructor | reflexivity].
  - destruct (vars_of [f]) as [v|] eqn:E; simpl in H; [|discriminate].
    destruct (osum (map (fun f0 => olen (vars_of [f0])) ns)) as [m|] eqn:Em; [|discriminate].
    inversion H; subst. destruct (IH m eq_refl) as [vs [F Hm]]. exists (v :: vs). split; [constructor; assumption|].
    simpl. rewrite Hm. reflexivity.
Qed.

Theorem counts_spec ast cnt : take_counts ast = Some cnt -> count_spec ast cnt.
Proof.
  unfold take_counts, funcs. set (fs := filter is_func (kidl ast "ext")) in *.
  destruct (forallb (fun o : option (list node) => match o with Some _ => true | None => false end) (map loops_of fs)) eqn:HA; [|discriminate].
  assert (HF : flat_map (fun o : option (list node) => match o with Some l => l | None => [] end) (map loops_of fs)
               = flat_map spec_loop_nodes fs).
  { clear - HA. induction fs as [|f l IHl]; simpl in *; [reflexivity|].
    apply andb_true_iff in HA. destruct HA as [H1 H2]. destruct (loops_of f) as [lf|] eqn:E; [|discriminate].
    rewrite (loops_of_spec f lf E). f_equal. apply IHl. exact H2. }
  rewrite HF.
  destruct (osum (map (fun f => olen (vars_of [f])) fs)) as [fv|] eqn:E1; [|discriminate].
  destruct (osum (map (fun l => olen (vars_of [l])) (flat_map spec_loop_nodes fs))) as [lv|] eqn:E2; [|discriminate].
  intros E. inversion E; subst. unfold count_spec. simpl. fold fs.
  split; [reflexivity|]. split; [reflexivity|]. split; [apply osum_vars; assumption | apply osum_vars; assumption].
Qed.
