(* Executable, code-shaped model of pymwp/monomial.py and pymwp/polynomial.py.
   No proofs here (see Poly_sem.v, Poly_add.v, Poly_times.v). *)
From Coq Require Import List Bool Arith Lia.
From PM Require Import Semiring.
Import ListNotations.

Definition delta := (nat * nat)%type.          (* (choice value, site index) *)

Definition delta_eqb (a b : delta) : bool :=
  Nat.eqb (fst a) (fst b) && Nat.eqb (snd a) (snd b).

Record mono := Mono { sc : Sc; ds : list delta }.
Definition poly := list mono.                    (* Polynomial.list *)

Inductive incl_res := CONTAINS | INCLUDED | EMPTYI.   (* SetInclusion *)
Inductive cmp_res := SMALLER | EQUALC | LARGER.       (* Comparison *)

(* ---------------- Monomial ---------------- *)

(* Monomial.insert_delta: None = the Python returns [] because of a conflicting delta *)
Fixpoint insert_delta (l : list delta) (d : delta) : option (list delta) :=
  match l with
  | [] => Some [d]
  | h :: t =>
      if Nat.ltb (snd h) (snd d) then
        match insert_delta t d with
        | Some r => Some (h :: r)
        | None => None
        end
      else if Nat.eqb (snd h) (snd d) then
        (if Nat.eqb (fst h) (fst d) then Some l else None)
      else Some (d :: l)
  end.

(* Monomial.insert_deltas on (scalar, deltas): stops and zeroes the monomial on a conflict *)
Fixpoint insert_deltas (s : Sc) (cur : list delta) (new : list delta) : mono :=
  match new with
  | [] => Mono s cur
  | d :: t =>
      match insert_delta cur d with
      | Some r => insert_deltas s r t
      | None => Mono O []
      end
  end.

(* Monomial(scalar, deltas_list): the constructor re-inserts every delta *)
Definition mk_mono (s : Sc) (l : list delta) : mono := insert_deltas s [] l.

Definition mono_copy (m : mono) : mono := mk_mono (sc m) (ds m).

Definition delta_in (d : delta) (l : list delta) : bool := existsb (delta_eqb d) l.

(* self.contains(m): every delta of m is in self *)
Definition mcontains (self m : mono) : bool := forallb (fun b => delta_in b (ds self)) (ds m).

Definition minclusion (self m : mono) : incl_res :=
  let summ := ssum (sc self) (sc m) in
  if mcontains self m && sc_eqb (sc m) summ then CONTAINS
  else if mcontains m self && sc_eqb (sc self) summ then INCLUDED
  else EMPTYI.

Definition mprod (self m : mono) : mono :=
  let p := mono_copy self in
  let s := sprod (sc self) (sc m) in
  match s with
  | O => Mono O []
  | _ => match ds m with
         | [] => Mono s (ds p)
         | _ => insert_deltas s (ds p) (ds m)
         end
  end.

(* choice vectors: total functions index -> value (a Python tuple is a finite prefix) *)
Definition choice := nat -> nat.

Definition dmatch (c : choice) (d : delta) : bool := Nat.eqb (fst d) (c (snd d)).
Definition mmatch (c : choice) (l : list delta) : bool := forallb (dmatch c) l.

(* Monomial.choice_scalar *)
Definition mchoice (m : mono) (c : choice) : option Sc :=
  if mmatch c (ds m) then Some (sc m) else None.

(* ---------------- Polynomial ---------------- *)

Definition zero_poly : poly := [Mono O []].

(* Polynomial( *monomials) *)
Definition mk_poly (l : list mono) : poly := match l with [] => zero_poly | _ => l end.

Definition poly_copy (p : poly) : poly := mk_poly (map mono_copy p).

Definition delta_ltb (a b : delta) : bool :=   (* (i,j) < (m,n) iff j<n or (j==n and i<m) *)
  Nat.ltb (snd a) (snd b) || (Nat.eqb (snd a) (snd b) && Nat.ltb (fst a) (fst b)).

Fixpoint compare (l1 l2 : list delta) : cmp_res :=
  match l1, l2 with
  | [], [] => EQUALC
  | [], _ :: _ => SMALLER
  | _ :: _, [] => LARGER
  | a :: t1, b :: t2 =>
      if delta_eqb a b then compare t1 t2
      else if delta_ltb a b then SMALLER else LARGER
  end.

(* Polynomial.inclusion(list_monom, mono, i): returns (to-be-inserted?, shifted i, pruned list).
   [j] is the Python loop index, [acc] the already scanned, kept prefix in reverse. *)
Fixpoint pincl_go (rest : list mono) (mn : mono) (j i : nat) (acc : list mono)
  : bool * nat * list mono :=
  match rest with
  | [] => (true, i, rev acc)
  | m :: t =>
      match minclusion m mn with
      | CONTAINS => pincl_go t mn j (if Nat.ltb j i then i - 1 else i) acc
      | INCLUDED => (false, i, rev_append acc (m :: t))
      | EMPTYI => pincl_go t mn (S j) i (m :: acc)
      end
  end.

Definition pincl (l : list mono) (mn : mono) (i : nat) : bool * nat * list mono :=
  pincl_go l mn 0 i [].

Definition set_sc (m : mono) (s : Sc) : mono := Mono s (ds m).

Fixpoint list_insert {A} (l : list A) (i : nat) (x : A) : list A :=
  match i, l with
  | 0, _ => x :: l
  | S k, [] => [x]
  | S k, h :: t => h :: list_insert t k x
  end.

Fixpoint list_update {A} (l : list A) (i : nat) (f : A -> A) : list A :=
  match l, i with
  | [], _ => []
  | h :: t, 0 => f h :: t
  | h :: t, S k => h :: list_update t k f
  end.

(* the tail loop of add: `for m in polynomial.list[j:]` *)
Fixpoint add_tail (new_list : list mono) (rest : list mono) (i : nat) : list mono :=
  match rest with
  | [] => new_list
  | m :: t =>
      let '(tobe, i', nl) := pincl new_list m i in
      add_tail (if tobe then nl ++ [m] else nl) t i'
  end.

(* the main while loop of add; [q] = polynomial.list[j:]; None = out of fuel *)
Fixpoint add_loop (fuel : nat) (new_list : list mono) (q : list mono) (i : nat) : option (list mono) :=
  match fuel with
  | 0 => None
  | S fuel' =>
      match q with
      | [] => Some new_list
      | mono2 :: q' =>
          let '(tobe, i1, nl) := pincl new_list mono2 i in
          if negb tobe then add_loop fuel' nl q' i1
          else if Nat.eqb i1 (length nl) then Some (add_tail nl q i1)
          else
            match nth_error nl i1 with
            | None => None       (* unreachable: i1 <= len *)
            | Some mono1 =>
                match compare (ds mono1) (ds mono2) with
                | SMALLER => add_loop fuel' nl q (S i1)
                | LARGER => add_loop fuel' (list_insert nl i1 mono2) q' (S i1)
                | EQUALC => add_loop fuel' (list_update nl i1 (fun m => set_sc m (ssum (sc mono1) (sc mono2)))) q' i1
                end
            end
      end
  end.

(* Polynomial.sort_monomials: merge of the two recursively sorted halves;
   NOTE the Python sorts the SECOND half into `left` and the first half into `right`. *)
Fixpoint merge_fuel (fuel : nat) (left right : list mono) : list mono :=
  match fuel with
  | 0 => right ++ left
  | S f =>
      match left, right with
      | lh :: lt, rh :: rt =>
          match compare (ds lh) (ds rh) with
          | SMALLER => lh :: merge_fuel f lt right
          | LARGER => rh :: merge_fuel f left rt
          | EQUALC =>
              let s := ssum (sc lh) (sc rh) in
              match s with
              | O => merge_fuel f lt rt
              | _ => set_sc lh s :: merge_fuel f lt rt
              end
          end
      | _, _ => right ++ left
      end
  end.

Definition merge (left right : list mono) : list mono :=
  merge_fuel (length left + length right) left right.

Fixpoint sort_fuel (fuel : nat) (l : list mono) : list mono :=
  match fuel with
  | 0 => l
  | S f =>
      match l with
      | [] | [_] => l
      | _ =>
          let mid := Nat.div2 (length l) in
          let left := sort_fuel f (skipn mid l) in
          let right := sort_fuel f (firstn mid l) in
          merge left right
      end
  end.

Definition sort_monomials (l : list mono) : list mono := sort_fuel (length l) l.

Definition is_O (s : Sc) : bool := match s with O => true | _ => false end.

Definition remove_zeros (l : list mono) : poly :=
  match filter (fun m => negb (is_O (sc m))) l with
  | [] => zero_poly
  | r => r
  end.

Definition add_fuel_for (p q : poly) : nat := 2 * (length p + length q) + 2.

(* Polynomial.add; None only if the fuel were insufficient (proved impossible) *)
Definition padd_opt (p q : poly) : option poly :=
  match p, q with
  | [], [] => Some zero_poly
  | [], _ => Some (poly_copy q)
  | _, [] => Some (poly_copy p)
  | _, _ =>
      match add_loop (add_fuel_for p q) (poly_copy p) q 0 with
      | None => None
      | Some nl => Some (remove_zeros (mk_poly (sort_monomials nl)))
      end
  end.

Definition padd (p q : poly) : poly :=
  match padd_opt p q with Some r => r | None => zero_poly end.

(* ---- times ---- *)

(* insert a row into the ordered list of rows: before the first row whose head compares LARGER
   than ours (compare(t1,t2)==SMALLER), else at the end *)
Fixpoint insert_row (row : list mono) (rows : list (list mono)) : list (list mono) :=
  match rows with
  | [] => [row]
  | r :: rs =>
      match row, r with
      | m1 :: _, m2 :: _ =>
          match compare (ds m1) (ds m2) with
          | SMALLER => row :: rows
          | _ => r :: insert_row row rs
          end
      | _, _ => r :: insert_row row rs
      end
  end.

Fixpoint merge_rows (fuel : nat) (rows : list (list mono)) (result : list mono) : option (list mono) :=
  match fuel with
  | 0 => match rows with [] => Some result | _ => None end
  | S f =>
      match rows with
      | [] => Some result
      | [] :: rest => merge_rows f rest result            (* never happens: rows are non-empty *)
      | (m :: tl) :: rest =>
          let '(tobe, _, res1) := pincl result m 0 in
          let res2 := if tobe then res1 ++ [m] else res1 in
          let rows' := match tl with [] => rest | _ => insert_row tl rest end in
          merge_rows f rows' res2
      end
  end.

Definition products (p q : poly) : list (list mono) :=
  map (fun m2 => filter (fun m => negb (is_O (sc m))) (map (fun m1 => mprod m1 m2) p)) q.

Definition is_nil {A} (l : list A) : bool := match l with [] => true | _ => false end.

Definition table_of (p q : poly) : list (list mono) :=
  filter (fun r => negb (is_nil r)) (products p q).

Definition order_rows (table : list (list mono)) : list (list mono) :=
  match table with
  | [] => []
  | r0 :: rest => fold_left (fun acc r => insert_row r acc) rest [r0]
  end.

Definition total_len (rows : list (list mono)) : nat := fold_right (fun r n => length r + n) 0 rows.

Definition ptimes_opt (p q : poly) : option poly :=
  let table := table_of p q in
  match table with
  | [] => Some zero_poly
  | _ =>
      match merge_rows (total_len table + 1) (order_rows table) [] with
      | None => None
      | Some res => Some (remove_zeros (mk_poly res))
      end
  end.

Definition ptimes (p q : poly) : poly :=
  match ptimes_opt p q with Some r => r | None => zero_poly end.

(* ---- evaluation ---- *)

Definition terms (p : poly) (c : choice) : list Sc :=
  map sc (filter (fun m => mmatch c (ds m)) p).

Definition ssum_list (l : list Sc) : Sc := fold_right ssum O l.

(* Polynomial.choice_scalar( *choices, least_scalar): `if scalar` drops only None (all scalars are
   non-empty strings); reduce(sum_mwp, scalars) *)
Definition pchoice (p : poly) (c : choice) (least : option Sc) : option Sc :=
  match terms p c with
  | [] => least
  | l => Some (ssum_list l)
  end.

Definition val (p : poly) (c : choice) : Sc := ssum_list (terms p c).

(* Polynomial.eval( *scalars): delta lists of monomials whose scalar is in scalars + ('i',) *)
Definition peval (p : poly) (scalars : list Sc) : list (list delta) :=
  map ds (filter (fun m => existsb (sc_eqb (sc m)) (scalars ++ [I])) p).

Definition some_infty (p : poly) : bool := existsb (fun m => sc_eqb (sc m) I) p.

Fixpoint list_eqb {A} (e : A -> A -> bool) (a b : list A) : bool :=
  match a, b with
  | [], [] => true
  | x :: s, y :: t => e x y && list_eqb e s t
  | _, _ => false
  end.

Definition mono_eqb (a b : mono) : bool := sc_eqb (sc a) (sc b) && list_eqb delta_eqb (ds a) (ds b).
Definition poly_eqb (a b : poly) : bool := list_eqb mono_eqb a b.   (* Polynomial.equal *)

(* Polynomial.from_scalars(index, *scalars) *)
Definition from_scalars (index : nat) (l : list Sc) : poly :=
  mk_poly (map (fun '(n, s) => mk_mono s [(n, index)]) (combine (seq 0 (length l)) l)).

Definition choice_of_list (l : list nat) : choice := fun i => nth i l 0.
