(* Closing a loop around an analysed body: the fixpoint + W correction (+ delta-graph step) of
   Analysis.close_while simulates Calculus.d_while, and the fixpoint + L correction of
   Analysis.close_for simulates Calculus.d_for (statements in An_stmts.v).
   Helpers: An_close_alg.v (scalar matrices), An_close_dg.v (delta graph). *)
From Coq Require Import String List Bool Arith Lia.
From PM Require Import Semiring Poly Poly_sem Rel Analysis Calculus Rel_sem Sem_stmts An_stmts
  Calc_alg An_close_alg An_close_dg.
From PM Require DeltaGraph Poly_wf Rel_hom Rel_ops Rel_ops_closed Rel_fix Rel_fix_closed Rel_corr_base
  Rel_corr Rel_dom.
From PMGen Require Import RulesGen.
Import ListNotations.
Open Scope list_scope.

(* ------------------------------------------------------------------ *)
(* relations: identity extension, the two trivial left operands        *)

Lemma val_id_cell (b : bool) c : val (if b then unit_poly else zero_poly) c = if b then M else O.
Proof. destruct b; reflexivity. Qed.

Lemma rval_id_outside r c : id_outside (rvars r) (rval r c).
Proof.
  intros x y Hxy. unfold rval, sid.
  assert (E : cell r x y = if String.eqb x y then unit_poly else zero_poly).
  { destruct Hxy as [H|H]; apply Rel_hom.index_of_str_none in H.
    - apply Rel_hom.cell_outside_l; exact H.
    - apply Rel_hom.cell_outside_r; exact H. }
  rewrite E. apply val_id_cell.
Qed.

Lemma clean_finite_on V r c : clean r c -> finite_on V (rval r c).
Proof. intros H x y _ _. apply Rel_ops.clean_ne_I. exact H. Qed.

Lemma wf_rel_empty : wf_rel rel_empty.
Proof. unfold wf_rel. cbn. repeat split; constructor. Qed.

Lemma rel_pwf_empty : rel_pwf rel_empty.
Proof. unfold rel_pwf. cbn. constructor. Qed.

Lemma clean_rel_empty c : clean rel_empty c.
Proof. intros x y Hx. destruct Hx. Qed.

Lemma rval_rel_empty c x y : rval rel_empty c x y = sid x y.
Proof.
  unfold rval. rewrite (Rel_hom.cell_no_vars rel_empty x y eq_refl). unfold sid. apply val_id_cell.
Qed.

Lemma rel_zero1 x : x <> EmptyString -> rel_zero [x] = Rel [x] [[zero_poly]].
Proof.
  intros H. unfold rel_zero, mk_rel. cbn [filter]. rewrite (Rel_hom.nonempty_str_true x H). reflexivity.
Qed.

Lemma wf_rel_zero1 x : x <> EmptyString -> wf_rel (rel_zero [x]).
Proof.
  intros H. rewrite (rel_zero1 x H). unfold wf_rel. cbn [rvars rmat length].
  split; [constructor; [intros []|constructor]|].
  split; [constructor; [exact H|constructor]|].
  split; [reflexivity|]. constructor; [reflexivity|constructor].
Qed.

Lemma rel_pwf_zero1 x : x <> EmptyString -> rel_pwf (rel_zero [x]).
Proof.
  intros H. rewrite (rel_zero1 x H). unfold rel_pwf. cbn [rmat].
  constructor; [|constructor]. constructor; [apply Poly_wf.pwf_zero_poly | constructor].
Qed.

Lemma rval_rel_zero1 x c u v : x <> EmptyString ->
  rval (rel_zero [x]) c u v = if String.eqb u x && String.eqb v x then O else sid u v.
Proof.
  intros H. rewrite (rel_zero1 x H). unfold rval, cell. cbn [rvars rmat index_of_str].
  destruct (String.eqb u x) eqn:Eu; cbn [option_map andb].
  - destruct (String.eqb v x) eqn:Ev; cbn [option_map].
    + reflexivity.
    + unfold sid. apply val_id_cell.
  - unfold sid. apply val_id_cell.
Qed.

Lemma clean_rel_zero1 x c : x <> EmptyString -> clean (rel_zero [x]) c.
Proof.
  intros H u v _ _. rewrite (rval_rel_zero1 x c u v H).
  destruct (String.eqb u x && String.eqb v x); [discriminate | apply sid_fin].
Qed.

Lemma sumS_all_O {T} (f : T -> Sc) l : (forall k, In k l -> f k = O) -> sumS f l = O.
Proof.
  intros H. apply sc_le_antisym; [|apply sc_le_O]. apply sumS_le_iff. intros k Hk.
  rewrite (H k Hk). apply sc_le_refl.
Qed.

(* r0 of close_while: composing with the empty relation changes nothing *)
Lemma comp_empty_sem rb : wf_rel rb -> rel_pwf rb ->
  let r0 := rel_comp rel_empty rb in
  wf_rel r0 /\ rel_pwf r0 /\ (forall v, In v (rvars r0) <-> In v (rvars rb)) /\
  forall c, clean rb c -> clean r0 c /\ eqV (rvars r0) (rval r0 c) (rval rb c).
Proof.
  intros Hwf Hpwf r0.
  destruct (Rel_ops_closed.rel_comp_sem rel_empty rb wf_rel_empty Hwf rel_pwf_empty Hpwf)
    as [W [Pw [Vs _]]].
  fold r0 in W, Pw, Vs.
  split; [exact W|]. split; [exact Pw|]. split.
  { intros v. rewrite (Vs v). change (rvars rel_empty) with (@nil string). simpl. tauto. }
  intros c Hc.
  assert (Hval : eqV (rvars r0) (rval r0 c) (rval rb c)).
  { intros x y Hx Hy. unfold r0.
    rewrite (Rel_ops_closed.rel_comp_clean rel_empty rb c wf_rel_empty Hwf rel_pwf_empty Hpwf
               (clean_rel_empty c) Hc x y Hx Hy).
    transitivity (smul (rvars (rel_comp rel_empty rb)) sid (rval rb c) x y).
    - apply smul_ext; [intros a b _ _; apply rval_rel_empty | apply eqV_refl | exact Hx | exact Hy].
    - apply smul_id_l; [intros k _; apply Rel_ops.clean_ne_I; exact Hc | exact Hx]. }
  split; [|exact Hval].
  intros x y Hx Hy. rewrite (Hval x y Hx Hy). apply Rel_ops.clean_ne_I. exact Hc.
Qed.

(* r0 of close_for: composing with Relation([x]) zeroes the row of x *)
Lemma comp_zero_sem x rb : x <> EmptyString -> wf_rel rb -> rel_pwf rb ->
  let r0 := rel_comp (rel_zero [x]) rb in
  wf_rel r0 /\ rel_pwf r0 /\ (forall v, In v (rvars r0) <-> v = x \/ In v (rvars rb)) /\
  forall c, clean rb c -> clean r0 c /\
    forall u v, In u (rvars r0) -> In v (rvars r0) ->
      rval r0 c u v = if String.eqb u x then O else rval rb c u v.
Proof.
  intros Hx Hwf Hpwf r0.
  pose proof (wf_rel_zero1 x Hx) as Wz. pose proof (rel_pwf_zero1 x Hx) as Pz.
  destruct (Rel_ops_closed.rel_comp_sem (rel_zero [x]) rb Wz Hwf Pz Hpwf) as [W [Pw [Vs _]]].
  fold r0 in W, Pw, Vs.
  split; [exact W|]. split; [exact Pw|]. split.
  { intros v. rewrite (Vs v). rewrite (rel_zero1 x Hx). cbn [rvars In]. intuition congruence. }
  intros c Hc.
  assert (Hval : forall u v, In u (rvars r0) -> In v (rvars r0) ->
                   rval r0 c u v = if String.eqb u x then O else rval rb c u v).
  { intros u v Hu Hv. unfold r0.
    rewrite (Rel_ops_closed.rel_comp_clean (rel_zero [x]) rb c Wz Hwf Pz Hpwf
               (clean_rel_zero1 x c Hx) Hc u v Hu Hv).
    destruct (String.eqb u x) eqn:Eu.
    - rewrite smul_sumS. apply sumS_all_O. intros k _.
      rewrite (rval_rel_zero1 x c u k Hx), Eu. cbn [andb].
      destruct (String.eqb k x) eqn:Ek.
      + apply sprod_O_l_fin. apply Rel_ops.clean_ne_I. exact Hc.
      + apply String.eqb_eq in Eu. subst u. rewrite sid_neq.
        * apply sprod_O_l_fin. apply Rel_ops.clean_ne_I. exact Hc.
        * intros E. subst k. rewrite String.eqb_refl in Ek. discriminate.
    - transitivity (smul (rvars (rel_comp (rel_zero [x]) rb)) sid (rval rb c) u v).
      + rewrite !smul_sumS. apply sumS_ext. intros k _. cbv beta.
        rewrite (rval_rel_zero1 x c u k Hx), Eu. reflexivity.
      + apply smul_id_l; [intros k _; apply Rel_ops.clean_ne_I; exact Hc | exact Hu]. }
  split; [|exact Hval].
  intros u v Hu Hv. rewrite (Hval u v Hu Hv).
  destruct (String.eqb u x); [discriminate | apply Rel_ops.clean_ne_I; exact Hc].
Qed.
