(* Closing a loop around an analysed body: the fixpoint + W correction (+ delta-graph step) of
   Analysis.close_while simulates Calculus.d_while, and the fixpoint + L correction of
   Analysis.close_for simulates Calculus.d_for (statements in An_stmts.v).
   Helpers: An_close_alg.v (scalar matrices), An_close_dg.v (delta graph). *)
From Coq Require Import String List Bool Arith Lia.
From PM Require Import Semiring Poly Poly_sem Rel Analysis Calculus Rel_sem Sem_stmts An_stmts
  Calc_alg An_close_alg An_close_dg.
From PM Require DeltaGraph Poly_wf Rel_hom Rel_ops Rel_ops_closed Rel_fix Rel_fix_closed Rel_corr_base
  Rel_corr Rel_dom.
From PMGen Require Import RulesGen.
Import ListNotations.
Open Scope list_scope.

(* ------------------------------------------------------------------ *)
(* relations: identity extension, the two trivial left operands        *)

Lemma val_id_cell (b : bool) c : val (if b then unit_poly else zero_poly) c = if b then M else O.
Proof. destruct b; reflexivity. Qed.

Lemma rval_id_outside r c : id_outside (rvars r) (rval r c).
Proof.
  intros x y Hxy. unfold rval, sid.
  assert (E : cell r x y = if String.eqb x y then unit_poly else zero_poly).
  { destruct Hxy as [H|H]; apply Rel_hom.index_of_str_none in H.
    - apply Rel_hom.cell_outside_l; exact H.
    - apply Rel_hom.cell_outside_r; exact H. }
  rewrite E. apply val_id_cell.
Qed.

Lemma clean_finite_on V r c : clean r c -> finite_on V (rval r c).
Proof. intros H x y _ _. apply Rel_ops.clean_ne_I. exact H. Qed.

Lemma wf_rel_empty : wf_rel rel_empty.
Proof. unfold wf_rel. cbn. repeat split; constructor. Qed.

Lemma rel_pwf_empty : rel_pwf rel_empty.
Proof. unfold rel_pwf. cbn. constructor. Qed.

Lemma clean_rel_empty c : clean rel_empty c.
Proof. intros x y Hx. destruct Hx. Qed.

Lemma rval_rel_empty c x y : rval rel_empty c x y = sid x y.
Proof.
  unfold rval. rewrite (Rel_hom.cell_no_vars rel_empty x y eq_refl). unfold sid. apply val_id_cell.
Qed.

Lemma rel_zero1 x : x <> EmptyString -> rel_zero [x] = Rel [x] [[zero_poly]].
Proof.
  intros H. unfold rel_zero, mk_rel. cbn [filter]. rewrite (Rel_hom.nonempty_str_true x H). reflexivity.
Qed.

Lemma wf_rel_zero1 x : x <> EmptyString -> wf_rel (rel_zero [x]).
Proof.
  intros H. rewrite (rel_zero1 x H). unfold wf_rel. cbn [rvars rmat length].
  split; [constructor; [intros []|constructor]|].
  split; [constructor; [exact H|constructor]|].
  split; [reflexivity|]. constructor; [reflexivity|constructor].
Qed.

Lemma rel_pwf_zero1 x : x <> EmptyString -> rel_pwf (rel_zero [x]).
Proof.
  intros H. rewrite (rel_zero1 x H). unfold rel_pwf. cbn [rmat].
  constructor; [|constructor]. constructor; [apply Poly_wf.pwf_zero_poly | constructor].
Qed.

Lemma rval_rel_zero1 x c u v : x <> EmptyString ->
  rval (rel_zero [x]) c u v = if String.eqb u x && String.eqb v x then O else sid u v.
Proof.
  intros H. rewrite (rel_zero1 x H). unfold rval, cell. cbn [rvars rmat index_of_str].
  destruct (String.eqb u x) eqn:Eu; cbn [option_map andb].
  - destruct (String.eqb v x) eqn:Ev; cbn [option_map].
    + reflexivity.
    + unfold sid. apply val_id_cell.
  - unfold sid. apply val_id_cell.
Qed.

Lemma clean_rel_zero1 x c : x <> EmptyString -> clean (rel_zero [x]) c.
Proof.
  intros H u v _ _. rewrite (rval_rel_zero1 x c u v H).
  destruct (String.eqb u x && String.eqb v x); [discriminate | apply sid_fin].
Qed.

Lemma sumS_all_O {T} (f : T -> Sc) l : (forall k, In k l -> f k = O) -> sumS f l = O.
Proof.
  intros H. apply sc_le_antisym; [|apply sc_le_O]. apply sumS_le_iff. intros k Hk.
  rewrite (H k Hk). apply sc_le_refl.
Qed.

(* r0 of close_while: composing with the empty relation changes nothing *)
Lemma comp_empty_sem rb : wf_rel rb -> rel_pwf rb ->
  let r0 := rel_comp rel_empty rb in
  wf_rel r0 /\ rel_pwf r0 /\ (forall v, In v (rvars r0) <-> In v (rvars rb)) /\
  forall c, clean rb c -> clean r0 c /\ eqV (rvars r0) (rval r0 c) (rval rb c).
Proof.
  intros Hwf Hpwf r0.
  destruct (Rel_ops_closed.rel_comp_sem rel_empty rb wf_rel_empty Hwf rel_pwf_empty Hpwf)
    as [W [Pw [Vs _]]].
  fold r0 in W, Pw, Vs.
  split; [exact W|]. split; [exact Pw|]. split.
  { intros v. rewrite (Vs v). change (rvars rel_empty) with (@nil string). simpl. tauto. }
  intros c Hc.
  assert (Hval : eqV (rvars r0) (rval r0 c) (rval rb c)).
  { intros x y Hx Hy. unfold r0.
    rewrite (Rel_ops_closed.rel_comp_clean rel_empty rb c wf_rel_empty Hwf rel_pwf_empty Hpwf
               (clean_rel_empty c) Hc x y Hx Hy).
    transitivity (smul (rvars (rel_comp rel_empty rb)) sid (rval rb c) x y).
    - apply smul_ext; [intros a b _ _; apply rval_rel_empty | apply eqV_refl | exact Hx | exact Hy].
    - apply smul_id_l; [intros k _; apply Rel_ops.clean_ne_I; exact Hc | exact Hx]. }
  split; [|exact Hval].
  intros x y Hx Hy. rewrite (Hval x y Hx Hy). apply Rel_ops.clean_ne_I. exact Hc.
Qed.

(* r0 of close_for: composing with Relation([x]) zeroes the row of x *)
Lemma comp_zero_sem x rb : x <> EmptyString -> wf_rel rb -> rel_pwf rb ->
  let r0 := rel_comp (rel_zero [x]) rb in
  wf_rel r0 /\ rel_pwf r0 /\ (forall v, In v (rvars r0) <-> v = x \/ In v (rvars rb)) /\
  forall c, clean rb c -> clean r0 c /\
    forall u v, In u (rvars r0) -> In v (rvars r0) ->
      rval r0 c u v = if String.eqb u x then O else rval rb c u v.
Proof.
  intros Hx Hwf Hpwf r0.
  pose proof (wf_rel_zero1 x Hx) as Wz. pose proof (rel_pwf_zero1 x Hx) as Pz.
  destruct (Rel_ops_closed.rel_comp_sem (rel_zero [x]) rb Wz Hwf Pz Hpwf) as [W [Pw [Vs _]]].
  fold r0 in W, Pw, Vs.
  split; [exact W|]. split; [exact Pw|]. split.
  { intros v. rewrite (Vs v). rewrite (rel_zero1 x Hx). cbn [rvars In]. intuition congruence. }
  intros c Hc.
  assert (Hval : forall u v, In u (rvars r0) -> In v (rvars r0) ->
                   rval r0 c u v = if String.eqb u x then O else rval rb c u v).
  { intros u v Hu Hv. unfold r0.
    rewrite (Rel_ops_closed.rel_comp_clean (rel_zero [x]) rb c Wz Hwf Pz Hpwf
               (clean_rel_zero1 x c Hx) Hc u v Hu Hv).
    destruct (String.eqb u x) eqn:Eu.
    - rewrite smul_sumS. apply sumS_all_O. intros k _.
      rewrite (rval_rel_zero1 x c u k Hx), Eu. cbn [andb].
      destruct (String.eqb k x) eqn:Ek.
      + apply sprod_O_l_fin. apply Rel_ops.clean_ne_I. exact Hc.
      + apply String.eqb_eq in Eu. subst u. rewrite sid_neq.
        * apply sprod_O_l_fin. apply Rel_ops.clean_ne_I. exact Hc.
        * intros E. subst k. rewrite String.eqb_refl in Ek. discriminate.
    - transitivity (smul (rvars (rel_comp (rel_zero [x]) rb)) sid (rval rb c) u v).
      + rewrite !smul_sumS. apply sumS_ext. intros k _. cbv beta.
        rewrite (rval_rel_zero1 x c u k Hx), Eu. reflexivity.
      + apply smul_id_l; [intros k _; apply Rel_ops.clean_ne_I; exact Hc | exact Hu]. }
  split; [|exact Hval].
  intros u v Hu Hv. rewrite (Hval u v Hu Hv).
  destruct (String.eqb u x); [discriminate | apply Rel_ops.clean_ne_I; exact Hc].
Qed.

(* ------------------------------------------------------------------ *)
(* the delta lists recorded by the corrections are sorted               *)

Lemma corr_cell_rec_sorted bad p s : pwf p -> In s (snd (corr_cell bad p)) -> dsorted s.
Proof.
  intros [_ Hp] H. apply Rel_corr_base.corr_cell_snd_In in H. destruct H as [m [Hm [_ <-]]].
  rewrite Forall_forall in Hp. apply (Hp m Hm).
Qed.

Lemma while_rec_sorted r s : rel_pwf r -> In s (snd (while_correction r)) -> dsorted s.
Proof.
  intros Hp H. unfold while_correction in H. cbv zeta in H. cbn [snd] in H.
  apply in_concat in H. destruct H as [l [Hl Hs]].
  apply in_map_iff in Hl. destruct Hl as [crow [<- Hcrow]].
  apply in_map_iff in Hcrow. destruct Hcrow as [[i row] [<- Hir]]. apply in_combine_r in Hir.
  apply in_concat in Hs. destruct Hs as [l2 [Hl2 Hs]].
  apply in_map_iff in Hl2. destruct Hl2 as [cc [<- Hcc]].
  apply in_map_iff in Hcc. destruct Hcc as [[j p] [<- Hjp]]. apply in_combine_r in Hjp.
  eapply corr_cell_rec_sorted; [|exact Hs].
  unfold rel_pwf in Hp. rewrite Forall_forall in Hp. specialize (Hp _ Hir).
  rewrite Forall_forall in Hp. apply Hp. exact Hjp.
Qed.

Definition mxP (m : matrix) : Prop := Forall (fun row => Forall pwf row) m.

Lemma set_cell_mxP m i j p : mxP m -> pwf p -> mxP (set_cell m i j p).
Proof.
  intros Hm Hp. unfold set_cell, mxP. apply Poly_wf.list_update_forall; [|exact Hm].
  intros row Hrow. apply Poly_wf.list_update_forall; [intros _ _; exact Hp | exact Hrow].
Qed.

Lemma fold_propagate_mxP ell j pm : forall m, mxP m ->
  mxP (fold_left (fun acc mo => set_cell acc ell j (padd (mget acc ell j) [mono_copy mo])) pm m).
Proof.
  induction pm as [|mo pm IH]; intros m Hm; simpl; [exact Hm|].
  apply IH. apply set_cell_mxP; [exact Hm|].
  apply Poly_wf.padd_pwf_r. constructor; [apply Poly_wf.mono_copy_mwf | constructor].
Qed.

Lemma loop_cell_P ell m i j : mxP m ->
  mxP (fst (loop_cell ell m i j)) /\ Forall dsorted (snd (loop_cell ell m i j)).
Proof.
  intros Hm.
  pose proof (Rel_ops.mget_pwf m i j Hm) as Hp.
  pose proof (Rel_corr_base.corr_map_pwf (fun s => L_BAD s (Nat.eqb i j)) _ Hp) as Hp'.
  split.
  - unfold loop_cell, corr_cell. cbv beta iota zeta. cbn [fst snd].
    apply fold_propagate_mxP. apply set_cell_mxP; [exact Hm | exact Hp'].
  - apply Forall_forall. intros s Hs.
    apply (corr_cell_rec_sorted (fun s => L_BAD s (Nat.eqb i j)) (mget m i j) s Hp).
    unfold loop_cell, corr_cell in Hs. cbv beta iota zeta in Hs. cbn [fst snd] in Hs.
    unfold corr_cell. cbn [snd]. exact Hs.
Qed.

Lemma loop_fold_P ell cells : forall st, mxP (fst st) -> Forall dsorted (snd st) ->
  let st' := fold_left (fun '(m, rec) '(i, j) =>
                          let '(m', r') := loop_cell ell m i j in (m', (rec ++ r')%list))
                       cells st in
  mxP (fst st') /\ Forall dsorted (snd st').
Proof.
  induction cells as [|[i j] cells IH]; intros [m rec] Hm Hrec; cbn [fold_left].
  - split; assumption.
  - destruct (loop_cell_P ell m i j Hm) as [A B].
    destruct (loop_cell ell m i j) as [m' r']. cbn [fst snd] in A, B.
    apply IH; cbn [fst snd]; [exact A | apply Forall_app; split; assumption].
Qed.

Lemma loop_rec_sorted r x r' rec : loop_correction r x = Some (r', rec) -> rel_pwf r ->
  Forall dsorted rec.
Proof.
  unfold loop_correction. intros H Hr.
  destruct (index_of_str x (rvars r)) as [ell|]; [|discriminate]. cbv zeta in H.
  match type of H with
  | context [fold_left ?F ?l ?a] =>
      pose proof (loop_fold_P ell l a Hr (Forall_nil _)) as HF;
      cbv zeta in HF; destruct (fold_left F l a) as [m rec0]
  end.
  injection H as <- <-. exact (proj2 HF).
Qed.

(* ------------------------------------------------------------------ *)
(* assembling sim_res once the per-choice facts are known               *)

Lemma close_common V d rb dv rfin rec d1 d2 (dm : option smat -> option smat) :
  sim_res V d rb dv -> cr_exit rb = false ->
  rel_ok V rfin ->
  (forall n, In n rec -> dsorted n /\ Forall (fun dl => fst dl < 3) n) ->
  dg_insert_all (cr_dg rb) rec = ROk d1 -> dg_fusion d1 = ROk d2 ->
  dm None = None ->
  (forall cs B, in_domain cs -> fst (dv cs) = Some B ->
     clean (cr_rel rb) (choice_of_list cs) -> eqV V (rval (cr_rel rb) (choice_of_list cs)) B ->
     (dm (Some B) = None -> exists s, In s rec /\ mmatch (choice_of_list cs) s = true) /\
     (forall A, dm (Some B) = Some A ->
        (forall s, In s rec -> mmatch (choice_of_list cs) s = false) /\
        clean rfin (choice_of_list cs) /\ eqV V (rval rfin (choice_of_list cs)) A)) ->
  sim_res V d {| cr_index := cr_index rb; cr_rel := rfin; cr_exit := dg_is_empty d2; cr_dg := d2 |}
          (fun cs => (dm (fst (dv cs)), snd (dv cs))).
Proof.
  intros [Hinv [Hinc [Hok Hcs]]] Hex Hokf Hrecwf E1 E2 HdmN Hper.
  destruct (close_dg_step _ rec d1 d2 Hinv Hrecwf E1 E2) as [Hinv2 Hrec2].
  unfold sim_res. cbn [cr_dg cr_rel cr_exit cr_index].
  split; [exact Hinv2|]. split.
  { intros n Hn. apply Hrec2. right. apply Hinc. exact Hn. }
  split; [exact Hokf|].
  intros cs Hdom. cbv zeta. cbn [fst snd].
  pose proof (Hcs cs Hdom) as HC. cbv zeta in HC. destruct HC as [C1 [_ C3]].
  destruct (C3 Hex) as [Cidx [CN CS]]. clear C3.
  assert (Hmono : cov (cr_dg rb) (choice_of_list cs) -> cov d2 (choice_of_list cs)).
  { apply cov_mono. intros n Hn. apply Hrec2. right. exact Hn. }
  split; [|split].
  - intros A HA Hcov. destruct (fst (dv cs)) as [B|] eqn:EB; [|rewrite HdmN in HA; discriminate].
    destruct (CS B eq_refl) as [Hcl HeqB].
    destruct (Hper cs B Hdom EB Hcl HeqB) as [_ P2]. destruct (P2 A HA) as [Hno _].
    apply (C1 B eq_refl). destruct Hcov as [n [Hn Hm]]. apply Hrec2 in Hn. destruct Hn as [Hn|Hn].
    + rewrite (Hno n Hn) in Hm. discriminate.
    + exists n. split; assumption.
  - intros He. apply dg_empty_cov; assumption.
  - intros _. split; [exact Cidx|]. split.
    + intros HN. destruct (fst (dv cs)) as [B|] eqn:EB.
      * destruct (CS B eq_refl) as [Hcl HeqB].
        destruct (Hper cs B Hdom EB Hcl HeqB) as [P1 _]. destruct (P1 HN) as [s [Hs Hm]].
        exists s. split; [apply Hrec2; left; exact Hs | exact Hm].
      * apply Hmono. apply CN. reflexivity.
    + intros A HA. destruct (fst (dv cs)) as [B|] eqn:EB; [|rewrite HdmN in HA; discriminate].
      destruct (CS B eq_refl) as [Hcl HeqB].
      destruct (Hper cs B Hdom EB Hcl HeqB) as [_ P2]. destruct (P2 A HA) as [_ [Q1 Q2]].
      split; assumption.
Qed.

Lemma not_exists_match (c : choice) (rec : list (list delta)) :
  ~ (exists s, In s rec /\ mmatch c s = true) -> forall s, In s rec -> mmatch c s = false.
Proof.
  intros H s Hs. destruct (mmatch c s) eqn:E; [|reflexivity]. exfalso. apply H. exists s. split; assumption.
Qed.

(* ------------------------------------------------------------------ *)
(* while                                                               *)

Lemma close_while_core V d rb dv fuel fx rw rec d1 d2 :
  names_ok V -> sim_res V d rb dv -> cr_exit rb = false ->
  (forall cs A, fst (dv cs) = Some A -> finite_on V A) ->
  rel_fixpoint fuel (rel_comp rel_empty (cr_rel rb)) = Some fx ->
  while_correction fx = (rw, rec) ->
  dg_insert_all (cr_dg rb) rec = ROk d1 -> dg_fusion d1 = ROk d2 ->
  sim_res V d {| cr_index := cr_index rb; cr_rel := rw; cr_exit := dg_is_empty d2; cr_dg := d2 |}
          (fun cs => (d_while V (fst (dv cs)), snd (dv cs))).
Proof.
  intros [HndV HneV] Hsim Hex Hfin Efx Ew E1 E2.
  pose proof Hsim as [Hinv [Hinc [[Hwf [Hpwf [Hdomb Hincl]]] Hcs]]].
  destruct (comp_empty_sem (cr_rel rb) Hwf Hpwf) as [W0 [P0 [Vs0 Hc0]]].
  pose proof (Rel_dom.rel_dom_comp rel_empty (cr_rel rb) Rel_dom.rel_dom_empty Hdomb) as D0.
  set (r0 := rel_comp rel_empty (cr_rel rb)) in *.
  destruct (Rel_fix_closed.rel_fixpoint_sem fuel r0 fx W0 P0 Efx) as [Wf [Pf [_ [Vf Hcf]]]].
  pose proof (Rel_dom.rel_dom_fixpoint fuel r0 fx Efx D0) as Df.
  pose proof (Rel_corr.while_correction_sem fx Wf Pf) as HW.
  pose proof (Rel_dom.rel_dom_while_correction fx Df) as [Dw Drec].
  pose proof (fun s => while_rec_sorted fx s Pf) as Srec.
  rewrite Ew in HW, Dw, Drec, Srec. cbn [fst snd] in Dw, Drec, Srec.
  destruct HW as [Ww [Pww [Vw Hcw]]].
  set (Vr := rvars r0) in *.
  assert (HinclR : incl Vr V) by (intros v Hv; apply Hincl; apply Vs0; exact Hv).
  assert (HndR : NoDup Vr) by (destruct W0 as [H _]; exact H).
  apply (close_common V d rb dv rw rec d1 d2 (d_while V) Hsim Hex); try assumption.
  - (* rel_ok *)
    split; [exact Ww|]. split; [exact Pww|]. split; [exact Dw|]. rewrite Vw, Vf. exact HinclR.
  - intros n Hn. split; [apply Srec | apply Drec]; exact Hn.
  - reflexivity.
  - intros cs B Hdomcs EB Hcl HeqB. set (c := choice_of_list cs) in *.
    destruct (Hc0 c Hcl) as [Hcl0 Heq0].
    destruct (Hcf c Hcl0) as [Hclf [Hstar _]]. fold Vr in Hstar.
    set (A0 := rval r0 c) in *. set (F := rval fx c) in *.
    assert (HidA0 : id_outside Vr A0) by apply rval_id_outside.
    assert (HidF : id_outside Vr F) by (rewrite <- Vf; apply rval_id_outside).
    assert (HidB : id_outside Vr (rval (cr_rel rb) c)).
    { intros a b Hab. apply rval_id_outside.
      destruct Hab as [H|H]; [left|right]; intros H1; apply H; apply Vs0; exact H1. }
    assert (HA0B : eqV V A0 B).
    { eapply eqV_trans; [apply (id_outside_eqV V Vr _ _ HidA0 HidB Heq0) | exact HeqB]. }
    assert (HfA0 : finite_on V A0) by (apply clean_finite_on; exact Hcl0).
    assert (HfF : finite_on V F) by (apply clean_finite_on; exact Hclf).
    pose proof (is_star_lift V Vr A0 F HndV HndR HinclR HidA0 HidF HfA0 HfF Hstar) as HstarV.
    pose proof (is_star_ext V A0 B F F HA0B (eqV_refl V F) HstarV) as HstarB.
    pose proof (Hfin cs B EB) as HfB.
    destruct (sstar_total V B HndV HfB) as [St ESt].
    destruct (sstar_sound V B St HndV HfB ESt) as [HSt _].
    pose proof (is_star_unique V B F St HstarB HSt) as HFSt.
    assert (Hwok : w_ok V St = w_ok Vr F).
    { rewrite <- (w_ok_ext V F St HFSt). apply w_ok_restrict; assumption. }
    destruct (Hcw c Hclf) as [Hiff Hno]. rewrite Vf in Hiff, Hno. fold Vr in Hiff, Hno. fold F in Hiff, Hno.
    unfold d_while. rewrite ESt, Hwok. destruct (w_ok Vr F) eqn:Ewk.
    + split; [discriminate|]. intros A HA. inversion HA; subst A.
      assert (Hnone : forall s, In s rec -> mmatch c s = false).
      { apply not_exists_match. intros H. apply Hiff in H. discriminate. }
      destruct (Hno Hnone) as [Hclw Heqw].
      split; [exact Hnone|]. split; [exact Hclw|].
      eapply eqV_trans; [|exact HFSt].
      apply (id_outside_eqV V Vr); [|exact HidF|exact Heqw].
      rewrite <- Vf, <- Vw. apply rval_id_outside.
    + split; [|discriminate]. intros _. apply Hiff. reflexivity.
Qed.

Lemma close_while_eq rb : close_while rb =
  match rel_fixpoint fix_fuel (rel_comp rel_empty (cr_rel rb)) with
  | None => RErr "fuel:fixpoint"
  | Some fx =>
      let '(rw, rec) := while_correction fx in
      rbind (dg_insert_all (cr_dg rb) rec) (fun d1 =>
      rbind (dg_fusion d1) (fun d2 =>
        ROk {| cr_index := cr_index rb; cr_rel := rw; cr_exit := dg_is_empty d2; cr_dg := d2 |}))
  end.
Proof. reflexivity. Qed.

Theorem close_while_sim : close_while_sim_stmt.
Proof.
  intros V d rb dv r Hn Hsim Hex Hfin E.
  rewrite close_while_eq in E. revert E. generalize fix_fuel. intros fuel E.
  destruct (rel_fixpoint fuel (rel_comp rel_empty (cr_rel rb))) as [fx|] eqn:Efx; [|discriminate].
  destruct (while_correction fx) as [rw rec] eqn:Ew.
  destruct (dg_insert_all (cr_dg rb) rec) as [d1|] eqn:E1; cbn [rbind] in E; [|discriminate].
  destruct (dg_fusion d1) as [d2|] eqn:E2; cbn [rbind] in E; [|discriminate].
  injection E as <-.
  exact (close_while_core V d rb dv fuel fx rw rec d1 d2 Hn Hsim Hex Hfin Efx Ew E1 E2).
Qed.

(* ------------------------------------------------------------------ *)
(* counted for                                                         *)

Lemma close_for_core V d rb dv x fuel fx rl rec d1 d2 :
  names_ok V -> sim_res V d rb dv -> cr_exit rb = false ->
  (forall cs A, fst (dv cs) = Some A -> finite_on V A) ->
  In x V -> ~ In x (rvars (cr_rel rb)) ->
  rel_fixpoint fuel (rel_comp (rel_zero [x]) (cr_rel rb)) = Some fx ->
  loop_correction fx x = Some (rl, rec) ->
  dg_insert_all (cr_dg rb) rec = ROk d1 -> dg_fusion d1 = ROk d2 ->
  sim_res V d {| cr_index := cr_index rb; cr_rel := rl; cr_exit := dg_is_empty d2; cr_dg := d2 |}
          (fun cs => (d_for V x (fst (dv cs)), snd (dv cs))).
Proof.
  intros [HndV HneV] Hsim Hex Hfin HxV Hxnb Efx El E1 E2.
  assert (Hxne : x <> EmptyString) by (rewrite Forall_forall in HneV; apply HneV; exact HxV).
  pose proof Hsim as [Hinv [Hinc [[Hwf [Hpwf [Hdomb Hincl]]] Hcs]]].
  destruct (comp_zero_sem x (cr_rel rb) Hxne Hwf Hpwf) as [W0 [P0 [Vs0 Hc0]]].
  pose proof (Rel_dom.rel_dom_comp (rel_zero [x]) (cr_rel rb) (Rel_dom.rel_dom_zero [x]) Hdomb) as D0.
  set (r0 := rel_comp (rel_zero [x]) (cr_rel rb)) in *.
  destruct (Rel_fix_closed.rel_fixpoint_sem fuel r0 fx W0 P0 Efx) as [Wf [Pf [Nf [Vf Hcf]]]].
  pose proof (Rel_dom.rel_dom_fixpoint fuel r0 fx Efx D0) as Df.
  set (Vr := rvars r0) in *.
  assert (HxR : In x Vr) by (apply Vs0; left; reflexivity).
  assert (Hxf : In x (rvars fx)) by (rewrite Vf; exact HxR).
  destruct (Rel_corr.loop_correction_sem fx x Wf Pf Nf Hxf) as [rl' [rec' [El' [Wl [Pl [Vl Hcl]]]]]].
  rewrite El in El'. injection El' as <- <-.
  destruct (Rel_dom.rel_dom_loop_correction fx x rl rec El Df) as [Dl Drec].
  pose proof (loop_rec_sorted fx x rl rec El Pf) as Srec. rewrite Forall_forall in Srec.
  assert (HinclR : incl Vr V).
  { intros v Hv. apply Vs0 in Hv. destruct Hv as [->|Hv]; [exact HxV | apply Hincl; exact Hv]. }
  assert (HndR : NoDup Vr) by (destruct W0 as [H _]; exact H).
  apply (close_common V d rb dv rl rec d1 d2 (d_for V x) Hsim Hex); try assumption.
  - split; [exact Wl|]. split; [exact Pl|]. split; [exact Dl|]. rewrite Vl, Vf. exact HinclR.
  - intros n Hn. split; [apply Srec | apply Drec]; exact Hn.
  - reflexivity.
  - intros cs B Hdomcs EB Hclb HeqB. set (c := choice_of_list cs) in *.
    destruct (Hc0 c Hclb) as [Hcl0 Hval0]. fold Vr in Hval0.
    set (A0 := rval r0 c) in *. set (Bb := rval (cr_rel rb) c) in *.
    assert (HidA0 : id_outside Vr A0) by apply rval_id_outside.
    assert (HidB : id_outside Vr Bb).
    { intros a b Hab. apply rval_id_outside.
      destruct Hab as [H|H]; [left|right]; intros H1; apply H; apply Vs0; right; exact H1. }
    assert (HBx : forall v, Bb x v = sid x v).
    { intros v. apply rval_id_outside. left. exact Hxnb. }
    assert (HBcx : forall i, i <> x -> Bb i x = O).
    { intros i Hi. unfold Bb. rewrite rval_id_outside by (right; exact Hxnb). apply sid_neq. exact Hi. }
    assert (Hcol : forall i, In i Vr -> i <> x -> A0 i x = O).
    { intros i Hi Hne. rewrite (Hval0 i x Hi HxR).
      destruct (String.eqb i x) eqn:Ei; [reflexivity|]. apply HBcx. exact Hne. }
    destruct (Hcf c Hcl0) as [Hclf [Hstar Hcolf]]. fold Vr in Hstar, Hcolf. fold A0 in Hstar, Hcolf.
    specialize (Hcolf x HxR Hcol).
    set (F := rval fx c) in *.
    assert (HidF : id_outside Vr F) by (rewrite <- Vf; apply rval_id_outside).
    assert (HfA0 : finite_on V A0) by (apply clean_finite_on; exact Hcl0).
    assert (HfF : finite_on V F) by (apply clean_finite_on; exact Hclf).
    pose proof (is_star_lift V Vr A0 F HndV HndR HinclR HidA0 HidF HfA0 HfF Hstar) as HstarV.
    assert (Hle1 : leV V A0 B).
    { intros u v Hu Hv. rewrite <- (HeqB u v Hu Hv).
      destruct (in_dec string_dec u Vr) as [Hur|Hur];
        [destruct (in_dec string_dec v Vr) as [Hvr|Hvr]|].
      - rewrite (Hval0 u v Hur Hvr). destruct (String.eqb u x); [apply sc_le_O | apply sc_le_refl].
      - rewrite HidA0, HidB by (right; exact Hvr). apply sc_le_refl.
      - rewrite HidA0, HidB by (left; exact Hur). apply sc_le_refl. }
    assert (Hle2 : leV V B (sadd A0 sid)).
    { intros u v Hu Hv. rewrite <- (HeqB u v Hu Hv). unfold sadd.
      destruct (in_dec string_dec u Vr) as [Hur|Hur];
        [destruct (in_dec string_dec v Vr) as [Hvr|Hvr]|].
      - rewrite (Hval0 u v Hur Hvr). destruct (String.eqb u x) eqn:Eu.
        + apply String.eqb_eq in Eu. subst u. rewrite HBx. apply sc_le_ssum_r.
        + apply sc_le_ssum_l.
      - rewrite HidA0, HidB by (right; exact Hvr). apply sc_le_ssum_l.
      - rewrite HidA0, HidB by (left; exact Hur). apply sc_le_ssum_l. }
    pose proof (is_star_between V A0 B F HndV HfA0 HfF Hle1 Hle2 HstarV) as HstarB.
    pose proof (Hfin cs B EB) as HfB.
    destruct (sstar_total V B HndV HfB) as [St ESt].
    destruct (sstar_sound V B St HndV HfB ESt) as [HSt _].
    pose proof (is_star_unique V B F St HstarB HSt) as HFSt.
    assert (Hlok : l_ok V St = l_ok Vr F).
    { rewrite <- (l_ok_ext V F St HFSt). apply l_ok_restrict; assumption. }
    assert (Hdiag : forall v, In v Vr -> sc_le M (F v v)).
    { intros v Hv. apply (is_star_diag Vr A0 F v Hstar Hv). }
    rewrite Vf in Hcl. fold Vr in Hcl.
    destruct (Hcl c Hclf Hdiag Hcolf) as [Hiff Hno]. fold F in Hiff, Hno.
    unfold d_for. rewrite ESt, Hlok. destruct (l_ok Vr F) eqn:Elk.
    + split; [discriminate|]. intros A HA. inversion HA; subst A.
      assert (Hnone : forall s, In s rec -> mmatch c s = false).
      { apply not_exists_match. intros H. apply Hiff in H. discriminate. }
      destruct (Hno Hnone) as [Hcll Heql].
      split; [exact Hnone|]. split; [exact Hcll|].
      intros u v Hu Hv. rewrite memo_eq.
      assert (HidL : id_outside Vr (rval rl c)).
      { rewrite <- Vf, <- Vl. apply rval_id_outside. }
      rewrite (id_outside_eqV V Vr _ _ HidL (l_extend_id_outside Vr x F HxR HidF) Heql u v Hu Hv).
      rewrite <- (l_extend_restrict V Vr x F u v HinclR HidF).
      apply (l_extend_ext V x F St HFSt u v Hu Hv).
    + split; [|discriminate]. intros _. apply Hiff. reflexivity.
Qed.

Lemma close_for_eq x rb : close_for x rb =
  match rel_fixpoint fix_fuel (rel_comp (rel_zero [x]) (cr_rel rb)) with
  | None => RErr "fuel:fixpoint"
  | Some fx =>
      match loop_correction fx x with
      | None => RErr "ValueError:loop_correction"
      | Some (rl, rec) =>
          rbind (dg_insert_all (cr_dg rb) rec) (fun d1 =>
          rbind (dg_fusion d1) (fun d2 =>
            ROk {| cr_index := cr_index rb; cr_rel := rl; cr_exit := dg_is_empty d2; cr_dg := d2 |}))
      end
  end.
Proof. reflexivity. Qed.

Theorem close_for_sim : close_for_sim_stmt.
Proof.
  intros V d rb dv x r Hn Hsim Hex Hfin HxV Hxnb E.
  rewrite close_for_eq in E. revert E. generalize fix_fuel. intros fuel E.
  destruct (rel_fixpoint fuel (rel_comp (rel_zero [x]) (cr_rel rb))) as [fx|] eqn:Efx; [|discriminate].
  destruct (loop_correction fx x) as [[rl rec]|] eqn:El; [|discriminate].
  destruct (dg_insert_all (cr_dg rb) rec) as [d1|] eqn:E1; cbn [rbind] in E; [|discriminate].
  destruct (dg_fusion d1) as [d2|] eqn:E2; cbn [rbind] in E; [|discriminate].
  injection E as <-.
  exact (close_for_core V d rb dv x fuel fx rl rec d1 d2 Hn Hsim Hex Hfin HxV Hxnb Efx El E1 E2).
Qed.

Print Assumptions close_while_sim.
Print Assumptions close_for_sim.
