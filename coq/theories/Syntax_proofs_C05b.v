(* C05, partial theorem: apart from an explicit list of constructs (labels, comma expressions,
   expression statements, sign / ++ / -- applied to something that is not an atom on the right of an
   assignment), every statement of a function the gate accepts reaches a rule of the analysis:
   no "Unsupported syntax" skip, no silently skipped for-loop, no failed assert. *)
From Coq Require Import String List Bool Arith Lia.
From PMGen Require Import SyntaxGen PycSchema.
From PM Require Import Tree Syntax Syntax_proofs Syntax_proofs_C07a Syntax_proofs_C07b Syntax_proofs_C07c Syntax_proofs_C07d Syntax_proofs_C05 Syntax_proofs_C19.
Import ListNotations.
Open Scope string_scope.
Open Scope list_scope.

Definition lossy_kind (k : ekind) : bool := match k with KUnsupported | KForSkip | KRaise => true | _ => false end.
Definition NL (l : list event) : Prop := Forall (fun e => let 'Ev k _ := e in lossy_kind k = false) l.

(* `x = <op> e`: a rewriting rule of unary_asgn applies *)
Definition unary_rule_applies (u : node) : bool :=
  attr_is u "op" OP_SIZEOF || attr_is u "op" OP_NEG || ois_cls "Constant" (kid1 u "expr") ||
  (ois_cls "ID" (kid1 u "expr") && (attr_in u "op" INC_DEC || attr_is u "op" OP_MINUS || attr_is u "op" OP_PLUS)).

Definition asg_unary_ok (n : node) : bool :=
  match uncast1 (kid1 n "rvalue") with
  | Some r => if is_cls "UnaryOp" r then unary_rule_applies r else true
  | None => true
  end.

(* the statement forms outside the list of known holes, along the positions the analysis visits *)
Definition plain_step (c : string) (a : list (string * string)) (ks : list (string * list node))
           (aks : list (string * list (ann bool))) : bool :=
  let self := Node c a ks in
  let one s := match ak1 aks s with Some x => ares x | None => true end in
  if in_s c CR_SKIP then true
  else if String.eqb c "Assignment" then asg_unary_ok self
  else if String.eqb c "UnaryOp" then true
  else if String.eqb c "If" then one "iftrue" && one "iffalse"
  else if String.eqb c "While" || String.eqb c "DoWhile" || String.eqb c "For" then one "stmt"
  else if String.eqb c "Compound" then forallb ares (akl aks "block_items")
  else if String.eqb c "FuncCall" then true
  else false.

Definition plain_rec (n : node) : bool := walk plain_step n.
Definition oplain (o : option node) : bool := match o with Some x => plain_rec x | None => true end.

Definition plain_func (f : node) : bool :=
  match kid1 f "body" with Some b => forallb plain_rec (kidl b "block_items") | None => true end.

(* ---------- NL algebra ---------- *)
Lemma NL_app a b : NL a -> NL b -> NL (a ++ b).
Proof. intros. apply Forall_app. auto. Qed.
Lemma NL_epush pre l : NL l -> NL (map (epush pre) l).
Proof. intros H. apply Forall_map. eapply Forall_impl; [|exact H]. intros [k p] Hk. exact Hk. Qed.
Lemma NL_concat ls : Forall NL ls -> NL (concat ls).
Proof. intros H. apply Forall_concat. exact H. Qed.
Lemma NL_nil : NL []. Proof. constructor. Qed.

Lemma NL_dropped k (n : node) s : lossy_kind k = false ->
  NL (match kid1 n s with Some _ => [Ev k [(s, 0)]] | None => [] end).
Proof. intros H. destruct (kid1 n s); [constructor; [exact H | constructor] | constructor]. Qed.

(* ---------- equations ---------- *)
Lemma cr_eq c a ks : cr_events (Node c a ks) = cr_step c a ks (annk cr_step ks).
Proof. reflexivity. Qed.
Lemma plain_eq c a ks : plain_rec (Node c a ks) = plain_step c a ks (annk plain_step ks).
Proof. reflexivity. Qed.

Lemma plain_one c a ks s :
  match ak1 (annk plain_step ks) s with Some x => ares x | None => true end = oplain (kid1 (Node c a ks) s).
Proof. rewrite (ak1_node plain_step c a ks s). destruct (kid1 (Node c a ks) s); reflexivity. Qed.

Lemma plain_all c a ks s :
  forallb ares (akl (annk plain_step ks) s) = forallb plain_rec (kidl (Node c a ks) s).
Proof. rewrite (akl_node plain_step c a ks s). induction (kidl (Node c a ks) s); simpl; [reflexivity|]. rewrite IHl. reflexivity. Qed.

Definition cr_child (n : node) (s : string) : list event :=
  match kid1 n s with Some x => map (epush [(s, 0)]) (cr_events x) | None => [Ev KUnsupported [(s, 0)]] end.

Lemma cr_child_eq c a ks s :
  match ak1 (annk cr_step ks) s with Some x => map (epush [(s, 0)]) (ares x) | None => [Ev KUnsupported [(s, 0)]] end
  = cr_child (Node c a ks) s.
Proof. unfold cr_child. rewrite (ak1_node cr_step c a ks s). destruct (kid1 (Node c a ks) s); reflexivity. Qed.

Lemma ev_iter_nodes_from pre s (xs : list node) k :
  concat (mapi_from (fun i x => map (epush (pre ++ [(s, i)])) (ares x)) k (map (annotate cr_step) xs)) =
  concat (mapi_from (fun i x => map (epush (pre ++ [(s, i)])) (cr_events x)) k xs).
Proof. revert k. induction xs as [|x xs IH]; intros k; simpl; [reflexivity|]. rewrite IH. reflexivity. Qed.

Lemma ev_iter_nodes pre s (xs : list node) :
  ev_iter pre s (map (annotate cr_step) xs) = concat (mapi (fun i x => map (epush (pre ++ [(s, i)])) (cr_events x)) xs).
Proof. unfold ev_iter, mapi. apply ev_iter_nodes_from. Qed.

Lemma NL_ev_iter pre s xs : Forall (fun x => NL (cr_events x)) xs -> NL (ev_iter pre s (map (annotate cr_step) xs)).
Proof.
  intros H. rewrite ev_iter_nodes. apply NL_concat. unfold mapi. generalize 0.
  induction H as [|x xs Hx _ IH]; intros k; simpl; constructor; [apply NL_epush; exact Hx | apply IH].
Qed.

Lemma NL_items_from pre s k xs :
  NL (concat (mapi_from (fun i x => map (epush (pre ++ [(s, i)])) (cr_events x)) k xs)) ->
  Forall (fun x => NL (cr_events x)) xs.
Proof.
  revert k. induction xs as [|x xs IH]; intros k H; [constructor|].
  simpl in H. apply Forall_app in H. destruct H as [G1 G2]. constructor; [|apply (IH (S k)); exact G2].
  unfold NL in *. rewrite Forall_map in G1. eapply Forall_impl; [|exact G1]. intros [kk pp] Hk. exact Hk.
Qed.

(* only Compound has a block_items slot *)
Lemma block_items_compound n : wf_pyc n = true -> has_slot "block_items" n = true -> ncls n = "Compound".
Proof.
  destruct n as [c a ks]. intros W H. simpl.
  assert (S : forallb (fun e : string * (list string * list (string * bool)) =>
                         negb (in_s "block_items" (map fst (snd (snd e)))) || String.eqb (fst e) "Compound") PYC_SCHEMA = true)
    by (vm_compute; reflexivity).
  simpl in W. destruct (schema_of c) as [[an sl]|] eqn:Sc; [|discriminate].
  unfold schema_of in Sc. apply assoc_In in Sc. rewrite forallb_forall in S. specialize (S _ Sc). simpl in S.
  rewrite !andb_true_iff in W. destruct W as [[_ Wk] _]. apply list_s_eqb_eq in Wk.
  unfold has_slot, slot in H. simpl in H. destruct (assoc "block_items" ks) as [l|] eqn:A; [|discriminate].
  apply assoc_In in A. assert (I : In "block_items" (map fst sl)). { rewrite <- Wk. apply in_map_iff. exists ("block_items", l). auto. }
  apply in_s_In in I. rewrite I in S. simpl in S. apply String.eqb_eq in S. exact S.
Qed.

(* ---------- the theorem, per node ---------- *)
Definition G (n : node) : Prop := wf_pyc n = true -> cov n = [] -> plain_rec n = true -> NL (cr_events n).

Lemma cov_nil_pass n s x : pass_kid n s = [] -> kid1 n s = Some x -> cov x = [].
Proof. unfold pass_kid. intros H K. rewrite K in H. apply map_eq_nil' in H. exact H. Qed.

Lemma rm_cast_eq c a ks :
  rm_cast (Node c a ks) = if String.eqb c "Cast" then match kid1 (Node c a ks) "expr" with Some e => rm_cast e | None => Node c a ks end
                          else Node c a ks.
Proof.
  unfold rm_cast at 1. rewrite walk_eq. unfold rmcast_step at 1. destruct (String.eqb c "Cast"); [|reflexivity].
  rewrite (ak1_node rmcast_step c a ks "expr"). destruct (kid1 (Node c a ks) "expr"); reflexivity.
Qed.

Lemma rm_cast_atom o : ocls_in COV_BINOP_ALLOW (uncast1 o) = true -> is_atom (orm_cast o) = true.
Proof.
  destruct o as [[c a ks]|]; simpl; [|discriminate]. unfold is_cls. simpl ncls.
  destruct (String.eqb_spec c "Cast") as [->|N].
  - intros H. unfold is_atom. simpl. rewrite rm_cast_eq. simpl String.eqb. cbv iota.
    destruct (kid1 (Node "Cast" a ks) "expr") as [[ce ae ke]|]; [|discriminate]. simpl in H.
    rewrite rm_cast_eq. destruct (String.eqb_spec ce "Cast") as [->|Ne]; [discriminate|]. simpl. exact H.
  - intros H. unfold is_atom. simpl. rewrite rm_cast_eq. apply String.eqb_neq in N. rewrite N. simpl. exact H.
Qed.

Lemma G_step c a ks : Forall (fun sk => Forall G (snd sk)) ks -> G (Node c a ks).
Proof.
  intros IH W Hc Hp. rewrite cr_eq. rewrite plain_eq in Hp. unfold plain_step at 1 in Hp.
  destruct (in_s c CR_SKIP) eqn:Sk.
  { unfold cr_step. rewrite Sk. apply NL_app; [constructor; [reflexivity | constructor]|].
    destruct (String.eqb c "Return"); [apply NL_dropped; reflexivity | apply NL_nil]. }
  destruct (String.eqb_spec c "Assignment") as [->|N1].
  { (* the gate's conditions on an assignment are the dispatch's *)
    rewrite cov_Assignment in Hc. destruct (assign_ok (Node "Assignment" a ks)) eqn:Ok; [|discriminate].
    unfold assign_ok in Ok. apply andb_true_iff in Ok. destruct Ok as [Ok Oallow]. apply andb_true_iff in Ok. destruct Ok as [Oop Olv].
    apply app_eq_nil in Hc. destruct Hc as [_ Hr].
    change (cr_step "Assignment" a ks (annk cr_step ks)) with
        (if ois_cls "ID" (kid1 (Node "Assignment" a ks) "lvalue") then
           let rv0 := kid1 (Node "Assignment" a ks) "rvalue" in
           let cast := CR_ASSIGN_UNWRAPS_CAST && ois_cls "Cast" rv0 in
           let rv := if cast then match rv0 with Some r => kid1 r "expr" | None => None end else rv0 in
           let rp := if cast then [("rvalue", 0); ("expr", 0)] else [("rvalue", 0)] in
           match rv with
           | Some r =>
             match find (fun cf => is_cls (fst cf) r) CR_ASSIGN_RV with
             | Some (_, fn) =>
               if String.eqb fn "binary_op" then binary_op_events r
               else if String.eqb fn "constant" then [Ev KFlow []]
               else if String.eqb fn "unary_asgn" then unary_asgn_events r rp
               else if String.eqb fn "id" then [Ev KFlow []]
               else [Ev KRaise []]
             | None => [Ev KUnsupported []]
             end
           | None => [Ev KUnsupported []]
           end
         else [Ev KUnsupported []]).
    rewrite Olv. cbv zeta.
    assert (Erv : (if CR_ASSIGN_UNWRAPS_CAST && ois_cls "Cast" (kid1 (Node "Assignment" a ks) "rvalue")
                   then match kid1 (Node "Assignment" a ks) "rvalue" with Some r => kid1 r "expr" | None => None end
                   else kid1 (Node "Assignment" a ks) "rvalue") = uncast1 (kid1 (Node "Assignment" a ks) "rvalue")).
    { change CR_ASSIGN_UNWRAPS_CAST with true. simpl andb. unfold uncast1, ois_cls.
      destruct (kid1 (Node "Assignment" a ks) "rvalue") as [r|]; [|reflexivity]. destruct (is_cls "Cast" r); reflexivity. }
    rewrite Erv. unfold asg_unary_ok in Hp.
    destruct (uncast1 (kid1 (Node "Assignment" a ks) "rvalue")) as [r|] eqn:Ur; [|discriminate].
    simpl in Oallow. cbn [In COV_ASSIGN_ALLOW] in Oallow.
    unfold in_s in Oallow. simpl in Oallow. rewrite !orb_false_r in Oallow.
    destruct r as [cr ar kr]. simpl ncls in Oallow.
    destruct (String.eqb_spec cr "BinaryOp") as [->|Nb].
    { simpl find. simpl.
      (* operands are atoms: the gate checked them on the BinaryOp node *)
      assert (Cb : cov (Node "BinaryOp" ar kr) = []).
      { unfold assign_right in Hr. destruct (ois_cls "Cast" (kid1 (Node "Assignment" a ks) "rvalue")) eqn:Cs.
        - destruct (kid1 (Node "Assignment" a ks) "rvalue") as [r0|]; [|discriminate]. simpl in Ur, Cs. rewrite Cs in Ur.
          rewrite Ur in Hr. apply map_eq_nil' in Hr. exact Hr.
        - apply (cov_nil_pass _ "rvalue" _ Hr). destruct (kid1 (Node "Assignment" a ks) "rvalue") as [r0|]; [|discriminate].
          simpl in Ur, Cs. rewrite Cs in Ur. exact Ur. }
      rewrite cov_BinaryOp in Cb.
      destruct (attr_in (Node "BinaryOp" ar kr) "op" BIN_OPS && ocls_in COV_BINOP_ALLOW (uncast1 (kid1 (Node "BinaryOp" ar kr) "left")) &&
                ocls_in COV_BINOP_ALLOW (uncast1 (kid1 (Node "BinaryOp" ar kr) "right"))) eqn:Cnd; [|discriminate].
      apply andb_true_iff in Cnd. destruct Cnd as [Cnd Cr]. apply andb_true_iff in Cnd. destruct Cnd as [_ Cl].
      unfold binary_op_events. rewrite (rm_cast_atom _ Cl), (rm_cast_atom _ Cr). simpl. constructor; [reflexivity | constructor]. }
    destruct (String.eqb_spec cr "Constant") as [->|Nc]; [simpl; constructor; [reflexivity | constructor]|].
    destruct (String.eqb_spec cr "ID") as [->|Ni]; [simpl; constructor; [reflexivity | constructor]|].
    destruct (String.eqb_spec cr "UnaryOp") as [->|Nu]; [|discriminate].
    simpl find. simpl String.eqb. cbv iota.
    unfold is_cls in Hp. simpl in Hp.
    unfold unary_asgn_events. unfold unary_rule_applies in Hp.
    destruct (attr_is (Node "UnaryOp" ar kr) "op" OP_SIZEOF); [constructor; [reflexivity | constructor; [reflexivity | constructor]]|].
    destruct (attr_is (Node "UnaryOp" ar kr) "op" OP_NEG); [constructor; [reflexivity | constructor; [reflexivity | constructor]]|].
    destruct (ois_cls "Constant" (kid1 (Node "UnaryOp" ar kr) "expr")); [constructor; [reflexivity | constructor]|].
    simpl in Hp. rewrite Hp. constructor; [reflexivity | constructor]. }
  assert (NA : String.eqb c "Assignment" = false) by (apply String.eqb_neq; exact N1). try rewrite NA in Hp.
  destruct (String.eqb_spec c "UnaryOp") as [->|N2].
  { change (cr_step "UnaryOp" a ks (annk cr_step ks)) with
        (if attr_in (Node "UnaryOp" a ks) "op" INC_DEC && ois_cls "ID" (orm_cast (kid1 (Node "UnaryOp" a ks) "expr")) then [Ev KFlow []]
         else if attr_is (Node "UnaryOp" a ks) "op" OP_SIZEOF
              then [Ev KNoop []] ++ match kid1 (Node "UnaryOp" a ks) "expr" with Some _ => [Ev KDropSizeof [("expr", 0)]] | None => [] end
              else [Ev KNoop []; Ev KDropEval []]).
    destruct (_ && _); [constructor; [reflexivity | constructor]|].
    destruct (attr_is _ _ _).
    - apply NL_app; [constructor; [reflexivity | constructor] | apply NL_dropped; reflexivity].
    - constructor; [reflexivity | constructor; [reflexivity | constructor]]. }
  destruct (String.eqb_spec c "If") as [->|N3].
  { rewrite !(plain_one "If" a ks) in Hp. apply andb_true_iff in Hp. destruct Hp as [Pt Pf].
    rewrite cov_If in Hc. apply app_eq_nil in Hc. destruct Hc as [Ct Cf].
    change (cr_step "If" a ks (annk cr_step ks)) with
        (let branch s :=
             match ak1 (annk cr_step ks) s with
             | None => []
             | Some b => if has_slot "block_items" (anode b)
                         then ev_iter [(s, 0)] "block_items" (akl (akids b) "block_items")
                         else map (epush [(s, 0)]) (ares b)
             end in
         [Ev KEnter []] ++ match kid1 (Node "If" a ks) "cond" with Some _ => [Ev KCond [("cond", 0)]] | None => [] end ++
         branch "iftrue" ++ branch "iffalse").
    cbv zeta.
    assert (Br : forall s, if_part (Node "If" a ks) s = [] -> oplain (kid1 (Node "If" a ks) s) = true ->
                 NL (match ak1 (annk cr_step ks) s with
                     | None => []
                     | Some b => if has_slot "block_items" (anode b)
                                 then ev_iter [(s, 0)] "block_items" (akl (akids b) "block_items")
                                 else map (epush [(s, 0)]) (ares b)
                     end)).
    { intros s Cs Ps. rewrite (ak1_node cr_step "If" a ks s). unfold if_part in Cs.
      destruct (kid1 (Node "If" a ks) s) as [b|] eqn:K; [|apply NL_nil]. simpl option_map. cbv iota beta.
      apply map_eq_nil' in Cs. simpl in Ps.
      pose proof (Forall_kid1 G "If" a ks s b IH K (wf_kid1 _ _ _ W K) Cs Ps) as Gb.
      rewrite anode_annotate, ares_annotate. destruct (has_slot "block_items" b) eqn:Hs; [|apply NL_epush; exact Gb].
      (* a compound branch: its items are dispatched one by one *)
      pose proof (block_items_compound b (wf_kid1 _ _ _ W K) Hs) as Cb. destruct b as [cb ab kb]. simpl in Cb. subst cb.
      rewrite akl_akids_annotate. apply NL_ev_iter.
      change (cr_events (Node "Compound" ab kb)) with
          ([Ev KEnter []] ++ ev_iter [] "block_items" (akl (annk cr_step kb) "block_items")) in Gb.
      rewrite (akl_node cr_step "Compound" ab kb "block_items") in Gb. inversion Gb as [|? ? _ Gi]; subst.
      rewrite ev_iter_nodes in Gi. unfold mapi in Gi. apply (NL_items_from [] "block_items" 0 _ Gi). }
    apply NL_app; [constructor; [reflexivity | constructor]|]. apply NL_app; [apply NL_dropped; reflexivity|].
    apply NL_app; [apply Br; assumption | apply Br; assumption]. }
  assert (NU : String.eqb c "UnaryOp" = false) by (apply String.eqb_neq; exact N2).
  assert (NI : String.eqb c "If" = false) by (apply String.eqb_neq; exact N3). try rewrite NU in Hp. try rewrite NI in Hp.
  destruct (String.eqb c "While" || String.eqb c "DoWhile" || String.eqb c "For") eqn:Lp.
  { cbv beta zeta in Hp. rewrite (plain_one c a ks "stmt") in Hp.
    assert (Body : cov (Node c a ks) = body_part (Node c a ks) -> NL (cr_child (Node c a ks) "stmt")).
    { intros E. rewrite E in Hc. unfold body_part in Hc. unfold cr_child.
      destruct (kid1 (Node c a ks) "stmt") as [x|] eqn:K; [|discriminate].
      assert (Cx : cov x = []).
      { destruct (is_cls "Compound" x) eqn:Cc; apply map_eq_nil' in Hc; [rewrite (compound_cov x Cc); exact Hc | exact Hc]. }
      apply NL_epush. apply (Forall_kid1 G c a ks "stmt" x IH K (wf_kid1 _ _ _ W K) Cx Hp). }
    apply orb_true_iff in Lp. destruct Lp as [Lp|Lp]; [apply orb_true_iff in Lp; destruct Lp as [Lp|Lp]|]; apply String.eqb_eq in Lp; subst c.
    - change (cr_step "While" a ks (annk cr_step ks)) with
          ([Ev KEnter []] ++ match kid1 (Node "While" a ks) "cond" with Some _ => [Ev KCond [("cond", 0)]] | None => [] end ++
           match ak1 (annk cr_step ks) "stmt" with Some x => map (epush [("stmt", 0)]) (ares x) | None => [Ev KUnsupported [("stmt", 0)]] end).
      rewrite (cr_child_eq "While" a ks "stmt").
      apply NL_app; [constructor; [reflexivity | constructor]|]. apply NL_app; [apply NL_dropped; reflexivity | apply Body, cov_While].
    - change (cr_step "DoWhile" a ks (annk cr_step ks)) with
          ([Ev KEnter []] ++ match kid1 (Node "DoWhile" a ks) "cond" with Some _ => [Ev KCond [("cond", 0)]] | None => [] end ++
           match ak1 (annk cr_step ks) "stmt" with Some x => map (epush [("stmt", 0)]) (ares x) | None => [Ev KUnsupported [("stmt", 0)]] end).
      rewrite (cr_child_eq "DoWhile" a ks "stmt").
      apply NL_app; [constructor; [reflexivity | constructor]|]. apply NL_app; [apply NL_dropped; reflexivity | apply Body, cov_DoWhile].
    - change (cr_step "For" a ks (annk cr_step ks)) with
          (match loop_compat (Node "For" a ks) with
           | LcErr => [Ev KRaise []]
           | LcNo => [Ev KForSkip []]
           | LcYes _ => [Ev KEnter []] ++ match kid1 (Node "For" a ks) "init" with Some _ => [Ev KHeader [("init", 0)]] | None => [] end ++
                        match kid1 (Node "For" a ks) "cond" with Some _ => [Ev KCond [("cond", 0)]] | None => [] end ++
                        match kid1 (Node "For" a ks) "next" with Some _ => [Ev KHeader [("next", 0)]] | None => [] end ++
                        match ak1 (annk cr_step ks) "stmt" with Some x => map (epush [("stmt", 0)]) (ares x) | None => [Ev KUnsupported [("stmt", 0)]] end
           end).
      pose proof (cov_For a ks) as E.
      (* the gate and the analysis ask the same loop_compat: an accepted for-loop is never skipped *)
      destruct (loop_compat (Node "For" a ks)) as [| |x0] eqn:L; try (rewrite E in Hc; discriminate).
      rewrite (cr_child_eq "For" a ks "stmt").
      apply NL_app; [constructor; [reflexivity | constructor]|]. apply NL_app; [apply NL_dropped; reflexivity|].
      apply NL_app; [apply NL_dropped; reflexivity|]. apply NL_app; [apply NL_dropped; reflexivity | apply Body; exact E]. }
  destruct (String.eqb_spec c "Compound") as [->|N4].
  { cbv beta zeta in Hp. rewrite (plain_all "Compound" a ks "block_items") in Hp.
    change (cr_step "Compound" a ks (annk cr_step ks)) with ([Ev KEnter []] ++ ev_iter [] "block_items" (akl (annk cr_step ks) "block_items")).
    rewrite (akl_node cr_step "Compound" a ks "block_items").
    apply NL_app; [constructor; [reflexivity | constructor]|]. apply NL_ev_iter.
    rewrite (cov_base "Compound" a ks "block_items") in Hc by (cbn [In BASE_ITER]; auto).
    unfold iter_kids in Hc. apply iter_from_nil_inv in Hc.
    pose proof (Forall_kidl G "Compound" a ks "block_items" IH) as Gk.
    rewrite forallb_forall in Hp. apply Forall_forall. intros x Hx.
    rewrite Forall_forall in Gk. apply (Gk x Hx).
    - apply (wf_kidl _ "block_items" x W Hx).
    - rewrite Forall_forall in Hc. apply Hc. apply in_map. exact Hx.
    - apply Hp. exact Hx. }
  assert (NC : String.eqb c "Compound" = false) by (apply String.eqb_neq; exact N4). try rewrite NC in Hp.
  destruct (String.eqb_spec c "FuncCall") as [->|N5]; [|discriminate].
  { rewrite cov_FuncCall in Hc. destruct (fcall_special (Node "FuncCall" a ks)) eqn:Sp; [|discriminate].
    change (cr_step "FuncCall" a ks (annk cr_step ks)) with
        (if ois_cls "ID" (kid1 (Node "FuncCall" a ks) "name") &&
            match kid1 (Node "FuncCall" a ks) "name" with Some f => attr_in f "name" CR_NOOP_CALLS | None => false end
         then [Ev KNoop []] ++ match kid1 (Node "FuncCall" a ks) "args" with Some _ => [Ev KDropEval [("args", 0)]] | None => [] end
         else [Ev KUnsupported []]).
    unfold fcall_special in Sp. destruct (kid1 (Node "FuncCall" a ks) "name") as [f|]; [|discriminate].
    apply andb_true_iff in Sp. destruct Sp as [S1 S2]. simpl ois_cls. rewrite S1. simpl andb.
    assert (S3 : attr_in f "name" CR_NOOP_CALLS = true).
    { unfold attr_in. destruct (attr f "name") as [s|]; [|discriminate]. change CR_NOOP_CALLS with ["assert"; "assume"].
      unfold in_s. simpl. rewrite orb_false_r. exact S2. }
    rewrite S3. apply NL_app; [constructor; [reflexivity | constructor] | apply NL_dropped; reflexivity]. }
Qed.

Theorem G_all n : G n.
Proof. induction n as [c a ks IH] using node_ind'. apply G_step. exact IH. Qed.

Lemma full_cov_nil f : full f = true -> cov f = [].
Proof.
  unfold full, coverage. destruct (cov f) as [|e l]; [reflexivity|]. simpl.
  destruct e as [p [|a]|p]; try discriminate. destruct (cov_entries l); discriminate.
Qed.

Theorem no_skip_partial f :
  wf_pyc f = true -> is_func f = true -> full f = true -> plain_func f = true -> NL (func_events f).
Proof.
  intros W F Fu Pl. apply full_cov_nil in Fu. unfold is_func in F. apply andb_true_iff in F. destruct F as [Fc Fb].
  destruct f as [c a ks]. unfold is_cls in Fc. simpl in Fc. apply String.eqb_eq in Fc. subst c.
  unfold func_events, plain_func in *. destruct (kid1 (Node "FuncDef" a ks) "body") as [b|] eqn:Kb; [|apply NL_nil].
  rewrite cov_FuncDef in Fu. apply app_eq_nil in Fu. destruct Fu as [_ Fu].
  pose proof (cov_nil_pass _ "body" b Fu Kb) as Cb.
  pose proof (wf_kid1 _ _ _ W Kb) as Wb.
  pose proof (block_items_compound b Wb Fb) as Cls. destruct b as [cb ab kb]. simpl in Cls. subst cb.
  rewrite (cov_base "Compound" ab kb "block_items") in Cb by (cbn [In BASE_ITER]; auto).
  unfold iter_kids in Cb. apply iter_from_nil_inv in Cb.
  rewrite forallb_forall in Pl. rewrite Forall_forall in Cb.
  assert (Wk : forall x, In x (kidl (Node "Compound" ab kb) "block_items") -> wf_pyc x = true) by (intros x Hx; apply (wf_kidl _ "block_items" x Wb Hx)).
  assert (Hall : Forall (fun x => NL (cr_events x)) (kidl (Node "Compound" ab kb) "block_items")).
  { apply Forall_forall. intros x Hx. apply G_all; [apply Wk; exact Hx | apply Cb; apply in_map; exact Hx | apply Pl; exact Hx]. }
  apply NL_concat. unfold mapi.
  assert (Gen : forall k xs, Forall (fun x => NL (cr_events x)) xs ->
                Forall NL (mapi_from (fun i s => map (epush [("body", 0); ("block_items", i)]) (cr_events s)) k xs)).
  { intros k xs. revert k. induction xs as [|x xs IHx]; intros k Hx; simpl; constructor.
    - inversion Hx; subst. apply NL_epush. assumption.
    - inversion Hx; subst. apply IHx. assumption. }
  apply Gen. exact Hall.
Qed.

(* non-vacuity: an ordinary function meets all hypotheses *)
Example plain_nonvacuous :
  wf_pyc Syntax_proofs_C05.w_ok = true /\ is_func Syntax_proofs_C05.w_ok = true /\ full Syntax_proofs_C05.w_ok = true /\
  plain_func Syntax_proofs_C05.w_ok = true.
Proof. vm_compute. repeat split. Qed.
