(* C07, part a: how the clear list is routed through the tree (apply_clears), independent of the
   particular Coverage handlers. *)
From Coq Require Import String List Bool Arith Lia.
From PMGen Require Import SyntaxGen PycSchema.
From PM Require Import Tree Syntax Syntax_proofs.
Import ListNotations.
Open Scope string_scope.
Open Scope list_scope.

(* ---------- the pieces of a Coverage result ---------- *)
Definition acts (l : cres) : list action :=
  flat_map (fun e => match e with Omit _ (Act a) => [a] | _ => [] end) l.
Definition has_inh (l : cres) : bool :=
  existsb (fun e => match e with Omit _ Inh => true | _ => false end) l.
Definition has_err (l : cres) : bool :=
  existsb (fun e => match e with CErr _ => true | _ => false end) l.

Lemma acts_app a b : acts (a ++ b) = acts a ++ acts b.
Proof. unfold acts. apply flat_map_app. Qed.
Lemma has_inh_app a b : has_inh (a ++ b) = has_inh a || has_inh b.
Proof. unfold has_inh. apply existsb_app. Qed.
Lemma has_err_app a b : has_err (a ++ b) = has_err a || has_err b.
Proof. unfold has_err. apply existsb_app. Qed.

Lemma cov_entries_ok l r :
  cov_entries l = Ok r -> has_inh l = false /\ has_err l = false /\ map snd r = acts l.
Proof.
  revert r. induction l as [|e l IH]; intros r H; simpl in *.
  - inversion H. auto.
  - destruct e as [p [|a]|p]; try discriminate.
    destruct (cov_entries l) as [r'|] eqn:E; [|discriminate]. inversion H; subst.
    destruct (IH r' eq_refl) as [A [B C]]. simpl. rewrite A, B, C. auto.
Qed.

Lemma cov_entries_clean l :
  has_inh l = false -> has_err l = false -> exists r, cov_entries l = Ok r /\ map snd r = acts l.
Proof.
  induction l as [|e l IH]; intros A B; simpl in *.
  - exists []. auto.
  - destruct e as [p [|a]|p]; simpl in *; try discriminate.
    destruct (IH A B) as [r [E M]]. rewrite E. exists ((p, a) :: r). simpl. rewrite M. auto.
Qed.

Lemma clean_nil l : has_inh l = false -> has_err l = false -> acts l = [] -> l = [].
Proof.
  destruct l as [|e l]; [reflexivity|]. intros A B C. destruct e as [p [|a]|p]; simpl in *; discriminate.
Qed.

(* ---------- apply_clears, list form ---------- *)
Fixpoint ac_go (A : list action) (s : string) (i : nat) (l : list node) : list node :=
  match l with
  | [] => []
  | x :: l' => (if has_act (RmChild [] s i) A then [] else [apply_clears (descend s i A) x]) ++ ac_go A s (S i) l'
  end.

Definition slot_res (A : list action) (s : string) (l : list node) : list node :=
  if has_act (RmAttr [] s) A then [empty_stmt] else ac_go A s 0 l.

Lemma apply_clears_eq A c a ks :
  apply_clears A (Node c a ks) = Node c a (map (fun sk => (fst sk, slot_res A (fst sk) (snd sk))) ks).
Proof.
  simpl. f_equal. apply map_ext. intros [s l]. simpl. unfold slot_res. f_equal.
  destruct (has_act (RmAttr [] s) A); [reflexivity|].
  generalize 0. induction l as [|x l IH]; intros i; simpl; [reflexivity|]. rewrite IH. reflexivity.
Qed.

Lemma ncls_apply A n : ncls (apply_clears A n) = ncls n.
Proof. destruct n. rewrite apply_clears_eq. reflexivity. Qed.
Lemma nattrs_apply A n : nattrs (apply_clears A n) = nattrs n.
Proof. destruct n. rewrite apply_clears_eq. reflexivity. Qed.
Lemma attr_apply A n x : attr (apply_clears A n) x = attr n x.
Proof. unfold attr. rewrite nattrs_apply. reflexivity. Qed.
Lemma is_cls_apply A n c : is_cls c (apply_clears A n) = is_cls c n.
Proof. unfold is_cls. rewrite ncls_apply. reflexivity. Qed.

Lemma slot_apply A n s : slot (apply_clears A n) s = option_map (slot_res A s) (slot n s).
Proof.
  destruct n as [c a ks]. rewrite apply_clears_eq. unfold slot. simpl.
  induction ks as [|[s' l] ks IH]; simpl; [reflexivity|].
  destruct (String.eqb_spec s s') as [->|N]; [reflexivity | exact IH].
Qed.

Lemma kidl_apply A n s : kidl (apply_clears A n) s = match slot n s with Some l => slot_res A s l | None => [] end.
Proof. unfold kidl. rewrite slot_apply. destruct (slot n s); reflexivity. Qed.

Lemma has_slot_apply A n s : has_slot s (apply_clears A n) = has_slot s n.
Proof. unfold has_slot. rewrite slot_apply. destruct (slot n s); reflexivity. Qed.

Lemma descend_nil s i : descend s i [] = []. Proof. reflexivity. Qed.

Lemma ac_go_nil s i l : (forall x, In x l -> apply_clears [] x = x) -> ac_go [] s i l = l.
Proof.
  revert i. induction l as [|x l IH]; intros i H; simpl; [reflexivity|].
  rewrite H by (left; reflexivity). rewrite IH; [reflexivity|]. intros y Hy. apply H. right. exact Hy.
Qed.

Lemma apply_clears_nil n : apply_clears [] n = n.
Proof.
  induction n as [c a ks IH] using node_ind'. rewrite apply_clears_eq. f_equal.
  induction ks as [|[s l] ks IHk]; simpl; [reflexivity|]. inversion IH; subst. f_equal; [|apply IHk; assumption].
  f_equal. unfold slot_res. simpl. apply ac_go_nil. intros x Hx. rewrite Forall_forall in H1. apply H1. exact Hx.
Qed.

(* ---------- views: what a list of closures does at the current node ---------- *)
Lemma has_act_app x a b : has_act x (a ++ b) = has_act x a || has_act x b.
Proof. unfold has_act. apply existsb_app. Qed.
Lemma descend_app s i a b : descend s i (a ++ b) = descend s i a ++ descend s i b.
Proof. unfold descend. apply flat_map_app. Qed.

(* every closure of B aims strictly below the child reached by step st *)
Definition routed (st : string * nat) (B : list action) : Prop :=
  forall a, In a B -> exists rest, act_path a = st :: rest.

Lemma action_eqb_path a b : action_eqb a b = true -> act_path a = act_path b.
Proof.
  destruct a as [p s i|p s], b as [q t j|q t]; simpl; try discriminate.
  - rewrite !andb_true_iff. intros [[H _] _]. apply path_eqb_eq in H. exact H.
  - rewrite !andb_true_iff. intros [H _]. apply path_eqb_eq in H. exact H.
Qed.

Lemma routed_no_here st B x : routed st B -> act_path x = [] -> has_act x B = false.
Proof.
  intros R Hx. unfold has_act. apply not_true_is_false. intro H. apply existsb_exists in H.
  destruct H as [b [Hb E]]. apply action_eqb_path in E. destruct (R b Hb) as [rest Hr]. congruence.
Qed.

Lemma routed_other st B s i : routed st B -> (s, i) <> st -> descend s i B = [].
Proof.
  intros R N. unfold descend. induction B as [|b B IH]; simpl; [reflexivity|].
  destruct (R b (or_introl eq_refl)) as [rest Hr]. rewrite Hr.
  destruct (step_eqb st (s, i)) eqn:E.
  - apply step_eqb_eq in E. congruence.
  - simpl. apply IH. intros a Ha. apply R. right. exact Ha.
Qed.

Lemma routed_app st A B : routed st A -> routed st B -> routed st (A ++ B).
Proof. intros RA RB a Ha. apply in_app_or in Ha. destruct Ha; [apply RA | apply RB]; assumption. Qed.

Lemma routed_nil st : routed st []. Proof. intros a []. Qed.

Lemma push_act_path pre a : act_path (push_act pre a) = pre ++ act_path a.
Proof. destruct a; reflexivity. Qed.

Lemma act_tail_push st pre a : act_tail (push_act (st :: pre) a) = push_act pre a.
Proof. destruct a; reflexivity. Qed.

Lemma push_act_nil a : push_act [] a = a.
Proof. destruct a; reflexivity. Qed.

Lemma pass_nil e : pass [] e = e.
Proof. destruct e as [p [|a]|p]; simpl; rewrite ?push_act_nil; reflexivity. Qed.

Lemma map_pass_nil l : map (pass []) l = l.
Proof. induction l; simpl; [reflexivity|]. rewrite pass_nil, IHl. reflexivity. Qed.

(* a part handed up with the parent's own kwargs *)
Lemma routed_pass st pre L : routed st (acts (map (pass (st :: pre)) L)).
Proof.
  intros a Ha. unfold acts in Ha. apply in_flat_map in Ha. destruct Ha as [e [He Ha]].
  apply in_map_iff in He. destruct He as [e0 [<- _]].
  destruct e0 as [p [|b]|p]; simpl in Ha; try contradiction. destruct Ha as [<-|[]].
  rewrite push_act_path. simpl. eauto.
Qed.

Lemma step_eqb_refl st : step_eqb st st = true.
Proof. apply step_eqb_eq. reflexivity. Qed.

Lemma descend_pass st pre L :
  descend (fst st) (snd st) (acts (map (pass (st :: pre)) L)) = acts (map (pass pre) L).
Proof.
  destruct st as [s i]. simpl. induction L as [|e L IH]; simpl; [reflexivity|].
  destruct e as [p [|a]|p]; simpl; try exact IH.
  unfold descend in *. simpl. rewrite push_act_path. simpl. rewrite step_eqb_refl. simpl.
  rewrite act_tail_push. f_equal. exact IH.
Qed.

Lemma has_inh_pass pre L : has_inh (map (pass pre) L) = has_inh L.
Proof. induction L as [|e L IH]; simpl; [reflexivity|]. destruct e as [p [|a]|p]; simpl; rewrite ?IH; reflexivity. Qed.
Lemma has_err_pass pre L : has_err (map (pass pre) L) = has_err L.
Proof. induction L as [|e L IH]; simpl; [reflexivity|]. destruct e as [p [|a]|p]; simpl; rewrite ?IH; reflexivity. Qed.
Lemma has_err_with_clear C pre L : has_err (map (with_clear C pre) L) = has_err L.
Proof. induction L as [|e L IH]; simpl; [reflexivity|]. destruct e as [p [|a]|p]; simpl; rewrite ?IH; reflexivity. Qed.
Lemma has_inh_with_clear C pre L : has_inh (map (with_clear C pre) L) = false.
Proof. induction L as [|e L IH]; simpl; [reflexivity|]. destruct e as [p [|a]|p]; simpl; rewrite ?IH; reflexivity. Qed.

(* a part for which the parent supplies the clear C (C acts on the parent itself) *)
Lemma has_act_with_clear x C st L :
  act_path x = [] -> has_act x (acts (map (with_clear C [st]) L)) = has_inh L && action_eqb x C.
Proof.
  intros Hx. induction L as [|e L IH]; simpl; [reflexivity|].
  destruct e as [p [|a]|p]; simpl.
  - rewrite IH. destruct (action_eqb x C); simpl; rewrite ?orb_true_r, ?andb_false_r; reflexivity.
  - rewrite IH. replace (action_eqb x (push_act [st] a)) with false; [reflexivity|].
    symmetry. apply not_true_is_false. intro E. apply action_eqb_path in E. rewrite push_act_path, Hx in E. discriminate.
  - exact IH.
Qed.

Lemma descend_with_clear C st L s i :
  act_path C = [] ->
  descend s i (acts (map (with_clear C [st]) L)) = if step_eqb st (s, i) then acts L else [].
Proof.
  intros HC. induction L as [|e L IH]; simpl; [destruct (step_eqb st (s, i)); reflexivity|].
  destruct e as [p [|a]|p]; simpl.
  - unfold descend in *. simpl. rewrite HC. exact IH.
  - unfold descend in *. simpl. rewrite push_act_path. simpl.
    destruct (step_eqb st (s, i)); simpl.
    + rewrite act_tail_push, push_act_nil. f_equal. exact IH.
    + exact IH.
  - exact IH.
Qed.

(* ---------- single-slot children after apply_clears ---------- *)
Lemma kid1_apply_through A n s :
  has_act (RmAttr [] s) A = false -> has_act (RmChild [] s 0) A = false ->
  kid1 (apply_clears A n) s = option_map (apply_clears (descend s 0 A)) (kid1 n s).
Proof.
  intros H1 H2. unfold kid1. rewrite kidl_apply. unfold kidl.
  destruct (slot n s) as [l|]; [|reflexivity]. unfold slot_res. rewrite H1.
  destruct l as [|x l]; [reflexivity|]. simpl. rewrite H2. reflexivity.
Qed.

Lemma ac_go_untouched A s i l :
  (forall j, has_act (RmChild [] s j) A = false) -> (forall j, descend s j A = []) -> ac_go A s i l = l.
Proof.
  intros H1 H2. revert i. induction l as [|x l IH]; intros i; simpl; [reflexivity|].
  rewrite H1, H2, apply_clears_nil, IH. reflexivity.
Qed.

Lemma kidl_apply_untouched A n s :
  has_act (RmAttr [] s) A = false -> (forall j, has_act (RmChild [] s j) A = false) ->
  (forall j, descend s j A = []) -> kidl (apply_clears A n) s = kidl n s.
Proof.
  intros H0 H1 H2. rewrite kidl_apply. unfold kidl. destruct (slot n s) as [l|]; [|reflexivity].
  unfold slot_res. rewrite H0. apply ac_go_untouched; assumption.
Qed.

Lemma kid1_apply_untouched A n s :
  has_act (RmAttr [] s) A = false -> (forall j, has_act (RmChild [] s j) A = false) ->
  (forall j, descend s j A = []) -> kid1 (apply_clears A n) s = kid1 n s.
Proof. intros. unfold kid1. rewrite kidl_apply_untouched by assumption. reflexivity. Qed.

(* ---------- list slots: the iteration of Coverage._iter_attr ---------- *)
Definition iter_part (s : string) (i : nat) (L : cres) : cres := map (with_clear (RmChild [] s i) [(s, i)]) L.

Lemma routed_iter_tail s i L :
  routed (s, i) (flat_map (fun e => match e with Omit _ (Act a) => [push_act [(s, i)] a] | _ => [] end) L).
Proof.
  intros a Ha. apply in_flat_map in Ha. destruct Ha as [e [_ Ha]].
  destruct e as [p [|b]|p]; simpl in Ha; try contradiction. destruct Ha as [<-|[]].
  rewrite push_act_path. simpl. eauto.
Qed.

Lemma has_rmchild_iter_part s i j L :
  has_act (RmChild [] s j) (acts (iter_part s i L)) = has_inh L && Nat.eqb j i.
Proof.
  unfold iter_part. rewrite has_act_with_clear by reflexivity. simpl. rewrite String.eqb_refl. reflexivity.
Qed.

Lemma has_rmchild_other_iter_part s s' i j L :
  s' <> s -> has_act (RmChild [] s' j) (acts (iter_part s i L)) = false.
Proof.
  intros N. unfold iter_part. rewrite has_act_with_clear by reflexivity. simpl.
  apply String.eqb_neq in N. rewrite N. simpl. apply andb_false_r.
Qed.

Lemma has_rmattr_iter_part s s' i L : has_act (RmAttr [] s') (acts (iter_part s i L)) = false.
Proof. unfold iter_part. rewrite has_act_with_clear by reflexivity. simpl. apply andb_false_r. Qed.

Lemma descend_iter_part s i s' j L :
  descend s' j (acts (iter_part s i L)) = if step_eqb (s, i) (s', j) then acts L else [].
Proof. unfold iter_part. apply descend_with_clear. reflexivity. Qed.

(* concatenation of the parts of children k, k+1, ... *)
Fixpoint iter_from (s : string) (k : nat) (Ls : list cres) : cres :=
  match Ls with [] => [] | L :: r => iter_part s k L ++ iter_from s (S k) r end.

Lemma cov_iter_eq {X} (f : X -> cres) s k (xs : list X) :
  concat (mapi_from (fun i x => map (with_clear (RmChild [] s i) ([] ++ [(s, i)])) (f x)) k xs) = iter_from s k (map f xs).
Proof. revert k. induction xs as [|x xs IH]; intros k; simpl; [reflexivity|]. rewrite IH. reflexivity. Qed.

Lemma iter_from_view_lt s k Ls j : j < k ->
  has_act (RmChild [] s j) (acts (iter_from s k Ls)) = false /\ descend s j (acts (iter_from s k Ls)) = [].
Proof.
  revert k. induction Ls as [|L r IH]; intros k Hlt; simpl; [auto|].
  rewrite acts_app, has_act_app, descend_app, has_rmchild_iter_part, descend_iter_part.
  destruct (IH (S k) (Nat.lt_lt_succ_r _ _ Hlt)) as [A B]. rewrite A, B.
  assert (E1 : Nat.eqb j k = false) by (apply Nat.eqb_neq; lia). rewrite E1, andb_false_r.
  assert (E2 : step_eqb (s, k) (s, j) = false).
  { apply not_true_is_false. intro E. apply step_eqb_eq in E. inversion E. lia. }
  rewrite E2. auto.
Qed.

Lemma iter_from_view s k Ls i L :
  nth_error Ls i = Some L ->
  has_act (RmChild [] s (k + i)) (acts (iter_from s k Ls)) = has_inh L /\
  descend s (k + i) (acts (iter_from s k Ls)) = acts L.
Proof.
  revert k i. induction Ls as [|L0 r IH]; intros k i H; [destruct i; discriminate|].
  simpl. rewrite acts_app, has_act_app, descend_app, has_rmchild_iter_part, descend_iter_part.
  destruct i as [|i]; simpl in H.
  - inversion H; subst. rewrite Nat.add_0_r, Nat.eqb_refl, andb_true_r, step_eqb_refl.
    destruct (iter_from_view_lt s (S k) r k (Nat.lt_succ_diag_r k)) as [A B]. rewrite A, B, orb_false_r, app_nil_r. auto.
  - replace (k + S i) with (S k + i) by lia. destruct (IH (S k) i H) as [A B]. rewrite A, B.
    assert (E1 : Nat.eqb (S k + i) k = false) by (apply Nat.eqb_neq; lia). rewrite E1, andb_false_r.
    assert (E2 : step_eqb (s, k) (s, S k + i) = false).
    { apply not_true_is_false. intro E. apply step_eqb_eq in E. inversion E. lia. }
    rewrite E2. auto.
Qed.

Lemma iter_from_other s k Ls s' j : s' <> s ->
  has_act (RmChild [] s' j) (acts (iter_from s k Ls)) = false /\ descend s' j (acts (iter_from s k Ls)) = [].
Proof.
  intros N. revert k. induction Ls as [|L r IH]; intros k; simpl; [auto|].
  rewrite acts_app, has_act_app, descend_app, has_rmchild_other_iter_part by assumption.
  rewrite descend_iter_part. destruct (IH (S k)) as [A B]. rewrite A, B.
  assert (E2 : step_eqb (s, k) (s', j) = false).
  { apply not_true_is_false. intro E. apply step_eqb_eq in E. inversion E. congruence. }
  rewrite E2. auto.
Qed.

Lemma iter_from_no_rmattr s k Ls s' : has_act (RmAttr [] s') (acts (iter_from s k Ls)) = false.
Proof.
  revert k. induction Ls as [|L r IH]; intros k; simpl; [reflexivity|].
  rewrite acts_app, has_act_app, has_rmattr_iter_part, IH. reflexivity.
Qed.

Lemma iter_from_beyond s k Ls j : k + length Ls <= j ->
  has_act (RmChild [] s j) (acts (iter_from s k Ls)) = false /\ descend s j (acts (iter_from s k Ls)) = [].
Proof.
  revert k. induction Ls as [|L r IH]; intros k Hle; simpl in *; [auto|].
  rewrite acts_app, has_act_app, descend_app, has_rmchild_iter_part, descend_iter_part.
  destruct (IH (S k)) as [A B]; [lia|]. rewrite A, B.
  assert (E1 : Nat.eqb j k = false) by (apply Nat.eqb_neq; lia). rewrite E1, andb_false_r.
  assert (E2 : step_eqb (s, k) (s, j) = false).
  { apply not_true_is_false. intro E. apply step_eqb_eq in E. inversion E. lia. }
  rewrite E2. auto.
Qed.

Lemma has_inh_iter_from s k Ls : has_inh (iter_from s k Ls) = false.
Proof.
  revert k. induction Ls as [|L r IH]; intros k; simpl; [reflexivity|].
  rewrite has_inh_app. unfold iter_part. rewrite has_inh_with_clear, IH. reflexivity.
Qed.

Lemma has_err_iter_from s k Ls : has_err (iter_from s k Ls) = existsb has_err Ls.
Proof.
  revert k. induction Ls as [|L r IH]; intros k; simpl; [reflexivity|].
  rewrite has_err_app. unfold iter_part. rewrite has_err_with_clear, IH. reflexivity.
Qed.

(* the list slot after the closures of (A0 ++ iteration ++ A1) ran, when A0 and A1 do not touch it *)
Definition prune_list (f : node -> cres) (l : list node) : list node :=
  flat_map (fun x => if has_inh (f x) then [] else [apply_clears (acts (f x)) x]) l.

Lemma ac_go_iter (f : node -> cres) s A0 A1 l :
  (forall j, has_act (RmChild [] s j) A0 = false /\ descend s j A0 = []) ->
  (forall j, has_act (RmChild [] s j) A1 = false /\ descend s j A1 = []) ->
  ac_go (A0 ++ acts (iter_from s 0 (map f l)) ++ A1) s 0 l = prune_list f l.
Proof.
  intros H0 H1.
  assert (G : forall pre suf k, l = pre ++ suf -> k = length pre ->
              ac_go (A0 ++ acts (iter_from s 0 (map f l)) ++ A1) s k suf = prune_list f suf).
  { intros pre suf. revert pre. induction suf as [|x suf IH]; intros pre k El Ek; [reflexivity|].
    simpl. rewrite !has_act_app, !descend_app.
    destruct (H0 k) as [a0 d0]. destruct (H1 k) as [a1 d1]. rewrite a0, d0, a1, d1. simpl. rewrite orb_false_r, app_nil_r.
    assert (Hn : nth_error (map f l) k = Some (f x)).
    { rewrite El, map_app, nth_error_app2 by (rewrite map_length; lia). rewrite map_length, Ek, Nat.sub_diag. reflexivity. }
    destruct (iter_from_view s 0 (map f l) k (f x) Hn) as [V1 V2]. simpl in V1, V2. rewrite V1, V2.
    rewrite (IH (pre ++ [x]) (S k)).
    - destruct (has_inh (f x)); reflexivity.
    - rewrite <- app_assoc. exact El.
    - rewrite app_length. simpl. lia. }
  apply (G [] l 0); reflexivity.
Qed.
