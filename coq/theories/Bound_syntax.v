(* Specification side of C20: what a bound triple MEANS (max / + / x over naturals) and how a
   printed expression is READ.  Nothing here refers to [bound_poly] / [bound_expr]: the reader is
   the conventional one for the concrete syntax
        E ::= T ('+' T)*      T ::= F ('*' F)*
        F ::= name | 0 | max '(' E (',' E)* ')' | '(' E ')'
   with names = maximal runs of characters other than ( ) , + *  .  No proofs in this file. *)
From Coq Require Import String Ascii List Bool Arith.
From PM Require Import Bound.
Import ListNotations.
Local Open Scope string_scope.
Local Open Scope list_scope.

Definition valuation := str -> nat.

(* ---------------------------------------------------------------- meaning of a triple *)
Definition maxl (rho : valuation) (l : list str) : nat := fold_right (fun v acc => Nat.max (rho v) acc) 0 l.
Definition suml (rho : valuation) (l : list str) : nat := fold_right (fun v acc => rho v + acc) 0 l.
Definition prodl (rho : valuation) (l : list str) : nat := fold_right (fun v acc => rho v * acc) 1 l.
(* an empty list contributes nothing: the empty product is NOT counted as 1 *)
Definition prodz (rho : valuation) (l : list str) : nat := match l with [] => 0 | _ :: _ => prodl rho l end.
Definition bound_value (rho : valuation) (x y z : list str) : nat :=
  Nat.max (maxl rho x) (suml rho y) + prodz rho z.

(* ---------------------------------------------------------------- meaning of a tree *)
Fixpoint eval (rho : valuation) (e : expr) : nat :=
  match e with
  | Var s => rho s
  | Zero => 0
  | Max l => fold_right (fun a acc => Nat.max (eval rho a) acc) 0 l
  | Add l => fold_right (fun a acc => eval rho a + acc) 0 l
  | Mul l => fold_right (fun a acc => eval rho a * acc) 1 l
  end.

(* ---------------------------------------------------------------- reading text *)
Definition special (c : ascii) : option token :=
  if Ascii.eqb c "("%char then Some TLP
  else if Ascii.eqb c ")"%char then Some TRP
  else if Ascii.eqb c ","%char then Some TComma
  else if Ascii.eqb c "+"%char then Some TPlus
  else if Ascii.eqb c "*"%char then Some TStar
  else None.

Fixpoint tokenize (s : str) : list token :=
  match s with
  | [] => []
  | c :: t =>
      match special c with
      | Some k => k :: tokenize t
      | None => match tokenize t with
                | TId w :: r => TId (c :: w) :: r
                | r => TId [c] :: r
                end
      end
  end.

(* recursive descent; [n] is fuel, each call spends one unit *)
Fixpoint pE (n : nat) (ts : list token) {struct n} : option (list expr * list token) :=
  match n with
  | 0 => None
  | S n =>
      match pT n ts with
      | Some (fs, TPlus :: r) =>
          match pE n r with Some (l, r') => Some (mk_mul fs :: l, r') | None => None end
      | Some (fs, r) => Some ([mk_mul fs], r)
      | None => None
      end
  end
with pT (n : nat) (ts : list token) {struct n} : option (list expr * list token) :=
  match n with
  | 0 => None
  | S n =>
      match pF n ts with
      | Some (f, TStar :: r) =>
          match pT n r with Some (l, r') => Some (f :: l, r') | None => None end
      | Some (f, r) => Some ([f], r)
      | None => None
      end
  end
with pF (n : nat) (ts : list token) {struct n} : option (expr * list token) :=
  match n with
  | 0 => None
  | S n =>
      match ts with
      | TId s :: r =>
          if str_eqb s (L "max") then
            match r with
            | TLP :: r1 =>
                match pA n r1 with Some (l, TRP :: r2) => Some (Max l, r2) | _ => None end
            | _ => Some (Var s, r)
            end
          else Some (if str_eqb s (L "0") then Zero else Var s, r)
      | TLP :: r =>
          match pE n r with Some (l, TRP :: r') => Some (mk_add l, r') | _ => None end
      | _ => None
      end
  end
with pA (n : nat) (ts : list token) {struct n} : option (list expr * list token) :=
  match n with
  | 0 => None
  | S n =>
      match pE n ts with
      | Some (l, TComma :: r) =>
          match pA n r with Some (es, r') => Some (mk_add l :: es, r') | None => None end
      | Some (l, r) => Some ([mk_add l], r)
      | None => None
      end
  end.

Definition parse_tokens (ts : list token) : option expr :=
  match pE (4 * length ts + 2) ts with
  | Some (l, []) => Some (mk_add l)
  | _ => None
  end.

Definition parse_expr (s : str) : option expr := parse_tokens (tokenize s).

(* the value of a printed expression; None = not an expression *)
Definition eval_text (rho : valuation) (s : str) : option nat := option_map (eval rho) (parse_expr s).

(* ---------------------------------------------------------------- identifiers *)
Definition plainb (a : str) : bool :=
  truthy a && forallb (fun c => match special c with None => true | Some _ => false end) a.
(* a name: non-empty, none of ( ) , + * , and not the literal 0 *)
Definition identb (a : str) : bool := plainb a && negb (str_eqb a (L "0")).
Definition ident (a : str) : Prop := identb a = true.

(* a name that can be stored in the m;w;p text form: non-empty, no ',' and no ';' *)
Definition csvb (a : str) : bool :=
  truthy a && forallb (fun c => negb (Ascii.eqb c ","%char) && negb (Ascii.eqb c ";"%char)) a.
Definition csv_name (a : str) : Prop := csvb a = true.

(* ---------------------------------------------------------------- the grammar, declaratively *)
Inductive gF : list token -> expr -> Prop :=
| gF_var a : plainb a = true -> str_eqb a (L "0") = false -> gF [TId a] (Var a)
| gF_zero : gF [TId (L "0")] Zero
| gF_max ts l : gA ts l -> gF (TId (L "max") :: TLP :: ts ++ [TRP]) (Max l)
| gF_paren ts l : gE ts l -> gF (TLP :: ts ++ [TRP]) (mk_add l)
with gT : list token -> list expr -> Prop :=
| gT_one ts f : gF ts f -> gT ts [f]
| gT_cons ts f ts' l : gF ts f -> gT ts' l -> gT (ts ++ TStar :: ts') (f :: l)
with gE : list token -> list expr -> Prop :=
| gE_one ts fs : gT ts fs -> gE ts [mk_mul fs]
| gE_cons ts fs ts' l : gT ts fs -> gE ts' l -> gE (ts ++ TPlus :: ts') (mk_mul fs :: l)
with gA : list token -> list expr -> Prop :=
| gA_one ts l : gE ts l -> gA ts [mk_add l]
| gA_cons ts l ts' es : gE ts l -> gA ts' es -> gA (ts ++ TComma :: ts') (mk_add l :: es).
