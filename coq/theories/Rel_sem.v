(* Semantics of relations: what a relation MEANS at a choice vector, well-formedness, and the
   STATEMENTS of the semantic lemmas about homogenisation / sum / composition (proved in
   Rel_hom.v, Rel_ops.v).  Definitions only + statements as Props, so that dependants can be
   developed in parallel. *)
From Coq Require Import String List Bool Arith Lia.
From PM Require Import Semiring Poly Poly_sem Poly_add Poly_times Rel Analysis Calculus.
Import ListNotations.
Open Scope list_scope.

(* the polynomial relating x to y: the matrix cell when both are variables of the relation,
   the identity extension otherwise *)
Definition cell (r : rel) (x y : string) : poly :=
  match index_of_str x (rvars r), index_of_str y (rvars r) with
  | Some i, Some j => mget (rmat r) i j
  | _, _ => if String.eqb x y then unit_poly else zero_poly
  end.

(* value of the relation at choice c, as a scalar matrix *)
Definition rval (r : rel) (c : choice) : smat := fun x y => val (cell r x y) c.

Definition wf_rel (r : rel) : Prop :=
  NoDup (rvars r) /\ Forall (fun v => v <> EmptyString) (rvars r) /\
  length (rmat r) = length (rvars r) /\
  Forall (fun row => length row = length (rvars r)) (rmat r).

(* monomial well-formedness maintained by pymwp: deltas sorted by strictly increasing index *)
Fixpoint dsorted (l : list delta) : Prop :=
  match l with
  | [] => True
  | d :: t => (match t with [] => True | d' :: _ => snd d < snd d' end) /\ dsorted t
  end.

Definition mwf (m : mono) : Prop := dsorted (ds m).
Definition pwf (p : poly) : Prop := p <> [] /\ Forall mwf p.
Definition rel_pwf (r : rel) : Prop := Forall (fun row => Forall pwf row) (rmat r).

(* no infinity at c in any cell between variables of the relation *)
Definition clean (r : rel) (c : choice) : Prop :=
  forall x y, In x (rvars r) -> In y (rvars r) -> rval r c x y <> I.

(* exact value of a polynomial product as pymwp computes it (Poly_times.ptimes_val) *)
Definition pprod_val (p q : poly) (c : choice) : Sc :=
  match terms p c, terms q c with
  | [], _ | _, [] => O
  | _, _ => sprod (val p c) (val q c)
  end.

(* ---------------- statements ---------------- *)

Definition homogenisation_sem_stmt : Prop :=
  forall r1 r2, wf_rel r1 -> wf_rel r2 ->
    let '(e1, e2) := homogenisation r1 r2 in
    wf_rel e1 /\ wf_rel e2 /\ rvars e1 = rvars e2 /\
    (forall v, In v (rvars e1) <-> In v (rvars r1) \/ In v (rvars r2)) /\
    (forall x y, cell e1 x y = cell r1 x y) /\ (forall x y, cell e2 x y = cell r2 x y) /\
    (rel_pwf r1 -> rel_pwf r2 -> rel_pwf e1 /\ rel_pwf e2).

Definition rel_sum_sem_stmt : Prop :=
  forall a b, wf_rel a -> wf_rel b ->
    wf_rel (rel_sum a b) /\
    (forall v, In v (rvars (rel_sum a b)) <-> In v (rvars a) \/ In v (rvars b)) /\
    (forall x y c, rval (rel_sum a b) c x y = ssum (rval a c x y) (rval b c x y)) /\
    (rel_pwf a -> rel_pwf b -> rel_pwf (rel_sum a b)).

(* composition, exact (every choice, infinity included): a fold of polynomial sums of polynomial
   products over the unified variable list *)
Definition rel_comp_sem_stmt : Prop :=
  forall a b, wf_rel a -> wf_rel b -> rel_pwf a -> rel_pwf b ->
    wf_rel (rel_comp a b) /\ rel_pwf (rel_comp a b) /\
    (forall v, In v (rvars (rel_comp a b)) <-> In v (rvars a) \/ In v (rvars b)) /\
    (forall x y c, In x (rvars (rel_comp a b)) -> In y (rvars (rel_comp a b)) ->
       rval (rel_comp a b) c x y =
       fold_right (fun k acc => ssum (pprod_val (cell a x k) (cell b k y) c) acc) O (rvars (rel_comp a b))).

(* composition at a choice where neither operand has an infinity: the plain matrix product *)
Definition rel_comp_clean_stmt : Prop :=
  forall a b c, wf_rel a -> wf_rel b -> rel_pwf a -> rel_pwf b -> clean a c -> clean b c ->
    forall x y, In x (rvars (rel_comp a b)) -> In y (rvars (rel_comp a b)) ->
      rval (rel_comp a b) c x y = smul (rvars (rel_comp a b)) (rval a c) (rval b c) x y.
