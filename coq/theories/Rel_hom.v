(* Proof of Rel_sem.homogenisation_sem_stmt: Relation.homogenisation preserves the meaning
   (every cell, as a polynomial, syntactically) of both operands, on all four code paths.
   The first half of the file is a small library of generic lemmas about build / mget /
   index_of_str / mem_strb / list_str_eqb / mk_rel that Rel_ops.v and others can import. *)
From Coq Require Import String List Bool Arith Lia.
From PM Require Import Semiring Poly Poly_sem Poly_add Poly_times Rel Analysis Calculus Rel_sem.
Import ListNotations.
Open Scope list_scope.

(* ------------------------------------------------------------------ *)
(* build / mget                                                        *)
(* ------------------------------------------------------------------ *)

Lemma nth_map_seq {A} (f : nat -> A) (d : A) (n s i : nat) :
  i < n -> nth i (map f (seq s n)) d = f (s + i).
Proof.
  intros H.
  rewrite (nth_indep _ d (f 0)) by (rewrite map_length, seq_length; exact H).
  rewrite map_nth. rewrite seq_nth by exact H. reflexivity.
Qed.

Lemma build_length n k f : length (build n k f) = n.
Proof. unfold build. rewrite map_length, seq_length. reflexivity. Qed.

Lemma build_rows n k f : Forall (fun row => length row = k) (build n k f).
Proof.
  unfold build. apply Forall_forall. intros row H.
  apply in_map_iff in H. destruct H as [i [Hi _]]. subst row.
  rewrite map_length, seq_length. reflexivity.
Qed.

Lemma mget_build n k f i j : i < n -> j < k -> mget (build n k f) i j = f i j.
Proof.
  intros Hi Hj. unfold mget, build.
  rewrite (nth_map_seq _ _ n 0 i Hi). cbv beta.
  rewrite (nth_map_seq _ _ k 0 j Hj). reflexivity.
Qed.

Lemma build_Forall (P : poly -> Prop) n k f :
  (forall i j, i < n -> j < k -> P (f i j)) ->
  Forall (fun row => Forall P row) (build n k f).
Proof.
  intros H. unfold build. apply Forall_forall. intros row Hr.
  apply in_map_iff in Hr. destruct Hr as [i [Hrow Hi]]. subst row. apply in_seq in Hi.
  apply Forall_forall. intros p Hp.
  apply in_map_iff in Hp. destruct Hp as [j [Hp Hj]]. subst p. apply in_seq in Hj.
  apply H; lia.
Qed.

Lemma mget_In (m : matrix) i j :
  i < length m -> j < length (nth i m []) ->
  In (nth i m []) m /\ In (mget m i j) (nth i m []).
Proof.
  intros Hi Hj. split.
  - apply nth_In. exact Hi.
  - unfold mget. apply nth_In. exact Hj.
Qed.

(* ------------------------------------------------------------------ *)
(* index_of_str / mem_strb / list_str_eqb                              *)
(* ------------------------------------------------------------------ *)

Lemma index_of_str_some x : forall l i, index_of_str x l = Some i ->
  i < length l /\ nth i l EmptyString = x /\ (forall k, k < i -> nth k l EmptyString <> x).
Proof.
  induction l as [|h t IH]; intros i H; cbn [index_of_str] in H.
  - discriminate.
  - destruct (String.eqb x h) eqn:E.
    + injection H as Hi. subst i. apply String.eqb_eq in E. subst h.
      cbn [length nth]. split; [lia|]. split; [reflexivity|]. intros k Hk. lia.
    + destruct (index_of_str x t) as [i'|] eqn:Et; cbn [option_map] in H; [|discriminate].
      injection H as Hi. subst i. destruct (IH i' eq_refl) as [H1 [H2 H3]].
      cbn [length]. split; [lia|]. split; [exact H2|].
      intros k Hk. destruct k as [|k]; cbn [nth].
      * apply String.eqb_neq in E. congruence.
      * apply H3. lia.
Qed.

Lemma index_of_str_lt x l i : index_of_str x l = Some i -> i < length l.
Proof. intros H. apply (index_of_str_some x l i H). Qed.

Lemma index_of_str_nth x l i : index_of_str x l = Some i -> nth i l EmptyString = x.
Proof. intros H. apply (index_of_str_some x l i H). Qed.

Lemma index_of_str_none x : forall l, index_of_str x l = None <-> ~ In x l.
Proof.
  induction l as [|h t IH]; cbn [index_of_str In].
  - split; [intros _ [] | reflexivity].
  - destruct (String.eqb x h) eqn:E.
    + apply String.eqb_eq in E. split; [discriminate|].
      intros H. exfalso. apply H. left. congruence.
    + apply String.eqb_neq in E.
      destruct (index_of_str x t) as [n|] eqn:Et; cbn [option_map].
      * split; [discriminate|]. intros H.
        assert (Hn : ~ In x t) by tauto. apply IH in Hn. discriminate.
      * split; [|reflexivity]. intros _ [Hh|Ht]; [congruence|].
        destruct IH as [IH1 _]. exact (IH1 eq_refl Ht).
Qed.

Lemma index_of_str_In x l : In x l <-> exists i, index_of_str x l = Some i.
Proof.
  split.
  - intros H. destruct (index_of_str x l) as [i|] eqn:E; [eauto|].
    apply index_of_str_none in E. contradiction.
  - intros [i H]. destruct (index_of_str_some x l i H) as [H1 [H2 _]].
    rewrite <- H2. apply nth_In. exact H1.
Qed.

(* index_of_str returns the FIRST position *)
Lemma index_of_str_first x l i :
  i < length l -> nth i l EmptyString = x -> (forall k, k < i -> nth k l EmptyString <> x) ->
  index_of_str x l = Some i.
Proof.
  intros Hi Hn Hf.
  assert (Hin : In x l) by (rewrite <- Hn; apply nth_In; exact Hi).
  apply index_of_str_In in Hin. destruct Hin as [i' Hi'].
  destruct (index_of_str_some x l i' Hi') as [H1 [H2 H3]].
  destruct (Nat.lt_trichotomy i' i) as [Hlt|[Heq|Hgt]].
  - exfalso. exact (Hf i' Hlt H2).
  - subst i'. exact Hi'.
  - exfalso. exact (H3 i Hgt Hn).
Qed.

Lemma index_of_str_nth_nodup l i :
  NoDup l -> i < length l -> index_of_str (nth i l EmptyString) l = Some i.
Proof.
  intros Hnd Hi. apply index_of_str_first; [exact Hi|reflexivity|].
  intros k Hk Heq.
  assert (k = i) by (apply (proj1 (NoDup_nth l EmptyString) Hnd); [lia|exact Hi|exact Heq]).
  lia.
Qed.

Lemma index_of_str_app x l2 : forall l1,
  index_of_str x (l1 ++ l2) =
  match index_of_str x l1 with
  | Some i => Some i
  | None => option_map (fun k => length l1 + k) (index_of_str x l2)
  end.
Proof.
  induction l1 as [|h t IH]; cbn [app index_of_str length].
  - destruct (index_of_str x l2); reflexivity.
  - destruct (String.eqb x h); [reflexivity|]. rewrite IH.
    destruct (index_of_str x t); cbn [option_map]; [reflexivity|].
    destruct (index_of_str x l2); reflexivity.
Qed.

Lemma index_of_str_app_l x l1 l2 i :
  index_of_str x l1 = Some i -> index_of_str x (l1 ++ l2) = Some i.
Proof. intros H. rewrite index_of_str_app, H. reflexivity. Qed.

Lemma index_of_str_app_r x l1 l2 :
  index_of_str x l1 = None ->
  index_of_str x (l1 ++ l2) = option_map (fun k => length l1 + k) (index_of_str x l2).
Proof. intros H. rewrite index_of_str_app, H. reflexivity. Qed.

(* the three possible situations of a name w.r.t. a list and one of its extensions *)
Lemma index_of_str_app_cases x l1 l2 :
  (exists i, index_of_str x l1 = Some i /\ index_of_str x (l1 ++ l2) = Some i /\ i < length l1) \/
  (index_of_str x l1 = None /\ index_of_str x (l1 ++ l2) = None) \/
  (exists k, index_of_str x l1 = None /\ index_of_str x (l1 ++ l2) = Some (length l1 + k)).
Proof.
  rewrite index_of_str_app.
  destruct (index_of_str x l1) as [i|] eqn:E1.
  - left. exists i. split; [reflexivity|]. split; [reflexivity|].
    exact (index_of_str_lt x l1 i E1).
  - right. destruct (index_of_str x l2) as [k|]; cbn [option_map].
    + right. exists k. split; reflexivity.
    + left. split; reflexivity.
Qed.

Lemma index_of_str_eqb x y l i j :
  index_of_str x l = Some i -> index_of_str y l = Some j -> Nat.eqb i j = String.eqb x y.
Proof.
  intros Hx Hy.
  destruct (Nat.eqb_spec i j) as [Hij|Hij]; destruct (String.eqb_spec x y) as [Hxy|Hxy];
    try reflexivity; exfalso.
  - subst j. apply index_of_str_nth in Hx. apply index_of_str_nth in Hy. congruence.
  - subst y. rewrite Hx in Hy. injection Hy as Hy. contradiction.
Qed.

Lemma mem_strb_In x l : mem_strb x l = true <-> In x l.
Proof.
  unfold mem_strb. destruct (index_of_str x l) as [i|] eqn:E.
  - split; [|reflexivity]. intros _. apply index_of_str_In. eauto.
  - split; [discriminate|]. intros H. apply index_of_str_none in E. contradiction.
Qed.

Lemma mem_strb_false x l : mem_strb x l = false <-> ~ In x l.
Proof.
  rewrite <- mem_strb_In. destruct (mem_strb x l); split; congruence.
Qed.

Lemma list_str_eqb_eq : forall a b, list_str_eqb a b = true <-> a = b.
Proof.
  unfold list_str_eqb.
  induction a as [|x s IH]; intros [|y t]; cbn [list_eqb].
  - split; reflexivity.
  - split; discriminate.
  - split; discriminate.
  - rewrite andb_true_iff, String.eqb_eq, IH. split.
    + intros [H1 H2]. congruence.
    + intros H. injection H as H1 H2. split; assumption.
Qed.

Lemma nonempty_str_true v : v <> EmptyString -> nonempty_str v = true.
Proof.
  intros H. unfold nonempty_str. apply String.eqb_neq in H. rewrite H. reflexivity.
Qed.

Lemma filter_nonempty l : Forall (fun v => v <> EmptyString) l -> filter nonempty_str l = l.
Proof.
  induction 1 as [|v t Hv Ht IH]; cbn [filter]; [reflexivity|].
  rewrite (nonempty_str_true v Hv), IH. reflexivity.
Qed.

Lemma NoDup_app_intro {A} (l1 l2 : list A) :
  NoDup l1 -> NoDup l2 -> (forall x, In x l1 -> ~ In x l2) -> NoDup (l1 ++ l2).
Proof.
  induction l1 as [|h t IH]; intros H1 H2 Hd; cbn [app]; [exact H2|].
  inversion H1 as [|h' t' Hnh Hnt]; subst.
  constructor.
  - rewrite in_app_iff. intros [Hin|Hin]; [contradiction|].
    apply (Hd h); [left; reflexivity|exact Hin].
  - apply IH; [exact Hnt|exact H2|]. intros x Hx. apply Hd. right. exact Hx.
Qed.

Lemma NoDup_filter' {A} (f : A -> bool) (l : list A) : NoDup l -> NoDup (filter f l).
Proof.
  induction 1 as [|h t Hh Ht IH]; cbn [filter]; [constructor|].
  destruct (f h); [|exact IH].
  constructor; [|exact IH]. intros Hin. apply filter_In in Hin. tauto.
Qed.

(* the unified variable list built by homogenisation *)
Definition hom_ext (l1 l2 : list string) : list string :=
  l1 ++ filter (fun v => negb (mem_strb v l1)) l2.

Lemma hom_ext_In l1 l2 v : In v (hom_ext l1 l2) <-> In v l1 \/ In v l2.
Proof.
  unfold hom_ext. rewrite in_app_iff, filter_In. split.
  - intros [H|[H _]]; [left|right]; exact H.
  - intros [H|H]; [left; exact H|].
    destruct (mem_strb v l1) eqn:E.
    + left. apply mem_strb_In. exact E.
    + right. split; [exact H|reflexivity].
Qed.

Lemma hom_ext_NoDup l1 l2 : NoDup l1 -> NoDup l2 -> NoDup (hom_ext l1 l2).
Proof.
  intros H1 H2. unfold hom_ext. apply NoDup_app_intro.
  - exact H1.
  - apply NoDup_filter'. exact H2.
  - intros x Hx Hin. apply filter_In in Hin. destruct Hin as [_ Hin].
    apply mem_strb_In in Hx. rewrite Hx in Hin. discriminate.
Qed.

Lemma hom_ext_nonempty l1 l2 :
  Forall (fun v => v <> EmptyString) l1 -> Forall (fun v => v <> EmptyString) l2 ->
  Forall (fun v => v <> EmptyString) (hom_ext l1 l2).
Proof.
  intros H1 H2. apply Forall_forall. intros v Hv. apply hom_ext_In in Hv.
  destruct Hv as [Hv|Hv]; [exact (proj1 (Forall_forall _ _) H1 v Hv)|exact (proj1 (Forall_forall _ _) H2 v Hv)].
Qed.

(* ------------------------------------------------------------------ *)
(* polynomials / relations                                             *)
(* ------------------------------------------------------------------ *)

Lemma unit_poly_pwf : pwf unit_poly.
Proof.
  unfold pwf, unit_poly. split; [discriminate|].
  constructor; [|constructor]. unfold mwf. cbn. exact Logic.I.
Qed.

Lemma zero_poly_pwf : pwf zero_poly.
Proof.
  unfold pwf, zero_poly. split; [discriminate|].
  constructor; [|constructor]. unfold mwf. cbn. exact Logic.I.
Qed.

Lemma id_cell_pwf (b : bool) : pwf (if b then unit_poly else zero_poly).
Proof. destruct b; [apply unit_poly_pwf|apply zero_poly_pwf]. Qed.

Lemma rel_pwf_mget r i j :
  wf_rel r -> rel_pwf r -> i < length (rvars r) -> j < length (rvars r) ->
  pwf (mget (rmat r) i j).
Proof.
  intros [_ [_ [Hlen Hrows]]] Hp Hi Hj. unfold rel_pwf in Hp.
  assert (Hi' : i < length (rmat r)) by lia.
  assert (Hrow : In (nth i (rmat r) []) (rmat r)) by (apply nth_In; exact Hi').
  assert (Hl : length (nth i (rmat r) []) = length (rvars r))
    by (exact (proj1 (Forall_forall _ _) Hrows _ Hrow)).
  assert (Hfa : Forall pwf (nth i (rmat r) []))
    by (exact (proj1 (Forall_forall _ _) Hp _ Hrow)).
  apply (proj1 (Forall_forall _ _) Hfa).
  unfold mget. apply nth_In. lia.
Qed.

(* mk_rel is the plain constructor on a square `build` over nonempty names *)
Lemma mk_rel_build vs f :
  Forall (fun v => v <> EmptyString) vs ->
  mk_rel vs (build (length vs) (length vs) f) = Rel vs (build (length vs) (length vs) f).
Proof.
  intros H. unfold mk_rel. rewrite (filter_nonempty vs H). f_equal.
  destruct (build (length vs) (length vs) f) as [|row rows] eqn:E; [|reflexivity].
  assert (Hl : length (build (length vs) (length vs) f) = length vs) by apply build_length.
  rewrite E in Hl. cbn [length] in Hl. rewrite <- Hl. reflexivity.
Qed.

Lemma rel_identity_eq vs :
  Forall (fun v => v <> EmptyString) vs ->
  rel_identity vs =
  Rel vs (build (length vs) (length vs) (fun i j => if Nat.eqb i j then unit_poly else zero_poly)).
Proof. intros H. unfold rel_identity, identity_matrix. apply mk_rel_build. exact H. Qed.

Lemma wf_rel_build vs f :
  NoDup vs -> Forall (fun v => v <> EmptyString) vs ->
  wf_rel (Rel vs (build (length vs) (length vs) f)).
Proof.
  intros H1 H2. unfold wf_rel. cbn [rvars rmat].
  split; [exact H1|]. split; [exact H2|]. split; [apply build_length|apply build_rows].
Qed.

Lemma cell_build vs f x y :
  cell (Rel vs (build (length vs) (length vs) f)) x y =
  match index_of_str x vs, index_of_str y vs with
  | Some i, Some j => f i j
  | _, _ => if String.eqb x y then unit_poly else zero_poly
  end.
Proof.
  unfold cell. cbn [rvars rmat].
  destruct (index_of_str x vs) as [i|] eqn:Ex; [|reflexivity].
  destruct (index_of_str y vs) as [j|] eqn:Ey; [|reflexivity].
  apply mget_build; [exact (index_of_str_lt _ _ _ Ex)|exact (index_of_str_lt _ _ _ Ey)].
Qed.

Lemma cell_no_vars r x y :
  rvars r = [] -> cell r x y = if String.eqb x y then unit_poly else zero_poly.
Proof. intros H. unfold cell. rewrite H. reflexivity. Qed.

(* cell is the identity extension as soon as one of the names is not a variable *)
Lemma cell_outside_l r x y :
  index_of_str x (rvars r) = None -> cell r x y = if String.eqb x y then unit_poly else zero_poly.
Proof. intros H. unfold cell. rewrite H. reflexivity. Qed.

Lemma cell_outside_r r x y :
  index_of_str y (rvars r) = None -> cell r x y = if String.eqb x y then unit_poly else zero_poly.
Proof.
  intros H. unfold cell. rewrite H. destruct (index_of_str x (rvars r)); reflexivity.
Qed.

Lemma rel_is_empty_wf r : wf_rel r -> rel_is_empty r = true -> rvars r = [].
Proof.
  intros [_ [_ [Hlen _]]] H. unfold rel_is_empty in H. apply orb_true_iff in H.
  destruct H as [H|H].
  - destruct (rvars r); [reflexivity|discriminate].
  - destruct (rmat r); [|discriminate]. cbn [length] in Hlen.
    destruct (rvars r); [reflexivity|discriminate].
Qed.

(* ---- the identity relation on a list of names means the same as any relation without variables ---- *)
Lemma rel_identity_sem vs r :
  NoDup vs -> Forall (fun v => v <> EmptyString) vs -> rvars r = [] ->
  wf_rel (rel_identity vs) /\ rvars (rel_identity vs) = vs /\
  (forall x y, cell (rel_identity vs) x y = cell r x y) /\ rel_pwf (rel_identity vs).
Proof.
  intros Hnd Hne Hr. rewrite (rel_identity_eq vs Hne).
  split; [apply wf_rel_build; assumption|]. split; [reflexivity|]. split.
  - intros x y. rewrite cell_build, (cell_no_vars r x y Hr).
    destruct (index_of_str x vs) as [i|] eqn:Ex; [|reflexivity].
    destruct (index_of_str y vs) as [j|] eqn:Ey; [|reflexivity].
    rewrite (index_of_str_eqb x y vs i j Ex Ey). reflexivity.
  - unfold rel_pwf. cbn [rmat]. apply build_Forall. intros i j _ _. apply id_cell_pwf.
Qed.

(* ------------------------------------------------------------------ *)
(* the general path                                                    *)
(* ------------------------------------------------------------------ *)

Definition hom_post (r1 r2 : rel) (e : rel * rel) : Prop :=
  let '(e1, e2) := e in
  wf_rel e1 /\ wf_rel e2 /\ rvars e1 = rvars e2 /\
  (forall v, In v (rvars e1) <-> In v (rvars r1) \/ In v (rvars r2)) /\
  (forall x y, cell e1 x y = cell r1 x y) /\ (forall x y, cell e2 x y = cell r2 x y) /\
  (rel_pwf r1 -> rel_pwf r2 -> rel_pwf e1 /\ rel_pwf e2).

Definition hom_f1 (r1 : rel) (n : nat) : nat -> nat -> poly :=
  let b := Nat.min n (length (rmat r1)) in
  fun i j => if Nat.ltb i b && Nat.ltb j b then mget (rmat r1) i j
             else if Nat.eqb i j then unit_poly else zero_poly.

Definition hom_f2 (r2 : rel) (ext : list string) : nat -> nat -> poly :=
  fun mi mj =>
    match index_of_str (nth mi ext EmptyString) (rvars r2),
          index_of_str (nth mj ext EmptyString) (rvars r2) with
    | Some ri, Some rj => mget (rmat r2) ri rj
    | _, _ => if Nat.eqb mi mj then unit_poly else zero_poly
    end.

Lemma hom_cell1 r1 l2 x y :
  wf_rel r1 ->
  let ext := hom_ext (rvars r1) l2 in
  match index_of_str x ext, index_of_str y ext with
  | Some i, Some j => hom_f1 r1 (length ext) i j
  | _, _ => if String.eqb x y then unit_poly else zero_poly
  end = cell r1 x y.
Proof.
  intros [_ [_ [Hlen _]]] ext.
  assert (Hb : Nat.min (length ext) (length (rmat r1)) = length (rvars r1)).
  { rewrite Hlen. unfold ext, hom_ext. rewrite app_length. lia. }
  unfold hom_f1. rewrite Hb. unfold cell.
  destruct (index_of_str_app_cases x (rvars r1) (filter (fun v => negb (mem_strb v (rvars r1))) l2))
    as [[i [Hx1 [Hxe Hi]]]|[[Hx1 Hxe]|[k [Hx1 Hxe]]]];
  destruct (index_of_str_app_cases y (rvars r1) (filter (fun v => negb (mem_strb v (rvars r1))) l2))
    as [[j [Hy1 [Hye Hj]]]|[[Hy1 Hye]|[k' [Hy1 Hye]]]];
  fold (hom_ext (rvars r1) l2) in Hxe, Hye; fold ext in Hxe, Hye;
  rewrite ?Hx1, ?Hy1; rewrite Hxe; rewrite ?Hye; try reflexivity.
  - (* both variables of r1 *)
    apply Nat.ltb_lt in Hi. apply Nat.ltb_lt in Hj. rewrite Hi, Hj. reflexivity.
  - (* x in r1, y new *)
    assert (Hf : Nat.ltb (length (rvars r1) + k') (length (rvars r1)) = false)
      by (apply Nat.ltb_ge; lia).
    rewrite Hf, andb_false_r. rewrite (index_of_str_eqb x y ext _ _ Hxe Hye). reflexivity.
  - (* x new, y in r1 *)
    assert (Hf : Nat.ltb (length (rvars r1) + k) (length (rvars r1)) = false)
      by (apply Nat.ltb_ge; lia).
    rewrite Hf. cbn [andb]. rewrite (index_of_str_eqb x y ext _ _ Hxe Hye). reflexivity.
  - (* both new *)
    assert (Hf : Nat.ltb (length (rvars r1) + k) (length (rvars r1)) = false)
      by (apply Nat.ltb_ge; lia).
    rewrite Hf. cbn [andb]. rewrite (index_of_str_eqb x y ext _ _ Hxe Hye). reflexivity.
Qed.

Lemma hom_cell2 l1 r2 x y :
  let ext := hom_ext l1 (rvars r2) in
  match index_of_str x ext, index_of_str y ext with
  | Some i, Some j => hom_f2 r2 ext i j
  | _, _ => if String.eqb x y then unit_poly else zero_poly
  end = cell r2 x y.
Proof.
  intros ext.
  destruct (index_of_str x ext) as [i|] eqn:Ex.
  - destruct (index_of_str y ext) as [j|] eqn:Ey.
    + unfold hom_f2, cell.
      rewrite (index_of_str_nth x ext i Ex), (index_of_str_nth y ext j Ey).
      rewrite (index_of_str_eqb x y ext i j Ex Ey). reflexivity.
    + assert (Hy : index_of_str y (rvars r2) = None).
      { apply index_of_str_none. apply index_of_str_none in Ey. intros H. apply Ey.
        apply hom_ext_In. right. exact H. }
      rewrite (cell_outside_r r2 x y Hy). reflexivity.
  - assert (Hx : index_of_str x (rvars r2) = None).
    { apply index_of_str_none. apply index_of_str_none in Ex. intros H. apply Ex.
      apply hom_ext_In. right. exact H. }
    rewrite (cell_outside_l r2 x y Hx). reflexivity.
Qed.

Lemma hom_general r1 r2 :
  wf_rel r1 -> wf_rel r2 ->
  let ext := hom_ext (rvars r1) (rvars r2) in
  let n := length ext in
  hom_post r1 r2 (mk_rel ext (build n n (hom_f1 r1 n)), mk_rel ext (build n n (hom_f2 r2 ext))).
Proof.
  intros W1 W2 ext n.
  assert (Hnd : NoDup ext).
  { apply hom_ext_NoDup; [apply W1|apply W2]. }
  assert (Hne : Forall (fun v => v <> EmptyString) ext).
  { apply hom_ext_nonempty; [apply W1|apply W2]. }
  unfold n. rewrite !(mk_rel_build ext _ Hne). unfold hom_post.
  split; [apply wf_rel_build; assumption|].
  split; [apply wf_rel_build; assumption|].
  split; [reflexivity|].
  split; [intros v; cbn [rvars]; apply hom_ext_In|].
  split; [intros x y; rewrite cell_build; apply (hom_cell1 r1 (rvars r2) x y W1)|].
  split; [intros x y; rewrite cell_build; apply (hom_cell2 (rvars r1) r2 x y)|].
  intros P1 P2. unfold rel_pwf. cbn [rmat]. split.
  - apply build_Forall. intros i j Hi Hj. unfold hom_f1.
    destruct W1 as [W1a [W1b [Hlen W1d]]].
    set (b := Nat.min (length ext) (length (rmat r1))).
    destruct (Nat.ltb i b) eqn:Ei; cbn [andb]; [|apply id_cell_pwf].
    destruct (Nat.ltb j b) eqn:Ej; [|apply id_cell_pwf].
    apply Nat.ltb_lt in Ei. apply Nat.ltb_lt in Ej.
    apply rel_pwf_mget; [unfold wf_rel; tauto|exact P1|unfold b in Ei; lia|unfold b in Ej; lia].
  - apply build_Forall. intros i j Hi Hj. unfold hom_f2.
    destruct (index_of_str (nth i ext EmptyString) (rvars r2)) as [ri|] eqn:Eri; [|apply id_cell_pwf].
    destruct (index_of_str (nth j ext EmptyString) (rvars r2)) as [rj|] eqn:Erj; [|apply id_cell_pwf].
    apply rel_pwf_mget; [exact W2|exact P2|exact (index_of_str_lt _ _ _ Eri)|exact (index_of_str_lt _ _ _ Erj)].
Qed.

(* ------------------------------------------------------------------ *)
(* the theorem                                                         *)
(* ------------------------------------------------------------------ *)

Theorem homogenisation_sem : homogenisation_sem_stmt.
Proof.
  unfold homogenisation_sem_stmt. intros r1 r2 W1 W2.
  change (hom_post r1 r2 (homogenisation r1 r2)).
  unfold homogenisation.
  destruct (list_str_eqb (rvars r1) (rvars r2)) eqn:Eeq.
  - (* same variable lists: untouched *)
    apply list_str_eqb_eq in Eeq. unfold hom_post.
    split; [exact W1|]. split; [exact W2|]. split; [exact Eeq|].
    split; [intros v; rewrite Eeq; tauto|].
    split; [reflexivity|]. split; [reflexivity|]. tauto.
  - destruct (rel_is_empty r1) eqn:E1.
    + (* r1 empty: identity over the variables of r2 *)
      pose proof (rel_is_empty_wf r1 W1 E1) as Hv1.
      destruct W2 as [W2a [W2b W2c]].
      destruct (rel_identity_sem (rvars r2) r1 W2a W2b Hv1) as [Hw [Hv [Hc Hp]]].
      unfold hom_post.
      split; [exact Hw|]. split; [unfold wf_rel; tauto|]. split; [exact Hv|].
      split; [intros v; rewrite Hv, Hv1; cbn [In]; tauto|].
      split; [exact Hc|]. split; [reflexivity|]. tauto.
    + destruct (rel_is_empty r2) eqn:E2.
      * (* r2 empty: identity over the variables of r1 *)
        pose proof (rel_is_empty_wf r2 W2 E2) as Hv2.
        destruct W1 as [W1a [W1b W1c]].
        destruct (rel_identity_sem (rvars r1) r2 W1a W1b Hv2) as [Hw [Hv [Hc Hp]]].
        unfold hom_post.
        split; [unfold wf_rel; tauto|]. split; [exact Hw|]. split; [symmetry; exact Hv|].
        split; [intros v; rewrite Hv2; cbn [In]; tauto|].
        split; [reflexivity|]. split; [exact Hc|]. tauto.
      * (* general extension *)
        exact (hom_general r1 r2 W1 W2).
Qed.

(* the hypotheses are satisfiable and all the general path is exercised on a concrete instance *)
Example homogenisation_sem_example :
  let r1 := Rel ["a"; "b"]%string [[unit_poly; zero_poly]; [unit_poly; unit_poly]] in
  let r2 := Rel ["c"; "b"]%string [[unit_poly; unit_poly]; [zero_poly; unit_poly]] in
  rvars (fst (homogenisation r1 r2)) = ["a"; "b"; "c"]%string /\
  rmat (snd (homogenisation r1 r2)) =
    [[unit_poly; zero_poly; zero_poly]; [zero_poly; unit_poly; zero_poly]; [zero_poly; unit_poly; unit_poly]].
Proof. vm_compute. split; reflexivity. Qed.

Print Assumptions homogenisation_sem.
