(* C12 (4/4): results of the ANALYSIS do not depend on names, layout or equivalent spellings.

   The equivariance of the specification (Equiv_rel.v, Equiv_layout.v) is transferred to the analysis
   model through the three statements relating the two (An_stmts.v): finite_result_stmt,
   verdict_sound_stmt and the completeness of the verdict, which appear as PREMISES of every theorem
   here (they are proved in An_func.v from the statement-level simulation).

   Completeness is used in the form An_func.verdict_complete_all_stmt (no restriction to functions
   with at least one site): with the restricted form verdict_complete_stmt alone the verdicts of two
   site-free functions cannot be compared.

   Matrices are compared BY NAME (tbl_get): the renamed function sorts its variables differently, so
   positions in the two tables do not correspond, names do. *)
From Coq Require Import String List Bool Arith Lia Permutation.
From PM Require Import Semiring Poly Rel Analysis Calculus Sem_stmts An_stmts
                       Equiv_base Equiv_rel Equiv_layout.
From PM Require Calc_alg An_main_aux An_seq An_func.
Import ListNotations.
Open Scope list_scope.

(* entry (x, y) of a table whose rows/columns are labelled by V *)
Definition tbl_get (V : list string) (t : list (list Sc)) (x y : string) : Sc :=
  match index_of_str x V, index_of_str y V with
  | Some i, Some j => nth j (nth i t []) O
  | _, _ => O
  end.

Lemma index_of_str_In x V : In x V -> exists i, index_of_str x V = Some i.
Proof.
  intros H. apply Calc_alg.mem_strb_In in H. unfold mem_strb in H.
  destruct (index_of_str x V) as [i|]; [eauto|discriminate].
Qed.

Lemma tbl_get_table V A x y : In x V -> In y V -> tbl_get V (smat_table V A) x y = A x y.
Proof.
  intros Hx Hy. rewrite <- (Calc_alg.memo_eq V A x y). unfold tbl_get, memo, smat_table.
  destruct (index_of_str_In x V Hx) as [i ->]. destruct (index_of_str_In y V Hy) as [j ->]. reflexivity.
Qed.

(* what "the same result up to the renaming rho" means for two results of Analysis.func *)
Definition results_agree (V : list string) (rho : string -> string) (r r' : func_result) : Prop :=
  fr_infinite r = fr_infinite r' /\
  (fr_infinite r = false ->
     fr_index r = fr_index r' /\
     exists rl rl', fr_rel r = Some rl /\ fr_rel r' = Some rl' /\
       forall cs, vec_ok (fr_index r) cs ->
         accepted (fr_inf_deltas r) cs = accepted (fr_inf_deltas r') cs /\
         (accepted (fr_inf_deltas r) cs = true ->
            forall x y, In x V -> In y V ->
              tbl_get (fr_vars r') (apply_choice rl' (choice_of_list cs)) (rho x) (rho y) =
              tbl_get (fr_vars r) (apply_choice rl (choice_of_list cs)) x y)).

Lemma results_agree_unfold V rho r r' :
  results_agree V rho r r' <->
  (fr_infinite r = fr_infinite r' /\
   (fr_infinite r = false ->
     fr_index r = fr_index r' /\
     exists rl rl', fr_rel r = Some rl /\ fr_rel r' = Some rl' /\
       forall cs, vec_ok (fr_index r) cs ->
         accepted (fr_inf_deltas r) cs = accepted (fr_inf_deltas r') cs /\
         (accepted (fr_inf_deltas r) cs = true ->
            forall x y, In x V -> In y V ->
              tbl_get (fr_vars r') (apply_choice rl' (choice_of_list cs)) (rho x) (rho y) =
              tbl_get (fr_vars r) (apply_choice rl (choice_of_list cs)) x y))).
Proof. unfold results_agree. tauto. Qed.

Lemma vca_implies_vc : An_func.verdict_complete_all_stmt -> verdict_complete_stmt.
Proof. intros H f stop res Hf Han Hinf _. exact (H f stop res Hf Han Hinf). Qed.

(* ------------------------------------------------------------------ *)
(* transfer: corresponding derivations give agreeing results           *)

Section Transfer.
  Hypothesis FR : finite_result_stmt.
  Hypothesis VS : verdict_sound_stmt.
  Hypothesis VC : An_func.verdict_complete_all_stmt.

  Variables f f' : func_src.
  Variable rho : string -> string.
  Hypothesis OK : func_ok f.
  Hypothesis OK' : func_ok f'.
  Hypothesis HVm : forall x, In x (func_vars f) -> In (rho x) (func_vars f').
  Hypothesis HD : forall cs,
    snd (derive_func f' cs) = snd (derive_func f cs) /\
    oeq_ren (func_vars f) rho (fst (derive_func f cs)) (fst (derive_func f' cs)).

  Lemma transfer_sites : sites f' = sites f.
  Proof. unfold sites. exact (proj1 (HD [])). Qed.

  Lemma transfer_none cs : fst (derive_func f cs) = None <-> fst (derive_func f' cs) = None.
  Proof.
    destruct (HD cs) as [_ R].
    destruct (fst (derive_func f cs)), (fst (derive_func f' cs)); cbn in R; split; intros H;
      try discriminate; try reflexivity; destruct R.
  Qed.

  Theorem transfer stop stop' r r' :
    analyse f stop = ROk r -> analyse f' stop' = ROk r' -> results_agree (func_vars f) rho r r'.
  Proof.
    intros Han Han'.
    assert (Hverdict : fr_infinite r = fr_infinite r').
    { destruct (fr_infinite r) eqn:I1, (fr_infinite r') eqn:I2; try reflexivity; exfalso.
      - destruct (VC f' stop' r' OK' Han' I2) as [cs [Hv Hne]].
        destruct (FR f' stop' r' OK' Han' I2) as [Ei _].
        apply Hne. apply transfer_none. apply (VS f stop r OK Han I1).
        rewrite <- transfer_sites, <- Ei. exact Hv.
      - destruct (VC f stop r OK Han I1) as [cs [Hv Hne]].
        destruct (FR f stop r OK Han I1) as [Ei _].
        apply Hne. apply transfer_none. apply (VS f' stop' r' OK' Han' I2).
        rewrite transfer_sites, <- Ei. exact Hv. }
    split; [exact Hverdict|]. intros I1.
    assert (I2 : fr_infinite r' = false) by (rewrite <- Hverdict; exact I1).
    destruct (FR f stop r OK Han I1) as (Ei & Ev & rl & Erl & _ & Hcs).
    destruct (FR f' stop' r' OK' Han' I2) as (Ei' & Ev' & rl' & Erl' & _ & Hcs').
    assert (Eidx : fr_index r = fr_index r') by (rewrite Ei, Ei', transfer_sites; reflexivity).
    split; [exact Eidx|]. exists rl, rl'. split; [exact Erl|]. split; [exact Erl'|].
    intros cs Hv. assert (Hv' : vec_ok (fr_index r') cs) by (rewrite <- Eidx; exact Hv).
    destruct (Hcs cs Hv) as [Ha Hm]. destruct (Hcs' cs Hv') as [Ha' Hm'].
    destruct (HD cs) as [_ R]. split.
    - apply eq_true_iff_eq. rewrite Ha, Ha'. split; intros [A HA].
      + rewrite HA in R. destruct (fst (derive_func f' cs)) as [A'|]; [eauto|destruct R].
      + rewrite HA in R. destruct (fst (derive_func f cs)) as [A0|]; [eauto|destruct R].
    - intros Hacc x y Hx Hy. apply Ha in Hacc. destruct Hacc as [A HA].
      rewrite HA in R. destruct (fst (derive_func f' cs)) as [A'|] eqn:HA'; [|destruct R].
      rewrite (Hm A HA), (Hm' A' eq_refl), Ev, Ev'.
      rewrite !tbl_get_table by auto. apply R; assumption.
  Qed.
End Transfer.

(* ------------------------------------------------------------------ *)
(* renaming                                                            *)

Lemma derive_func_block f cs :
  derive_func f cs = derive (S depth_fuel) (func_vars f) (SBlock (f_body f)) cs 0.
Proof. reflexivity. Qed.

Lemma NoDup_map_inj_on rho l : inj_on l rho -> NoDup l -> NoDup (map rho l).
Proof.
  intros Hinj ND. induction ND as [|a t Ha ND IH]; [constructor|].
  cbn [map]. constructor.
  - intros H. apply in_map_iff in H. destruct H as [b [E Hb]].
    apply Ha. rewrite (Hinj a b); [exact Hb|left; reflexivity|right; exact Hb|symmetry; exact E].
  - apply IH. intros x y Hx Hy. apply Hinj; right; assumption.
Qed.

Lemma func_body_names f s v : In s (f_body f) -> In v (stmt_names s) -> In v (func_names f).
Proof.
  intros Hs Hv. unfold func_names. apply in_app_iff. right. exact (flat_map_in_sub _ _ _ _ Hs Hv).
Qed.

Lemma func_vars_rename rho f : inj_on (func_names f) rho ->
  (forall z, In z (func_vars (rename_func rho f)) <-> In z (map rho (func_vars f))) /\
  length (func_vars (rename_func rho f)) = length (func_vars f).
Proof.
  intros Hinj.
  assert (E : flat_map stmt_vars (map (rename_stmt rho) (f_body f)) =
              map rho (flat_map stmt_vars (f_body f))).
  { apply (flat_map_rename (fun x => In x (func_names f)) rho stmt_vars).
    - apply Forall_forall. intros s _. apply (stmt_vars_rename _ rho Hinj).
    - intros v Hv. unfold func_names. apply in_app_iff. right. exact Hv. }
  assert (S1 : forall z, In z (func_vars (rename_func rho f)) <-> In z (map rho (func_vars f))).
  { intros z. rewrite func_vars_In. unfold rename_func. cbn [f_params f_body].
    rewrite E, <- map_app, !in_map_iff. split; intros [v [Ev Hv]]; exists v; (split; [exact Ev|]);
      apply func_vars_In; exact Hv. }
  split; [exact S1|].
  rewrite <- (map_length rho (func_vars f)). apply Permutation_length. apply NoDup_Permutation.
  - apply An_func.func_vars_NoDup.
  - apply NoDup_map_inj_on; [|apply An_func.func_vars_NoDup].
    intros a b Ha Hb. apply Hinj; apply func_vars_names; assumption.
  - exact S1.
Qed.

Lemma oeq_ren_incl V N rho a a' : (forall v, In v V -> In v N) -> oeq_ren N rho a a' -> oeq_ren V rho a a'.
Proof. intros HI. destruct a, a'; cbn; try tauto. intros H x y Hx Hy. apply H; apply HI; assumption. Qed.

Lemma derive_func_rename rho f : inj_on (func_names f) rho -> forall cs,
  snd (derive_func (rename_func rho f) cs) = snd (derive_func f cs) /\
  oeq_ren (func_vars f) rho (fst (derive_func f cs)) (fst (derive_func (rename_func rho f) cs)).
Proof.
  intros Hinj cs. rewrite !derive_func_block.
  destruct (func_vars_rename rho f Hinj) as [S1 S2].
  change (SBlock (f_body (rename_func rho f))) with (rename_stmt rho (SBlock (f_body f))).
  destruct (derive_rename_gen rho (func_names f) (func_vars f) (func_vars (rename_func rho f))
              (SBlock (f_body f)) Hinj (fun v => func_vars_names f v)
              (fun v Hv => proj2 (in_app_iff _ _ v) (or_intror Hv)) S1 S2 (S depth_fuel) cs 0) as [E R].
  split; [exact E|].
  exact (oeq_ren_incl _ _ rho _ _ (fun v => func_vars_names f v) R).
Qed.

Theorem analyse_rename :
  forall (FR : finite_result_stmt) (VS : verdict_sound_stmt) (VC : An_func.verdict_complete_all_stmt)
         rho f stop stop' r r',
    inj_on (func_names f) rho -> func_ok f -> func_ok (rename_func rho f) ->
    analyse f stop = ROk r -> analyse (rename_func rho f) stop' = ROk r' ->
    results_agree (func_vars f) rho r r'.
Proof.
  intros FR VS VC rho f stop stop' r r' Hinj OK OK' Han Han'.
  refine (transfer FR VS VC f (rename_func rho f) rho OK OK' _ _ stop stop' r r' Han Han').
  - intros x Hx. apply (proj1 (func_vars_rename rho f Hinj)). apply in_map. exact Hx.
  - apply derive_func_rename. exact Hinj.
Qed.

(* ------------------------------------------------------------------ *)
(* "-" spelled "+"                                                     *)

Lemma derive_func_pfm f cs : derive_func (pfm_func f) cs = derive_func f cs.
Proof.
  unfold derive_func, derive_list. rewrite func_vars_pfm. unfold pfm_func. cbn [f_body].
  rewrite dlist_map. apply dlist_ext_in. intros s i _. apply derive_pfm.
Qed.

Lemma oeq_ren_refl V a : oeq_ren V (fun x => x) a a.
Proof. destruct a; cbn; [reflexivity|exact Logic.I]. Qed.

Lemma func_ok_pfm f : func_ok f -> func_ok (pfm_func f).
Proof. unfold func_ok. rewrite func_vars_pfm. tauto. Qed.

Theorem analyse_pfm :
  forall (FR : finite_result_stmt) (VS : verdict_sound_stmt) (VC : An_func.verdict_complete_all_stmt)
         f stop stop' r r',
    func_ok f -> analyse f stop = ROk r -> analyse (pfm_func f) stop' = ROk r' ->
    results_agree (func_vars f) (fun x => x) r r'.
Proof.
  intros FR VS VC f stop stop' r r' OK Han Han'.
  refine (transfer FR VS VC f (pfm_func f) (fun x => x) OK (func_ok_pfm f OK) _ _ stop stop' r r' Han Han').
  - intros x Hx. rewrite func_vars_pfm. exact Hx.
  - intros cs. rewrite derive_func_pfm. split; [reflexivity|apply oeq_ren_refl].
Qed.

(* same variable order on both sides: the tables themselves are equal *)
Theorem analyse_pfm_tables :
  forall (FR : finite_result_stmt) f stop stop' r r',
    func_ok f -> analyse f stop = ROk r -> analyse (pfm_func f) stop' = ROk r' ->
    fr_infinite r = false -> fr_infinite r' = false ->
    fr_vars r = fr_vars r' /\
    exists rl rl', fr_rel r = Some rl /\ fr_rel r' = Some rl' /\
      forall cs, vec_ok (fr_index r) cs -> accepted (fr_inf_deltas r) cs = true ->
        apply_choice rl' (choice_of_list cs) = apply_choice rl (choice_of_list cs).
Proof.
  intros FR f stop stop' r r' OK Han Han' I1 I2.
  destruct (FR f stop r OK Han I1) as (Ei & Ev & rl & Erl & _ & Hcs).
  destruct (FR (pfm_func f) stop' r' (func_ok_pfm f OK) Han' I2) as (Ei' & Ev' & rl' & Erl' & _ & Hcs').
  split; [rewrite Ev, Ev', func_vars_pfm; reflexivity|].
  exists rl, rl'. split; [exact Erl|]. split; [exact Erl'|]. intros cs Hv Hacc.
  assert (Hv' : vec_ok (fr_index r') cs).
  { rewrite Ei'. unfold sites. rewrite derive_func_pfm. fold (sites f). rewrite <- Ei. exact Hv. }
  destruct (Hcs cs Hv) as [Ha Hm]. destruct (Hcs' cs Hv') as [_ Hm'].
  apply Ha in Hacc. destruct Hacc as [A HA].
  rewrite (Hm A HA), (Hm' A); [rewrite func_vars_pfm; reflexivity|].
  rewrite derive_func_pfm. exact HA.
Qed.

(* ------------------------------------------------------------------ *)
(* layout                                                              *)

(* two functions whose bodies are layout variants of each other (Equiv_layout.seml), nested less deep
   than the fuel of the analysis, with the same set of variables *)
Definition layout_eq_func (f f' : func_src) : Prop :=
  (forall v, In v (func_vars f) <-> In v (func_vars f')) /\
  seml (func_vars f) (f_body f) (f_body f') /\
  Forall (fuel_ok depth_fuel) (f_body f) /\ Forall (fuel_ok depth_fuel) (f_body f').

Lemma oeq_compose V a b a' : oeqV V a b -> oeq_all b a' -> oeq_ren V (fun x => x) a a'.
Proof.
  destruct a as [A|], b as [B|], a' as [A'|]; cbn; try tauto.
  intros R2 R1 x y Hx Hy. rewrite R1. symmetry. apply R2; assumption.
Qed.

Lemma derive_block_dlist fuel V l cs idx :
  derive (S fuel) V (SBlock l) cs idx = dlist (fun s i => derive fuel V s cs i) V l (Some sid) idx.
Proof. reflexivity. Qed.

Lemma derive_func_layout f f' : layout_eq_func f f' -> forall cs,
  snd (derive_func f' cs) = snd (derive_func f cs) /\
  oeq_ren (func_vars f) (fun x => x) (fst (derive_func f cs)) (fst (derive_func f' cs)).
Proof.
  intros (HS & HL & F & F') cs.
  (* f' over its own variable list against f' over the variable list of f *)
  assert (SE : same_elems (func_vars f) (func_vars f')).
  { apply nodup_same_elems; [apply An_func.func_vars_NoDup|apply An_func.func_vars_NoDup|exact HS]. }
  destruct (derive_perm (func_vars f) (func_vars f') SE (S depth_fuel) (SBlock (f_body f')) cs 0) as [E1 R1].
  (* the two bodies over the variable list of f *)
  pose proof (HL depth_fuel depth_fuel cs 0 (Some sid) (Some sid) F F'
                (ofin_sid _) (ofin_sid _) (oeqV_refl _ _)) as [E2 R2].
  rewrite (derive_func_block f), (derive_func_block f').
  rewrite !derive_block_dlist in E1, R1 |- *.
  split; [congruence|]. exact (oeq_compose _ _ _ _ R2 R1).
Qed.

Lemma func_ok_same_elems f f' :
  (forall v, In v (func_vars f) <-> In v (func_vars f')) -> func_ok f -> func_ok f'.
Proof.
  unfold func_ok. rewrite !Forall_forall. intros HS H v Hv. apply H. apply HS. exact Hv.
Qed.

Theorem analyse_layout :
  forall (FR : finite_result_stmt) (VS : verdict_sound_stmt) (VC : An_func.verdict_complete_all_stmt)
         f f' stop stop' r r',
    func_ok f -> layout_eq_func f f' ->
    analyse f stop = ROk r -> analyse f' stop' = ROk r' ->
    results_agree (func_vars f) (fun x => x) r r'.
Proof.
  intros FR VS VC f f' stop stop' r r' OK HL Han Han'.
  refine (transfer FR VS VC f f' (fun x => x) OK (func_ok_same_elems f f' (proj1 HL) OK) _ _
            stop stop' r r' Han Han').
  - intros x Hx. apply (proj1 HL). exact Hx.
  - apply derive_func_layout. exact HL.
Qed.

(* the named layout changes, at the top level of a function body *)
Definition with_body (f : func_src) (l : list stmt) : func_src :=
  {| f_params := f_params f; f_body := l |}.

Lemma func_vars_with_body f l l' :
  flat_map stmt_vars l = flat_map stmt_vars l' -> func_vars (with_body f l) = func_vars (with_body f l').
Proof. intros E. unfold func_vars, with_body. cbn [f_params f_body]. rewrite E. reflexivity. Qed.

Lemma layout_eq_func_intro f l l' :
  flat_map stmt_vars l = flat_map stmt_vars l' ->
  (forall V, seml V l l') -> Forall (fuel_ok depth_fuel) l -> Forall (fuel_ok depth_fuel) l' ->
  layout_eq_func (with_body f l) (with_body f l').
Proof.
  intros E HL F F'. split; [|split; [|split]].
  - rewrite (func_vars_with_body f l l' E). tauto.
  - apply HL.
  - exact F.
  - exact F'.
Qed.

(* an empty statement `;` (no mention) anywhere in the body *)
Theorem analyse_empty_statement :
  forall (FR : finite_result_stmt) (VS : verdict_sound_stmt) (VC : An_func.verdict_complete_all_stmt)
         f l1 l2 stop stop' r r',
    func_ok (with_body f (l1 ++ l2)) -> Forall (fuel_ok depth_fuel) (l1 ++ l2) ->
    analyse (with_body f (l1 ++ l2)) stop = ROk r ->
    analyse (with_body f (l1 ++ SSkip [] :: l2)) stop' = ROk r' ->
    results_agree (func_vars (with_body f (l1 ++ l2))) (fun x => x) r r'.
Proof.
  intros FR VS VC f l1 l2 stop stop' r r' OK F Han Han'.
  refine (analyse_layout FR VS VC _ _ stop stop' r r' OK _ Han Han').
  apply layout_eq_func_intro.
  - rewrite !flat_map_app. reflexivity.
  - intros V. apply seml_sym, layout_insert_skip.
  - exact F.
  - apply Forall_app in F. destruct F as [F1 F2]. apply Forall_app. split; [exact F1|].
    constructor; [exact Logic.I|exact F2].
Qed.

(* redundant braces around a part of the body (l2 = []: an empty block) *)
Theorem analyse_braces :
  forall (FR : finite_result_stmt) (VS : verdict_sound_stmt) (VC : An_func.verdict_complete_all_stmt)
         f l1 l2 l3 stop stop' r r',
    func_ok (with_body f (l1 ++ l2 ++ l3)) ->
    Forall (fuel_ok depth_fuel) (l1 ++ l2 ++ l3) -> Forall (fuel_ok depth_fuel) (l1 ++ [SBlock l2] ++ l3) ->
    analyse (with_body f (l1 ++ l2 ++ l3)) stop = ROk r ->
    analyse (with_body f (l1 ++ [SBlock l2] ++ l3)) stop' = ROk r' ->
    results_agree (func_vars (with_body f (l1 ++ l2 ++ l3))) (fun x => x) r r'.
Proof.
  intros FR VS VC f l1 l2 l3 stop stop' r r' OK F F' Han Han'.
  refine (analyse_layout FR VS VC _ _ stop stop' r r' OK _ Han Han').
  apply layout_eq_func_intro.
  - rewrite !flat_map_app. cbn [flat_map stmt_vars]. rewrite app_nil_r. reflexivity.
  - intros V. apply seml_sym, layout_flatten.
  - exact F.
  - exact F'.
Qed.

(* ------------------------------------------------------------------ *)
(* order of the functions of a program                                 *)

(* Analysis.run analyses the functions one by one: the result of a function is a function of that
   function alone, so the results of a program are a map over its functions *)
Definition analyse_program (fs : list (string * func_src)) (stop : bool) : list (string * res func_result) :=
  map (fun nf => (fst nf, analyse (snd nf) stop)) fs.

Theorem function_independent : forall fs fs' stop,
  Permutation fs fs' ->
  Permutation (analyse_program fs stop) (analyse_program fs' stop) /\
  (forall n f, In (n, f) fs -> In (n, analyse f stop) (analyse_program fs' stop)).
Proof.
  intros fs fs' stop HP. split.
  - apply Permutation_map. exact HP.
  - intros n f Hin. unfold analyse_program.
    apply (in_map (fun nf => (fst nf, analyse (snd nf) stop)) fs' (n, f)).
    exact (Permutation_in _ HP Hin).
Qed.

(* ------------------------------------------------------------------ *)
(* the hypotheses are satisfiable                                      *)

(* x -> "b", y -> "a": the renaming reverses the sorted order of the variables *)
Example rename_func_instance :
  let f := {| f_params := ["x"; "y"]%string;
              f_body := [SBin "x" "+" (AVar "x") (AVar "y");
                         SWhile ["x"%string] (SBin "y" "-" (AVar "x") (AVar "x"))] |} in
  inj_on (func_names f) swap_xy /\ func_ok f /\ func_ok (rename_func swap_xy f) /\
  func_vars f = ["x"; "y"]%string /\ func_vars (rename_func swap_xy f) = ["a"; "b"]%string /\
  map swap_xy (func_vars f) = ["b"; "a"]%string /\
  (exists r r', analyse f false = ROk r /\ analyse (rename_func swap_xy f) false = ROk r' /\
                fr_infinite r = false /\ fr_index r = 2 /\ accepted (fr_inf_deltas r) [0; 2] = true) /\
  (exists r r', analyse f false = ROk r /\ analyse (pfm_func f) false = ROk r' /\ fr_infinite r = false) /\
  Forall (fuel_ok depth_fuel) (f_body f).
Proof.
  cbv zeta. split; [|split; [|split; [|split; [|split; [|split; [|split; [|split]]]]]]].
  - intros a b Ha Hb. cbn in Ha, Hb.
    repeat (destruct Ha as [<-|Ha]; [repeat (destruct Hb as [<-|Hb]; [cbn; congruence|]); destruct Hb|]).
    destruct Ha.
  - unfold func_ok. vm_compute. repeat constructor; discriminate.
  - unfold func_ok. vm_compute. repeat constructor; discriminate.
  - vm_compute. reflexivity.
  - vm_compute. reflexivity.
  - vm_compute. reflexivity.
  - match goal with |- exists r r', ?a = ROk r /\ ?b = ROk r' /\ _ =>
      let va := eval vm_compute in a in let vb := eval vm_compute in b in
      match va with ROk ?x => match vb with ROk ?y => exists x, y end end end.
    repeat split; vm_compute; reflexivity.
  - match goal with |- exists r r', ?a = ROk r /\ ?b = ROk r' /\ _ =>
      let va := eval vm_compute in a in let vb := eval vm_compute in b in
      match va with ROk ?x => match vb with ROk ?y => exists x, y end end end.
    repeat split; vm_compute; reflexivity.
  - cbn [f_body]. unfold depth_fuel. repeat constructor.
Qed.
