(* Function-level corollaries of the statement-level simulation (An_stmts.main_sim_stmt): the list walk
   of Analysis.cmds against Calculus.derive_list (cmds_sim_noexit / cmds_sim_exit), then the verdict
   (C02), the finite result (C01), the agreement of the two modes and the fields of a result (C15).
   Every theorem is stated as  premises -> An_stmts.<name>_stmt ; the only premises used are
   main_sim_stmt and derive_finite_stmt. *)
From Coq Require Import String List Bool Arith Lia.
From PM Require Import Semiring Poly Poly_sem Rel Analysis Calculus Rel_sem Sem_stmts An_stmts.
From PM Require Calc_alg Rel_hom Rel_ops Rel_ops_closed Rel_dom An_seq.
From PM Require DeltaGraph.
From PMGen Require Import RulesGen.
Import ListNotations.
Open Scope list_scope.

(* ------------------------------------------------------------------ *)
(* small generic facts                                                 *)

Lemma cmds_cons s t stop index acc di d :
  cmds (s :: t) stop index acc di d =
  rbind (compute depth_fuel index s d) (fun r =>
    if stop && (di || cr_exit r) then ROk (di || cr_exit r, cr_index r, acc, cr_dg r)
    else cmds t stop (cr_index r) (rel_comp acc (cr_rel r)) (di || cr_exit r) (cr_dg r)).
Proof. reflexivity. Qed.

(* once the flag is set it stays set *)
Lemma cmds_di_true l : forall stop index acc d di' index' acc' d',
  cmds l stop index acc true d = ROk (di', index', acc', d') -> di' = true.
Proof.
  induction l as [|s t IH]; intros stop index acc d di' index' acc' d' H.
  - cbn [cmds] in H. injection H as <- _ _ _. reflexivity.
  - rewrite cmds_cons in H. destruct (compute depth_fuel index s d) as [r|e]; cbn [rbind] in H; [|discriminate].
    cbn [orb] in H. destruct stop; cbn [andb] in H.
    + injection H as <- _ _ _. reflexivity.
    + eapply IH. exact H.
Qed.

Lemma derive_list_cons V s t cs a index :
  derive_list V (s :: t) cs a index =
  derive_list V t cs (dseq V a (fst (derive depth_fuel V s cs index))) (snd (derive depth_fuel V s cs index)).
Proof. unfold derive_list. rewrite An_seq.dlist_cons. reflexivity. Qed.

Lemma derive_list_None V l cs index : fst (derive_list V l cs None index) = None.
Proof. unfold derive_list. apply An_seq.dlist_None. Qed.

Lemma acc_ok_ext V d acc accm accm' :
  (forall cs, in_domain cs -> accm cs = accm' cs) -> acc_ok V d acc accm -> acc_ok V d acc accm'.
Proof.
  intros He [Hok H]. split; [exact Hok|]. intros cs Hcs. rewrite <- (He cs Hcs). apply H. exact Hcs.
Qed.

(* a relation that includes the variables of the other keeps its variable list under composition *)
Lemma filter_notin_nil (l1 l2 : list string) :
  incl l2 l1 -> filter (fun v => negb (mem_strb v l1)) l2 = [].
Proof.
  induction l2 as [|h t IH]; intros Hi; cbn [filter]; [reflexivity|].
  assert (E : mem_strb h l1 = true) by (apply Rel_hom.mem_strb_In, Hi; left; reflexivity).
  rewrite E. cbn [negb]. apply IH. intros v Hv. apply Hi. right. exact Hv.
Qed.

Lemma rel_comp_rvars a b :
  wf_rel a -> wf_rel b -> incl (rvars b) (rvars a) -> rvars (rel_comp a b) = rvars a.
Proof.
  intros Wa Wb Hi.
  assert (NE : filter nonempty_str (rvars a) = rvars a) by (apply Rel_hom.filter_nonempty, Wa).
  assert (E1 : rvars (fst (homogenisation a b)) = rvars a).
  { unfold homogenisation.
    destruct (list_str_eqb (rvars a) (rvars b)) eqn:Eeq; [reflexivity|].
    destruct (rel_is_empty a) eqn:Ea.
    { exfalso. pose proof (Rel_hom.rel_is_empty_wf a Wa Ea) as Hv. rewrite Hv in Hi.
      apply incl_l_nil in Hi. rewrite Hv, Hi in Eeq. discriminate Eeq. }
    destruct (rel_is_empty b); [reflexivity|].
    cbn [fst]. unfold mk_rel. cbn [rvars].
    rewrite (filter_notin_nil (rvars a) (rvars b) Hi), app_nil_r. exact NE. }
  unfold rel_comp. destruct (homogenisation a b) as [e1 e2]. cbn [fst] in E1.
  unfold mk_rel. cbn [rvars]. rewrite E1. exact NE.
Qed.

(* ------------------------------------------------------------------ *)
(* the walk over the top-level statements                              *)

(* nothing that still has a derivation is covered *)
Definition not_cov (d : dgraph) (accm : list nat -> option smat) : Prop :=
  forall cs, in_domain cs -> accm cs <> None -> ~ cov d (choice_of_list cs).

Definition cmds_noexit_stmt : Prop :=
  forall V l stop index acc d accm index' acc' d',
    names_ok V -> incl (flat_map stmt_vars l) V -> dg_inv d -> acc_ok V d acc accm ->
    cmds l stop index acc false d = ROk (false, index', acc', d') ->
    dg_inv d' /\
    incl (DeltaGraph.dg_recorded d) (DeltaGraph.dg_recorded d') /\
    acc_ok V d' acc' (fun cs => fst (derive_list V l cs (accm cs) index)) /\
    (forall cs, in_domain cs -> snd (derive_list V l cs (accm cs) index) = index') /\
    (forall cs, in_domain cs -> fst (derive_list V l cs (accm cs) index) <> None ->
       cov d' (choice_of_list cs) -> cov d (choice_of_list cs)) /\
    (rvars acc = V -> rvars acc' = V).

Definition cmds_exit_stmt : Prop :=
  forall V l stop index acc d accm index' acc' d',
    names_ok V -> incl (flat_map stmt_vars l) V -> dg_inv d -> not_cov d accm ->
    cmds l stop index acc false d = ROk (true, index', acc', d') ->
    forall cs, in_domain cs -> fst (derive_list V l cs (accm cs) index) = None.

Section Walk.
Hypothesis MAIN : main_sim_stmt.
Hypothesis DF : derive_finite_stmt.

(* the first statement of the list, analysed *)
Lemma head_sim V s t index d r :
  names_ok V -> incl (flat_map stmt_vars (s :: t)) V -> dg_inv d ->
  compute depth_fuel index s d = ROk r ->
  sim_res V d r (fun cs => derive depth_fuel V s cs index) /\ incl (flat_map stmt_vars t) V.
Proof.
  intros HV Hi Hd EC. cbn [flat_map] in Hi. split.
  - apply (MAIN V depth_fuel index s d HV); [|exact Hd|exact EC].
    intros v Hv. apply Hi, in_or_app. left. exact Hv.
  - intros v Hv. apply Hi, in_or_app. right. exact Hv.
Qed.

Theorem cmds_sim_noexit : cmds_noexit_stmt.
Proof.
  intros V l. induction l as [|s t IH];
    intros stop index acc d accm index' acc' d' HV Hi Hd Hacc Hrun.
  - cbn [cmds] in Hrun. injection Hrun as <- <- <-.
    split; [exact Hd|]. split; [apply incl_refl|].
    split; [exact (acc_ok_ext V d acc accm _ (fun cs _ => eq_refl) Hacc)|].
    split; [reflexivity|]. split; [intros cs _ _ H; exact H|]. exact (fun H => H).
  - rewrite cmds_cons in Hrun.
    destruct (compute depth_fuel index s d) as [r|e] eqn:EC; cbn [rbind] in Hrun; [|discriminate].
    cbn [orb] in Hrun.
    destruct (head_sim V s t index d r HV Hi Hd EC) as [Hr1 Hit].
    destruct (cr_exit r) eqn:Hex.
    { exfalso. destruct stop; cbn [andb] in Hrun.
      - discriminate Hrun.
      - apply cmds_di_true in Hrun. discriminate Hrun. }
    rewrite andb_false_r in Hrun.
    assert (Hfin : forall cs idx A, fst (derive depth_fuel V s cs idx) = Some A -> finite_on V A)
      by (intros cs idx A; apply DF).
    pose proof (An_seq.step_acc_ok V (fun cs s1 i => derive depth_fuel V s1 cs i) s index acc d accm r
                  HV Hfin Hacc Hr1 Hex) as Hacc2.
    apply An_seq.sim_res_unfold in Hr1. destruct Hr1 as (Hd2 & Hinc & Hok1 & Hcs1).
    destruct (IH stop (cr_index r) (rel_comp acc (cr_rel r)) (cr_dg r) _ index' acc' d'
                 HV Hit Hd2 Hacc2 Hrun) as (K1 & K2 & K3 & K4 & K5 & K6).
    assert (Eq : forall cs, in_domain cs ->
              derive_list V (s :: t) cs (accm cs) index =
              derive_list V t cs (dseq V (accm cs) (fst (derive depth_fuel V s cs index))) (cr_index r)).
    { intros cs Hcs. rewrite derive_list_cons. destruct (Hcs1 cs Hcs) as (_ & _ & H3).
      destruct (H3 Hex) as (Ei & _). cbv beta in Ei. rewrite <- Ei. reflexivity. }
    split; [exact K1|]. split; [eapply incl_tran; eassumption|].
    split; [|split; [|split]].
    + eapply acc_ok_ext; [|exact K3]. intros cs Hcs. cbv beta. rewrite (Eq cs Hcs). reflexivity.
    + intros cs Hcs. rewrite (Eq cs Hcs). apply K4. exact Hcs.
    + intros cs Hcs Hm Hc. rewrite (Eq cs Hcs) in Hm.
      pose proof (K5 cs Hcs Hm Hc) as Hc2.
      destruct (Hcs1 cs Hcs) as (H1 & _ & _). cbv beta in H1.
      destruct (fst (derive depth_fuel V s cs index)) as [B|] eqn:EB.
      * exact (H1 B eq_refl Hc2).
      * exfalso. apply Hm. destruct (accm cs); cbn [dseq]; apply derive_list_None.
    + intros Hv. apply K6. transitivity (rvars acc); [|exact Hv].
      destruct Hacc as [(Wa & _ & _ & _) _]. destruct Hok1 as (Wb & _ & _ & Ib).
      apply rel_comp_rvars; [exact Wa|exact Wb|]. rewrite Hv. exact Ib.
Qed.

Theorem cmds_sim_exit : cmds_exit_stmt.
Proof.
  intros V l. induction l as [|s t IH];
    intros stop index acc d accm index' acc' d' HV Hi Hd Hnc Hrun cs Hcs.
  - cbn [cmds] in Hrun. discriminate Hrun.
  - rewrite cmds_cons in Hrun.
    destruct (compute depth_fuel index s d) as [r|e] eqn:EC; cbn [rbind] in Hrun; [|discriminate].
    cbn [orb] in Hrun.
    destruct (head_sim V s t index d r HV Hi Hd EC) as [Hr1 Hit].
    apply An_seq.sim_res_unfold in Hr1. destruct Hr1 as (Hd2 & Hinc & Hok1 & Hcs1).
    rewrite derive_list_cons.
    destruct (cr_exit r) eqn:Hex.
    + (* the first statement that exits: every choice is covered there *)
      destruct (Hcs1 cs Hcs) as (H1 & H2 & _). cbv beta in H1.
      assert (E : dseq V (accm cs) (fst (derive depth_fuel V s cs index)) = None).
      { destruct (accm cs) as [A|] eqn:EA; [|reflexivity].
        destruct (fst (derive depth_fuel V s cs index)) as [B|] eqn:EB; [|reflexivity].
        exfalso. apply (Hnc cs Hcs); [rewrite EA; discriminate|].
        exact (H1 B eq_refl (H2 eq_refl)). }
      rewrite E. apply derive_list_None.
    + rewrite andb_false_r in Hrun.
      destruct (Hcs1 cs Hcs) as (_ & _ & H3). destruct (H3 eq_refl) as (Ei & _). cbv beta in Ei.
      rewrite <- Ei.
      apply (IH stop (cr_index r) (rel_comp acc (cr_rel r)) (cr_dg r)
                (fun cs => dseq V (accm cs) (fst (derive depth_fuel V s cs index))) index' acc' d'
                HV Hit Hd2); [|exact Hrun|exact Hcs].
      intros cs' Hcs' Hm Hc. destruct (Hcs1 cs' Hcs') as (H1 & _ & _). cbv beta in H1.
      destruct (accm cs') as [A|] eqn:EA; [|apply Hm; reflexivity].
      destruct (fst (derive depth_fuel V s cs' index)) as [B|] eqn:EB;
        [|apply Hm; reflexivity].
      apply (Hnc cs' Hcs'); [rewrite EA; discriminate|]. exact (H1 B eq_refl Hc).
Qed.

End Walk.

(* ------------------------------------------------------------------ *)
(* the initial state of Analysis.func                                  *)

Lemma dedup_In x l : In x (dedup l) <-> In x l.
Proof.
  induction l as [|h t IH]; cbn [dedup]; [tauto|].
  destruct (mem_strb h t) eqn:E.
  - rewrite IH. cbn [In]. split; [tauto|]. intros [<-|H]; [apply Rel_hom.mem_strb_In, E|exact H].
  - cbn [In]. rewrite IH. tauto.
Qed.

Lemma dedup_NoDup l : NoDup (dedup l).
Proof.
  induction l as [|h t IH]; cbn [dedup]; [constructor|].
  destruct (mem_strb h t) eqn:E; [exact IH|].
  constructor; [|exact IH]. rewrite dedup_In. apply Rel_hom.mem_strb_false. exact E.
Qed.

Lemma insert_sorted_In x y l : In y (insert_sorted x l) <-> y = x \/ In y l.
Proof.
  induction l as [|h t IH]; cbn [insert_sorted].
  - cbn [In]. intuition.
  - destruct (str_ltb x h); cbn [In]; [intuition|]. rewrite IH. intuition.
Qed.

Lemma insert_sorted_NoDup x l : ~ In x l -> NoDup l -> NoDup (insert_sorted x l).
Proof.
  induction l as [|h t IH]; intros Hx Hl; cbn [insert_sorted].
  - constructor; [exact Hx|constructor].
  - destruct (str_ltb x h); [constructor; assumption|].
    inversion Hl as [|h' t' Hh Ht]; subst. constructor.
    + rewrite insert_sorted_In. intros [->|H]; [apply Hx; left; reflexivity|exact (Hh H)].
    + apply IH; [|exact Ht]. intros H. apply Hx. right. exact H.
Qed.

Lemma sort_str_In x l : In x (sort_str l) <-> In x l.
Proof.
  induction l as [|h t IH]; unfold sort_str; cbn [fold_right]; [tauto|].
  fold (sort_str t). rewrite insert_sorted_In, IH. cbn [In]. intuition.
Qed.

Lemma sort_str_NoDup l : NoDup l -> NoDup (sort_str l).
Proof.
  induction 1 as [|h t Hh Ht IH]; unfold sort_str; cbn [fold_right]; [constructor|].
  fold (sort_str t). apply insert_sorted_NoDup; [|exact IH]. rewrite sort_str_In. exact Hh.
Qed.

Lemma func_vars_names_ok f : func_ok f -> names_ok (func_vars f).
Proof.
  intros H. split; [|exact H]. unfold func_vars. apply sort_str_NoDup, dedup_NoDup.
Qed.

Lemma func_vars_body f : incl (flat_map stmt_vars (f_body f)) (func_vars f).
Proof.
  intros v Hv. unfold func_vars. apply sort_str_In, dedup_In, in_or_app. right. exact Hv.
Qed.

Lemma dg_new_inv : dg_inv (DeltaGraph.dg_new 3).
Proof.
  split; [reflexivity|]. exists []. split; [reflexivity|]. split; [reflexivity|].
  split; intros n [].
Qed.

Lemma dg_new_not_cov c : ~ cov (DeltaGraph.dg_new 3) c.
Proof. intros (n & [] & _). Qed.

Lemma rval_identity V c x y : names_ok V -> rval (rel_identity V) c x y = sid x y.
Proof.
  intros [ND NE].
  destruct (Rel_hom.rel_identity_sem V rel_empty ND NE eq_refl) as (_ & _ & Hc & _).
  unfold rval. rewrite Hc, (Rel_hom.cell_no_vars rel_empty x y eq_refl).
  unfold sid. destruct (String.eqb x y); reflexivity.
Qed.

Lemma rel_identity_acc_ok V : names_ok V ->
  acc_ok V (DeltaGraph.dg_new 3) (rel_identity V) (fun _ => Some sid).
Proof.
  intros HV. pose proof HV as [ND NE].
  destruct (Rel_hom.rel_identity_sem V rel_empty ND NE eq_refl) as (Hw & Hv & _ & Hp).
  split.
  - split; [exact Hw|]. split; [exact Hp|]. split; [apply Rel_dom.rel_dom_identity|].
    rewrite Hv. apply incl_refl.
  - intros cs _. split; [|discriminate]. intros A HA. injection HA as <-.
    split; [intros x y _ _; apply Calc_alg.sid_fin|]. split.
    + intros x y _ _. rewrite (rval_identity V _ x y HV). apply Calc_alg.sid_fin.
    + intros x y _ _. apply rval_identity. exact HV.
Qed.

(* ------------------------------------------------------------------ *)
(* choice vectors                                                      *)

Lemma vectors_In dom : forall n cs,
  In cs (vectors dom n) <-> length cs = n /\ Forall (fun v => In v dom) cs.
Proof.
  induction n as [|k IH]; intros cs; cbn [vectors].
  - split.
    + intros [<-|[]]. split; [reflexivity|constructor].
    + intros [H _]. destruct cs; [left; reflexivity|discriminate].
  - rewrite in_flat_map. split.
    + intros [v [Hv Hc]]. apply in_map_iff in Hc. destruct Hc as [x [<- Hx]].
      apply IH in Hv. destruct Hv as [Hl Hf]. split.
      * rewrite app_length. cbn [length]. lia.
      * apply Forall_app. split; [exact Hf|]. constructor; [exact Hx|constructor].
    + intros [Hl Hf]. assert (Hne : cs <> []) by (intros ->; discriminate).
      destruct (exists_last Hne) as [v [x ->]].
      rewrite app_length in Hl. cbn [length] in Hl. apply Forall_app in Hf. destruct Hf as [Hf1 Hf2].
      exists v. split; [apply IH; split; [lia|exact Hf1]|].
      apply in_map_iff. exists x. split; [reflexivity|]. inversion Hf2; assumption.
Qed.

Lemma vectors_vec_ok n cs : In cs (vectors DOMAIN n) <-> vec_ok n cs.
Proof.
  rewrite vectors_In. unfold vec_ok, in_domain. change DOMAIN with [0; 1; 2].
  split; intros [Hl Hf]; (split; [exact Hl|]); revert Hf; apply Forall_impl; intros v.
  - cbn [In]. lia.
  - intros Hv. destruct v as [|[|[|v]]]; cbn [In]; auto. lia.
Qed.

(* ------------------------------------------------------------------ *)
(* the delta lists handed to Choices                                   *)

Lemma val_I_of_mono p c mo : In mo p -> sc mo = I -> mmatch c (ds mo) = true -> val p c = I.
Proof.
  induction p as [|h t IH]; intros Hin Hs Hm; [destruct Hin|]. rewrite val_cons.
  destruct Hin as [->|Hin].
  - unfold mval. rewrite Hm, Hs. apply ssum_I_l.
  - rewrite (IH Hin Hs Hm). apply ssum_I_r.
Qed.

Lemma peval_nil_In p s : In s (peval p []) -> exists mo, In mo p /\ ds mo = s /\ sc mo = I.
Proof.
  unfold peval. intros H. apply in_map_iff in H. destruct H as [mo [Hd Hf]].
  apply filter_In in Hf. destruct Hf as [Hin He]. cbn [app existsb] in He.
  rewrite orb_false_r in He. apply sc_eqb_eq in He. eauto.
Qed.

Lemma cell_of_entry r row p :
  wf_rel r -> In row (rmat r) -> In p row ->
  exists x y, In x (rvars r) /\ In y (rvars r) /\ cell r x y = p.
Proof.
  intros (ND & _ & Hlen & Hrows) Hrow Hp.
  assert (Hl : length row = length (rvars r)) by (exact (proj1 (Forall_forall _ _) Hrows _ Hrow)).
  destruct (In_nth _ _ [] Hrow) as (i & Hi & Ei).
  destruct (In_nth _ _ zero_poly Hp) as (j & Hj & Ej).
  exists (nth i (rvars r) EmptyString), (nth j (rvars r) EmptyString).
  split; [apply nth_In; lia|]. split; [apply nth_In; lia|].
  unfold cell. rewrite !Rel_hom.index_of_str_nth_nodup by (try exact ND; lia).
  unfold mget. rewrite Ei. exact Ej.
Qed.

Section Seqs.
Variables (V : list string) (d : dgraph) (r : rel) (m : list nat -> option smat).
Hypothesis Hacc : acc_ok V d r m.
Hypothesis Hnc : not_cov d m.

Lemma seqs_match cs : in_domain cs ->
  (existsb (fun s => mmatch (choice_of_list cs) s)
           (rel_infinity_deltas r [] (DeltaGraph.dg_recorded d)) = true <-> m cs = None).
Proof.
  intros Hcs. destruct Hacc as [(Wr & _) H]. destruct (H cs Hcs) as [Hs Hn].
  rewrite existsb_exists. unfold rel_infinity_deltas. split.
  - intros (s & Hin & Hm). destruct (m cs) as [A|] eqn:EA; [exfalso|reflexivity].
    apply in_app_or in Hin. destruct Hin as [Hin|Hin].
    + apply (Hnc cs Hcs); [rewrite EA; discriminate|]. exists s. split; assumption.
    + apply in_flat_map in Hin. destruct Hin as (row & Hrow & Hin).
      apply in_flat_map in Hin. destruct Hin as (p & Hp & Hin).
      apply peval_nil_In in Hin. destruct Hin as (mo & Hmo & <- & HI).
      destruct (cell_of_entry r row p Wr Hrow Hp) as (x & y & Hx & Hy & Ec).
      destruct (Hs A eq_refl) as (_ & Hcl & _).
      apply (Hcl x y Hx Hy). unfold rval. rewrite Ec.
      exact (val_I_of_mono p _ mo Hmo HI Hm).
  - intros HN. destruct (Hn HN) as (n & Hin & Hm). exists n. split; [|exact Hm].
    apply in_or_app. left. exact Hin.
Qed.

Lemma accepted_iff cs : in_domain cs ->
  (accepted (rel_infinity_deltas r [] (DeltaGraph.dg_recorded d)) cs = true <-> m cs <> None).
Proof.
  intros Hcs. unfold accepted. rewrite negb_true_iff, <- not_true_iff_false, (seqs_match cs Hcs).
  tauto.
Qed.

End Seqs.

(* ------------------------------------------------------------------ *)
(* apply_choice                                                        *)

Lemma map_seq_nth {B} (f : nat -> B) (g : string -> B) (V : list string) :
  (forall i, i < length V -> f i = g (nth i V EmptyString)) -> map f (seq 0 (length V)) = map g V.
Proof.
  intros H. transitivity (map g (map (fun k => nth k V EmptyString) (seq 0 (length V)))).
  - rewrite map_map. apply map_ext_in. intros i Hi. apply in_seq in Hi. apply H. lia.
  - rewrite Rel_ops.map_nth_seq. reflexivity.
Qed.

Lemma pchoice_val p c : match pchoice p c (Some O) with Some s => s | None => O end = val p c.
Proof. unfold pchoice, val. destruct (terms p c); reflexivity. Qed.

Lemma apply_choice_table V r c A :
  wf_rel r -> rvars r = V -> eqV V (rval r c) A -> apply_choice r c = smat_table V A.
Proof.
  intros (ND & _) Hv HE. unfold apply_choice, smat_table. rewrite Hv in *.
  apply map_seq_nth. intros i Hi. apply map_seq_nth. intros j Hj.
  change APPLY_CHOICE_LEAST with O. rewrite pchoice_val.
  rewrite <- (HE _ _ (nth_In V EmptyString Hi) (nth_In V EmptyString Hj)).
  unfold rval, cell. rewrite Hv, !Rel_hom.index_of_str_nth_nodup by assumption. reflexivity.
Qed.

(* ------------------------------------------------------------------ *)
(* Analysis.func                                                       *)

Lemma analyse_unfold f stop res :
  analyse f stop = ROk res ->
  exists di index r d,
    cmds (f_body f) stop 0 (rel_identity (func_vars f)) false (DeltaGraph.dg_new 3) = ROk (di, index, r, d) /\
    let seqs := rel_infinity_deltas r [] (DeltaGraph.dg_recorded d) in
    let inf := di || (no_valid_choice DOMAIN index seqs && Nat.ltb 0 index) in
    res = {| fr_infinite := inf; fr_delta_infty := di; fr_index := index; fr_vars := rvars r;
             fr_rel := if inf && stop then None else Some r;
             fr_inf_deltas := if di then [] else seqs |}.
Proof.
  unfold analyse. intros H.
  destruct (cmds (f_body f) stop 0 (rel_identity (func_vars f)) false (DeltaGraph.dg_new 3))
    as [[[[di index] r] d]|e]; cbn [rbind] in H; [|discriminate].
  injection H as <-. exists di, index, r, d. split; reflexivity.
Qed.

Section Func.
Hypothesis MAIN : main_sim_stmt.
Hypothesis DF : derive_finite_stmt.

(* what the walk over the body of a function guarantees *)
Lemma body_exit f stop index r d :
  func_ok f ->
  cmds (f_body f) stop 0 (rel_identity (func_vars f)) false (DeltaGraph.dg_new 3) = ROk (true, index, r, d) ->
  forall cs, in_domain cs -> fst (derive_func f cs) = None.
Proof.
  intros Hf Hrun cs Hcs. unfold derive_func.
  apply (cmds_sim_exit MAIN (func_vars f) (f_body f) stop 0 (rel_identity (func_vars f))
           (DeltaGraph.dg_new 3) (fun _ => Some sid) index r d
           (func_vars_names_ok f Hf) (func_vars_body f) dg_new_inv); [|exact Hrun|exact Hcs].
  intros cs' _ _. apply dg_new_not_cov.
Qed.

Lemma body_noexit f stop index r d :
  func_ok f ->
  cmds (f_body f) stop 0 (rel_identity (func_vars f)) false (DeltaGraph.dg_new 3) = ROk (false, index, r, d) ->
  index = sites f /\ rvars r = func_vars f /\
  acc_ok (func_vars f) d r (fun cs => fst (derive_func f cs)) /\
  not_cov d (fun cs => fst (derive_func f cs)).
Proof.
  intros Hf Hrun. pose proof (func_vars_names_ok f Hf) as HV.
  destruct (cmds_sim_noexit MAIN DF (func_vars f) (f_body f) stop 0 (rel_identity (func_vars f))
              (DeltaGraph.dg_new 3) (fun _ => Some sid) index r d
              HV (func_vars_body f) dg_new_inv (rel_identity_acc_ok _ HV) Hrun)
    as (_ & _ & K3 & K4 & K5 & K6).
  split; [|split; [|split]].
  - symmetry. exact (K4 [] (Forall_nil _)).
  - apply K6. destruct HV as [ND NE].
    exact (proj1 (proj2 (Rel_hom.rel_identity_sem _ rel_empty ND NE eq_refl))).
  - exact K3.
  - intros cs Hcs Hm Hc. exact (dg_new_not_cov _ (K5 cs Hcs Hm Hc)).
Qed.

Theorem verdict_sound : verdict_sound_stmt.
Proof.
  intros f stop res Hf Han Hinf cs [Hlen Hcs].
  destruct (analyse_unfold f stop res Han) as (di & index & r & d & Hrun & ->).
  cbn [fr_infinite] in Hinf. destruct di.
  - exact (body_exit f stop index r d Hf Hrun cs Hcs).
  - cbn [orb] in Hinf. apply andb_true_iff in Hinf. destruct Hinf as [Hnv _].
    destruct (body_noexit f stop index r d Hf Hrun) as (Ei & _ & Hacc & Hnc).
    apply (seqs_match _ d r _ Hacc Hnc cs Hcs).
    unfold no_valid_choice in Hnv. apply negb_true_iff in Hnv.
    assert (Hv : In cs (vectors DOMAIN index)) by (apply vectors_vec_ok; rewrite Ei; split; assumption).
    destruct (existsb (fun s => mmatch (choice_of_list cs) s) _) eqn:E; [reflexivity|exfalso].
    assert (Ha : accepted (rel_infinity_deltas r [] (DeltaGraph.dg_recorded d)) cs = true)
      by (unfold accepted; rewrite E; reflexivity).
    rewrite (proj2 (existsb_exists _ _) (ex_intro _ cs (conj Hv Ha))) in Hnv. discriminate Hnv.
Qed.

Theorem verdict_complete : verdict_complete_stmt.
Proof.
  intros f stop res Hf Han Hinf Hpos.
  destruct (analyse_unfold f stop res Han) as (di & index & r & d & Hrun & ->).
  cbn [fr_infinite fr_index] in *. apply orb_false_iff in Hinf. destruct Hinf as [-> Hnv].
  apply Nat.ltb_lt in Hpos. rewrite Hpos, andb_true_r in Hnv.
  unfold no_valid_choice in Hnv. apply negb_false_iff, existsb_exists in Hnv.
  destruct Hnv as (cs & Hv & Hacc'). apply vectors_vec_ok in Hv.
  destruct (body_noexit f stop index r d Hf Hrun) as (_ & _ & Hacc & Hnc).
  exists cs. split; [exact Hv|].
  apply (accepted_iff _ d r _ Hacc Hnc cs (proj2 Hv)). exact Hacc'.
Qed.

Theorem finite_result : finite_result_stmt.
Proof.
  intros f stop res Hf Han Hinf.
  destruct (analyse_unfold f stop res Han) as (di & index & r & d & Hrun & ->).
  cbn [fr_infinite fr_index fr_vars fr_rel fr_inf_deltas] in *. rewrite Hinf.
  apply orb_false_iff in Hinf. destruct Hinf as [-> _].
  destruct (body_noexit f stop index r d Hf Hrun) as (Ei & Hv & Hacc & Hnc).
  split; [exact Ei|]. split; [exact Hv|]. exists r. split; [reflexivity|]. split; [exact Hv|].
  intros cs [_ Hcs]. split.
  - rewrite (accepted_iff _ d r _ Hacc Hnc cs Hcs). split.
    + intros H. destruct (fst (derive_func f cs)) as [A|]; [eauto|contradiction].
    + intros [A ->]. discriminate.
  - intros A HA. destruct Hacc as [(Wr & _) H]. destruct (H cs Hcs) as [Hs _].
    destruct (Hs A HA) as (_ & _ & HE). exact (apply_choice_table _ r _ A Wr Hv HE).
Qed.

End Func.

(* ------------------------------------------------------------------ *)
(* the two modes; fields of a result                                   *)

Lemma cmds_modes l : forall index acc d di1 i1 a1 d1 di2 i2 a2 d2,
  cmds l true index acc false d = ROk (di1, i1, a1, d1) ->
  cmds l false index acc false d = ROk (di2, i2, a2, d2) ->
  di1 = di2 /\ (di1 = false -> i1 = i2 /\ a1 = a2 /\ d1 = d2).
Proof.
  induction l as [|s t IH]; intros index acc d di1 i1 a1 d1 di2 i2 a2 d2 H1 H2.
  - cbn [cmds] in H1, H2. injection H1 as <- <- <- <-. injection H2 as <- <- <- <-. auto.
  - rewrite cmds_cons in H1, H2.
    destruct (compute depth_fuel index s d) as [r|e]; cbn [rbind] in H1, H2; [|discriminate].
    cbn [orb andb] in H1, H2. destruct (cr_exit r).
    + injection H1 as <- _ _ _. apply cmds_di_true in H2. subst di2. split; [reflexivity|discriminate].
    + exact (IH _ _ _ _ _ _ _ _ _ _ _ H1 H2).
Qed.

Theorem modes_agree : modes_agree_stmt.
Proof.
  intros f r1 r2 H1 H2.
  destruct (analyse_unfold f true r1 H1) as (di1 & i1 & a1 & d1 & E1 & ->).
  destruct (analyse_unfold f false r2 H2) as (di2 & i2 & a2 & d2 & E2 & ->).
  destruct (cmds_modes _ _ _ _ _ _ _ _ _ _ _ _ E1 E2) as [<- Hrest].
  cbn [fr_infinite]. destruct di1; [split; [reflexivity|discriminate]|].
  destruct (Hrest eq_refl) as (<- & <- & <-). split; [reflexivity|].
  cbn [orb]. intros ->. reflexivity.
Qed.

Theorem result_fields : result_fields_stmt.
Proof.
  intros f stop res Han.
  destruct (analyse_unfold f stop res Han) as (di & index & r & d & _ & ->).
  cbn [fr_infinite fr_rel fr_delta_infty]. split.
  - intros ->. destruct stop; cbn [andb]; split; try congruence; discriminate.
  - intros Hinf. rewrite Hinf. cbn [andb]. split; [discriminate|].
    apply orb_false_iff in Hinf. exact (proj1 Hinf).
Qed.

(* ------------------------------------------------------------------ *)
(* functions without sites                                             *)

(* An_stmts.no_sites_derivable_stmt is FALSE as stated: the derivation runs on depth_fuel = 100 levels
   of nesting and fails below (as the analysis does: RErr "fuel").  A body nested 101 deep without any
   binary-operation site has sites f = 0 and no derivation. *)
Fixpoint nest (n : nat) (s : stmt) : stmt :=
  match n with 0 => s | S k => SBlock [nest k s] end.

Definition f_deep : func_src := {| f_params := []; f_body := [nest 100 (SSkip [])] |}.

Theorem no_sites_derivable_refuted : ~ no_sites_derivable_stmt.
Proof.
  intros H. apply (H f_deep).
  - unfold func_ok. vm_compute. constructor.
  - vm_compute. reflexivity.
  - vm_compute. reflexivity.
Qed.

(* "the derivation of s does not run out of fuel" *)
Fixpoint fuel_ok (fuel : nat) (s : stmt) : Prop :=
  match fuel with
  | 0 => False
  | S f =>
    match s with
    | SUnAsg x op e => match unary_asgn_rewrite x op e with Some s' => fuel_ok f s' | None => True end
    | SIf t e => Forall (fuel_ok f) t /\ Forall (fuel_ok f) e
    | SWhile _ b => fuel_ok f b
    | SFor iters srcs conds nxt b =>
        match loop_compat iters srcs conds nxt b with Some _ => fuel_ok f b | None => True end
    | SBlock l => Forall (fuel_ok f) l
    | _ => True
    end
  end.

(* matrices with entries in {O, M} *)
Definition OM (A : smat) : Prop := forall x y, A x y = O \/ A x y = M.

Lemma om_ssum a b : (a = O \/ a = M) -> (b = O \/ b = M) -> ssum a b = O \/ ssum a b = M.
Proof. intros [->| ->] [->| ->]; cbv; auto. Qed.

Lemma om_sprod a b : (a = O \/ a = M) -> (b = O \/ b = M) -> sprod a b = O \/ sprod a b = M.
Proof. intros [->| ->] [->| ->]; cbv; auto. Qed.

Lemma OM_sid : OM sid.
Proof. intros x y. unfold sid. destruct (String.eqb x y); auto. Qed.

Lemma OM_scol x f : (forall u, f u = O \/ f u = M) -> OM (scol x f).
Proof. intros H u v. unfold scol. destruct (String.eqb v x); [apply H|apply OM_sid]. Qed.

Lemma OM_leaf_const x : OM (leaf_const x).
Proof. apply OM_scol. auto. Qed.

Lemma OM_leaf_copy x y : OM (leaf_copy x y).
Proof.
  unfold leaf_copy. destruct (String.eqb x y); [apply OM_sid|].
  apply OM_scol. intros u. destruct (String.eqb u y); auto.
Qed.

Lemma OM_smul V A B : OM A -> OM B -> OM (smul V A B).
Proof.
  intros HA HB x y. unfold smul. induction V as [|k V IH]; cbn [fold_right]; [auto|].
  apply om_ssum; [apply om_sprod; [apply HA|apply HB]|exact IH].
Qed.

Lemma OM_sadd A B : OM A -> OM B -> OM (sadd A B).
Proof. intros HA HB x y. apply om_ssum; [apply HA|apply HB]. Qed.

Lemma OM_memo V A : OM A -> OM (memo V A).
Proof. intros H x y. rewrite Calc_alg.memo_eq. apply H. Qed.

Lemma OM_finite V A : OM A -> finite_on V A.
Proof. intros H x y _ _. destruct (H x y) as [-> | ->]; discriminate. Qed.

Lemma OM_dseq V A B : OM A -> OM B -> exists C, dseq V (Some A) (Some B) = Some C /\ OM C.
Proof. intros HA HB. eexists. split; [reflexivity|]. apply OM_memo, OM_smul; assumption. Qed.

Lemma sstar_OM V A : NoDup V -> OM A ->
  exists St, sstar V A = Some St /\ OM St /\ forall x, St x x = M.
Proof.
  intros ND HA. destruct (Calc_alg.sstar_total V A ND (OM_finite V A HA)) as [St HS].
  exists St. split; [exact HS|]. unfold sstar in HS.
  pose (P := fun X : smat => OM X /\ forall x, X x x = M).
  assert (Hstep : forall X, P X -> P (Calc_alg.sstep V A X)).
  { intros X [H1 H2]. split.
    - apply OM_memo, OM_sadd; [apply OM_sid|apply OM_smul; assumption].
    - intros x. rewrite Calc_alg.sstep_eq, Calc_alg.sid_eq.
      destruct (OM_smul V X A H1 HA x x) as [-> | ->]; reflexivity. }
  assert (H0 : P sid) by (split; [apply OM_sid|apply Calc_alg.sid_eq]).
  exact (proj1 (Calc_alg.sstar_loop_inv P V A Hstep _ _ _ H0 HS)).
Qed.

Lemma w_ok_OM V A : OM A -> w_ok V A = true.
Proof.
  intros H. unfold w_ok. apply forallb_forall. intros x _. apply forallb_forall. intros y _.
  unfold W_BAD. destruct (H x y) as [-> | ->]; reflexivity.
Qed.

Lemma l_ok_diag V A : (forall x, A x x = M) -> l_ok V A = true.
Proof.
  intros H. unfold l_ok. apply forallb_forall. intros x _. rewrite H. reflexivity.
Qed.

Lemma l_extend_OM V X A : OM A -> forall u v, l_extend V X A u v = A u v.
Proof.
  intros H u v. unfold l_extend.
  assert (E : existsb (fun i => L_PROPAGATE (A i v) (String.eqb i v)) V = false).
  { apply not_true_iff_false. intros K. apply existsb_exists in K. destruct K as [i [_ Hi]].
    unfold L_PROPAGATE in Hi. destruct (H i v) as [E|E]; rewrite E in Hi; discriminate Hi. }
  rewrite E, andb_false_r. reflexivity.
Qed.

(* the index never decreases *)
Lemma dlist_mono rec V l :
  (forall s i, i <= snd (rec s i)) -> forall acc idx, idx <= snd (dlist rec V l acc idx).
Proof.
  intros H. induction l as [|s t IH]; intros acc idx; [cbn [dlist snd]; lia|].
  rewrite An_seq.dlist_cons. eapply Nat.le_trans; [apply (H s idx)|apply IH].
Qed.

Lemma d_bin_mono x op y z cs idx : idx <= snd (d_bin x op y z cs idx).
Proof. unfold d_bin. destruct y, z; cbn [snd]; lia. Qed.

Lemma derive_mono V cs : forall fuel s idx, idx <= snd (derive fuel V s cs idx).
Proof.
  induction fuel as [|f IH]; intros s idx; [cbn [derive snd]; lia|].
  destruct s; cbn [derive]; try (cbn [snd]; lia).
  - apply d_bin_mono.
  - destruct (unary_asgn_rewrite x op e); [apply IH|cbn [snd]; lia].
  - destruct e; try (cbn [snd]; lia).
    destruct (mem_strb op INC_DEC); [|cbn [snd]; lia].
    unfold inc_dec_stmt. apply d_bin_mono.
  - pose proof (dlist_mono (fun s1 i => derive f V s1 cs i) V t (fun s i => IH s i) (Some sid) idx) as H1.
    destruct (dlist (fun s1 i => derive f V s1 cs i) V t (Some sid) idx) as [mt i1]. cbn [snd] in H1.
    pose proof (dlist_mono (fun s1 i => derive f V s1 cs i) V e (fun s i => IH s i) (Some sid) i1) as H2.
    destruct (dlist (fun s1 i => derive f V s1 cs i) V e (Some sid) i1) as [me i2]. cbn [snd] in *. lia.
  - pose proof (IH s idx) as H1. destruct (derive f V s cs idx) as [mb i1]. exact H1.
  - destruct (loop_compat iters srcs conds nxt s); [|cbn [snd]; lia].
    pose proof (IH s idx) as H1. destruct (derive f V s cs idx) as [mb i1]. exact H1.
  - apply dlist_mono. intros s i. apply IH.
Qed.

(* a list whose elements, when they consume no site, have an {O,M} derivation *)
Lemma dlist_OM rec V l :
  (forall s i, i <= snd (rec s i)) ->
  (forall s i, In s l -> snd (rec s i) = i -> exists A, fst (rec s i) = Some A /\ OM A) ->
  forall A0 idx, OM A0 -> snd (dlist rec V l (Some A0) idx) = idx ->
    exists A, fst (dlist rec V l (Some A0) idx) = Some A /\ OM A.
Proof.
  intros Hm. induction l as [|s t IH]; intros Hel A0 idx H0 Hs.
  - exists A0. split; [reflexivity|exact H0].
  - rewrite An_seq.dlist_cons in *.
    pose proof (Hm s idx) as L1.
    pose proof (dlist_mono rec V t Hm (dseq V (Some A0) (fst (rec s idx))) (snd (rec s idx))) as L2.
    assert (E1 : snd (rec s idx) = idx) by lia.
    destruct (Hel s idx (or_introl eq_refl) E1) as (B & EB & HB).
    rewrite EB in *. destruct (OM_dseq V A0 B H0 HB) as (C & EC & HC). rewrite EC in *.
    rewrite E1 in *. apply IH; [|exact HC|exact Hs].
    intros s' i Hin. apply Hel. right. exact Hin.
Qed.

Lemma d_bin_nosite x op y z cs idx :
  snd (d_bin x op y z cs idx) = idx -> exists A, fst (d_bin x op y z cs idx) = Some A /\ OM A.
Proof.
  unfold d_bin. destruct y, z; cbn [fst snd]; intros H; try lia.
  eexists. split; [reflexivity|apply OM_leaf_const].
Qed.

Lemma derive_OM V cs : NoDup V -> forall fuel s idx,
  fuel_ok fuel s -> snd (derive fuel V s cs idx) = idx ->
  exists A, fst (derive fuel V s cs idx) = Some A /\ OM A.
Proof.
  intros ND. induction fuel as [|f IH]; intros s idx Hok Hs; [destruct Hok|].
  assert (SID : exists A, Some sid = Some A /\ OM A) by (eexists; split; [reflexivity|apply OM_sid]).
  assert (LIST : forall l A0 i, Forall (fuel_ok f) l -> OM A0 ->
            snd (dlist (fun s1 i => derive f V s1 cs i) V l (Some A0) i) = i ->
            exists A, fst (dlist (fun s1 i => derive f V s1 cs i) V l (Some A0) i) = Some A /\ OM A).
  { intros l A0 i Hl H0 Hi. apply dlist_OM; try assumption.
    - intros s' i'. apply derive_mono.
    - intros s' i' Hin. apply IH. exact (proj1 (Forall_forall _ _) Hl s' Hin). }
  destruct s; cbn [derive fuel_ok] in *; try exact SID.
  - apply d_bin_nosite. exact Hs.
  - eexists. split; [reflexivity|apply OM_leaf_const].
  - eexists. split; [reflexivity|apply OM_leaf_copy].
  - destruct (unary_asgn_rewrite x op e); [apply IH; assumption|exact SID].
  - destruct e; try exact SID. destruct (mem_strb op INC_DEC); [|exact SID].
    unfold inc_dec_stmt in *. apply d_bin_nosite. exact Hs.
  - destruct Hok as [Ht He].
    pose proof (dlist_mono (fun s1 i => derive f V s1 cs i) V t (fun s i => derive_mono V cs f s i) (Some sid) idx) as L1.
    pose proof (LIST t sid idx Ht OM_sid) as K1.
    destruct (dlist (fun s1 i => derive f V s1 cs i) V t (Some sid) idx) as [mt i1]. cbn [fst snd] in *.
    pose proof (dlist_mono (fun s1 i => derive f V s1 cs i) V e (fun s i => derive_mono V cs f s i) (Some sid) i1) as L2.
    pose proof (LIST e sid i1 He OM_sid) as K2.
    destruct (dlist (fun s1 i => derive f V s1 cs i) V e (Some sid) i1) as [me i2]. cbn [fst snd] in *.
    assert (i1 = idx) by lia. subst i1.
    destruct (K1 eq_refl) as (A & -> & HA). destruct (K2 Hs) as (B & -> & HB).
    eexists. split; [reflexivity|]. apply OM_memo, OM_sadd; assumption.
  - pose proof (IH s idx Hok) as K. destruct (derive f V s cs idx) as [mb i1]. cbn [fst snd] in *.
    destruct (K Hs) as (B & -> & HB). cbn [d_while].
    destruct (sstar_OM V B ND HB) as (St & -> & HSt & _). rewrite (w_ok_OM V St HSt).
    eexists. split; [reflexivity|exact HSt].
  - destruct (loop_compat iters srcs conds nxt s) as [X|]; [|exact SID].
    pose proof (IH s idx Hok) as K. destruct (derive f V s cs idx) as [mb i1]. cbn [fst snd] in *.
    destruct (K Hs) as (B & -> & HB). cbn [d_for].
    destruct (sstar_OM V B ND HB) as (St & -> & HSt & Hdiag). rewrite (l_ok_diag V St Hdiag).
    eexists. split; [reflexivity|]. apply OM_memo. intros u v. rewrite (l_extend_OM V X St HSt). apply HSt.
  - apply LIST; [exact Hok|apply OM_sid|exact Hs].
Qed.

Lemma func_vars_NoDup f : NoDup (func_vars f).
Proof. unfold func_vars. apply sort_str_NoDup, dedup_NoDup. Qed.

(* the corrected statement: no site and enough fuel *)
Theorem no_sites_derivable_partial :
  forall f, sites f = 0 -> Forall (fuel_ok depth_fuel) (f_body f) -> fst (derive_func f []) <> None.
Proof.
  intros f Hs Hok. unfold sites, derive_func, derive_list in *.
  destruct (dlist_OM (fun s1 i => derive depth_fuel (func_vars f) s1 [] i) (func_vars f) (f_body f))
    with (A0 := sid) (idx := 0) as (A & EA & _).
  - intros s i. apply derive_mono.
  - intros s i Hin. apply derive_OM; [apply func_vars_NoDup|].
    exact (proj1 (Forall_forall _ _) Hok s Hin).
  - apply OM_sid.
  - exact Hs.
  - rewrite EA. discriminate.
Qed.

(* a successful analysis that never exits early has visited every statement within the fuel *)
Lemma seq_branch_noexit (Q : stmt -> Prop) rec l :
  (forall s i d r, In s l -> rec i s d = ROk r -> cr_exit r = false -> Q s) ->
  forall index acc d r, seq_branch rec l index acc d = ROk r -> cr_exit r = false -> Forall Q l.
Proof.
  induction l as [|s t IH]; intros HQ index acc d r H Hex; [constructor|].
  cbn [seq_branch] in H. destruct (rec index s d) as [r1|e] eqn:E1; cbn [rbind] in H; [|discriminate].
  destruct (cr_exit r1) eqn:X1.
  { injection H as <-. cbn [cr_exit] in Hex. discriminate Hex. }
  constructor.
  - exact (HQ s index d r1 (or_introl eq_refl) E1 X1).
  - apply (IH (fun s' i d' r' Hin => HQ s' i d' r' (or_intror Hin)) _ _ _ _ H Hex).
Qed.

Lemma seq_compound_noexit (Q : stmt -> Prop) rec l :
  (forall s i d r, In s l -> rec i s d = ROk r -> cr_exit r = false -> Q s) ->
  forall index acc d r, seq_compound rec l index acc d = ROk r -> cr_exit r = false -> Forall Q l.
Proof.
  induction l as [|s t IH]; intros HQ index acc d r H Hex; [constructor|].
  cbn [seq_compound] in H. destruct (rec index s d) as [r1|e] eqn:E1; cbn [rbind] in H; [|discriminate].
  cbv zeta in H. destruct (cr_exit r1) eqn:X1.
  { injection H as <-. cbn [cr_exit] in Hex. discriminate Hex. }
  constructor.
  - exact (HQ s index d r1 (or_introl eq_refl) E1 X1).
  - apply (IH (fun s' i d' r' Hin => HQ s' i d' r' (or_intror Hin)) _ _ _ _ H Hex).
Qed.

Lemma compute_fuel_ok : forall fuel index s d r,
  compute fuel index s d = ROk r -> cr_exit r = false -> fuel_ok fuel s.
Proof.
  induction fuel as [|f IH]; intros index s d r H Hex; [discriminate H|].
  destruct s; cbn [compute fuel_ok] in *; try exact Logic.I.
  - destruct (unary_asgn_rewrite x op e); [eapply IH; eassumption|exact Logic.I].
  - destruct (seq_branch (compute f) t index rel_empty d) as [rt|e1] eqn:Et; cbn [rbind] in H; [|discriminate].
    destruct (cr_exit rt) eqn:Xt. { injection H as <-. congruence. }
    destruct (seq_branch (compute f) e (cr_index rt) rel_empty (cr_dg rt)) as [re|e2] eqn:Ee;
      cbn [rbind] in H; [|discriminate].
    destruct (cr_exit re) eqn:Xe. { injection H as <-. congruence. }
    split; eapply seq_branch_noexit; try eassumption; intros s' i d' r' _; apply IH.
  - destruct (compute f index s d) as [rb|e1] eqn:Eb; cbn [rbind] in H; [|discriminate].
    destruct (cr_exit rb) eqn:Xb. { injection H as <-. congruence. }
    eapply IH; eassumption.
  - destruct (loop_compat iters srcs conds nxt s); [|exact Logic.I].
    destruct (compute f index s d) as [rb|e1] eqn:Eb; cbn [rbind] in H; [|discriminate].
    destruct (cr_exit rb) eqn:Xb. { injection H as <-. cbn [cr_exit] in Hex. discriminate Hex. }
    eapply IH; eassumption.
  - eapply seq_compound_noexit; try eassumption. intros s' i d' r' _. apply IH.
Qed.

Lemma cmds_fuel_ok l : forall stop index acc d index' acc' d',
  cmds l stop index acc false d = ROk (false, index', acc', d') -> Forall (fuel_ok depth_fuel) l.
Proof.
  induction l as [|s t IH]; intros stop index acc d index' acc' d' H; [constructor|].
  rewrite cmds_cons in H.
  destruct (compute depth_fuel index s d) as [r|e] eqn:EC; cbn [rbind] in H; [|discriminate].
  cbn [orb] in H. destruct (cr_exit r) eqn:Hex.
  { exfalso. destruct stop; cbn [andb] in H; [discriminate H|].
    apply cmds_di_true in H. discriminate H. }
  rewrite andb_false_r in H. constructor.
  - exact (compute_fuel_ok _ _ _ _ _ EC Hex).
  - exact (IH _ _ _ _ _ _ _ H).
Qed.

(* verdict_complete without the restriction to functions with sites *)
Definition verdict_complete_all_stmt : Prop :=
  forall f stop res, func_ok f -> analyse f stop = ROk res -> fr_infinite res = false ->
    exists cs, vec_ok (fr_index res) cs /\ fst (derive_func f cs) <> None.

Theorem verdict_complete_all : main_sim_stmt -> derive_finite_stmt -> verdict_complete_all_stmt.
Proof.
  intros MAIN DF f stop res Hf Han Hinf.
  destruct (Nat.eq_dec (fr_index res) 0) as [E0|E0];
    [|apply (verdict_complete MAIN DF f stop res Hf Han Hinf); lia].
  destruct (analyse_unfold f stop res Han) as (di & index & r & d & Hrun & ->).
  cbn [fr_infinite fr_index] in *. apply orb_false_iff in Hinf. destruct Hinf as [-> _]. subst index.
  destruct (body_noexit MAIN DF f stop 0 r d Hf Hrun) as (Ei & _).
  exists []. split; [split; [reflexivity|constructor]|].
  apply no_sites_derivable_partial; [symmetry; exact Ei|].
  exact (cmds_fuel_ok _ _ _ _ _ _ _ _ Hrun).
Qed.

(* ------------------------------------------------------------------ *)

Check cmds_sim_noexit : main_sim_stmt -> derive_finite_stmt -> cmds_noexit_stmt.
Check cmds_sim_exit : main_sim_stmt -> cmds_exit_stmt.
Check verdict_sound : main_sim_stmt -> derive_finite_stmt -> verdict_sound_stmt.
Check verdict_complete : main_sim_stmt -> derive_finite_stmt -> verdict_complete_stmt.
Check finite_result : main_sim_stmt -> derive_finite_stmt -> finite_result_stmt.
Check modes_agree : modes_agree_stmt.
Check result_fields : result_fields_stmt.
Check verdict_complete_all : main_sim_stmt -> derive_finite_stmt -> verdict_complete_all_stmt.

Print Assumptions cmds_sim_noexit.
Print Assumptions cmds_sim_exit.
Print Assumptions verdict_sound.
Print Assumptions verdict_complete.
Print Assumptions finite_result.
Print Assumptions modes_agree.
Print Assumptions result_fields.
Print Assumptions no_sites_derivable_refuted.
Print Assumptions no_sites_derivable_partial.
Print Assumptions verdict_complete_all.

(* the premises of no_sites_derivable_partial are satisfiable by a function with a loop *)
Example no_sites_instance :
  let f := {| f_params := ["x"; "y"]%string;
              f_body := [SWhile ["x"%string] (SCopy "x" "y"); SConst "y"] |} in
  sites f = 0 /\ Forall (fuel_ok depth_fuel) (f_body f) /\ exists A, fst (derive_func f []) = Some A.
Proof.
  cbv zeta. split; [vm_compute; reflexivity|]. split.
  - cbn [f_body]. unfold depth_fuel. repeat constructor.
  - vm_compute. eexists. reflexivity.
Qed.
