(* C03, part 1: what a bound column says about an exact value ([shape_ok]) in the compact form the
   induction uses ([good]), its monotonicity in the column, and the two value constructions
   ([+] = append, [*] = pairwise concatenation).  DESIGN.md appendix A.4. *)
From Coq Require Import String List Bool Arith Lia.
From PM Require Import Semiring Poly Rel Analysis Calculus Sem_stmts Calc_alg Exec.
Import ListNotations.
Open Scope list_scope.

(* ------------------------------------------------------------------ *)
(* scalars                                                             *)

Lemma sc_nz_W x : x <> O -> sc_le W (sprod x W).
Proof. destruct x; unfold sc_le; simpl; intros; try lia; congruence. Qed.

Lemma sc_nz_P x : x <> O -> sc_le P (sprod x P).
Proof. destruct x; unfold sc_le; simpl; intros; try lia; congruence. Qed.

Lemma sc_P_le_M x : sc_le (sprod x P) M -> x = O.
Proof. destruct x; unfold sc_le; simpl; intros; try lia; reflexivity. Qed.

Lemma sc_le_M_nz x : sc_le x M -> x <> O -> x = M.
Proof. destruct x; unfold sc_le; simpl; intros; try lia; congruence. Qed.

Lemma sc_le_nz x y : sc_le x y -> x <> O -> y <> O.
Proof. destruct x, y; unfold sc_le; simpl; intros; try lia; congruence. Qed.

Lemma sc_W_le_M_false x : sc_le W x -> x = M -> False.
Proof. intros H E; subst. unfold sc_le in H. simpl in H. lia. Qed.

Lemma sc_P_le_M_false x : sc_le P x -> x = M -> False.
Proof. intros H E; subst. unfold sc_le in H. simpl in H. lia. Qed.

Lemma sc_P_le_W_false x : sc_le P x -> x = W -> False.
Proof. intros H E; subst. unfold sc_le in H. simpl in H. lia. Qed.

Lemma sprod_ge_l x f : sc_le M f -> sc_le x (sprod x f).
Proof. destruct x, f; unfold sc_le; simpl; intros; lia. Qed.

Lemma sprod_ge_P x f : sc_le P f -> sc_le (sprod x P) (sprod x f).
Proof. intros. apply sprod_mono_all; [apply sc_le_refl | assumption]. Qed.

Lemma sprod_ge_W x f : sc_le W f -> sc_le (sprod x W) (sprod x f).
Proof. intros. apply sprod_mono_all; [apply sc_le_refl | assumption]. Qed.

(* ------------------------------------------------------------------ *)
(* variables of values                                                 *)

Lemma pvars_app a b : pvars (a ++ b) = pvars a ++ pvars b.
Proof. unfold pvars. apply concat_app. Qed.

Lemma pvars_cons m a : pvars (m :: a) = m ++ pvars a.
Proof. reflexivity. Qed.

Lemma pvars_In u val : In u (pvars val) <-> exists mo, In mo val /\ In u mo.
Proof.
  unfold pvars. rewrite in_concat. split; intros [mo [H1 H2]]; exists mo; auto.
Qed.

Lemma pvars_pmul u a b : In u (pvars (pmul a b)) -> In u (pvars a) \/ In u (pvars b).
Proof.
  rewrite !pvars_In. intros [mo [Hmo Hu]]. unfold pmul in Hmo.
  apply in_flat_map in Hmo. destruct Hmo as [m1 [H1 Hmo]].
  apply in_map_iff in Hmo. destruct Hmo as [m2 [E H2]]. subst mo.
  apply in_app_or in Hu. destruct Hu as [Hu|Hu]; [left; exists m1 | right; exists m2]; auto.
Qed.

(* ------------------------------------------------------------------ *)
(* the compact form                                                    *)

(* only listed variables of V; a max-listed variable that occurs is one summand [u], and every
   other variable of the value is then (at least) poly-listed *)
Definition good (V : list string) (col : string -> Sc) (val : poly_n) : Prop :=
  (forall u, In u (pvars val) -> In u V /\ col u <> O) /\
  (forall u, col u = M -> In u (pvars val) ->
     exists l1 l2, val = l1 ++ [u] :: l2 /\ forall t, In t (pvars (l1 ++ l2)) -> sc_le P (col t)).

Lemma good_shape V col val : good V col val -> shape_ok col val.
Proof.
  intros [G1 G2]. split; [|split; [|split]].
  - intros u Hu. apply G1. exact Hu.
  - intros u Hm Hu. destruct (G2 u Hm Hu) as [l1 [l2 [E Hr]]].
    assert (Hn : forall l, (forall t, In t (pvars l) -> sc_le P (col t)) -> ~ In u (pvars l)).
    { intros l Hl Hin. exact (sc_P_le_M_false _ (Hl u Hin) Hm). }
    assert (H1 : ~ In u (pvars l1)).
    { apply Hn. intros t Ht. apply Hr. rewrite pvars_app. apply in_or_app. left; exact Ht. }
    assert (H2 : ~ In u (pvars l2)).
    { apply Hn. intros t Ht. apply Hr. rewrite pvars_app. apply in_or_app. right; exact Ht. }
    split.
    + subst val. rewrite count_occ_app. rewrite (count_occ_cons_eq _ l2 (eq_refl [u])).
      assert (C1 : count_occ (list_eq_dec string_dec) l1 [u] = 0).
      { apply count_occ_not_In. intros Hin. apply H1. apply pvars_In. exists [u]. simpl; auto. }
      assert (C2 : count_occ (list_eq_dec string_dec) l2 [u] = 0).
      { apply count_occ_not_In. intros Hin. apply H2. apply pvars_In. exists [u]. simpl; auto. }
      lia.
    + intros mo Hmo Humo. subst val. apply in_app_or in Hmo. destruct Hmo as [Hmo|[Hmo|Hmo]].
      * exfalso. apply H1. apply pvars_In. exists mo; auto.
      * auto.
      * exfalso. apply H2. apply pvars_In. exists mo; auto.
  - intros u u' Hm Hm' Hu Hu'. destruct (G2 u Hm Hu) as [l1 [l2 [E Hr]]].
    subst val. rewrite pvars_app, pvars_cons in Hu'. simpl in Hu'.
    apply in_app_or in Hu'. destruct Hu' as [H|[H|H]].
    + exfalso. apply (sc_P_le_M_false (col u')); [|exact Hm']. apply Hr. rewrite pvars_app. apply in_or_app; auto.
    + exact H.
    + exfalso. apply (sc_P_le_M_false (col u')); [|exact Hm']. apply Hr. rewrite pvars_app. apply in_or_app; auto.
  - intros u w Hm Hw Hu Hin. destruct (G2 u Hm Hu) as [l1 [l2 [E Hr]]].
    subst val. rewrite pvars_app, pvars_cons in Hin. simpl in Hin.
    apply in_app_or in Hin. destruct Hin as [H|[H|H]].
    + apply (sc_P_le_W_false (col w)); [|exact Hw]. apply Hr. rewrite pvars_app. apply in_or_app; auto.
    + subst w. congruence.
    + apply (sc_P_le_W_false (col w)); [|exact Hw]. apply Hr. rewrite pvars_app. apply in_or_app; auto.
Qed.

(* a larger column is a weaker constraint *)
Lemma good_weaken V col col' val :
  (forall u, In u V -> sc_le (col u) (col' u)) -> good V col val -> good V col' val.
Proof.
  intros H [G1 G2]. split.
  - intros u Hu. destruct (G1 u Hu) as [HV Hn]. split; [exact HV|].
    eapply sc_le_nz; [apply H; exact HV | exact Hn].
  - intros u Hm Hu. destruct (G1 u Hu) as [HV Hn].
    assert (Hm0 : col u = M).
    { apply sc_le_M_nz; [|exact Hn]. rewrite <- Hm. apply H. exact HV. }
    destruct (G2 u Hm0 Hu) as [l1 [l2 [E Hr]]]. exists l1, l2. split; [exact E|].
    intros t Ht. eapply sc_le_trans; [apply Hr; exact Ht|]. apply H.
    apply G1. subst val. rewrite pvars_app in Ht. rewrite pvars_app, pvars_cons.
    apply in_app_or in Ht. apply in_or_app. destruct Ht; [left; assumption | right; simpl; right; assumption].
Qed.

Lemma good_init V v : In v V -> good V (fun u => sid u v) [[v]].
Proof.
  intros Hv. split.
  - intros u Hu. simpl in Hu. destruct Hu as [<-|[]]. split; [exact Hv|]. rewrite sid_eq. discriminate.
  - intros u Hm Hu. simpl in Hu. destruct Hu as [<-|[]]. exists [], []. split; [reflexivity|].
    intros t [].
Qed.

(* x = y + z, alternative (m, p): the value of y keeps its shape, everything of z lands on p *)
Lemma good_add_MP V ca cb c a b :
  good V ca a -> good V cb b ->
  (forall u, In u V -> sc_le (ca u) (c u)) -> (forall u, In u V -> sc_le (sprod (cb u) P) (c u)) ->
  good V c (padd a b).
Proof.
  intros [A1 A2] [B1 B2] Ha Hb. unfold padd. split.
  - intros u Hu. rewrite pvars_app in Hu. apply in_app_or in Hu. destruct Hu as [Hu|Hu].
    + destruct (A1 u Hu) as [HV Hn]. split; [exact HV|]. eapply sc_le_nz; [apply Ha; exact HV | exact Hn].
    + destruct (B1 u Hu) as [HV Hn]. split; [exact HV|].
      intros E. specialize (Hb u HV). rewrite E in Hb. pose proof (sc_nz_P _ Hn) as Hp.
      unfold sc_le in *. simpl in *. lia.
  - intros u Hm Hu. rewrite pvars_app in Hu.
    assert (HnB : ~ In u (pvars b)).
    { intros Hin. destruct (B1 u Hin) as [HV Hn]. apply Hn. apply sc_P_le_M. rewrite <- Hm. apply Hb. exact HV. }
    apply in_app_or in Hu. destruct Hu as [Hu|Hu]; [|contradiction].
    destruct (A1 u Hu) as [HV Hn].
    assert (Hm0 : ca u = M). { apply sc_le_M_nz; [|exact Hn]. rewrite <- Hm. apply Ha. exact HV. }
    destruct (A2 u Hm0 Hu) as [l1 [l2 [E Hr]]]. exists l1, (l2 ++ b). split.
    + subst a. rewrite <- app_assoc. reflexivity.
    + intros t Ht. rewrite app_assoc, pvars_app in Ht. apply in_app_or in Ht. destruct Ht as [Ht|Ht].
      * eapply sc_le_trans; [apply Hr; exact Ht|]. apply Ha. apply A1.
        subst a. rewrite pvars_app in Ht. rewrite pvars_app, pvars_cons.
        apply in_app_or in Ht. apply in_or_app. destruct Ht; [left; assumption | right; simpl; right; assumption].
      * destruct (B1 t Ht) as [HVt Hnt]. eapply sc_le_trans; [apply sc_nz_P; exact Hnt | apply Hb; exact HVt].
Qed.

(* alternative (p, m) *)
Lemma good_add_PM V ca cb c a b :
  good V ca a -> good V cb b ->
  (forall u, In u V -> sc_le (sprod (ca u) P) (c u)) -> (forall u, In u V -> sc_le (cb u) (c u)) ->
  good V c (padd a b).
Proof.
  intros [A1 A2] [B1 B2] Ha Hb. unfold padd. split.
  - intros u Hu. rewrite pvars_app in Hu. apply in_app_or in Hu. destruct Hu as [Hu|Hu].
    + destruct (A1 u Hu) as [HV Hn]. split; [exact HV|].
      intros E. specialize (Ha u HV). rewrite E in Ha. pose proof (sc_nz_P _ Hn) as Hp.
      unfold sc_le in *. simpl in *. lia.
    + destruct (B1 u Hu) as [HV Hn]. split; [exact HV|]. eapply sc_le_nz; [apply Hb; exact HV | exact Hn].
  - intros u Hm Hu. rewrite pvars_app in Hu.
    assert (HnA : ~ In u (pvars a)).
    { intros Hin. destruct (A1 u Hin) as [HV Hn]. apply Hn. apply sc_P_le_M. rewrite <- Hm. apply Ha. exact HV. }
    apply in_app_or in Hu. destruct Hu as [Hu|Hu]; [contradiction|].
    destruct (B1 u Hu) as [HV Hn].
    assert (Hm0 : cb u = M). { apply sc_le_M_nz; [|exact Hn]. rewrite <- Hm. apply Hb. exact HV. }
    destruct (B2 u Hm0 Hu) as [l1 [l2 [E Hr]]]. exists (a ++ l1), l2. split.
    + subst b. rewrite <- app_assoc. reflexivity.
    + intros t Ht. rewrite <- app_assoc, pvars_app in Ht. apply in_app_or in Ht. destruct Ht as [Ht|Ht].
      * destruct (A1 t Ht) as [HVt Hnt]. eapply sc_le_trans; [apply sc_nz_P; exact Hnt | apply Ha; exact HVt].
      * eapply sc_le_trans; [apply Hr; exact Ht|]. apply Hb. apply B1.
        subst b. rewrite pvars_app in Ht. rewrite pvars_app, pvars_cons.
        apply in_app_or in Ht. apply in_or_app. destruct Ht; [left; assumption | right; simpl; right; assumption].
Qed.

(* both operands weak (x = y + z with alternative (w, w), x = y * z): nothing stays max-listed *)
Lemma good_WW V ca cb c a b val :
  (forall u, In u (pvars val) -> In u (pvars a) \/ In u (pvars b)) ->
  good V ca a -> good V cb b ->
  (forall u, In u V -> sc_le (sprod (ca u) W) (c u)) -> (forall u, In u V -> sc_le (sprod (cb u) W) (c u)) ->
  good V c val.
Proof.
  intros Hv [A1 _] [B1 _] Ha Hb.
  assert (HW : forall u, In u (pvars val) -> In u V /\ sc_le W (c u)).
  { intros u Hu. destruct (Hv u Hu) as [H|H].
    - destruct (A1 u H) as [HV Hn]. split; [exact HV|].
      eapply sc_le_trans; [apply sc_nz_W; exact Hn | apply Ha; exact HV].
    - destruct (B1 u H) as [HV Hn]. split; [exact HV|].
      eapply sc_le_trans; [apply sc_nz_W; exact Hn | apply Hb; exact HV]. }
  split.
  - intros u Hu. destruct (HW u Hu) as [HV Hw]. split; [exact HV|].
    intros E. rewrite E in Hw. unfold sc_le in Hw. simpl in Hw. lia.
  - intros u Hm Hu. destruct (HW u Hu) as [_ Hw]. exfalso. exact (sc_W_le_M_false _ Hw Hm).
Qed.

Print Assumptions good_shape.
Print Assumptions good_weaken.
Print Assumptions good_add_MP.
Print Assumptions good_add_PM.
Print Assumptions good_WW.
