(* C19, line count: specification on the token stream and its relation to the model of file_io.loc *)
From Coq Require Import String Ascii List Bool Arith Lia.
From PM Require Import FileIO.
Import ListNotations.
Open Scope list_scope.

Definition b2n (b : bool) : nat := if b then 1 else 0.

(* number of lines of [l] that hold a non-blank character, [cur] = the current line already holds one *)
Fixpoint count_lines (cur : bool) (l : chars) : nat :=
  match l with
  | [] => b2n cur
  | c :: t => if is_nl c then b2n cur + count_lines false t
              else count_lines (cur || negb (is_space c)) t
  end.

Lemma nonblank_rev l : nonblank (rev l) = nonblank l.
Proof.
  unfold nonblank. induction l as [|c t IH]; simpl; [reflexivity|].
  rewrite existsb_app, IH. simpl. rewrite orb_false_r, orb_comm. reflexivity.
Qed.

Lemma loc_split acc l :
  length (filter nonblank (split_nl acc l)) = count_lines (nonblank acc) l.
Proof.
  revert acc. induction l as [|c t IH]; intros acc; simpl.
  - rewrite nonblank_rev. destruct (nonblank acc); reflexivity.
  - destruct (is_nl c) eqn:E.
    + cbn [filter]. rewrite nonblank_rev. destruct (nonblank acc) eqn:N; cbn [length b2n]; rewrite IH; reflexivity.
    + rewrite IH. cbn [nonblank existsb]. fold (nonblank acc). rewrite orb_comm. reflexivity.
Qed.

Lemma loc_count text : loc text = count_lines false (del_comments text).
Proof. unfold loc. rewrite loc_split. reflexivity. Qed.

(* ---------- specification: physical lines holding code ----------
   code = every character outside comments; a literal is code (opaque); a comment's newlines end
   lines just like any newline *)
Fixpoint run_code (cur : bool) (s : chars) : nat * bool :=
  match s with
  | [] => (0, cur)
  | c :: t => if is_nl c then let '(k, e) := run_code false t in (b2n cur + k, e)
              else run_code (cur || negb (is_space c)) t
  end.

Fixpoint run_comment (cur : bool) (s : chars) : nat * bool :=
  match s with
  | [] => (0, cur)
  | c :: t => if is_nl c then let '(k, e) := run_comment false t in (b2n cur + k, e)
              else run_comment cur t
  end.

Fixpoint spec_lines (cur : bool) (toks : list token) : nat :=
  match toks with
  | [] => b2n cur
  | TCode c :: r => let '(k, e) := run_code cur [c] in k + spec_lines e r
  | TLit s :: r => let '(k, e) := run_code cur s in k + spec_lines e r
  | TComment s :: r => let '(k, e) := run_comment cur s in k + spec_lines e r
  end.

(* "lines holding a non-blank character outside comments" of a text *)
Definition code_lines (text : chars) : nat := spec_lines false (lex text).

(* every comment that spans a line break starts its line (only blanks before it on that line) *)
Fixpoint ml_ok (cur : bool) (toks : list token) : bool :=
  match toks with
  | [] => true
  | TCode c :: r => ml_ok (snd (run_code cur [c])) r
  | TLit s :: r => ml_ok (snd (run_code cur s)) r
  | TComment s :: r => (negb (existsb is_nl s) || negb cur) && ml_ok (snd (run_comment cur s)) r
  end.

Lemma count_lines_app cur a b :
  count_lines cur (a ++ b) = fst (run_code cur a) + count_lines (snd (run_code cur a)) b.
Proof.
  revert cur. induction a as [|c t IH]; intros cur; simpl; [reflexivity|].
  destruct (is_nl c).
  - rewrite IH. destruct (run_code false t) as [k e]. simpl. lia.
  - apply IH.
Qed.

Lemma run_comment_no_nl cur s : existsb is_nl s = false -> run_comment cur s = (0, cur).
Proof.
  revert cur. induction s as [|c t IH]; intros cur H; simpl in *; [reflexivity|].
  apply orb_false_iff in H. destruct H as [H1 H2]. rewrite H1. apply IH. exact H2.
Qed.

Lemma run_comment_blank s : fst (run_comment false s) = 0 /\ snd (run_comment false s) = false.
Proof.
  induction s as [|c t IH]; simpl; [split; reflexivity|].
  destruct (is_nl c); [|exact IH]. destruct (run_comment false t) as [k e]. simpl in *. exact IH.
Qed.

Lemma space_is_space : is_space " "%char = true. Proof. reflexivity. Qed.
Lemma space_not_nl : is_nl " "%char = false. Proof. reflexivity. Qed.

Theorem loc_partial_tokens toks cur :
  ml_ok cur toks = true -> count_lines cur (flat_map emit toks) = spec_lines cur toks.
Proof.
  revert cur. induction toks as [|t r IH]; intros cur H; [reflexivity|].
  destruct t as [c|s|s]; cbn [flat_map emit]; cbn [ml_ok] in H.
  - rewrite count_lines_app. cbn [spec_lines]. destruct (run_code cur [c]) as [k e] eqn:E. cbn [fst snd] in *.
    rewrite IH; [reflexivity | exact H].
  - (* comment -> one space *)
    apply andb_true_iff in H. destruct H as [H1 H2].
    cbn [app count_lines]. rewrite space_not_nl, space_is_space. cbn [negb]. rewrite orb_false_r.
    cbn [spec_lines].
    destruct (existsb is_nl s) eqn:En.
    + cbn [negb orb] in H1. apply negb_true_iff in H1. subst cur.
      destruct (run_comment_blank s) as [F S]. destruct (run_comment false s) as [k e]. cbn [fst snd] in *. subst.
      rewrite IH; [reflexivity | exact H2].
    + rewrite (run_comment_no_nl cur s En) in *. cbn [snd] in H2. rewrite IH; [reflexivity | exact H2].
  - rewrite count_lines_app. cbn [spec_lines]. destruct (run_code cur s) as [k e] eqn:E. cbn [fst snd] in *.
    rewrite IH; [reflexivity | exact H].
Qed.

Theorem loc_partial text : ml_ok false (lex text) = true -> loc text = code_lines text.
Proof. intros H. rewrite loc_count. unfold del_comments, code_lines. apply loc_partial_tokens. exact H. Qed.

(* the full statement is false: a block comment spanning a line break between two pieces of code (D11) *)
Definition d11_text : chars := map ascii_of_nat [97; 59; 47; 42; 10; 42; 47; 98; 59].   (* a;/*<nl>*/b; *)

Lemma loc_refuted : exists text, loc text = 1 /\ code_lines text = 2.
Proof. exists d11_text. vm_compute. split; reflexivity. Qed.

(* non-vacuity: a text with a multi-line header comment, a literal holding comment markers, a line comment *)
Definition ex_text : chars :=
  map ascii_of_nat [47;42;32;104;10;32;42;47;10;120;61;34;47;42;34;59;32;47;47;32;99;10;10;121;59;32;47;42;99;42;47;10].
Example loc_nonvacuous : ml_ok false (lex ex_text) = true /\ loc ex_text = 2 /\ code_lines ex_text = 2.
Proof. vm_compute. repeat split. Qed.

(* del_comments is exactly: copy code characters and literals, one space per comment *)
Lemma del_comments_tokens text : del_comments text = flat_map emit (lex text).
Proof. reflexivity. Qed.
