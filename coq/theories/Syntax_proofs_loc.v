(* C19, line count: specification on the token stream and its relation to the model of file_io.loc *)
From Coq Require Import String Ascii List Bool Arith Lia.
From PM Require Import FileIO.
Import ListNotations.
Open Scope list_scope.

Definition b2n (b : bool) : nat := if b then 1 else 0.

(* number of lines of [l] that hold a non-blank character, [cur] = the current line already holds one *)
Fixpoint count_lines (cur : bool) (l : chars) : nat :=
  match l with
  | [] => b2n cur
  | c :: t => if is_nl c then b2n cur + count_lines false t
              else count_lines (cur || negb (is_space c)) t
  end.

Lemma nonblank_rev l : nonblank (rev l) = nonblank l.
Proof.
  unfold nonblank. induction l as [|c t IH]; simpl; [reflexivity|].
  rewrite existsb_app, IH. simpl. rewrite orb_false_r, orb_comm. reflexivity.
Qed.

Lemma loc_split acc l :
  length (filter nonblank (split_nl acc l)) = count_lines (nonblank acc) l.
Proof.
  revert acc. induction l as [|c t IH]; intros acc; simpl.
  - rewrite nonblank_rev. destruct (nonblank acc); reflexivity.
  - destruct (is_nl c) eqn:E.
    + cbn [filter]. rewrite nonblank_rev. destruct (nonblank acc) eqn:N; cbn [length b2n]; rewrite IH; reflexivity.
    + rewrite IH. cbn [nonblank existsb]. fold (nonblank acc). rewrite orb_comm. reflexivity.
Qed.

Lemma loc_count text : loc text = count_lines false (del_comments text).
Proof. unfold loc. rewrite loc_split. reflexivity. Qed.

(* ---------- specification: physical lines holding code ----------
   code = every character outside comments; a literal is code (opaque); a comment's newlines end
   lines just like any newline *)
Fixpoint run_code (cur : bool) (s : chars) : nat * bool :=
  match s with
  | [] => (0, cur)
  | c :: t => if is_nl c then let '(k, e) := run_code false t in (b2n cur + k, e)
              else run_code (cur || negb (is_space c)) t
  end.

Fixpoint run_comment (cur : bool) (s : chars) : nat * bool :=
  match s with
  | [] => (0, cur)
  | c :: t => if is_nl c then let '(k, e) := run_comment false t in (b2n cur + k, e)
              else run_comment cur t
  end.

Fixpoint spec_lines (cur : bool) (toks : list token) : nat :=
  match toks with
  | [] => b2n cur
  | TCode c :: r => let '(k, e) := run_code cur [c] in k + spec_lines e r
  | TLit s :: r => let '(k, e) := run_code cur s in k + spec_lines e r
  | TComment s :: r => let '(k, e) := run_comment cur s in k + spec_lines e r
  end.

(* "lines holding a non-blank character outside comments" of a text *)
Definition code_lines (text : chars) : nat := spec_lines false (lex text).

Lemma count_lines_app cur a b :
  count_lines cur (a ++ b) = fst (run_code cur a) + count_lines (snd (run_code cur a)) b.
Proof.
  revert cur. induction a as [|c t IH]; intros cur; simpl; [reflexivity|].
  destruct (is_nl c).
  - rewrite IH. destruct (run_code false t) as [k e]. simpl. lia.
  - apply IH.
Qed.

Lemma space_is_space : is_space " "%char = true. Proof. reflexivity. Qed.
Lemma space_not_nl : is_nl " "%char = false. Proof. reflexivity. Qed.

(* the line breaks kept for a comment close exactly the lines the comment closes *)
Lemma count_lines_nls cur s b :
  count_lines cur (filter is_nl s ++ b) = fst (run_comment cur s) + count_lines (snd (run_comment cur s)) b.
Proof.
  revert cur. induction s as [|c t IH]; intros cur; simpl; [reflexivity|].
  destruct (is_nl c) eqn:E.
  - simpl. rewrite E. rewrite IH. destruct (run_comment false t) as [k e]. simpl. lia.
  - apply IH.
Qed.

Lemma run_comment_no_nl cur s : filter is_nl s = [] -> run_comment cur s = (0, cur).
Proof.
  revert cur. induction s as [|c t IH]; intros cur H; simpl in *; [reflexivity|].
  destruct (is_nl c); [discriminate|]. apply IH. exact H.
Qed.

Theorem loc_tokens toks cur : count_lines cur (flat_map emit toks) = spec_lines cur toks.
Proof.
  revert cur. induction toks as [|t r IH]; intros cur; [reflexivity|].
  destruct t as [c|s|s]; cbn [flat_map emit spec_lines].
  - rewrite count_lines_app. destruct (run_code cur [c]) as [k e]. cbn [fst snd]. rewrite IH. reflexivity.
  - destruct (filter is_nl s) as [|n0 ns] eqn:F.
    + rewrite (run_comment_no_nl cur s F). cbn [app count_lines]. rewrite space_not_nl, space_is_space. cbn [negb].
      rewrite orb_false_r, IH. reflexivity.
    + rewrite <- F, count_lines_nls. destruct (run_comment cur s) as [k e]. cbn [fst snd]. rewrite IH. reflexivity.
  - rewrite count_lines_app. destruct (run_code cur s) as [k e]. cbn [fst snd]. rewrite IH. reflexivity.
Qed.

(* loc = number of physical lines holding a non-blank character outside comments, for EVERY text *)
Theorem loc_spec text : loc text = code_lines text.
Proof. rewrite loc_count. unfold del_comments, code_lines. apply loc_tokens. Qed.

(* regression (D11, fixed by 01c7197): code, a block comment spanning a line break, code *)
Definition d11_text : chars := map ascii_of_nat [97; 59; 47; 42; 10; 42; 47; 98; 59].
Example loc_d11 : loc d11_text = 2 /\ code_lines d11_text = 2.
Proof. vm_compute. split; reflexivity. Qed.

(* a text with a multi-line header comment, a literal holding comment markers, a line comment *)
Definition ex_text : chars :=
  map ascii_of_nat [47;42;32;104;10;32;42;47;10;120;61;34;47;42;34;59;32;47;47;32;99;10;10;121;59;32;47;42;99;42;47;10].
Example loc_example : loc ex_text = 2 /\ code_lines ex_text = 2.
Proof. vm_compute. split; reflexivity. Qed.

(* del_comments is exactly: copy code characters and literals, one space per comment *)
Lemma del_comments_tokens text : del_comments text = flat_map emit (lex text).
Proof. reflexivity. Qed.
