(* Reading the printed text back: the tokenizer inverts [untok], the recursive-descent reader is
   complete for the grammar, and every tree [bound_expr] builds is a sentence of the grammar.
   Consequence: parse_expr (bound_poly b c) = Some (bound_expr b c). *)
From Coq Require Import String Ascii List Bool Arith Lia.
From PM Require Import Bound Bound_syntax Bound_proofs.
Import ListNotations.
Local Open Scope string_scope.
Local Open Scope list_scope.

(* ------------------------------------------------------------------ tokenizer *)

Definition is_id (t : token) : bool := match t with TId _ => true | _ => false end.
Definition head_id (ts : list token) : bool := match ts with t :: _ => is_id t | [] => false end.

Fixpoint wf_toks (ts : list token) : bool :=
  match ts with
  | [] => true
  | TId a :: r => plainb a && negb (head_id r) && wf_toks r
  | _ :: r => wf_toks r
  end.

Lemma tokenize_plain a s :
  plainb a = true -> head_id (tokenize s) = false -> tokenize (a ++ s) = TId a :: tokenize s.
Proof.
  unfold plainb. intros Hp Hs. apply andb_true_iff in Hp as [Hne Hall].
  induction a as [|c a IH]; [discriminate|].
  cbn [forallb] in Hall. apply andb_true_iff in Hall as [Hc Hall].
  cbn [app tokenize]. destruct (special c); [discriminate|].
  destruct a as [|c' a].
  - cbn [app]. destruct (tokenize s) as [|[] r]; simpl in *; congruence.
  - rewrite IH; auto.
Qed.

Lemma special_tok t : is_id t = false -> forall s, tokenize (tok_str t ++ s) = t :: tokenize s.
Proof. destruct t; simpl; intros; congruence. Qed.

Lemma tokenize_untok ts : wf_toks ts = true -> tokenize (untok ts) = ts.
Proof.
  induction ts as [|t ts IH]; [reflexivity|].
  intro H. change (untok (t :: ts)) with (tok_str t ++ untok ts).
  destruct t; try (rewrite special_tok by reflexivity; f_equal; apply IH; exact H).
  cbn [wf_toks] in H. apply andb_true_iff in H as [H H3]. apply andb_true_iff in H as [H1 H2].
  cbn [tok_str]. rewrite tokenize_plain; auto.
  - now rewrite IH.
  - rewrite IH by auto. now apply negb_true_iff in H2.
Qed.

Lemma wf_toks_app a t b :
  wf_toks a = true -> is_id t = false -> wf_toks (t :: b) = true -> wf_toks (a ++ t :: b) = true.
Proof.
  intros Ha Ht Hb. induction a as [|u a IH]; [exact Hb|].
  cbn [app]. destruct u; cbn [wf_toks] in *; auto.
  apply andb_true_iff in Ha as [Ha H3]. apply andb_true_iff in Ha as [H1 H2].
  rewrite H1, IH by auto. destruct a as [|v a]; cbn [app head_id] in *.
  - now rewrite Ht.
  - now rewrite H2.
Qed.

Lemma wf_toks_snoc a t : wf_toks a = true -> is_id t = false -> wf_toks (a ++ [t]) = true.
Proof. intros. apply wf_toks_app; auto. destruct t; auto; discriminate. Qed.

Scheme gF_mut := Minimality for gF Sort Prop
  with gT_mut := Minimality for gT Sort Prop
  with gE_mut := Minimality for gE Sort Prop
  with gA_mut := Minimality for gA Sort Prop.
Combined Scheme g_mutind from gF_mut, gT_mut, gE_mut, gA_mut.

Lemma grammar_wf :
  (forall ts e, gF ts e -> wf_toks ts = true) /\ (forall ts l, gT ts l -> wf_toks ts = true) /\
  (forall ts l, gE ts l -> wf_toks ts = true) /\ (forall ts l, gA ts l -> wf_toks ts = true).
Proof.
  apply g_mutind; intros; auto.
  - cbn. now rewrite H.
  - cbn [wf_toks]. change (plainb (L "max")) with true. cbn [head_id is_id negb andb].
    apply wf_toks_snoc; auto.
  - cbn [wf_toks]. apply wf_toks_snoc; auto.
  - apply wf_toks_app; auto.
  - apply wf_toks_app; auto.
  - apply wf_toks_app; auto.
Qed.

(* ------------------------------------------------------------------ reader: unfolding equations *)

Lemma pE_S n ts : pE (S n) ts =
  match pT n ts with
  | Some (fs, TPlus :: r) => match pE n r with Some (l, r') => Some (mk_mul fs :: l, r') | None => None end
  | Some (fs, r) => Some ([mk_mul fs], r)
  | None => None
  end.
Proof. reflexivity. Qed.

Lemma pT_S n ts : pT (S n) ts =
  match pF n ts with
  | Some (f, TStar :: r) => match pT n r with Some (l, r') => Some (f :: l, r') | None => None end
  | Some (f, r) => Some ([f], r)
  | None => None
  end.
Proof. reflexivity. Qed.

Lemma pF_S n ts : pF (S n) ts =
  match ts with
  | TId s :: r =>
      if str_eqb s (L "max") then
        match r with
        | TLP :: r1 => match pA n r1 with Some (l, TRP :: r2) => Some (Max l, r2) | _ => None end
        | _ => Some (Var s, r)
        end
      else Some (if str_eqb s (L "0") then Zero else Var s, r)
  | TLP :: r => match pE n r with Some (l, TRP :: r') => Some (mk_add l, r') | _ => None end
  | _ => None
  end.
Proof. reflexivity. Qed.

Lemma pA_S n ts : pA (S n) ts =
  match pE n ts with
  | Some (l, TComma :: r) => match pA n r with Some (es, r') => Some (mk_add l :: es, r') | None => None end
  | Some (l, r) => Some ([mk_add l], r)
  | None => None
  end.
Proof. reflexivity. Qed.

(* what may NOT follow a complete F / T / E / argument list *)
Definition fF (t : token) : bool := match t with TLP => true | _ => false end.
Definition fT (t : token) : bool := match t with TLP | TStar => true | _ => false end.
Definition fE (t : token) : bool := match t with TLP | TStar | TPlus => true | _ => false end.
Definition fA (t : token) : bool := match t with TLP | TStar | TPlus | TComma => true | _ => false end.
Definition nostart (bad : token -> bool) (r : list token) : bool :=
  match r with [] => true | t :: _ => negb (bad t) end.

Lemma reader_complete :
  (forall ts e, gF ts e -> forall n r, 4 * length ts <= n -> nostart fF r = true ->
                                   pF n (ts ++ r) = Some (e, r)) /\
  (forall ts l, gT ts l -> forall n r, 4 * length ts + 1 <= n -> nostart fT r = true ->
                                   pT n (ts ++ r) = Some (l, r)) /\
  (forall ts l, gE ts l -> forall n r, 4 * length ts + 2 <= n -> nostart fE r = true ->
                                   pE n (ts ++ r) = Some (l, r)) /\
  (forall ts l, gA ts l -> forall n r, 4 * length ts + 3 <= n -> nostart fA r = true ->
                                   pA n (ts ++ r) = Some (l, r)).
Proof.
  apply g_mutind.
  - (* variable *)
    intros a Hp H0 n r Hn Hr. destruct n as [|n]; [simpl in Hn; lia|].
    cbn [app]. rewrite pF_S. rewrite H0.
    destruct (str_eqb a (L "max")); [|reflexivity].
    destruct r as [|[] r]; try reflexivity. discriminate Hr.
  - (* 0 *)
    intros n r Hn Hr. destruct n as [|n]; [simpl in Hn; lia|]. reflexivity.
  - (* max( args ) *)
    intros ts l _ IH n r Hn Hr. destruct n as [|n]; [simpl in Hn; lia|].
    cbn [app]. rewrite <- app_assoc. rewrite pF_S.
    change (str_eqb (L "max") (L "max")) with true. cbv iota.
    rewrite (IH n ([TRP] ++ r)); [reflexivity| |reflexivity].
    cbn [length] in Hn. rewrite app_length in Hn. cbn [length] in Hn. lia.
  - (* ( E ) *)
    intros ts l _ IH n r Hn Hr. destruct n as [|n]; [simpl in Hn; lia|].
    cbn [app]. rewrite <- app_assoc. rewrite pF_S.
    rewrite (IH n ([TRP] ++ r)); [reflexivity| |reflexivity].
    cbn [length] in Hn. rewrite app_length in Hn. cbn [length] in Hn. lia.
  - (* T ::= F *)
    intros ts f _ IH n r Hn Hr. destruct n as [|n]; [lia|].
    rewrite pT_S, (IH n r); [|lia|].
    + destruct r as [|[] r]; try reflexivity; discriminate Hr.
    + destruct r as [|[] r]; try reflexivity; discriminate Hr.
  - (* T ::= F * T *)
    intros ts f ts' l _ IHf _ IHt n r Hn Hr. destruct n as [|n]; [lia|].
    rewrite app_length in Hn. cbn [length] in Hn.
    rewrite <- app_assoc. cbn [app]. rewrite pT_S, (IHf n (TStar :: ts' ++ r)); [|lia|reflexivity].
    rewrite (IHt n r); [reflexivity|lia|assumption].
  - (* E ::= T *)
    intros ts fs _ IH n r Hn Hr. destruct n as [|n]; [lia|].
    rewrite pE_S, (IH n r); [|lia|].
    + destruct r as [|[] r]; try reflexivity; discriminate Hr.
    + destruct r as [|[] r]; try reflexivity; discriminate Hr.
  - (* E ::= T + E *)
    intros ts fs ts' l _ IHt _ IHe n r Hn Hr. destruct n as [|n]; [lia|].
    rewrite app_length in Hn. cbn [length] in Hn.
    rewrite <- app_assoc. cbn [app]. rewrite pE_S, (IHt n (TPlus :: ts' ++ r)); [|lia|reflexivity].
    rewrite (IHe n r); [reflexivity|lia|assumption].
  - (* A ::= E *)
    intros ts l _ IH n r Hn Hr. destruct n as [|n]; [lia|].
    rewrite pA_S, (IH n r); [|lia|].
    + destruct r as [|[] r]; try reflexivity; discriminate Hr.
    + destruct r as [|[] r]; try reflexivity; discriminate Hr.
  - (* A ::= E , A *)
    intros ts l ts' es _ IHe _ IHa n r Hn Hr. destruct n as [|n]; [lia|].
    rewrite app_length in Hn. cbn [length] in Hn.
    rewrite <- app_assoc. cbn [app]. rewrite pA_S, (IHe n (TComma :: ts' ++ r)); [|lia|reflexivity].
    rewrite (IHa n r); [reflexivity|lia|assumption].
Qed.

(* a complete expression: its tokens derive summands whose sum is the tree itself *)
Definition sentence (e : expr) : Prop := exists l, gE (toks e) l /\ mk_add l = e.

Lemma parse_tokens_sentence e : sentence e -> parse_tokens (toks e) = Some e.
Proof.
  intros (l & Hg & <-). unfold parse_tokens.
  destruct reader_complete as (_ & _ & HE & _).
  specialize (HE _ _ Hg (4 * length (toks (mk_add l)) + 2) [] (le_n _) eq_refl).
  rewrite app_nil_r in HE. now rewrite HE.
Qed.

Lemma parse_render_sentence e : sentence e -> parse_expr (render e) = Some e.
Proof.
  intro H. unfold parse_expr, render. rewrite tokenize_untok.
  - now apply parse_tokens_sentence.
  - destruct H as (l & Hg & _). destruct grammar_wf as (_ & _ & HE & _). eauto.
Qed.

(* ------------------------------------------------------------------ trees of bound_expr are sentences *)

Lemma ident_plain a : ident a -> plainb a = true /\ str_eqb a (L "0") = false.
Proof.
  unfold ident, identb. intro H. apply andb_true_iff in H as [H1 H2].
  now apply negb_true_iff in H2.
Qed.

Lemma gF_ident a : ident a -> gF [TId a] (Var a).
Proof. intro H. apply ident_plain in H as [H1 H2]. now constructor. Qed.

Lemma gT_vars a Z : Forall ident (a :: Z) ->
  gT (joinl [TStar] (map toks (map Var (a :: Z)))) (map Var (a :: Z)).
Proof.
  revert a; induction Z as [|b Z IH]; intros a H; inversion H; subst.
  - apply gT_one. now apply gF_ident.
  - cbn [map] in *. rewrite joinl_cons2.
    apply (gT_cons [TId a] (Var a)); [now apply gF_ident|]. now apply IH.
Qed.

Lemma gE_vars a Y : Forall ident (a :: Y) ->
  gE (joinl [TPlus] (map toks (map Var (a :: Y)))) (map Var (a :: Y)).
Proof.
  revert a; induction Y as [|b Y IH]; intros a H; inversion H; subst.
  - apply (gE_one [TId a] [Var a]). apply gT_one. now apply gF_ident.
  - cbn [map] in *. rewrite joinl_cons2.
    apply (gE_cons [TId a] [Var a]); [apply gT_one; now apply gF_ident|]. now apply IH.
Qed.

Lemma toks_mk_add_vars Y : toks (mk_add (map Var Y)) = joinl [TPlus] (map toks (map Var Y)).
Proof. destruct Y as [|a [|b Y]]; reflexivity. Qed.

Lemma toks_mk_mul_vars Z : toks (mk_mul (map Var Z)) = joinl [TStar] (map toks (map Var Z)).
Proof. destruct Z as [|a [|b Z]]; reflexivity. Qed.

(* an argument of max *)
Definition arg_ok (e : expr) : Prop := exists l, gE (toks e) l /\ mk_add l = e.

Lemma arg_var a : ident a -> arg_ok (Var a).
Proof.
  intro H. exists [Var a]. split; [|reflexivity].
  apply (gE_one [TId a] [Var a]). apply gT_one. now apply gF_ident.
Qed.

Lemma arg_zero : arg_ok Zero.
Proof. exists [Zero]. split; [|reflexivity]. apply (gE_one _ [Zero]). apply gT_one. constructor. Qed.

Lemma arg_sum a Y : Forall ident (a :: Y) -> arg_ok (mk_add (map Var (a :: Y))).
Proof.
  intro H. exists (map Var (a :: Y)). split; [|reflexivity].
  rewrite toks_mk_add_vars. now apply gE_vars.
Qed.

Lemma gA_args e es : Forall arg_ok (e :: es) ->
  gA (joinl [TComma] (map toks (e :: es))) (e :: es).
Proof.
  revert e; induction es as [|e' es IH]; intros e H; inversion H as [|? ? Ha Hr]; subst; destruct Ha as (l & Hg & Hl).
  - cbn [map joinl]. rewrite <- Hl at 2. now apply gA_one.
  - cbn [map] in *. rewrite joinl_cons2. rewrite <- Hl at 2.
    apply (gA_cons (toks e) l); auto.
Qed.

Lemma gF_Max e es : Forall arg_ok (e :: es) -> gF (toks (Max (e :: es))) (Max (e :: es)).
Proof. intro H. cbn [toks]. apply gF_max. now apply gA_args. Qed.

Lemma Forall_arg_vars X : Forall ident X -> Forall arg_ok (map Var X).
Proof. induction 1; simpl; constructor; auto using arg_var. Qed.

Lemma Forall_arg_app l1 l2 : Forall arg_ok l1 -> Forall arg_ok l2 -> Forall arg_ok (l1 ++ l2).
Proof. intros. apply Forall_app. auto. Qed.

(* the term in front of the product: a name or a max(..) *)
Lemma single_expr_x_gF a X ze c : Forall ident (a :: X) ->
  let t := single_expr (map Var (a :: X)) (map Var (a :: X)) ze c in gF (toks t) t.
Proof.
  intros H t. subst t. unfold single_expr. rewrite map_length.
  assert (HA := Forall_arg_vars _ H). cbn [map] in *.
  assert (H1 : Nat.ltb 1 (length (a :: X)) = false -> one_or Max (Var a :: map Var X) = Var a).
  { destruct X; [reflexivity|discriminate]. }
  assert (Hv : gF (toks (Var a)) (Var a)) by (inversion H; now apply gF_ident).
  destruct c.
  - destruct (Nat.ltb 1 (length (a :: X))) eqn:E.
    + now apply gF_Max.
    + now rewrite H1.
  - destruct (Nat.ltb 1 (length (a :: X)) || negb ze) eqn:E.
    + apply (gF_Max (Var a) (map Var X ++ [Zero])). change (Forall arg_ok ((Var a :: map Var X) ++ [Zero])).
      apply Forall_arg_app; auto. constructor; auto using arg_zero.
    + apply orb_false_iff in E as [E _]. now rewrite H1.
Qed.

Lemma single_expr_y_gF b Y ze c : Forall ident (b :: Y) ->
  let t := single_expr (map Var (b :: Y)) [mk_add (map Var (b :: Y))] ze c in gF (toks t) t.
Proof.
  intros H t. subst t. unfold single_expr. rewrite map_length.
  assert (HA := arg_sum _ _ H).
  assert (H1 : Nat.ltb 1 (length (b :: Y)) = false -> one_or Max [mk_add (map Var (b :: Y))] = Var b).
  { destruct Y; [reflexivity|discriminate]. }
  assert (Hv : gF (toks (Var b)) (Var b)) by (inversion H; now apply gF_ident).
  destruct c.
  - destruct (Nat.ltb 1 (length (b :: Y))) eqn:E.
    + apply gF_Max. now constructor.
    + now rewrite H1.
  - destruct (Nat.ltb 1 (length (b :: Y)) || negb ze) eqn:E.
    + apply (gF_Max _ [Zero]). repeat constructor; auto using arg_zero.
    + apply orb_false_iff in E as [E _]. now rewrite H1.
Qed.

Lemma sentence_term t Z : gF (toks t) t -> Forall ident Z ->
  sentence (if is_nil Z then t else Add [t; mk_mul (map Var Z)]).
Proof.
  intros Ht HZ. destruct Z as [|d Z]; cbn [is_nil].
  - exists [t]. split; [|reflexivity]. apply (gE_one _ [t]). now apply gT_one.
  - exists [t; mk_mul (map Var (d :: Z))]. split; [|reflexivity].
    change (toks (Add [t; mk_mul (map Var (d :: Z))]))
      with (toks t ++ TPlus :: toks (mk_mul (map Var (d :: Z)))).
    rewrite toks_mk_mul_vars.
    apply (gE_cons (toks t) [t]); [now apply gT_one|].
    apply gE_one. now apply gT_vars.
Qed.

Lemma sentence_BE X Y Z c : Forall ident X -> Forall ident Y -> Forall ident Z -> sentence (BE X Y Z c).
Proof.
  intros HX HY HZ. unfold BE. destruct X as [|a X], Y as [|b Y].
  - destruct Z as [|d Z]; cbn [is_nil].
    + exists [Zero]. split; [|reflexivity]. apply (gE_one _ [Zero]). apply gT_one. constructor.
    + exists [mk_mul (map Var (d :: Z))]. split; [|reflexivity].
      rewrite toks_mk_mul_vars. apply gE_one. now apply gT_vars.
  - apply sentence_term; auto. now apply single_expr_y_gF.
  - apply sentence_term; auto. now apply single_expr_x_gF.
  - apply sentence_term; auto.
    change (map Var (a :: X) ++ [mk_add (map Var (b :: Y))])
      with (Var a :: (map Var X ++ [mk_add (map Var (b :: Y))])).
    apply gF_Max. change (Forall arg_ok (map Var (a :: X) ++ [mk_add (map Var (b :: Y))])).
    apply Forall_arg_app; [now apply Forall_arg_vars|]. constructor; auto using arg_sum.
Qed.

(* ------------------------------------------------------------------ main statements over arbitrary input lists *)

Lemma ident_nonempty a : ident a -> nonempty a.
Proof. intros H E. subst. discriminate H. Qed.

Lemma bound_poly_render x y z c : Forall nonempty x -> Forall nonempty y ->
  bound_poly (mb_of_lists x y z) c = render (bound_expr (mb_of_lists x y z) c).
Proof.
  intros. rewrite bound_poly_BP, bound_expr_BE, render_BE; auto using Forall_sort_uniq.
Qed.

Lemma parse_bound_poly x y z c : Forall ident x -> Forall ident y -> Forall ident z ->
  parse_expr (bound_poly (mb_of_lists x y z) c) = Some (bound_expr (mb_of_lists x y z) c).
Proof.
  intros Hx Hy Hz. rewrite bound_poly_render.
  - apply parse_render_sentence. rewrite bound_expr_BE. apply sentence_BE; now apply Forall_sort_uniq.
  - eapply Forall_impl; [apply ident_nonempty|exact Hx].
  - eapply Forall_impl; [apply ident_nonempty|exact Hy].
Qed.

(* the printed TEXT, read by the independent reader, has the max/+/x value *)
Lemma text_denotes rho x y z c : Forall ident x -> Forall ident y -> Forall ident z ->
  eval_text rho (bound_poly (mb_of_lists x y z) c) = Some (bound_value rho x (sort_uniq y) (sort_uniq z)).
Proof.
  intros. unfold eval_text. rewrite parse_bound_poly by assumption. cbn [option_map].
  now rewrite eval_bound_expr.
Qed.

Lemma text_denotes_nodup rho x y z c : Forall ident x -> Forall ident y -> Forall ident z ->
  NoDup y -> NoDup z ->
  eval_text rho (bound_poly (mb_of_lists x y z) c) = Some (bound_value rho x y z).
Proof.
  intros. unfold eval_text. rewrite parse_bound_poly by assumption. cbn [option_map].
  now rewrite eval_bound_expr_nodup.
Qed.

(* two printed texts are equal only if the trees are: the text is unambiguous *)
Lemma text_unambiguous x y z c x' y' z' c' :
  Forall ident x -> Forall ident y -> Forall ident z ->
  Forall ident x' -> Forall ident y' -> Forall ident z' ->
  bound_poly (mb_of_lists x y z) c = bound_poly (mb_of_lists x' y' z') c' ->
  bound_expr (mb_of_lists x y z) c = bound_expr (mb_of_lists x' y' z') c'.
Proof.
  intros Hx Hy Hz Hx' Hy' Hz' E.
  assert (S1 := parse_bound_poly x y z c Hx Hy Hz).
  assert (S2 := parse_bound_poly x' y' z' c' Hx' Hy' Hz').
  rewrite E in S1. congruence.
Qed.

(* all-empty prints exactly "0" *)
Lemma all_empty_text c : bound_poly (mb_of_lists [] [] []) c = L "0".
Proof. destruct c; reflexivity. Qed.

(* hypotheses are satisfiable, on a non-trivial instance *)
Example text_example :
  let x := [L "X2"; L "X10"] in let y := [L "max"; L "b"] in let z := [L "_t"; L "c"] in
  Forall ident x /\ Forall ident y /\ Forall ident z /\ NoDup y /\ NoDup z /\
  to_string (bound_poly (mb_of_lists x y z) false) = "max(X10,X2,b+max)+_t*c" /\
  to_string (bound_poly (mb_of_lists x [] z) false) = "max(X10,X2,0)+_t*c" /\
  to_string (bound_poly (mb_of_lists [] y []) true) = "max(b+max)" /\
  parse_expr (L "max(X10,X2,b+max)+_t*c") =
    Some (Add [Max [Var (L "X10"); Var (L "X2"); Add [Var (L "b"); Var (L "max")]]; Mul [Var (L "_t"); Var (L "c")]]).
Proof.
  cbv zeta. repeat split; try (repeat constructor; simpl; intuition discriminate); vm_compute; reflexivity.
Qed.

Lemma text_is_tree x y z c : Forall ident x -> Forall ident y -> Forall ident z ->
  bound_poly (mb_of_lists x y z) c = render (bound_expr (mb_of_lists x y z) c) /\
  parse_expr (bound_poly (mb_of_lists x y z) c) = Some (bound_expr (mb_of_lists x y z) c).
Proof.
  intros Hx Hy Hz. split; [|now apply parse_bound_poly].
  apply bound_poly_render; eapply Forall_impl; try apply ident_nonempty; assumption.
Qed.
