(* C14 -- the theorems about whole results: reloading a saved, well-formed object gives the object
   back with its bounds listed in canonical (sorted) order; consequences. *)
From Coq Require Import String Ascii List Bool ZArith Arith Lia.
From PMGen Require Import ResultGen.
From PM Require Import Semiring Poly Poly_sem Rel Json Result Result_proofs_base Result_proofs_classes.
From PM Require Bound Bound_syntax Bound_proofs Bound_text Choice.
Import ListNotations.
Open Scope string_scope.
Open Scope list_scope.

(* ------------------------------------------------------------------ the generated tables *)

(* every record field is assigned by the generated __init__ table of its class, so the placeholder
   values of [blank] never survive a constructor call *)
Definition init_covers (cls : string) (fields : list string) : bool :=
  match find_tab CLASS_TABLES cls with
  | Some t => forallb (fun f => existsb (String.eqb f) (map fst (k_init t))) fields
  | None => false
  end.

Lemma init_tables_cover :
  init_covers "Program" ["program_path"; "n_lines"; "n_func"; "n_loops"; "n_func_vars"; "n_loop_vars"] = true /\
  init_covers "VResult" ["name"; "_is_m"; "_is_w"; "_is_p"; "bound"; "choices"] = true /\
  init_covers "LoopResult" ["loop_code"; "start_time"; "end_time"; "variables"] = true /\
  init_covers "FuncLoops" ["name"; "start_time"; "end_time"; "loops"] = true /\
  init_covers "FuncResult" ["name"; "infinite"; "start_time"; "end_time"; "variables"; "inf_flows"; "index";
                            "func_code"; "relation"; "choices"; "bound"] = true /\
  init_covers "Result" ["start_time"; "end_time"; "program"; "relations"; "loops"] = true.
Proof. vm_compute. repeat split. Qed.

(* ------------------------------------------------------------------ canonical form: same JSON, still well formed *)

Lemma entries_canon {A} (G : A -> json) (canon : A -> A) (l : list (string * A)) :
  (forall x, In x l -> G (canon (snd x)) = G (snd x)) ->
  map (fun kv => (fst kv, G (snd kv))) (map (fun kv => (fst kv, canon (snd kv))) l)
  = map (fun kv => (fst kv, G (snd kv))) l.
Proof. intros H. rewrite map_map. apply map_ext_in. intros x Hx. cbn [fst snd]. now rewrite H. Qed.

Lemma list_canon {A} (G : A -> json) (canon : A -> A) (l : list A) :
  (forall x, In x l -> G (canon x) = G x) -> map G (map canon l) = map G l.
Proof. intros H. rewrite map_map. apply map_ext_in. exact H. Qed.

Lemma wf_vr_canon v : wf_vr v -> wf_vr (canon_vr v).
Proof.
  destruct v as [na m w p b c]. unfold wf_vr, canon_vr. cbn. intros (Hf & Hc & Hb).
  split; [exact Hf|]. split; [exact Hc|].
  intros b' E. destruct b as [b|]; [|discriminate]. injection E as <-. apply wf_mb_canon, Hb. reflexivity.
Qed.

Lemma vresult_json_canon v : vresult_json (canon_vr v) = vresult_json v.
Proof.
  destruct v as [na m w p [b|] c]; unfold vresult_json, canon_vr;
    cbn [vr_name vr_m vr_w vr_p vr_bound vr_choices option_map]; [|reflexivity].
  now rewrite bound_str_canon.
Qed.

Lemma wf_lr_canon l : wf_lr l -> wf_lr (canon_lr l).
Proof.
  destruct l as [co st en vs]. unfold wf_lr, canon_lr. cbn. intros [Hn Hw]. split.
  - rewrite map_map. exact Hn.
  - rewrite Forall_map. eapply Forall_impl; [|exact Hw]. intros [k v] [H1 H2]. cbn in *.
    split; [destruct v; exact H1 | now apply wf_vr_canon].
Qed.

Lemma loopresult_json_canon l : loopresult_json (canon_lr l) = loopresult_json l.
Proof.
  destruct l as [co st en vs]. unfold loopresult_json, canon_lr. cbn [lr_code lr_start lr_end lr_variables].
  pose proof (entries_canon vresult_json canon_vr vs (fun x _ => vresult_json_canon (snd x))) as E.
  destruct vs as [|kv0 vs]; [reflexivity|]. cbn [map] in *. now rewrite E.
Qed.

Lemma wf_fl_canon f : wf_fl f -> wf_fl (canon_fl f).
Proof.
  destruct f as [na st en ls]. unfold wf_fl, canon_fl. cbn. intros H. rewrite Forall_map.
  eapply Forall_impl; [|exact H]. intros; now apply wf_lr_canon.
Qed.

Lemma funcloops_json_canon f : funcloops_json (canon_fl f) = funcloops_json f.
Proof.
  destruct f as [na st en ls]. unfold funcloops_json, canon_fl. cbn [fl_name fl_start fl_end fl_loops].
  pose proof (list_canon loopresult_json canon_lr ls (fun x _ => loopresult_json_canon x)) as E.
  destruct ls as [|l0 ls]; [reflexivity|]. cbn [map] in *. now rewrite E.
Qed.

Lemma wf_bd_canon b : wf_bd b -> wf_bd (canon_bd b).
Proof.
  intros [Hn Hw]. split.
  - unfold canon_bd. rewrite map_map. exact Hn.
  - unfold canon_bd. rewrite Forall_map. eapply Forall_impl; [|exact Hw]. intros [k x] H. now apply wf_mb_canon.
Qed.

Lemma wf_fr_canon f : wf_fr f -> wf_fr (canon_fr f).
Proof.
  destruct f as [na inf st en vs fl ix co r c b]. unfold wf_fr, canon_fr. cbn. intros (Hr & Hc & Hb).
  split; [exact Hr|]. split; [exact Hc|].
  intros b' E. destruct b as [b|]; [|discriminate]. injection E as <-. apply wf_bd_canon, Hb. reflexivity.
Qed.

Lemma funcresult_json_canon f : wf_fr f -> funcresult_json (canon_fr f) = funcresult_json f.
Proof.
  destruct f as [na inf st en vs fl ix co r c [b|]]; unfold funcresult_json, canon_fr, wf_fr;
    cbn [fr_name fr_infinite fr_start fr_end fr_variables fr_inf_flows fr_index fr_func_code fr_relation
         fr_choices fr_bound option_map]; [|reflexivity].
  intros (_ & _ & Hb). destruct (Hb b eq_refl) as [Hn _]. now rewrite bound_json_canon.
Qed.

Lemma wf_rs_canon r : wf_rs r -> wf_rs (canon_rs r).
Proof.
  destruct r as [st en pg fs ls]. unfold wf_rs, canon_rs. cbn. intros (Hp & Hnf & Hwf & Hnl & Hwl).
  split; [exact Hp|]. split; [rewrite map_map; exact Hnf|]. split; [|split; [rewrite map_map; exact Hnl|]].
  - rewrite Forall_map. eapply Forall_impl; [|exact Hwf]. intros [k f] [H1 H2]. cbn in *.
    split; [destruct f; exact H1 | now apply wf_fr_canon].
  - rewrite Forall_map. eapply Forall_impl; [|exact Hwl]. intros [k f] [H1 H2]. cbn in *.
    split; [destruct f; exact H1 | now apply wf_fl_canon].
Qed.

Lemma result_json_canon r : wf_rs r -> result_json (canon_rs r) = result_json r.
Proof.
  destruct r as [st en pg fs ls]. unfold wf_rs, result_json, canon_rs.
  cbn [rs_start rs_end rs_program rs_relations rs_loops]. intros (_ & _ & Hwf & _ & _).
  pose proof (entries_canon funcloops_json canon_fl ls (fun x _ => funcloops_json_canon (snd x))) as EL.
  assert (EF : map (fun kv : string * FuncResult => (fst kv, funcresult_json (snd kv)))
                   (map (fun kv : string * FuncResult => (fst kv, canon_fr (snd kv))) fs)
               = map (fun kv : string * FuncResult => (fst kv, funcresult_json (snd kv))) fs).
  { apply entries_canon. intros x Hx. rewrite Forall_forall in Hwf. apply funcresult_json_canon, (Hwf x Hx). }
  destruct fs as [|f0 fs]; destruct ls as [|l0 ls]; cbn [map] in *; rewrite ?EL, ?EF; reflexivity.
Qed.

(* ------------------------------------------------------------------ reload = canonical form *)

Lemma reload_program p : reload (AProgram p) = Ok (AProgram p).
Proof. unfold reload, to_dict, from_dict, DEPTH. rewrite to_dict_program. apply from_dict_program. Qed.

Lemma reload_vresult v : wf_vr v -> reload (AVResult v) = Ok (AVResult (canon_vr v)).
Proof. intros H. unfold reload, to_dict, from_dict, DEPTH. rewrite to_dict_vresult. now apply from_dict_vresult. Qed.

Lemma reload_loopresult l : wf_lr l -> reload (ALoopResult l) = Ok (ALoopResult (canon_lr l)).
Proof.
  intros H. unfold reload, to_dict, from_dict, DEPTH. rewrite to_dict_loopresult by apply H.
  now apply from_dict_loopresult.
Qed.

Lemma reload_funcloops f : wf_fl f -> reload (AFuncLoops f) = Ok (AFuncLoops (canon_fl f)).
Proof.
  intros H. unfold reload, to_dict, from_dict, DEPTH. rewrite to_dict_funcloops by exact H.
  now apply from_dict_funcloops.
Qed.

Lemma reload_funcresult f : wf_fr f -> reload (AFuncResult f) = Ok (AFuncResult (canon_fr f)).
Proof.
  intros H. unfold reload, to_dict, from_dict, DEPTH. rewrite to_dict_funcresult. now apply from_dict_funcresult.
Qed.

Lemma reload_result r : wf_rs r -> reload (AResult r) = Ok (AResult (canon_rs r)).
Proof.
  intros H. unfold reload, to_dict, from_dict, DEPTH. rewrite to_dict_result by exact H.
  now apply from_dict_result.
Qed.

Lemma save_load_result r : wf_rs r -> save_load r = Ok (canon_rs r).
Proof.
  intros H. pose proof (reload_result r H) as E. unfold reload in E. unfold save_load, save_result, load_result.
  destruct (to_dict (AResult r)) as [j|e]; [|discriminate]. cbn [bind class_name] in *. now rewrite E.
Qed.

(* ------------------------------------------------------------------ (1) round trip *)

Definition roundtrips (o : anyobj) : Prop :=
  exists j o', to_dict o = Ok j /\ from_dict (class_name o) j = Ok o' /\ to_dict o' = Ok j.

Lemma roundtrip_program p : roundtrips (AProgram p).
Proof.
  exists (program_json p), (AProgram p). unfold to_dict, from_dict, DEPTH.
  split; [apply to_dict_program | split; [apply from_dict_program | apply to_dict_program]].
Qed.

Lemma roundtrip_vresult v : wf_vr v -> roundtrips (AVResult v).
Proof.
  intros H. exists (vresult_json v), (AVResult (canon_vr v)). unfold to_dict, from_dict, DEPTH.
  split; [apply to_dict_vresult | split; [now apply from_dict_vresult |]].
  rewrite to_dict_vresult. now rewrite vresult_json_canon.
Qed.

Lemma roundtrip_loopresult l : wf_lr l -> roundtrips (ALoopResult l).
Proof.
  intros H. exists (loopresult_json l), (ALoopResult (canon_lr l)). unfold to_dict, from_dict, DEPTH.
  split; [apply to_dict_loopresult, H | split; [now apply from_dict_loopresult |]].
  rewrite to_dict_loopresult by apply wf_lr_canon, H. now rewrite loopresult_json_canon.
Qed.

Lemma roundtrip_funcloops f : wf_fl f -> roundtrips (AFuncLoops f).
Proof.
  intros H. exists (funcloops_json f), (AFuncLoops (canon_fl f)). unfold to_dict, from_dict, DEPTH.
  split; [now apply to_dict_funcloops | split; [now apply from_dict_funcloops |]].
  rewrite to_dict_funcloops by now apply wf_fl_canon. now rewrite funcloops_json_canon.
Qed.

Lemma roundtrip_funcresult f : wf_fr f -> roundtrips (AFuncResult f).
Proof.
  intros H. exists (funcresult_json f), (AFuncResult (canon_fr f)). unfold to_dict, from_dict, DEPTH.
  split; [apply to_dict_funcresult | split; [now apply from_dict_funcresult |]].
  rewrite to_dict_funcresult. now rewrite funcresult_json_canon.
Qed.

Lemma roundtrip_result r : wf_rs r -> roundtrips (AResult r).
Proof.
  intros H. exists (result_json r), (AResult (canon_rs r)). unfold to_dict, from_dict, DEPTH.
  split; [now apply to_dict_result | split; [now apply from_dict_result |]].
  rewrite to_dict_result by now apply wf_rs_canon. now rewrite result_json_canon.
Qed.

(* the file-level statement: save -> load -> save writes the same JSON, and any number of further rounds *)
Lemma save_load_save r : wf_rs r ->
  exists j r', save_result r = Ok j /\ load_result j = Ok r' /\ save_result r' = Ok j /\ wf_rs r'.
Proof.
  intros H. exists (result_json r), (canon_rs r). unfold save_result, load_result, to_dict, from_dict, DEPTH.
  split; [now apply to_dict_result|]. split; [rewrite from_dict_result by exact H; reflexivity|].
  split; [|now apply wf_rs_canon].
  rewrite to_dict_result by now apply wf_rs_canon. now rewrite result_json_canon.
Qed.

(* ------------------------------------------------------------------ (2) scalar fields are kept *)

Definition same_scalars_fr (a b : FuncResult) : Prop :=
  fr_name b = fr_name a /\ fr_infinite b = fr_infinite a /\ fr_start b = fr_start a /\ fr_end b = fr_end a /\
  fr_variables b = fr_variables a /\ fr_inf_flows b = fr_inf_flows a /\ fr_index b = fr_index a /\
  fr_func_code b = fr_func_code a.

Lemma fields_kept_funcresult f : wf_fr f ->
  exists f', reload (AFuncResult f) = Ok (AFuncResult f') /\ same_scalars_fr f f'.
Proof.
  intros H. exists (canon_fr f). split; [now apply reload_funcresult|].
  destruct f. unfold same_scalars_fr, canon_fr. cbn. repeat split.
Qed.

Lemma fields_kept_vresult v : wf_vr v ->
  exists v', reload (AVResult v) = Ok (AVResult v') /\
             vr_name v' = vr_name v /\ vr_m v' = vr_m v /\ vr_w v' = vr_w v /\ vr_p v' = vr_p v.
Proof.
  intros H. exists (canon_vr v). split; [now apply reload_vresult|]. destruct v. cbn. repeat split.
Qed.

Lemma fields_kept_loopresult l : wf_lr l ->
  exists l', reload (ALoopResult l) = Ok (ALoopResult l') /\
             lr_code l' = lr_code l /\ lr_start l' = lr_start l /\ lr_end l' = lr_end l /\
             map fst (lr_variables l') = map fst (lr_variables l).
Proof.
  intros H. exists (canon_lr l). split; [now apply reload_loopresult|]. destruct l. cbn.
  repeat split. now rewrite map_map.
Qed.

Lemma fields_kept_funcloops f : wf_fl f ->
  exists f', reload (AFuncLoops f) = Ok (AFuncLoops f') /\
             fl_name f' = fl_name f /\ fl_start f' = fl_start f /\ fl_end f' = fl_end f /\
             length (fl_loops f') = length (fl_loops f).
Proof.
  intros H. exists (canon_fl f). split; [now apply reload_funcloops|]. destruct f. cbn.
  repeat split. now rewrite map_length.
Qed.

Lemma fields_kept_result r : wf_rs r ->
  exists r', save_load r = Ok r' /\
             rs_start r' = rs_start r /\ rs_end r' = rs_end r /\ rs_program r' = rs_program r /\
             map fst (rs_relations r') = map fst (rs_relations r) /\
             map fst (rs_loops r') = map fst (rs_loops r).
Proof.
  intros H. exists (canon_rs r). split; [now apply save_load_result|]. destruct r. cbn.
  repeat split; now rewrite map_map.
Qed.

(* every function result inside a saved and reloaded result: found under the same key *)
Lemma reloaded_function r k f : wf_rs r -> In (k, f) (rs_relations r) ->
  exists r', save_load r = Ok r' /\ In (k, canon_fr f) (rs_relations r') /\ wf_fr f.
Proof.
  intros H Hin. exists (canon_rs r). split; [now apply save_load_result|]. split.
  - destruct r. cbn in *. apply in_map_iff. exists (k, f). split; [reflexivity | exact Hin].
  - destruct H as (_ & _ & Hw & _). rewrite Forall_forall in Hw. apply (Hw _ Hin).
Qed.

(* a concrete instance with nothing but falsy scalars: index 0, infinite false, no variables, empty
   inf_flows and func_code, timestamps 0, n_lines 0; it is well formed and comes back unchanged *)
Definition falsy_fr : FuncResult :=
  mkFR (Some "f") false 0 0 [] (Some "") 0 (Some "") (Some (Rel [] [])) (Some (Choice.mkC [[]] 0)) (Some []).

Definition falsy_result : Result :=
  mkRS 0 0 (Some (mkProgram (Some "") 0 0 0 0 0)) [("f", falsy_fr)] [].

Lemma wf_falsy_fr : wf_fr falsy_fr.
Proof.
  unfold wf_fr, falsy_fr. cbn [fr_relation fr_choices fr_bound fr_variables].
  split; [|split]; intros x [= <-].
  - repeat split; constructor.
  - reflexivity.
  - split; constructor.
Qed.

Lemma wf_falsy_result : wf_rs falsy_result.
Proof.
  unfold wf_rs, falsy_result. cbn [rs_program rs_relations rs_loops map fst].
  split; [discriminate|]. split; [repeat constructor; intros []|].
  split; [constructor; [split; [reflexivity | exact wf_falsy_fr] | constructor]|].
  split; constructor.
Qed.

Lemma falsy_result_unchanged : save_load falsy_result = Ok falsy_result.
Proof. vm_compute. reflexivity. Qed.

(* ------------------------------------------------------------------ (3) the relation *)

Definition same_matrix (m' m : matrix) : Prop :=
  length m' = length m /\
  (forall i j, poly_eqb (mget m' i j) (mget m i j) = true) /\
  (forall c i j, val (mget m' i j) c = val (mget m i j) c).

Lemma same_matrix_refl m : same_matrix m m.
Proof. repeat split. intros; apply poly_eqb_refl. Qed.

Lemma relation_same f : wf_fr f ->
  exists f', reload (AFuncResult f) = Ok (AFuncResult f') /\
    match fr_relation f with
    | None => fr_relation f' = None
    | Some r => exists r', fr_relation f' = Some r' /\ rvars r' = rvars r /\ rvars r' = fr_variables f' /\
                           same_matrix (rmat r') (rmat r) /\ rel_comp r' r' = rel_comp r r
    end.
Proof.
  intros H. exists (canon_fr f). split; [now apply reload_funcresult|].
  destruct H as (Hr & _). destruct f as [na inf st en vs fl ix co [r|] c b]; cbn in *; [|reflexivity].
  exists r. split; [reflexivity|]. split; [reflexivity|]. split; [apply (Hr r eq_refl)|].
  split; [apply same_matrix_refl | reflexivity].
Qed.

(* without any assumption on the order of the deltas: decoding an encoded polynomial gives a
   polynomial with the same value at every choice (the Monomial constructor re-sorts) *)
Lemma mval_mk_mono_same m c : mval (mk_mono (sc m) (ds m)) c = mval m c.
Proof. rewrite mval_mk_mono. reflexivity. Qed.

Lemma val_map_mk_mono p c : val (map (fun m => mk_mono (sc m) (ds m)) p) c = val p c.
Proof.
  induction p as [|m p IH]; [reflexivity|]. cbn [map]. rewrite !val_cons, IH, mval_mk_mono_same. reflexivity.
Qed.

Lemma j_mono_json_any m : j_mono (mono_json m) = Ok (mk_mono (sc m) (ds m)).
Proof.
  unfold j_mono, mono_json, item. cbn [dget String.eqb Ascii.eqb Bool.eqb bind j_str j_list].
  rewrite j_deltas. cbn [bind]. now rewrite sc_of_str_str.
Qed.

Definition redecode (p : poly) : poly := mk_poly (map (fun m => mk_mono (sc m) (ds m)) p).

Lemma decode_encode_any m : decode (encode m) = Ok (map (map redecode) m).
Proof.
  unfold decode, encode, j_list.
  apply map_res_map. intros row _. apply map_res_map. intros p _.
  rewrite (map_res_map _ _ (fun m => mk_mono (sc m) (ds m))) by (intros; apply j_mono_json_any). reflexivity.
Qed.

Lemma val_redecode p c : val (redecode p) c = val p c.
Proof. unfold redecode. rewrite val_mk_poly. apply val_map_mk_mono. Qed.

(* ------------------------------------------------------------------ (4) choices and bounds *)

Lemma choices_same f : wf_fr f ->
  exists f', reload (AFuncResult f) = Ok (AFuncResult f') /\ fr_choices f' = fr_choices f.
Proof.
  intros H. exists (canon_fr f). split; [now apply reload_funcresult|]. now destruct f.
Qed.

Lemma choices_same_vresult v : wf_vr v ->
  exists v', reload (AVResult v) = Ok (AVResult v') /\ vr_choices v' = vr_choices v.
Proof.
  intros H. exists (canon_vr v). split; [now apply reload_vresult|]. now destruct v.
Qed.

(* what Choices(valid) makes of the index *)
Lemma choices_index_recomputed v0 vs :
  choices_init (v0 :: vs) = Choice.mkC (v0 :: vs) (Z.of_nat (length v0)).
Proof. reflexivity. Qed.

Lemma choices_is_valid_same f : wf_fr f ->
  exists f', reload (AFuncResult f) = Ok (AFuncResult f') /\
    match fr_choices f, fr_choices f' with
    | Some c, Some c' => Choice.valid c' = Choice.valid c /\ Choice.index c' = Choice.index c /\
                         forall v, Choice.is_valid c' v = Choice.is_valid c v
    | None, None => True
    | _, _ => False
    end.
Proof.
  intros H. exists (canon_fr f). split; [now apply reload_funcresult|].
  destruct f as [na inf st en vs fl ix co r [c|] b]; cbn; [repeat split | exact Logic.I].
Qed.

Lemma bound_eq f : wf_fr f ->
  exists f', reload (AFuncResult f) = Ok (AFuncResult f') /\
    match fr_bound f, fr_bound f' with
    | Some b, Some b' => bd_eqb b' b = true /\ bound_json b' = bound_json b
    | None, None => True
    | _, _ => False
    end.
Proof.
  intros H. exists (canon_fr f). split; [now apply reload_funcresult|].
  destruct H as (_ & _ & Hb). destruct f as [na inf st en vs fl ix co r c [b|]]; cbn in *; [|exact Logic.I].
  split; [apply bd_eqb_canon | apply bound_json_canon, (Hb b eq_refl)].
Qed.

Lemma bound_eq_vresult v : wf_vr v ->
  exists v', reload (AVResult v) = Ok (AVResult v') /\
    match vr_bound v, vr_bound v' with
    | Some b, Some b' => Bound.mb_eqb b' b = true /\ Bound.bound_str b' = Bound.bound_str b
    | None, None => True
    | _, _ => False
    end.
Proof.
  intros H. exists (canon_vr v). split; [now apply reload_vresult|].
  destruct v as [na m w p [b|] c]; cbn; [|exact Logic.I].
  split; [apply mb_eqb_lists | apply bound_str_canon].
Qed.

(* ------------------------------------------------------------------ regression: the truthiness variant *)

(* with `_try_set` / `FuncResult.from_dict` testing truthiness (the code before the repair), the
   all-falsy result above does NOT come back: index 0 becomes -1, '' becomes None, the empty
   relation and the empty bound are lost *)
Lemma truthy_variant_loses_fields :
  exists f', reload_truthy (AFuncResult falsy_fr) = Ok (AFuncResult f') /\
             fr_index falsy_fr = 0%Z /\ fr_index f' = (-1)%Z /\
             fr_inf_flows falsy_fr = Some "" /\ fr_inf_flows f' = None /\
             fr_relation falsy_fr = Some (Rel [] []) /\ fr_relation f' = None /\
             fr_bound falsy_fr = Some [] /\ fr_bound f' = None.
Proof. eexists. split; [vm_compute; reflexivity|]. repeat split. Qed.

Lemma truthy_variant_not_roundtrip :
  exists j o' j', to_dict (AFuncResult falsy_fr) = Ok j /\ from_dict_truthy "FuncResult" j = Ok o' /\
                  to_dict o' = Ok j' /\ j' <> j.
Proof. do 3 eexists. repeat split; try (vm_compute; reflexivity). vm_compute. discriminate. Qed.

(* a VResult whose choice object has no vector (never produced by the analyses) is outside the
   domain: it is saved as `[]` and VResult.from_dict (which still tests truthiness) drops it *)
Lemma vresult_empty_choices_dropped :
  let v := mkVR (Some "x") true true true None (Some (Choice.mkC [] 0)) in
  exists v', reload (AVResult v) = Ok (AVResult v') /\ vr_choices v' = None.
Proof. eexists. split; [vm_compute; reflexivity | reflexivity]. Qed.

(* ------------------------------------------------------------------ the hypotheses are satisfiable: a non-trivial instance *)

Definition ex_rel : rel :=
  Rel ["x"; "y"]
      [[[Mono M []; Mono I [(0, 0)]; Mono I [(1, 0); (2, 1)]]; [Mono O []]];
       [[Mono W [(2, 0)]]; [Mono M []]]].

Definition ex_fr : FuncResult :=
  mkFR (Some "f") false 17 42 ["x"; "y"] None 2 (Some "int f(int x, int y) { }")
       (Some ex_rel) (Some (Choice.mkC [[[0; 1]; [2]]; [[2]; [0; 1; 2]]] 2))
       (Some [(Bound.L "x", Bound.mb_of_lists [Bound.L "y"; Bound.L "x"] [] [Bound.L "y"]);
              (Bound.L "y", Bound.mb_of_lists [Bound.L "y"] [] [])]).

Definition ex_vr : VResult :=
  mkVR (Some "z") false true true (Some (Bound.mb_of_lists [Bound.L "z"] [Bound.L "y"; Bound.L "x"] []))
       (Some (Choice.mkC [[[2]]] 1)).

Definition ex_result : Result :=
  mkRS 1 2 (Some (mkProgram None (-1) 1 1 2 3)) [("f", ex_fr)]
       [("g", mkFL (Some "g") 3 4 [mkLR (Some "while (x > 0) { }") 5 6 [("z", ex_vr)]])].

Lemma wf_ex_fr : wf_fr ex_fr.
Proof.
  unfold wf_fr, ex_fr. cbn [fr_relation fr_choices fr_bound fr_variables].
  split; [|split]; intros x [= <-].
  - unfold wf_rel, ex_rel, wf_matrix, wf_poly, wf_mono. cbn [rvars rmat length].
    split; [reflexivity|]. split; [repeat constructor; discriminate|]. split; [reflexivity|].
    repeat constructor; try discriminate; cbn; lia.
  - reflexivity.
  - split; [repeat constructor; cbn; intuition discriminate|].
    repeat constructor; reflexivity.
Qed.

Lemma wf_ex_vr : wf_vr ex_vr.
Proof.
  unfold wf_vr, ex_vr, wf_flags. cbn [vr_m vr_w vr_p vr_choices vr_bound].
  split; [split; [discriminate | reflexivity]|]. split; intros x [= <-].
  - split; [discriminate | reflexivity].
  - repeat constructor; reflexivity.
Qed.

Lemma wf_ex_result : wf_rs ex_result.
Proof.
  unfold wf_rs, ex_result. cbn [rs_program rs_relations rs_loops map fst].
  split; [discriminate|]. split; [repeat constructor; intros []|].
  split; [constructor; [split; [reflexivity | exact wf_ex_fr] | constructor]|].
  split; [repeat constructor; intros []|].
  constructor; [|constructor]. split; [reflexivity|].
  unfold wf_fl. cbn [fl_loops]. constructor; [|constructor].
  unfold wf_lr. cbn [lr_variables map fst]. split; [repeat constructor; intros []|].
  constructor; [|constructor]. split; [reflexivity | exact wf_ex_vr].
Qed.

(* and the theorems are not vacuous on it: saving succeeds, and the reloaded result is the canonical
   form, which differs from the original (the names of a bound are listed in sorted order) *)
Definition res_is_ok {A} (r : res A) : bool := match r with Ok _ => true | Err _ => false end.

Lemma ex_result_roundtrip :
  res_is_ok (save_result ex_result) = true /\
  (r' <- save_load ex_result ;; save_result r') = save_result ex_result /\
  save_load ex_result = Ok (canon_rs ex_result) /\
  canon_rs ex_result <> ex_result.
Proof.
  split; [vm_compute; reflexivity|]. split; [vm_compute; reflexivity|]. split; [vm_compute; reflexivity|].
  vm_compute. discriminate.
Qed.
