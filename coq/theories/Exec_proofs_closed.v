(* C03: the transfer to the reported matrix with its premise discharged by the closed simulation
   theorem of property C01 (theories/An_closed.v). *)
From Coq Require Import String List Bool.
From PM Require Import Semiring Poly Rel Analysis Calculus Exec.
From PM Require An_stmts An_closed Exec_proofs2.
Import ListNotations.

Theorem reported_closed :
  forall f stop res r cs p st' v,
    An_stmts.func_ok f -> analyse f stop = ROk res -> fr_infinite res = false -> fr_rel res = Some r ->
    An_stmts.vec_ok (fr_index res) cs -> accepted (fr_inf_deltas res) cs = true ->
    exec_func p f = Some st' -> In v (func_vars f) ->
    shape_ok (fun u => tab_get (func_vars f) (apply_choice r (choice_of_list cs)) u v) (st' v).
Proof. exact (Exec_proofs2.reported_func An_closed.finite_result). Qed.

Print Assumptions reported_closed.
