(* Semantics of Relation sum and composition (Rel_sem.rel_sum_sem_stmt, rel_comp_sem_stmt,
   rel_comp_clean_stmt), relative to the homogenisation lemma (Rel_sem.homogenisation_sem_stmt,
   proved in Rel_hom.v): inside the section it is a hypothesis, outside a premise. *)
From Coq Require Import String List Bool Arith Lia.
From PM Require Import Semiring Poly Poly_sem Poly_add Poly_times Rel Analysis Calculus Rel_sem Poly_wf.
Import ListNotations.
Open Scope list_scope.

(* ---------------- generic list / matrix lemmas ---------------- *)

Lemma nth_map_seq {A} (g : nat -> A) n i d : i < n -> nth i (map g (seq 0 n)) d = g i.
Proof.
  intros H. rewrite (nth_indep _ d (g 0)) by (rewrite map_length, seq_length; exact H).
  rewrite (map_nth g (seq 0 n) 0 i). rewrite seq_nth by exact H. reflexivity.
Qed.

Lemma map_nth_seq {A} (V : list A) d : map (fun k => nth k V d) (seq 0 (length V)) = V.
Proof.
  induction V as [|a V IH]; simpl; [reflexivity|]. f_equal.
  rewrite <- seq_shift, map_map. exact IH.
Qed.

Lemma build_length n k f : length (build n k f) = n.
Proof. unfold build. rewrite map_length, seq_length. reflexivity. Qed.

Lemma build_rows n k f : Forall (fun row => length row = k) (build n k f).
Proof.
  unfold build. apply Forall_forall. intros row H. apply in_map_iff in H. destruct H as [i [<- _]].
  rewrite map_length, seq_length. reflexivity.
Qed.

Lemma mget_build n k f i j : i < n -> j < k -> mget (build n k f) i j = f i j.
Proof.
  intros Hi Hj. unfold mget, build.
  rewrite (nth_map_seq (fun i => map (fun j => f i j) (seq 0 k)) n i []) by exact Hi.
  apply (nth_map_seq (fun j => f i j)). exact Hj.
Qed.

Lemma build_forall (Q : poly -> Prop) n k f :
  (forall i j, i < n -> j < k -> Q (f i j)) -> Forall (fun row => Forall Q row) (build n k f).
Proof.
  intros H. unfold build. apply Forall_forall. intros row Hr. apply in_map_iff in Hr.
  destruct Hr as [i [<- Hi]]. apply in_seq in Hi. apply Forall_forall. intros p Hp.
  apply in_map_iff in Hp. destruct Hp as [j [<- Hj]]. apply in_seq in Hj. apply H; lia.
Qed.

Lemma mget_pwf m i j : Forall (fun row => Forall pwf row) m -> pwf (mget m i j).
Proof.
  intros H. unfold mget. destruct (nth_in_or_default i m []) as [Hi|Hi].
  - rewrite Forall_forall in H. specialize (H _ Hi).
    destruct (nth_in_or_default j (nth i m []) zero_poly) as [Hj | ->].
    + rewrite Forall_forall in H. apply H, Hj.
    + apply pwf_zero_poly.
  - rewrite Hi. destruct j; apply pwf_zero_poly.
Qed.

Lemma index_of_str_some x l : forall i, index_of_str x l = Some i -> i < length l /\ nth i l EmptyString = x.
Proof.
  induction l as [|h t IH]; intros i H; simpl in H; [discriminate|].
  destruct (String.eqb x h) eqn:E.
  - injection H as <-. apply String.eqb_eq in E. simpl. split; [lia | auto].
  - destruct (index_of_str x t) as [k|]; [|discriminate]. simpl in H. injection H as <-.
    destruct (IH k eq_refl). simpl. split; [lia | assumption].
Qed.

Lemma index_of_str_some_in x l i : index_of_str x l = Some i -> In x l.
Proof.
  intros H. destruct (index_of_str_some _ _ _ H) as [A B]. rewrite <- B. apply nth_In. exact A.
Qed.

Lemma index_of_str_in x l : In x l -> exists i, index_of_str x l = Some i.
Proof.
  induction l as [|h t IH]; intros H; [destruct H|]. simpl.
  destruct (String.eqb x h) eqn:E; [eexists; reflexivity|].
  destruct H as [->|H]; [rewrite String.eqb_refl in E; discriminate|].
  destruct (IH H) as [i ->]. eexists. reflexivity.
Qed.

Lemma index_of_str_nth l : NoDup l -> forall k, k < length l -> index_of_str (nth k l EmptyString) l = Some k.
Proof.
  induction l as [|a l IH]; intros Hn k Hk; simpl in *; [lia|].
  inversion Hn as [|? ? Hnot Hn']; subst. destruct k as [|k].
  - rewrite String.eqb_refl. reflexivity.
  - destruct (String.eqb (nth k l EmptyString) a) eqn:E.
    + apply String.eqb_eq in E. exfalso. apply Hnot. rewrite <- E. apply nth_In. lia.
    + rewrite IH by (assumption || lia). reflexivity.
Qed.

Lemma filter_nonempty_id V : Forall (fun v => v <> EmptyString) V -> filter nonempty_str V = V.
Proof.
  induction 1 as [|x l Hx Hl IH]; simpl; [reflexivity|].
  unfold nonempty_str at 1. destruct (String.eqb x "") eqn:E.
  - apply String.eqb_eq in E. contradiction.
  - simpl. f_equal. exact IH.
Qed.

Lemma mk_rel_build V k f : Forall (fun v => v <> EmptyString) V ->
  mk_rel V (build (length V) k f) = Rel V (build (length V) k f).
Proof.
  intros H. unfold mk_rel. rewrite (filter_nonempty_id _ H). destruct V; reflexivity.
Qed.

Lemma cell_build V f x y :
  cell (Rel V (build (length V) (length V) f)) x y =
  match index_of_str x V, index_of_str y V with
  | Some i, Some j => f i j
  | _, _ => if String.eqb x y then unit_poly else zero_poly
  end.
Proof.
  unfold cell. simpl. destruct (index_of_str x V) eqn:Ex; [|reflexivity].
  destruct (index_of_str y V) eqn:Ey; [|reflexivity].
  apply mget_build; [exact (proj1 (index_of_str_some _ _ _ Ex)) | exact (proj1 (index_of_str_some _ _ _ Ey))].
Qed.

(* ---------------- folds of polynomial sums ---------------- *)

Lemma fold_left_padd_val (g : nat -> poly) l : forall acc c,
  val (fold_left (fun total k => padd total (g k)) l acc) c =
  ssum (val acc c) (fold_right (fun k s => ssum (val (g k) c) s) O l).
Proof.
  induction l as [|k l IH]; intros acc c; simpl.
  - rewrite ssum_O_r. reflexivity.
  - rewrite IH, padd_val, ssum_assoc. reflexivity.
Qed.

Lemma fold_left_padd_pwf (g : nat -> poly) l : (forall k, Forall mwf (g k)) ->
  forall acc, pwf acc -> pwf (fold_left (fun total k => padd total (g k)) l acc).
Proof.
  intros Hg. induction l as [|k l IH]; intros acc Ha; simpl; [exact Ha|].
  apply IH. apply padd_pwf_r, Hg.
Qed.

(* every entry of a matrix product is well-formed, whatever the operands *)
Lemma prod_entry_pwf m1 m2 i j : pwf (prod_entry m1 m2 i j).
Proof.
  unfold prod_entry. apply (fold_left_padd_pwf (fun k => ptimes (mget m1 i k) (mget m2 k j))).
  - intros k. exact (proj2 (ptimes_pwf _ _)).
  - apply pwf_zero_poly.
Qed.

Lemma prod_entry_val m1 m2 i j c :
  val (prod_entry m1 m2 i j) c =
  fold_right (fun k s => ssum (val (ptimes (mget m1 i k) (mget m2 k j)) c) s) O (seq 0 (length m1)).
Proof.
  unfold prod_entry.
  rewrite (fold_left_padd_val (fun k => ptimes (mget m1 i k) (mget m2 k j))).
  rewrite val_zero_poly, ssum_O_l. reflexivity.
Qed.

Lemma fold_right_ext_in {A} (F G : A -> Sc) l : (forall k, In k l -> F k = G k) ->
  fold_right (fun k s => ssum (F k) s) O l = fold_right (fun k s => ssum (G k) s) O l.
Proof.
  induction l as [|a l IH]; intros H; simpl; [reflexivity|].
  rewrite (H a (or_introl eq_refl)), IH; [reflexivity|]. intros k Hk. apply H. right. exact Hk.
Qed.

Lemma fold_right_seq_nth {A} (H : A -> Sc) V d :
  fold_right (fun k s => ssum (H (nth k V d)) s) O (seq 0 (length V)) =
  fold_right (fun v s => ssum (H v) s) O V.
Proof.
  transitivity (fold_right (fun v s => ssum (H v) s) O (map (fun k => nth k V d) (seq 0 (length V)))).
  - generalize (seq 0 (length V)). intros l. induction l as [|k l IH]; simpl; [reflexivity|].
    rewrite IH. reflexivity.
  - rewrite map_nth_seq. reflexivity.
Qed.

(* the polynomial product is the scalar product wherever neither value is infinite *)
Lemma pprod_val_clean p q c : val p c <> I -> val q c <> I ->
  pprod_val p q c = sprod (val p c) (val q c).
Proof.
  intros Hp Hq. unfold pprod_val. destruct (terms p c) eqn:Ep.
  - rewrite (val_terms_nil _ _ Ep). destruct (val q c); try reflexivity. congruence.
  - destruct (terms q c) eqn:Eq; [|reflexivity].
    rewrite (val_terms_nil _ _ Eq). destruct (val p c); try reflexivity. congruence.
Qed.

(* cleanliness extends to the identity extension outside the relation's variables *)
Lemma clean_ne_I a c : clean a c -> forall x y, rval a c x y <> I.
Proof.
  intros Hc x y. destruct (index_of_str x (rvars a)) eqn:Ex.
  - destruct (index_of_str y (rvars a)) eqn:Ey.
    + apply Hc; eapply index_of_str_some_in; eassumption.
    + unfold rval, cell. rewrite Ex, Ey. destruct (String.eqb x y); intros H; cbv in H; discriminate H.
  - unfold rval, cell. rewrite Ex. destruct (String.eqb x y); intros H; cbv in H; discriminate H.
Qed.

(* ---------------- the three theorems, relative to homogenisation ---------------- *)

Section WithHomogenisation.

Hypothesis HOM : homogenisation_sem_stmt.

Lemma hom_unpack a b e1 e2 : wf_rel a -> wf_rel b -> homogenisation a b = (e1, e2) ->
  wf_rel e1 /\ wf_rel e2 /\ rvars e1 = rvars e2 /\
  (forall v, In v (rvars e1) <-> In v (rvars a) \/ In v (rvars b)) /\
  (forall x y, cell e1 x y = cell a x y) /\ (forall x y, cell e2 x y = cell b x y) /\
  (rel_pwf a -> rel_pwf b -> rel_pwf e1 /\ rel_pwf e2).
Proof. intros Ha Hb E. pose proof (HOM a b Ha Hb) as H. rewrite E in H. exact H. Qed.

Theorem rel_sum_sem : rel_sum_sem_stmt.
Proof.
  intros a b Ha Hb. unfold rel_sum. destruct (homogenisation a b) as [e1 e2] eqn:E.
  destruct (hom_unpack a b e1 e2 Ha Hb E) as (W1 & W2 & EV & INV & C1 & C2 & PW).
  destruct W1 as (ND & NE & L1 & R1). destruct W2 as (_ & _ & L2 & R2).
  unfold matrix_sum. rewrite L1. rewrite mk_rel_build by exact NE.
  split; [|split; [|split]].
  - unfold wf_rel. simpl. repeat split; [exact ND | exact NE | apply build_length | apply build_rows].
  - simpl. exact INV.
  - intros x y c. unfold rval. rewrite cell_build. rewrite <- C1, <- C2. unfold cell. rewrite <- EV.
    destruct (index_of_str x (rvars e1)); [destruct (index_of_str y (rvars e1))|];
      try (rewrite padd_val; reflexivity); destruct (String.eqb x y); reflexivity.
  - intros Pa Pb. destruct (PW Pa Pb) as [P1 P2]. unfold rel_pwf. simpl. apply build_forall.
    intros i j _ _. apply padd_pwf_r. exact (proj2 (mget_pwf _ _ _ P2)).
Qed.

Theorem rel_comp_sem : rel_comp_sem_stmt.
Proof.
  intros a b Ha Hb Pa Pb. unfold rel_comp. destruct (homogenisation a b) as [e1 e2] eqn:E.
  destruct (hom_unpack a b e1 e2 Ha Hb E) as (W1 & W2 & EV & INV & C1 & C2 & PW).
  destruct (PW Pa Pb) as [P1 P2].
  destruct W1 as (ND & NE & L1 & R1). destruct W2 as (_ & _ & L2 & R2).
  unfold matrix_prod. rewrite L1, L2, <- EV. rewrite mk_rel_build by exact NE.
  split; [|split; [|split]].
  - unfold wf_rel. simpl. repeat split; [exact ND | exact NE | apply build_length | apply build_rows].
  - unfold rel_pwf. simpl. apply build_forall. intros i j _ _. apply prod_entry_pwf.
  - simpl. exact INV.
  - simpl. intros x y c Hx Hy. unfold rval at 1. rewrite cell_build.
    destruct (index_of_str_in _ _ Hx) as [i Ei]. destruct (index_of_str_in _ _ Hy) as [j Ej].
    rewrite Ei, Ej, prod_entry_val, L1.
    rewrite <- (fold_right_seq_nth (fun v => pprod_val (cell a x v) (cell b v y) c) (rvars e1) EmptyString).
    apply (fold_right_ext_in
             (fun k => val (ptimes (mget (rmat e1) i k) (mget (rmat e2) k j)) c)
             (fun k => pprod_val (cell a x (nth k (rvars e1) EmptyString))
                                 (cell b (nth k (rvars e1) EmptyString) y) c)).
    intros k Hk. apply in_seq in Hk.
    rewrite ptimes_val by (apply pwf_msat, mget_pwf, P1).
    rewrite <- C1, <- C2. unfold cell. rewrite <- EV.
    rewrite Ei, Ej, (index_of_str_nth (rvars e1) ND k) by lia. reflexivity.
Qed.

Theorem rel_comp_clean : rel_comp_clean_stmt.
Proof.
  intros a b c Ha Hb Pa Pb Ca Cb x y Hx Hy.
  destruct (rel_comp_sem a b Ha Hb Pa Pb) as (_ & _ & _ & F). rewrite (F x y c Hx Hy). unfold smul.
  apply (fold_right_ext_in
           (fun k => pprod_val (cell a x k) (cell b k y) c)
           (fun k => sprod (rval a c x k) (rval b c k y))).
  intros k _. apply pprod_val_clean; [apply (clean_ne_I a c Ca) | apply (clean_ne_I b c Cb)].
Qed.

(* well-formedness of the results needs nothing about the operands' polynomials for composition, and
   only the right operand's for the sum -- recorded for the users of these lemmas *)
Lemma rel_comp_pwf a b : wf_rel a -> wf_rel b -> rel_pwf (rel_comp a b).
Proof.
  intros Ha Hb. unfold rel_comp. destruct (homogenisation a b) as [e1 e2] eqn:E.
  destruct (hom_unpack a b e1 e2 Ha Hb E) as (W1 & W2 & EV & _).
  destruct W1 as (ND & NE & L1 & R1). destruct W2 as (_ & _ & L2 & R2).
  unfold matrix_prod. rewrite L1, L2, <- EV. rewrite mk_rel_build by exact NE.
  unfold rel_pwf. simpl. apply build_forall. intros i j _ _. apply prod_entry_pwf.
Qed.

End WithHomogenisation.

Check rel_sum_sem : homogenisation_sem_stmt -> rel_sum_sem_stmt.
Check rel_comp_sem : homogenisation_sem_stmt -> rel_comp_sem_stmt.
Check rel_comp_clean : homogenisation_sem_stmt -> rel_comp_clean_stmt.

Print Assumptions rel_sum_sem.
Print Assumptions rel_comp_sem.
Print Assumptions rel_comp_clean.
Print Assumptions rel_comp_pwf.
