(* The analysis model simulates the calculus: all premises discharged. *)
From Coq Require Import String List Bool.
From PM Require Import Semiring Poly Rel Analysis Calculus Rel_sem Sem_stmts An_stmts.
From PM Require An_seq An_close An_main An_func.

Theorem main_sim : main_sim_stmt.
Proof.
  exact (An_main.main_sim An_seq.seq_compound_sim An_seq.seq_branch_sim
                          An_close.close_while_sim An_close.close_for_sim).
Qed.

Definition derive_finite : derive_finite_stmt := An_main.derive_finite.
Definition compute_vars : compute_vars_stmt := An_main.compute_vars.

Theorem verdict_sound : verdict_sound_stmt.
Proof. exact (An_func.verdict_sound main_sim derive_finite). Qed.

Theorem verdict_complete : verdict_complete_stmt.
Proof. exact (An_func.verdict_complete main_sim derive_finite). Qed.

Theorem verdict_complete_all : An_func.verdict_complete_all_stmt.
Proof. exact (An_func.verdict_complete_all main_sim derive_finite). Qed.

Theorem finite_result : finite_result_stmt.
Proof. exact (An_func.finite_result main_sim derive_finite). Qed.

Definition modes_agree : modes_agree_stmt := An_func.modes_agree.
Definition result_fields : result_fields_stmt := An_func.result_fields.
