(* Lemmas about LoopAn.v: flag state machine, the exclusion ladder, acceptance of a vector against the
   column of the simple matrix. *)
From Coq Require Import String List Bool Arith Lia.
From PM Require Import Semiring Poly Rel Analysis LoopAn.
From PM Require DeltaGraph Bound.
From PMGen Require Import RulesGen SemiringGen.
Import ListNotations.
Open Scope list_scope.

(* ------------------------------------------------------------------ flags *)

Definition nested (f : vflags) : Prop :=
  (f_m f = true -> f_w f = true) /\ (f_w f = true -> f_p f = true).

Lemma set_attr_nested f a b : nested f -> nested (set_attr f a b).
Proof.
  destruct f as [m w p]. unfold nested. cbn [f_m f_w f_p]. intros [H1 H2].
  destruct a, b; cbn; split; intros; auto; try discriminate.
Qed.

Lemma nested_all_false : nested (VF false false false).
Proof. split; cbn; intros; discriminate. Qed.

Lemma flags_init_nested a b c : nested (flags_init a b c).
Proof.
  unfold flags_init.
  change (nested (set_attr (set_attr (set_attr (VF false false false) IS_M a) IS_W b) IS_P c)).
  repeat apply set_attr_nested. apply nested_all_false.
Qed.

Lemma run_setters_nested l : forall f, nested f -> nested (run_setters f l).
Proof.
  unfold run_setters. induction l as [|[a b] t IH]; intros f Hf; cbn [fold_left]; [exact Hf|].
  apply IH. apply set_attr_nested. exact Hf.
Qed.

Lemma flags_nested a b c l : nested (run_setters (flags_init a b c) l).
Proof. apply run_setters_nested, flags_init_nested. Qed.

Lemma flags_of_level_nested k : nested (flags_of_level k).
Proof. destruct k as [|[|k]]; split; cbn; intros; auto; discriminate. Qed.

Lemma set_attr_new a : set_attr flags_new a true = flags_of_level (level_of a).
Proof. destruct a; reflexivity. Qed.

Lemma flags_of_level_p k : f_p (flags_of_level k) = true.
Proof. destruct k as [|[|k]]; reflexivity. Qed.

(* ------------------------------------------------------------------ generic *)

Lemma rbind_ok {A B} (x : res A) (f : A -> res B) y :
  rbind x f = ROk y -> exists a, x = ROk a /\ f a = ROk y.
Proof. destruct x as [a|e]; cbn; [eauto|discriminate]. Qed.

Lemma map_res_ok {A B} (f : A -> res B) l : forall ys,
  map_res f l = ROk ys -> Forall2 (fun x y => f x = ROk y) l ys.
Proof.
  induction l as [|x t IH]; intros ys H; cbn [map_res] in H.
  - injection H as <-. constructor.
  - apply rbind_ok in H. destruct H as [y [Hy H]].
    apply rbind_ok in H. destruct H as [ys' [Hys H]]. injection H as <-.
    constructor; [exact Hy|apply IH; exact Hys].
Qed.

Lemma map_res_total {A B} (f : A -> res B) (g : A -> B) l :
  (forall x, In x l -> f x = ROk (g x)) -> map_res f l = ROk (map g l).
Proof.
  induction l as [|x t IH]; intros H; cbn [map_res map]; [reflexivity|].
  rewrite (H x (or_introl eq_refl)). cbn [rbind]. rewrite IH; [reflexivity|].
  intros y Hy. apply H. right. exact Hy.
Qed.

Lemma Forall2_map_fst {B} (l : list string) (ys : list (string * B)) (P : string -> B -> Prop) :
  Forall2 (fun x y => exists b, y = (x, b) /\ P x b) l ys ->
  map fst ys = l /\ forall v b, In (v, b) ys -> In v l /\ P v b.
Proof.
  induction 1 as [|x y l ys [b [-> Hb]] _ [IH1 IH2]]; cbn [map fst].
  - split; [reflexivity|intros ? ? []].
  - split; [f_equal; exact IH1|]. intros v b' [E|Hin].
    + injection E as <- <-. split; [left; reflexivity|exact Hb].
    + destruct (IH2 _ _ Hin). split; [right|]; assumption.
Qed.

Lemma index_of_str_lt x l : forall i, index_of_str x l = Some i -> i < length l.
Proof.
  induction l as [|h t IH]; intros i H; cbn [index_of_str] in H; [discriminate|].
  destruct (String.eqb x h).
  - injection H as <-. cbn. lia.
  - destruct (index_of_str x t) as [j|]; cbn in H; [|discriminate]. injection H as <-.
    cbn. specialize (IH j eq_refl). lia.
Qed.

Lemma index_of_str_nth x l : forall i, index_of_str x l = Some i -> nth i l EmptyString = x.
Proof.
  induction l as [|h t IH]; intros i H; cbn [index_of_str] in H; [discriminate|].
  destruct (String.eqb x h) eqn:E.
  - injection H as <-. apply String.eqb_eq in E. cbn. congruence.
  - destruct (index_of_str x t) as [j|]; cbn in H; [|discriminate]. injection H as <-.
    cbn. apply IH. reflexivity.
Qed.

Lemma index_of_str_In x l : In x l -> exists i, index_of_str x l = Some i.
Proof.
  induction l as [|h t IH]; intros H; [destruct H|]. cbn [index_of_str].
  destruct (String.eqb x h) eqn:E; [eauto|].
  destruct H as [->|H]; [rewrite String.eqb_refl in E; discriminate|].
  destruct (IH H) as [i ->]. cbn. eauto.
Qed.

Lemma nth_map_seq {A} (f : nat -> A) n i d : i < n -> nth i (map f (seq 0 n)) d = f i.
Proof.
  intros H. rewrite (nth_indep _ d (f 0)) by (rewrite map_length, seq_length; exact H).
  rewrite (map_nth f (seq 0 n) 0 i). rewrite seq_nth by exact H. reflexivity.
Qed.

(* ------------------------------------------------------------------ vectors *)

Lemma vectors_In dom : forall n cs,
  In cs (vectors dom n) <-> length cs = n /\ Forall (fun v => In v dom) cs.
Proof.
  induction n as [|k IH]; intros cs; cbn [vectors].
  - split.
    + intros [<-|[]]. split; [reflexivity|constructor].
    + intros [H _]. destruct cs; [left; reflexivity|discriminate].
  - rewrite in_flat_map. split.
    + intros [v [Hv Hc]]. apply in_map_iff in Hc. destruct Hc as [x [<- Hx]].
      apply IH in Hv. destruct Hv as [Hl Hf]. split.
      * rewrite app_length. cbn [length]. lia.
      * apply Forall_app. split; [exact Hf|]. constructor; [exact Hx|constructor].
    + intros [Hl Hf]. assert (Hne : cs <> []) by (intros ->; discriminate).
      destruct (exists_last Hne) as [v [x ->]].
      rewrite app_length in Hl. cbn [length] in Hl. apply Forall_app in Hf. destruct Hf as [Hf1 Hf2].
      exists v. split; [apply IH; split; [lia|exact Hf1]|].
      apply in_map_iff. exists x. split; [reflexivity|]. inversion Hf2; assumption.
Qed.

Lemma in_domain_vectors index c : in_domain index c = true <-> In c (vectors DOMAIN index).
Proof.
  unfold in_domain. rewrite vectors_In, andb_true_iff, Nat.eqb_eq, forallb_forall, Forall_forall.
  split; intros [H1 H2]; (split; [exact H1|]); intros x Hx; specialize (H2 x Hx).
  - apply existsb_exists in H2. destruct H2 as [y [Hy E]]. apply Nat.eqb_eq in E. subst. exact Hy.
  - apply existsb_exists. exists x. split; [exact H2|apply Nat.eqb_refl].
Qed.

Lemma no_valid_choice_true dom n seqs :
  no_valid_choice dom n seqs = true <-> forall c, In c (vectors dom n) -> accepted seqs c = false.
Proof.
  unfold no_valid_choice. rewrite negb_true_iff. split.
  - intros H c Hc. destruct (accepted seqs c) eqn:E; [|reflexivity].
    assert (existsb (accepted seqs) (vectors dom n) = true) by (apply existsb_exists; eauto). congruence.
  - intros H. destruct (existsb (accepted seqs) (vectors dom n)) eqn:E; [|reflexivity].
    apply existsb_exists in E. destruct E as [c [Hc Ha]]. rewrite (H c Hc) in Ha. discriminate.
Qed.

Lemma choices_infinite_true index seqs :
  choices_infinite index seqs = true <->
  0 < index /\ forall c, In c (vectors DOMAIN index) -> accepted seqs c = false.
Proof.
  unfold choices_infinite. rewrite andb_true_iff, no_valid_choice_true, Nat.ltb_lt. tauto.
Qed.

Lemma choices_infinite_false_accepted index seqs c :
  In c (vectors DOMAIN index) -> accepted seqs c = true -> choices_infinite index seqs = false.
Proof.
  intros Hc Ha. destruct (choices_infinite index seqs) eqn:E; [|reflexivity].
  apply choices_infinite_true in E. destruct E as [_ E]. rewrite (E c Hc) in Ha. discriminate.
Qed.

(* more delta lists, fewer accepted vectors *)
Lemma accepted_incl s1 s2 c : incl s1 s2 -> accepted s2 c = true -> accepted s1 c = true.
Proof.
  unfold accepted. rewrite !negb_true_iff. intros Hi H.
  destruct (existsb (fun s => mmatch (choice_of_list c) s) s1) eqn:E; [|reflexivity].
  apply existsb_exists in E. destruct E as [s [Hs Hm]].
  assert (existsb (fun s => mmatch (choice_of_list c) s) s2 = true) by (apply existsb_exists; eauto). congruence.
Qed.

Lemma choices_infinite_incl index s1 s2 :
  incl s1 s2 -> choices_infinite index s1 = true -> choices_infinite index s2 = true.
Proof.
  intros Hi H. apply choices_infinite_true in H. destruct H as [H0 H]. apply choices_infinite_true. split; [exact H0|].
  intros c Hc. destruct (accepted s2 c) eqn:E; [|reflexivity].
  specialize (H c Hc). rewrite (accepted_incl _ _ _ Hi E) in H. discriminate.
Qed.

(* ------------------------------------------------------------------ column vs accepted *)

Lemma bad_at_spec k s : k <= 2 -> existsb (sc_eqb s) (excluded k ++ [I]) = bad_at k s.
Proof. intros H. destruct k as [|[|[|k]]]; [| | |lia]; destruct s; reflexivity. Qed.

Lemma bad_at_ssum k a b : bad_at k (ssum a b) = bad_at k a || bad_at k b.
Proof. destruct k as [|[|k]]; destruct a, b; reflexivity. Qed.

Lemma bad_at_O k : bad_at k O = false.
Proof. destruct k as [|[|k]]; reflexivity. Qed.

Lemma bad_at_ssum_list k l : bad_at k (ssum_list l) = existsb (bad_at k) l.
Proof.
  induction l as [|a t IH]; cbn [ssum_list fold_right existsb]; [apply bad_at_O|].
  change (fold_right ssum O t) with (ssum_list t). rewrite bad_at_ssum, IH. reflexivity.
Qed.

(* a lower level excludes more *)
Lemma bad_at_mono j k s : j <= k -> bad_at k s = true -> bad_at j s = true.
Proof.
  intros H. destruct j as [|[|j]], k as [|[|k]], s; cbn; intros; try reflexivity; try discriminate; try lia.
Qed.

(* the cell of the simple matrix *)
Lemma cell_simple r c i j : i < length (rvars r) -> j < length (rvars r) ->
  cell (simple_matrix r c) i j = ssum_list (terms (mget (rmat r) i j) (choice_of_list c)).
Proof.
  intros Hi Hj. unfold cell, simple_matrix, apply_choice.
  rewrite nth_map_seq by exact Hi. rewrite nth_map_seq by exact Hj.
  unfold pchoice. destruct (terms (mget (rmat r) i j) (choice_of_list c)) eqn:E; reflexivity.
Qed.

Lemma peval_matches k p c : k <= 2 ->
  existsb (fun s => mmatch c s) (peval p (excluded k)) = existsb (bad_at k) (terms p c).
Proof.
  intros Hk. unfold peval, terms. induction p as [|m t IH]; [reflexivity|].
  cbn [filter]. rewrite (bad_at_spec k (sc m) Hk).
  destruct (bad_at k (sc m)) eqn:Eb; destruct (mmatch c (ds m)) eqn:Em; cbn [map existsb filter]; rewrite ?Eb, ?Em, IH; reflexivity.
Qed.

Lemma existsb_flat_map {A B} (f : B -> bool) (g : A -> list B) l :
  existsb f (flat_map g l) = existsb (fun x => existsb f (g x)) l.
Proof. induction l as [|x t IH]; cbn [flat_map existsb]; [reflexivity|]. rewrite existsb_app, IH. reflexivity. Qed.

Lemma existsb_map {A B} (f : B -> bool) (g : A -> B) l : existsb f (map g l) = existsb (fun x => f (g x)) l.
Proof. induction l as [|x t IH]; cbn [map existsb]; [reflexivity|]. rewrite IH. reflexivity. Qed.

Lemma existsb_ext_in {A} (f g : A -> bool) l : (forall x, In x l -> f x = g x) -> existsb f l = existsb g l.
Proof.
  induction l as [|x t IH]; intros H; cbn [existsb]; [reflexivity|].
  rewrite (H x (or_introl eq_refl)), IH; [reflexivity|]. intros y Hy. apply H. right. exact Hy.
Qed.

Lemma existsb_nth_seq {A} (f : A -> bool) (d : A) (l : list A) :
  existsb f l = existsb (fun i => f (nth i l d)) (seq 0 (length l)).
Proof.
  induction l as [|x t IH]; [reflexivity|]. cbn [length seq existsb nth]. f_equal.
  rewrite IH, <- seq_shift, existsb_map. reflexivity.
Qed.

(* THE link: a vector is accepted for the delta lists of a level iff the column it selects contains no
   coefficient excluded at that level *)
Lemma accepted_column r col k c :
  k <= 2 -> length (rmat r) = length (rvars r) -> col < length (rvars r) ->
  accepted (level_seqs r col k) c = negb (existsb (bad_at k) (column r c col)).
Proof.
  intros Hk Hlen Hcol. unfold accepted, level_seqs, col_infinity_deltas, column. f_equal.
  rewrite existsb_flat_map, existsb_map.
  rewrite (existsb_nth_seq _ [] (rmat r)), Hlen.
  apply existsb_ext_in. intros i Hi. apply in_seq in Hi.
  rewrite peval_matches by exact Hk.
  rewrite cell_simple by lia. rewrite bad_at_ssum_list. reflexivity.
Qed.

Lemma column_length r c col : length (column r c col) = length (rvars r).
Proof. unfold column. rewrite map_length, seq_length. reflexivity. Qed.

(* ------------------------------------------------------------------ the ladder *)

Lemma var_eval_ok r v scalars seqs :
  var_eval r v scalars = ROk seqs ->
  exists col, index_of_str v (rvars r) = Some col /\ seqs = col_infinity_deltas r col scalars.
Proof.
  unfold var_eval. destruct (index_of_str v (rvars r)) as [col|]; [|discriminate].
  intros H. injection H as <-. eauto.
Qed.

(* what the for/break loop of get_result returns *)
Lemma ladder_spec r index v a seqs :
  ladder r index v LADDER = ROk (Some (a, seqs)) ->
  exists col, index_of_str v (rvars r) = Some col /\
    seqs = level_seqs r col (level_of a) /\ level_of a <= 2 /\
    choices_infinite index seqs = false /\
    forall j, j < level_of a -> choices_infinite index (level_seqs r col j) = true.
Proof.
  unfold LADDER, ladder, var_eval.
  destruct (index_of_str v (rvars r)) as [col|]; cbn [rbind]; [|discriminate].
  change (col_infinity_deltas r col [W; P]) with (level_seqs r col 0).
  change (col_infinity_deltas r col [P]) with (level_seqs r col 1).
  change (col_infinity_deltas r col []) with (level_seqs r col 2).
  intros H. exists col. split; [reflexivity|].
  destruct (choices_infinite index (level_seqs r col 0)) eqn:E0.
  - destruct (choices_infinite index (level_seqs r col 1)) eqn:E1.
    + destruct (choices_infinite index (level_seqs r col 2)) eqn:E2; [discriminate|].
      injection H as <- <-. cbn [level_of]. repeat split; auto.
      intros j Hj. destruct j as [|[|j]]; [assumption|assumption|lia].
    + injection H as <- <-. cbn [level_of]. repeat split; auto.
      intros j Hj. destruct j as [|j]; [assumption|lia].
  - injection H as <- <-. cbn [level_of]. repeat split; auto. intros j Hj. lia.
Qed.

Lemma ladder_none r index v :
  ladder r index v LADDER = ROk None <->
  exists col, index_of_str v (rvars r) = Some col /\
    forall j, j <= 2 -> choices_infinite index (level_seqs r col j) = true.
Proof.
  unfold LADDER, ladder, var_eval.
  destruct (index_of_str v (rvars r)) as [col|]; cbn [rbind].
  - change (col_infinity_deltas r col [W; P]) with (level_seqs r col 0).
    change (col_infinity_deltas r col [P]) with (level_seqs r col 1).
    change (col_infinity_deltas r col []) with (level_seqs r col 2).
    split.
    + intros H. exists col. split; [reflexivity|].
      destruct (choices_infinite index (level_seqs r col 0)) eqn:E0; [|discriminate].
      destruct (choices_infinite index (level_seqs r col 1)) eqn:E1; [|discriminate].
      destruct (choices_infinite index (level_seqs r col 2)) eqn:E2; [|discriminate].
      intros j Hj. destruct j as [|[|[|j]]]; [assumption|assumption|assumption|lia].
    + intros [col' [E H]]. injection E as <-.
      rewrite (H 0), (H 1), (H 2) by lia. reflexivity.
  - split; [discriminate|]. intros [col [E _]]. discriminate.
Qed.

(* the delta lists grow when the level decreases *)
Lemma level_seqs_incl r col j k : j <= k -> k <= 2 -> incl (level_seqs r col k) (level_seqs r col j).
Proof.
  intros Hjk Hk. unfold level_seqs, col_infinity_deltas. intros s Hs.
  apply in_flat_map in Hs. destruct Hs as [row [Hrow Hs]]. apply in_flat_map. exists row. split; [exact Hrow|].
  unfold peval in *. apply in_map_iff in Hs. destruct Hs as [m [<- Hm]]. apply in_map_iff. exists m. split; [reflexivity|].
  apply filter_In in Hm. destruct Hm as [Hin Hb]. apply filter_In. split; [exact Hin|].
  rewrite bad_at_spec in * by lia. eapply bad_at_mono; eauto.
Qed.

(* ------------------------------------------------------------------ get_result *)

Lemma get_result_ok r index v c vr :
  get_result r index v c = ROk vr ->
  exists col k mb,
    index_of_str v (rvars r) = Some col /\ k <= 2 /\
    vr = VR v (flags_of_level k) (Some mb) (Some (level_seqs r col k)) /\
    bound_of (rvars r) (simple_matrix r c) v = Some mb /\
    first_ok index (level_seqs r col k) c = true /\
    choices_infinite index (level_seqs r col k) = false /\
    forall j, j < k -> choices_infinite index (level_seqs r col j) = true.
Proof.
  unfold get_result. intros H. apply rbind_ok in H. destruct H as [o [Hl H]].
  destruct o as [[a seqs]|]; [|discriminate].
  apply ladder_spec in Hl. destruct Hl as [col [Hcol [-> [Hk [Hni Hlow]]]]].
  destruct (first_ok index (level_seqs r col (level_of a)) c) eqn:Ef; cbn [negb] in H; [|discriminate].
  destruct (bound_of (rvars r) (simple_matrix r c) v) as [mb|] eqn:Eb; [|discriminate].
  injection H as <-. exists col, (level_of a), mb. rewrite set_attr_new. repeat split; auto.
Qed.

Lemma get_result_flag_p r index v c vr : get_result r index v c = ROk vr -> f_p (vr_flags vr) = true.
Proof.
  intros H. apply get_result_ok in H. destruct H as [col [k [mb [_ [_ [-> _]]]]]]. apply flags_of_level_p.
Qed.

Lemma get_result_name r index v c vr : get_result r index v c = ROk vr -> vr_name vr = v.
Proof.
  intros H. apply get_result_ok in H. destruct H as [col [k [mb [_ [_ [-> _]]]]]]. reflexivity.
Qed.

Lemma get_result_nested r index v c vr : get_result r index v c = ROk vr -> nested (vr_flags vr).
Proof.
  intros H. apply get_result_ok in H. destruct H as [col [k [mb [_ [_ [-> _]]]]]]. apply flags_of_level_nested.
Qed.

(* the class clause *)
Lemma class_is_least_level r index v c vr :
  length (rmat r) = length (rvars r) ->
  get_result r index v c = ROk vr ->
  exists col k,
    index_of_str v (rvars r) = Some col /\ k <= 2 /\
    vr_flags vr = flags_of_level k /\
    vr_choices vr = Some (level_seqs r col k) /\
    In c (vectors DOMAIN index) /\
    accepted (level_seqs r col k) c = true /\
    (forall j, j < k -> 0 < index /\ forall c', In c' (vectors DOMAIN index) -> accepted (level_seqs r col j) c' = false) /\
    (forall s, In s (column r c col) -> bad_at k s = false) /\
    (forall j, j < k -> exists s, In s (column r c col) /\ bad_at j s = true).
Proof.
  intros Hlen H. apply get_result_ok in H.
  destruct H as [col [k [mb [Hcol [Hk [-> [_ [Hf [_ Hlow]]]]]]]]].
  exists col, k. cbn [vr_flags vr_choices].
  unfold first_ok in Hf. apply andb_true_iff in Hf. destruct Hf as [Hd Ha]. apply in_domain_vectors in Hd.
  pose proof (index_of_str_lt _ _ _ Hcol) as Hlt.
  split; [exact Hcol|]. split; [exact Hk|]. split; [reflexivity|]. split; [reflexivity|].
  split; [exact Hd|]. split; [exact Ha|]. split; [|split].
  - intros j Hj. apply choices_infinite_true. apply Hlow. exact Hj.
  - intros s Hs. rewrite accepted_column in Ha by assumption. apply negb_true_iff in Ha.
    destruct (bad_at k s) eqn:E; [|reflexivity].
    assert (existsb (bad_at k) (column r c col) = true) by (apply existsb_exists; eauto). congruence.
  - intros j Hj. pose proof (proj1 (choices_infinite_true _ _) (Hlow j Hj)) as [_ Hn].
    specialize (Hn c Hd). rewrite accepted_column in Hn by (try assumption; lia).
    apply negb_false_iff in Hn. apply existsb_exists in Hn. exact Hn.
Qed.

(* get_result raises its assertion exactly when no vector is accepted even at the last level *)
Lemma get_result_asserts r index v c :
  get_result r index v c = RErr "AssertionError:get_result" <->
  exists col, index_of_str v (rvars r) = Some col /\ choices_infinite index (level_seqs r col 2) = true.
Proof.
  split.
  - unfold get_result. intros H.
    destruct (ladder r index v LADDER) as [o|e] eqn:El; cbn [rbind] in H.
    + destruct o as [[a seqs]|].
      * destruct (negb (first_ok index seqs c)); [discriminate|].
        destruct (bound_of (rvars r) (simple_matrix r c) v); discriminate.
      * apply ladder_none in El. destruct El as [col [Hc Hall]]. exists col. split; [exact Hc|apply Hall; lia].
    + exfalso. unfold LADDER, ladder, var_eval in El.
      destruct (index_of_str v (rvars r)); cbn [rbind] in El.
      * repeat match type of El with context [if ?b then _ else _] => destruct b end; discriminate.
      * injection El as <-. discriminate.
  - intros [col [Hc Hinf]]. unfold get_result.
    assert (El : ladder r index v LADDER = ROk None).
    { apply ladder_none. exists col. split; [exact Hc|]. intros j Hj.
      eapply choices_infinite_incl; [|exact Hinf]. apply level_seqs_incl; lia. }
    rewrite El. reflexivity.
Qed.
