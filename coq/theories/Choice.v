(* Executable, code-shaped model of pymwp/choice.py (class Choices).

   Data layout mirrors the Python:
     delta  = (value, index)            a pair of naturals
     dseq   = tuple of deltas           (SEQ)
     box    = tuple of tuples of values (VECT; one entry per index)
     choices= { valid : list box ; index : Z }

   Python SETS of sequences / vectors are modelled as LISTS.  Wherever the Python iterates a
   set (arbitrary order), the list order IS that iteration order: the passes take the list in
   the order the set would be iterated, and [simplify]/[generate] take a re-ordering oracle
   [ord : list nat -> list dseq -> list dseq] applied before every order-sensitive call (keyed by
   call site and remaining fuel, so every dynamic call may see a different order).  The one place
   where only "the first element of a set of vectors" is consulted ([vect_new], choice.py:485) takes
   an oracle [pick].  Theorems quantify over all [ord]/[pick] that return the same elements.

   Where the Python raises, the model returns [Err]:
     IndexError      sub_equal / sub_equal_end on an empty sequence, vector[idx] with idx >= index in
                     build_choices, valid[0] / choices[0] in `first`
     AssertionError  intersection of objects with different index
     OutOfFuel       the `while` loops of simplify (never a Python behaviour)
   Negative indices (Python wrap-around) are outside the model: indices and values are [nat].
   This file contains definitions only (no lemmas). *)
From Coq Require Import List Arith Bool ZArith.
Import ListNotations.

Definition delta := (nat * nat)%type.
Definition dseq := list delta.
Definition entry := list nat.
Definition box := list entry.
Record choices := mkC { valid : list box; index : Z }.

Inductive err := IndexError | AssertionError | OutOfFuel.
Inductive res (A : Type) := Ok (a : A) | Err (e : err).
Arguments Ok {A} a.
Arguments Err {A} e.

Definition bind {A B} (r : res A) (f : A -> res B) : res B :=
  match r with Ok a => f a | Err e => Err e end.

(* ---------- equality tests, set-like helpers on lists ---------- *)

Definition delta_eqb (a b : delta) : bool := (fst a =? fst b) && (snd a =? snd b).

Fixpoint list_eqb {A} (eqb : A -> A -> bool) (l1 l2 : list A) : bool :=
  match l1, l2 with
  | [], [] => true
  | x :: t1, y :: t2 => eqb x y && list_eqb eqb t1 t2
  | _, _ => false
  end.

Definition dseq_eqb : dseq -> dseq -> bool := list_eqb delta_eqb.
Definition entry_eqb : entry -> entry -> bool := list_eqb Nat.eqb.
Definition box_eqb : box -> box -> bool := list_eqb entry_eqb.

Definition memb {A} (eqb : A -> A -> bool) (x : A) (l : list A) : bool := existsb (eqb x) l.

(* set(l): duplicates removed *)
Fixpoint dedup {A} (eqb : A -> A -> bool) (l : list A) : list A :=
  match l with
  | [] => []
  | x :: t => if memb eqb x t then dedup eqb t else x :: dedup eqb t
  end.

(* s.add(x) *)
Definition set_add {A} (eqb : A -> A -> bool) (x : A) (l : list A) : list A :=
  if memb eqb x l then l else l ++ [x].

(* s.remove(x) *)
Definition set_remove {A} (eqb : A -> A -> bool) (x : A) (l : list A) : list A :=
  filter (fun y => negb (eqb x y)) l.

(* set(a) == set(b) *)
Definition set_eqb {A} (eqb : A -> A -> bool) (a b : list A) : bool :=
  forallb (fun x => memb eqb x b) a && forallb (fun x => memb eqb x a) b.

(* ---------- sub_equal, sub_equal_end (choice.py:341, :355) ---------- *)

Definition sub_equal (first second : dseq) : res bool :=
  match first, second with
  | (_, i1) :: t1, (_, i2) :: t2 => Ok ((i1 =? i2) && dseq_eqb t1 t2)
  | _, _ => Err IndexError
  end.

Definition sub_equal_end (first second : dseq) : res bool :=
  match first, second with
  | [], _ | _, [] => Err IndexError
  | _, _ => Ok ((snd (last first (0, 0)) =? snd (last second (0, 0)))
                && dseq_eqb (removelast first) (removelast second))
  end.

(* ---------- remove_subset (choice.py:328) ---------- *)

(* set(match).issubset(set(item)) *)
Definition subset_b (m item : dseq) : bool := forallb (fun d => memb delta_eqb d item) m.

Definition remove_subset (m : dseq) (items : list dseq) : list dseq :=
  filter (fun item => negb (subset_b m item)) items.

(* ---------- _reduce, reduce, reduce_end (choice.py:186-270) ---------- *)

Fixpoint filter_res {A} (f : A -> res bool) (l : list A) : res (list A) :=
  match l with
  | [] => Ok []
  | x :: t =>
    match f x with
    | Err e => Err e
    | Ok b => match filter_res f t with
              | Err e => Err e
              | Ok r => Ok (if b then x :: r else r)
              end
    end
  end.

(* the `for s1 in [...]` loop; [Ok None] = returned False, [Ok (Some S')] = returned True with the
   set mutated to S' *)
Fixpoint reduce_loop (sub_eq : dseq -> dseq -> res bool) (get_ : dseq -> nat) (keep_ : dseq -> dseq)
         (dom : list nat) (cands : list dseq) (sequences : list dseq) : res (option (list dseq)) :=
  match cands with
  | [] => Ok None
  | s1 :: rest =>
    match filter_res (sub_eq s1) sequences with
    | Err e => Err e
    | Ok ms =>
      let subs := map get_ ms in
      if set_eqb Nat.eqb subs dom then
        let keep := keep_ s1 in
        Ok (Some (set_add dseq_eqb keep (remove_subset keep sequences)))
      else reduce_loop sub_eq get_ keep_ dom rest sequences
    end
  end.

Definition _reduce sub_eq get_ keep_ (dom : list nat) (sequences : list dseq) :=
  reduce_loop sub_eq get_ keep_ dom (filter (fun s => 1 <? length s) sequences) sequences.

Definition reduce (dom : list nat) (sequences : list dseq) : res (option (list dseq)) :=
  _reduce sub_equal (fun s2 => fst (hd (0, 0) s2)) (fun s1 => tl s1) dom sequences.

Definition reduce_end (dom : list nat) (sequences : list dseq) : res (option (list dseq)) :=
  _reduce sub_equal_end (fun s2 => fst (last s2 (0, 0))) (fun s1 => removelast s1) dom sequences.

(* ---------- unique_sequences (choice.py:309) ---------- *)

(* sorted(..., key=len) is stable: x goes before the first element that is not shorter *)
Fixpoint insert_by_len (x : dseq) (l : list dseq) : list dseq :=
  match l with
  | [] => [x]
  | y :: t => if length x <=? length y then x :: y :: t else y :: insert_by_len x t
  end.

Definition sort_by_len (l : list dseq) : list dseq := fold_right insert_by_len [] l.

(* while infinity_deltas: pop(0); remove_subset; add.  The list shrinks at every turn, so
   [length l] turns always suffice. *)
Fixpoint uniq_loop (fuel : nat) (l : list dseq) : list dseq :=
  match fuel with
  | 0 => []
  | S f => match l with
           | [] => []
           | x :: t => x :: uniq_loop f (remove_subset x t)
           end
  end.

Definition unique_sequences (infinities : list dseq) : list dseq :=
  let l := sort_by_len infinities in uniq_loop (length l) l.

(* ---------- except_one (choice.py:273) ---------- *)

(* `map(l1.remove, matches)` is lazy and never consumed: l1 only loses its head each turn. *)
Fixpoint except_loop (dom : list nat) (l1 : list delta) (sequences : list dseq) : list dseq :=
  match l1 with
  | [] => sequences
  | (v, idx) :: t =>
    let matches := filter (fun itm => snd itm =? idx) t in
    let values := map fst matches in
    let find := map (fun c => (c, idx))
                    (filter (fun c => negb (c =? v) && negb (memb Nat.eqb c values)) dom) in
    let sequences' :=
      match find with
      | [f0] =>
        let sel := filter (fun s => memb delta_eqb f0 s && (1 <? length s)) sequences in
        fold_left (fun acc p =>
                     set_remove dseq_eqb p
                       (set_add dseq_eqb (filter (fun x => negb (delta_eqb x f0)) p) acc))
                  sel sequences
      | _ => sequences
      end in
    except_loop dom t sequences'
  end.

Definition except_one (dom : list nat) (sequences : list dseq) : list dseq :=
  except_loop dom (map (fun s => hd (0, 0) s) (filter (fun s => length s =? 1) sequences)) sequences.

(* ---------- simplify (choice.py:156) ---------- *)

Definition order := list nat -> list dseq -> list dseq.
Definition ord_id : order := fun _ l => l.

(* while Choices.reduce(domain, sequences): continue *)
Fixpoint while_reduce (rd : list dseq -> res (option (list dseq))) (ord : order) (key : list nat)
         (fuel : nat) (sequences : list dseq) : res (list dseq) :=
  match fuel with
  | 0 => Err OutOfFuel
  | S f =>
    match rd (ord (f :: key) sequences) with
    | Err e => Err e
    | Ok None => Ok sequences
    | Ok (Some s') => while_reduce rd ord key f s'
    end
  end.

(* [ifuel] bounds the two inner loops, [fuel] the outer `while True` *)
Fixpoint simplify_loop (ord : order) (ifuel : nat) (dom : list nat) (fuel : nat) (sequences : list dseq)
  : res (list dseq) :=
  match fuel with
  | 0 => Err OutOfFuel
  | S f =>
    let len_before := length sequences in
    bind (while_reduce (reduce dom) ord [0; f] ifuel sequences) (fun s1 =>
    bind (while_reduce (reduce_end dom) ord [1; f] ifuel s1) (fun s2 =>
    let s3 := unique_sequences (ord [2; f] s2) in
    let s4 := except_one dom (ord [3; f] s3) in
    let len_after := length s4 in
    if (len_before =? len_after) || (len_after =? 0) then Ok s4
    else simplify_loop ord ifuel dom f s4))
  end.

Definition simplify (ord : order) (fuel : nat) (dom : list nat) (sequences : list dseq) :=
  simplify_loop ord fuel dom fuel sequences.

(* ---------- build_choices (choice.py:383) ---------- *)

Definition prod (values : list nat) : nat := fold_left Nat.mul values 1.

Definition iters_of (lens : list nat) : list nat :=
  map (fun idx => prod (skipn (S idx) lens)) (seq 0 (length lens)).

Definition indices_of (lens iters : list nat) (iter_i : nat) : list nat :=
  map (fun xi => (iter_i / snd xi) mod fst xi) (combine lens iters).

Definition deltas_of (sorted_infty : list dseq) (indices : list nat) : list delta :=
  map (fun sv => nth (snd sv) (fst sv) (0, 0)) (combine sorted_infty indices).

(* if choice in vector[idx]: vector[idx].remove(choice) *)
Fixpoint remove_choice (choice idx : nat) (vector : box) : res box :=
  match vector, idx with
  | [], _ => Err IndexError
  | e :: r, 0 => Ok (filter (fun x => negb (x =? choice)) e :: r)
  | e :: r, S k => bind (remove_choice choice k r) (fun r' => Ok (e :: r'))
  end.

(* all(all(ib in super_v for ib in sub) for super_v, sub in zip(a, b)) *)
Definition vect_contains (a b : box) : bool :=
  forallb (fun p => forallb (fun ib => memb Nat.eqb ib (fst p)) (snd p)) (combine a b).

Definition picker := list box -> option box.
Definition pick_head : picker := fun l => match l with [] => None | v :: _ => Some v end.

(* not next((vect_contains(v, vector) for v in vectors), False): only the FIRST stored vector
   (in set iteration order = [pick]) is consulted *)
Definition vect_new (pick : picker) (vectors : list box) (vector : box) : bool :=
  match pick vectors with
  | Some v => negb (vect_contains v vector)
  | None => true
  end.

Definition vect_rm (vectors : list box) (vector : box) : list box :=
  filter (fun v => negb (vect_contains vector v)) vectors.

(* one turn of `for iter_i in range(max_)`: [Ok None] = `continue` *)
Definition iter_vector (dom : list nat) (n : nat) (sorted_infty : list dseq) (lens iters : list nat)
           (iter_i : nat) : res (option box) :=
  let indices := indices_of lens iters iter_i in
  let deltas := deltas_of sorted_infty indices in
  let ds := dedup delta_eqb deltas in
  let idx_freq := map snd ds in
  let is_valid := forallb (fun k => length (filter (Nat.eqb k) idx_freq) <? length dom)
                          (dedup Nat.eqb idx_freq) in
  if negb is_valid then Ok None
  else
    bind (fold_left (fun acc d => bind acc (remove_choice (fst d) (snd d))) ds
                    (Ok (repeat (dedup Nat.eqb dom) n)))
         (fun vector => Ok (Some vector)).

Definition add_vector (pick : picker) (distinct : bool) (vectors : list box) (vector : box) : list box :=
  if distinct || vect_new pick vectors vector then
    set_add box_eqb vector (if distinct then vectors else vect_rm vectors vector)
  else vectors.

Fixpoint build_loop (pick : picker) (distinct : bool) (dom : list nat) (n : nat)
         (sorted_infty : list dseq) (lens iters : list nat) (its : list nat) (vectors : list box)
  : res (list box) :=
  match its with
  | [] => Ok vectors
  | iter_i :: t =>
    match iter_vector dom n sorted_infty lens iters iter_i with
    | Err e => Err e
    | Ok None => build_loop pick distinct dom n sorted_infty lens iters t vectors
    | Ok (Some vector) =>
      build_loop pick distinct dom n sorted_infty lens iters t (add_vector pick distinct vectors vector)
    end
  end.

Definition build_choices (pick : picker) (dom : list nat) (n : nat) (infinities : list dseq)
  : res (list box) :=
  match infinities with
  | [] => Ok [repeat dom n]
  | _ =>
    let sorted_infty := sort_by_len infinities in
    let lens := map (@length delta) sorted_infty in
    let iters := iters_of lens in
    let max_ := prod lens in
    let all_deltas := concat sorted_infty in
    let distinct :=
      match all_deltas with
      | [] => false
      | _ => list_max (map (fun d => length (filter (delta_eqb d) all_deltas)) all_deltas) =? 1
      end in
    build_loop pick distinct dom n sorted_infty lens iters (seq 0 max_) []
  end.

(* ---------- the Choices object (choice.py:41-125) ---------- *)

Definition mk_choices (valid : list box) (index : Z) : choices :=
  match valid with
  | v0 :: _ => if (index <? 0)%Z then mkC valid (Z.of_nat (length v0)) else mkC valid index
  | [] => mkC [] index
  end.

Definition infinite (c : choices) : bool :=
  (length c.(valid) =? 0) && (0 <? c.(index))%Z.

Fixpoint map_res {A B} (f : A -> res B) (l : list A) : res (list B) :=
  match l with
  | [] => Ok []
  | x :: t => bind (f x) (fun y => bind (map_res f t) (fun r => Ok (y :: r)))
  end.

Definition first (c : choices) : res (option (list nat)) :=
  if infinite c then Ok None
  else match c.(valid) with
       | [] => Err IndexError
       | v0 :: _ =>
         bind (map_res (fun e : entry => match e with [] => Err IndexError | x :: _ => Ok x end) v0)
              (fun t => Ok (Some t))
       end.

Definition n_bounds (c : choices) : nat :=
  fold_right Nat.add 0 (map (fun v => fold_left Nat.mul (map (@length nat) v) 1) c.(valid)).

(* False not in [value in vector[idx] for idx, value in enumerate(choices)]
   (only evaluated when len(choices) <= len(vector)) *)
Fixpoint prefix_ok (cs : list nat) (vector : box) : bool :=
  match cs, vector with
  | [], _ => true
  | x :: t, e :: r => memb Nat.eqb x e && prefix_ok t r
  | _ :: _, [] => false
  end.

Definition is_valid (c : choices) (cs : list nat) : bool :=
  existsb (fun vector => (length cs <=? length vector) && prefix_ok cs vector) c.(valid).

(* itertools.product over the entries of one vector *)
Fixpoint product (b : box) : list (list nat) :=
  match b with
  | [] => [[]]
  | e :: r => flat_map (fun x => map (cons x) (product r)) e
  end.

Definition all (c : choices) : list (list nat) := flat_map product c.(valid).

(* ---------- generate (choice.py:127) ---------- *)

Definition generate (ord : order) (pick : picker) (fuel : nat) (dom : list nat) (n : nat)
           (inf : list dseq) : res choices :=
  bind (simplify ord fuel dom inf) (fun sequences =>
  bind (build_choices pick dom n (ord [4] sequences)) (fun valid =>
  Ok (mk_choices valid (Z.of_nat n)))).

(* ---------- intersections (choice.py:514-568) ---------- *)

Definition vect_intersection (a b : box) : option box :=
  let tmp := map (fun p => filter (fun ax => memb Nat.eqb ax (snd p)) (fst p)) (combine a b) in
  if existsb (fun x => length x =? 0) tmp then None else Some tmp.

(* `... for j in sub if j is not None` (choice.py:558, after fix df06735): only None is dropped *)
Definition not_none (j : option box) : list box :=
  match j with
  | Some t => [t]
  | None => []
  end.

Definition intersection (c1 c2 : choices) : res choices :=
  if negb (c1.(index) =? c2.(index))%Z then Err AssertionError
  else Ok (mk_choices
             (flat_map (fun v1 => flat_map (fun v2 => not_none (vect_intersection v1 v2)) c2.(valid))
                       c1.(valid))
             c1.(index)).

(* regression only: the filter as it was before df06735, `... for j in sub if j` -- None and the
   EMPTY tuple are both falsy, so the only vector of dom^0 was dropped *)
Definition truthy (j : option box) : list box :=
  match j with
  | Some (e :: r) => [e :: r]
  | _ => []
  end.

Definition intersection_truthy (c1 c2 : choices) : res choices :=
  if negb (c1.(index) =? c2.(index))%Z then Err AssertionError
  else Ok (mk_choices
             (flat_map (fun v1 => flat_map (fun v2 => truthy (vect_intersection v1 v2)) c2.(valid))
                       c1.(valid))
             c1.(index)).

Definition choice_reduce (cs : list choices) : res choices :=
  match cs with
  | [] => Ok (mkC [] (-1)%Z)
  | c0 :: rest => fold_left (fun acc c => bind acc (fun r => intersection r c)) rest (Ok c0)
  end.

(* ---------- specification-side executable definitions (used by statements and by the
   correspondence files) ---------- *)

(* choice vector [v] takes value [fst d] at index [snd d] *)
Definition dmatch (v : list nat) (d : delta) : bool :=
  match nth_error v (snd d) with Some x => x =? fst d | None => false end.

(* [v] makes every choice of the sequence *)
Definition smatch (v : list nat) (s : dseq) : bool := forallb (dmatch v) s.

Definition acceptedb (S : list dseq) (v : list nat) : bool := forallb (fun s => negb (smatch v s)) S.

(* dom^n in lexicographic order *)
Fixpoint all_vectors (dom : list nat) (n : nat) : list (list nat) :=
  match n with
  | 0 => [[]]
  | S k => flat_map (fun x => map (cons x) (all_vectors dom k)) dom
  end.
