(* Two premise-free facts about the analysis model and the calculus, used by An_main.v:
     compute_vars_thm  : the relation of an analysed statement only mentions the statement's variables
                         (purely syntactic: no well-formedness hypothesis on names is needed);
     derive_finite_thm : a derivation never produces the infinity scalar on V x V. *)
From Coq Require Import String List Bool Arith Lia.
From PM Require Import Semiring Poly Poly_sem Rel Analysis Calculus Rel_sem Sem_stmts An_stmts.
From PM Require Rel_hom Calc_alg Rel_fix An_leaf.
From PMGen Require Import RulesGen.
Import ListNotations.
Open Scope list_scope.

(* ------------------------------------------------------------------ *)
(* 1. variables of relation operations (syntactic)                     *)
(* ------------------------------------------------------------------ *)

Lemma mk_rel_vars_In v vars mat : In v (rvars (mk_rel vars mat)) -> In v vars.
Proof. unfold mk_rel. cbv zeta. cbn [rvars]. intros H. apply filter_In in H. tauto. Qed.

Lemma rel_identity_vars_In v vars : In v (rvars (rel_identity vars)) -> In v vars.
Proof. unfold rel_identity. apply mk_rel_vars_In. Qed.

Lemma rel_zero_vars_In v vars : In v (rvars (rel_zero vars)) -> In v vars.
Proof. unfold rel_zero. apply mk_rel_vars_In. Qed.

Lemma rel_empty_vars : rvars rel_empty = [].
Proof. reflexivity. Qed.

Lemma hom_vars_In a b v :
  In v (rvars (fst (homogenisation a b))) -> In v (rvars a) \/ In v (rvars b).
Proof.
  unfold homogenisation.
  destruct (list_str_eqb (rvars a) (rvars b)); [cbn [fst]; auto|].
  destruct (rel_is_empty a).
  { cbn [fst]. intros H. right. exact (rel_identity_vars_In _ _ H). }
  destruct (rel_is_empty b); [cbn [fst]; auto|].
  cbv zeta. cbn [fst]. intros H. apply mk_rel_vars_In in H. apply in_app_iff in H.
  destruct H as [H|H]; [auto|]. apply filter_In in H. tauto.
Qed.

Lemma rel_comp_vars_In a b v : In v (rvars (rel_comp a b)) -> In v (rvars a) \/ In v (rvars b).
Proof.
  unfold rel_comp. pose proof (hom_vars_In a b v) as H.
  destruct (homogenisation a b) as [e1 e2]. cbn [fst] in H.
  intros Hv. apply mk_rel_vars_In in Hv. auto.
Qed.

Lemma rel_sum_vars_In a b v : In v (rvars (rel_sum a b)) -> In v (rvars a) \/ In v (rvars b).
Proof.
  unfold rel_sum. pose proof (hom_vars_In a b v) as H.
  destruct (homogenisation a b) as [e1 e2]. cbn [fst] in H.
  intros Hv. apply mk_rel_vars_In in Hv. auto.
Qed.

Lemma fix_loop_vars self : forall fuel fx cur f, fix_loop fuel self fx cur = Some f ->
  (forall v, In v (rvars fx) -> In v (rvars self)) ->
  (forall v, In v (rvars cur) -> In v (rvars self)) ->
  forall v, In v (rvars f) -> In v (rvars self).
Proof.
  induction fuel as [|n IH]; intros fx cur f H Hf Hc; cbn [fix_loop] in H; [discriminate|].
  cbv zeta in H.
  assert (Hc' : forall v, In v (rvars (rel_comp cur self)) -> In v (rvars self)).
  { intros v Hv. apply rel_comp_vars_In in Hv. destruct Hv; auto. }
  assert (Hf' : forall v, In v (rvars (rel_sum fx (rel_comp cur self))) -> In v (rvars self)).
  { intros v Hv. apply rel_sum_vars_In in Hv. destruct Hv; auto. }
  destruct (rel_equal _ fx).
  - injection H as <-. exact Hf'.
  - eapply IH; [exact H | exact Hf' | exact Hc'].
Qed.

Lemma rel_fixpoint_vars fuel r f : rel_fixpoint fuel r = Some f ->
  forall v, In v (rvars f) -> In v (rvars r).
Proof.
  unfold rel_fixpoint. cbv zeta. intros H.
  eapply fix_loop_vars; [exact H| |]; intros v Hv; apply mk_rel_vars_In in Hv; exact Hv.
Qed.

Lemma while_correction_vars r : rvars (fst (while_correction r)) = rvars r.
Proof. reflexivity. Qed.

Lemma loop_correction_vars r x r' rec : loop_correction r x = Some (r', rec) -> rvars r' = rvars r.
Proof.
  unfold loop_correction. destruct (index_of_str x (rvars r)) as [ell|]; [|discriminate].
  cbv zeta.
  match goal with |- context [fold_left ?F ?l ?a] => destruct (fold_left F l a) as [m rec0] end.
  intros H. injection H as <- _. reflexivity.
Qed.

Lemma close_while_vars rb r : close_while rb = ROk r ->
  forall v, In v (rvars (cr_rel r)) -> In v (rvars (cr_rel rb)).
Proof.
  unfold close_while. cbv zeta.
  destruct (rel_fixpoint fix_fuel (rel_comp rel_empty (cr_rel rb))) as [fx|] eqn:Ef; [|discriminate].
  pose proof (while_correction_vars fx) as Hw.
  destruct (while_correction fx) as [rw rec]. cbn [fst] in Hw.
  unfold rbind. destruct (dg_insert_all (cr_dg rb) rec) as [d1|]; [|discriminate].
  destruct (dg_fusion d1) as [d2|]; [|discriminate].
  intros H. injection H as <-. cbn [cr_rel]. rewrite Hw. intros v Hv.
  apply (rel_fixpoint_vars _ _ _ Ef) in Hv. apply rel_comp_vars_In in Hv.
  destruct Hv as [[]|Hv]. exact Hv.
Qed.

Lemma close_for_vars x rb r : close_for x rb = ROk r ->
  forall v, In v (rvars (cr_rel r)) -> v = x \/ In v (rvars (cr_rel rb)).
Proof.
  unfold close_for. cbv zeta.
  destruct (rel_fixpoint fix_fuel (rel_comp (rel_zero [x]) (cr_rel rb))) as [fx|] eqn:Ef; [|discriminate].
  destruct (loop_correction fx x) as [[rl rec]|] eqn:El; [|discriminate].
  pose proof (loop_correction_vars _ _ _ _ El) as Hl.
  unfold rbind. destruct (dg_insert_all (cr_dg rb) rec) as [d1|]; [|discriminate].
  destruct (dg_fusion d1) as [d2|]; [|discriminate].
  intros H. injection H as <-. cbn [cr_rel]. rewrite Hl. intros v Hv.
  apply (rel_fixpoint_vars _ _ _ Ef) in Hv. apply rel_comp_vars_In in Hv.
  destruct Hv as [Hv|Hv]; [|right; exact Hv].
  apply rel_zero_vars_In in Hv. destruct Hv as [<-|[]]. left; reflexivity.
Qed.

(* ------------------------------------------------------------------ *)
(* 2. variables of the leaves (syntactic, also for empty names)        *)
(* ------------------------------------------------------------------ *)

Lemma leaf_rel_vars variables vector x r v :
  leaf_rel variables vector x = ROk r -> In v (rvars r) -> In (Some v) variables.
Proof.
  unfold leaf_rel. cbv zeta.
  set (r0 := mk_rel _ _).
  destruct (replace_column r0 vector x) as [r1|] eqn:E; [|discriminate].
  intros H. injection H as <-. intros Hv.
  assert (Hr1 : rvars r1 = rvars (rel_identity (rvars r0))).
  { unfold replace_column in E. cbv zeta in E.
    destruct (index_of_str x (rvars r0)) as [j|].
    - destruct (put_column _ j 0 vector) as [m|]; [|discriminate]. injection E as <-. reflexivity.
    - injection E as <-. reflexivity. }
  assert (Hv1 : In v (rvars r0)).
  { rewrite Hr1 in Hv. exact (rel_identity_vars_In _ _ Hv). }
  unfold r0, mk_rel in Hv1. cbv zeta in Hv1. cbn [rvars] in Hv1.
  apply filter_In in Hv1. destruct Hv1 as [Hin Hne]. apply in_map_iff in Hin.
  destruct Hin as [[s|] [Hs Ho]].
  - subst s. exact Ho.
  - subst v. discriminate Hne.
Qed.

Lemma an_constant_vars index x d r v :
  an_constant index x d = ROk r -> In v (rvars (cr_rel r)) -> v = x.
Proof.
  unfold an_constant. intros H. injection H as <-. cbn [cr_rel]. intros Hv.
  apply rel_zero_vars_In in Hv. destruct Hv as [<-|[]]. reflexivity.
Qed.

Lemma an_binary_vars index x op y z d r v :
  an_binary index x op y z d = ROk r -> In v (rvars (cr_rel r)) ->
  In v (x :: atom_vars y ++ atom_vars z).
Proof.
  intros H Hv.
  assert (G : In (Some v) [Some x; atom_name y; atom_name z] -> In v (x :: atom_vars y ++ atom_vars z)).
  { intros Hin. cbn [In] in Hin. destruct Hin as [E|[E|[E|[]]]].
    - injection E as ->. left; reflexivity.
    - right. apply in_or_app. left. destruct y; [injection E as ->; left; reflexivity|discriminate].
    - right. apply in_or_app. right. destruct z; [injection E as ->; left; reflexivity|discriminate]. }
  unfold an_binary in H.
  destruct y as [y|], z as [z|]; cbv beta iota in H;
    try (left; symmetry; eapply an_constant_vars; [exact H|exact Hv]);
    match type of H with
    | context [create_vector ?a ?b ?c ?e ?f] =>
        destruct (create_vector a b c e f) as [[i' vec]|]; [|discriminate]
    end;
    unfold rbind in H;
    match type of H with
    | context [leaf_rel ?a ?b ?c] => destruct (leaf_rel a b c) as [r0|] eqn:EL; [|discriminate]
    end;
    injection H as <-; cbn [cr_rel] in Hv;
    apply G; apply An_leaf.dedup_first_In; exact (leaf_rel_vars _ _ _ _ _ EL Hv).
Qed.

Lemma an_id_vars index x y d r v :
  an_id index x y d = ROk r -> In v (rvars (cr_rel r)) -> v = x \/ v = y.
Proof.
  unfold an_id. destruct (String.eqb x y).
  - unfold skip. intros H. injection H as <-. intros [].
  - unfold rbind. destruct (leaf_rel _ _ x) as [r0|] eqn:EL; [|discriminate].
    intros H. injection H as <-. cbn [cr_rel]. intros Hv.
    pose proof (leaf_rel_vars _ _ _ _ _ EL Hv) as Hin. cbn [In] in Hin.
    destruct Hin as [E|[E|[]]]; injection E as ->; auto.
Qed.

(* ------------------------------------------------------------------ *)
(* 3. statement variables                                              *)
(* ------------------------------------------------------------------ *)

Lemma mem_inc_dec op : mem_strb op INC_DEC = true ->
  op = "p++"%string \/ op = "++"%string \/ op = "p--"%string \/ op = "--"%string.
Proof.
  intros H. apply Calc_alg.mem_strb_In in H. cbn [INC_DEC In] in H.
  destruct H as [H|[H|[H|[H|[]]]]]; auto.
Qed.

Lemma inc_dec_u_ops op : mem_strb op INC_DEC = true -> mem_strb op U_OPS = true.
Proof. intros H. destruct (mem_inc_dec op H) as [->|[->|[->| ->]]]; reflexivity. Qed.

Lemma inc_dec_stmt_eq op y :
  inc_dec_stmt op y = SBin y (if mem_strb op ["p++"; "++"]%string then "+" else "-")%string (AVar y) ACst.
Proof. reflexivity. Qed.

(* the statement x = op e is rewritten into only mentions x and the operand *)
Lemma unary_asgn_rewrite_vars x op e s' :
  unary_asgn_rewrite x op e = Some s' ->
  forall v, In v (stmt_vars s') -> In v (stmt_vars (SUnAsg x op e)).
Proof.
  unfold unary_asgn_rewrite. cbv zeta.
  destruct (String.eqb_spec op "!") as [->|N1].
  { intros H. injection H as <-. cbn. tauto. }
  destruct (String.eqb_spec op "sizeof") as [->|N2].
  { intros H. injection H as <-. cbn. tauto. }
  destruct e as [|y|].
  - intros H. injection H as <-. cbn [stmt_vars In]. tauto.
  - destruct (mem_strb op INC_DEC) eqn:Ei.
    + intros H. injection H as <-. intros v Hv.
      cbn [stmt_vars]. rewrite (inc_dec_u_ops op Ei). cbn [uarg_vars].
      assert (Hv' : v = x \/ v = y).
      { destruct (mem_strb op PREFIX); cbn in Hv; intuition auto. }
      cbn [In]. destruct Hv' as [->| ->]; auto.
    + destruct (String.eqb_spec op "-") as [->|N3].
      { intros H. injection H as <-. cbn. tauto. }
      destruct (String.eqb_spec op "+") as [->|N4]; [|discriminate].
      intros H. injection H as <-. cbn. tauto.
  - discriminate.
Qed.

Lemma loop_compat_some iters srcs conds nxt b x :
  loop_compat iters srcs conds nxt b = Some x ->
  stmt_vars (SFor iters srcs conds nxt b) = x :: stmt_vars b /\ ~ In x (stmt_vars b).
Proof.
  unfold loop_compat. cbn [stmt_vars]. cbv zeta.
  destruct (loop_guard_x iters srcs conds nxt) as [|a [|? ?]]; try discriminate.
  destruct (mem_strb a (stmt_vars b)) eqn:E; [discriminate|].
  intros H. injection H as <-. split; [reflexivity|]. apply Calc_alg.mem_strb_notIn. exact E.
Qed.

(* ------------------------------------------------------------------ *)
(* 4. compute_vars                                                     *)
(* ------------------------------------------------------------------ *)

Definition vars_ok (rec : nat -> stmt -> dgraph -> res cr) (l : list stmt) : Prop :=
  forall s index d r, In s l -> rec index s d = ROk r ->
    forall v, In v (rvars (cr_rel r)) -> In v (stmt_vars s).

Lemma vars_ok_tail rec a l : vars_ok rec (a :: l) -> vars_ok rec l.
Proof. intros H s index d r Hs. apply H. right; exact Hs. Qed.

Lemma seq_compound_vars rec : forall l, vars_ok rec l ->
  forall index acc d r, seq_compound rec l index acc d = ROk r ->
  forall v, In v (rvars (cr_rel r)) -> In v (rvars acc) \/ In v (flat_map stmt_vars l).
Proof.
  induction l as [|s1 t IH]; intros Hrec index acc d r H v Hv; cbn [seq_compound] in H.
  - injection H as <-. left; exact Hv.
  - destruct (rec index s1 d) as [r1|] eqn:E1; cbn [rbind] in H; [|discriminate].
    pose proof (Hrec s1 index d r1 (or_introl eq_refl) E1) as H1.
    cbn [flat_map]. rewrite in_app_iff.
    assert (Hacc : forall v, In v (rvars (rel_comp acc (cr_rel r1))) -> In v (rvars acc) \/ In v (stmt_vars s1)).
    { intros w Hw. apply rel_comp_vars_In in Hw. destruct Hw; auto. }
    destruct (cr_exit r1).
    + injection H as <-. cbn [cr_rel] in Hv. destruct (Hacc v Hv); auto.
    + destruct (IH (vars_ok_tail _ _ _ Hrec) _ _ _ _ H v Hv) as [Hv'|Hv']; [|auto].
      destruct (Hacc v Hv'); auto.
Qed.

Lemma seq_branch_vars rec : forall l, vars_ok rec l ->
  forall index acc d r, seq_branch rec l index acc d = ROk r ->
  forall v, In v (rvars (cr_rel r)) -> In v (rvars acc) \/ In v (flat_map stmt_vars l).
Proof.
  induction l as [|s1 t IH]; intros Hrec index acc d r H v Hv; cbn [seq_branch] in H.
  - injection H as <-. left; exact Hv.
  - destruct (rec index s1 d) as [r1|] eqn:E1; cbn [rbind] in H; [|discriminate].
    pose proof (Hrec s1 index d r1 (or_introl eq_refl) E1) as H1.
    cbn [flat_map]. rewrite in_app_iff.
    destruct (cr_exit r1).
    + injection H as <-. cbn [cr_rel] in Hv. left; exact Hv.
    + destruct (IH (vars_ok_tail _ _ _ Hrec) _ _ _ _ H v Hv) as [Hv'|Hv']; [|auto].
      apply rel_comp_vars_In in Hv'. destruct Hv'; auto.
Qed.

Theorem compute_vars_thm : compute_vars_stmt.
Proof.
  unfold compute_vars_stmt.
  induction fuel as [|fuel' IH]; intros index s d r H v Hv; [discriminate|].
  assert (Hrec : forall l, vars_ok (compute fuel') l).
  { intros l s0 i0 d0 r0 _ H0. exact (IH i0 s0 d0 r0 H0). }
  destruct s as [m|x op y z|x|x y|x op e|op e|t e|cv body|iters srcs conds nxt body|l];
    cbn [compute] in H.
  - (* SSkip *) unfold skip in H. injection H as <-. destruct Hv.
  - (* SBin *) cbn [stmt_vars]. eapply an_binary_vars; [exact H|exact Hv].
  - (* SConst *) cbn [stmt_vars]. left. symmetry. eapply an_constant_vars; [exact H|exact Hv].
  - (* SCopy *) cbn [stmt_vars In]. destruct (an_id_vars _ _ _ _ _ _ H Hv) as [->| ->]; auto.
  - (* SUnAsg *)
    destruct (unary_asgn_rewrite x op e) as [s'|] eqn:E.
    + eapply unary_asgn_rewrite_vars; [exact E|]. eapply IH; [exact H|exact Hv].
    + unfold skip in H. injection H as <-. destruct Hv.
  - (* SUnary *)
    destruct e as [|y|]; try (unfold skip in H; injection H as <-; destruct Hv).
    destruct (mem_strb op INC_DEC) eqn:Ei; [|unfold skip in H; injection H as <-; destruct Hv].
    rewrite inc_dec_stmt_eq in H. cbn [stmt_vars]. rewrite (inc_dec_u_ops op Ei). cbn [uarg_vars].
    pose proof (an_binary_vars _ _ _ _ _ _ _ _ H Hv) as Hin. cbn in Hin. cbn [In]. tauto.
  - (* SIf *)
    cbn [stmt_vars]. rewrite in_app_iff.
    destruct (seq_branch (compute fuel') t index rel_empty d) as [rt|] eqn:Et; cbn [rbind] in H; [|discriminate].
    assert (Ht : forall w, In w (rvars (cr_rel rt)) -> In w (flat_map stmt_vars t)).
    { intros w Hw. destruct (seq_branch_vars _ t (Hrec t) _ _ _ _ Et w Hw) as [[]|Hw']. exact Hw'. }
    destruct (cr_exit rt); [injection H as <-; left; apply Ht; exact Hv|].
    destruct (seq_branch (compute fuel') e (cr_index rt) rel_empty (cr_dg rt)) as [re|] eqn:Ee;
      cbn [rbind] in H; [|discriminate].
    assert (He : forall w, In w (rvars (cr_rel re)) -> In w (flat_map stmt_vars e)).
    { intros w Hw. destruct (seq_branch_vars _ e (Hrec e) _ _ _ _ Ee w Hw) as [[]|Hw']. exact Hw'. }
    destruct (cr_exit re); [injection H as <-; right; apply He; exact Hv|].
    injection H as <-. cbn [cr_rel] in Hv. apply rel_sum_vars_In in Hv. destruct Hv; auto.
  - (* SWhile *)
    cbn [stmt_vars]. rewrite in_app_iff. right.
    destruct (compute fuel' index body d) as [rb|] eqn:Eb; cbn [rbind] in H; [|discriminate].
    destruct (cr_exit rb).
    + injection H as <-. eapply IH; [exact Eb|exact Hv].
    + eapply IH; [exact Eb|]. eapply close_while_vars; [exact H|exact Hv].
  - (* SFor *)
    destruct (loop_compat iters srcs conds nxt body) as [x|] eqn:El;
      [|unfold skip in H; injection H as <-; destruct Hv].
    destruct (loop_compat_some _ _ _ _ _ _ El) as [Esv _]. rewrite Esv.
    destruct (compute fuel' index body d) as [rb|] eqn:Eb; cbn [rbind] in H; [|discriminate].
    destruct (cr_exit rb).
    + injection H as <-. cbn [cr_rel] in Hv. right. eapply IH; [exact Eb|exact Hv].
    + destruct (close_for_vars _ _ _ H v Hv) as [->|Hv']; [left; reflexivity|].
      right. eapply IH; [exact Eb|exact Hv'].
  - (* SBlock *)
    cbn [stmt_vars].
    destruct (seq_compound_vars _ l (Hrec l) _ _ _ _ H v Hv) as [[]|Hv']. exact Hv'.
Qed.

(* ------------------------------------------------------------------ *)
(* 5. derive_finite                                                    *)
(* ------------------------------------------------------------------ *)

Definition fin_all (A : smat) : Prop := forall u v, A u v <> I.

Lemma fin_all_on V A : fin_all A -> finite_on V A.
Proof. intros H x y _ _. apply H. Qed.

Lemma sid_fin_all : fin_all sid.
Proof. intros u v. apply Calc_alg.sid_fin. Qed.

Lemma scol_fin_all x f : (forall u, f u <> I) -> fin_all (scol x f).
Proof.
  intros H u v. unfold scol. destruct (String.eqb v x); [apply H|apply Calc_alg.sid_fin].
Qed.

Lemma leaf_const_fin x : fin_all (leaf_const x).
Proof. apply scol_fin_all. intros _. discriminate. Qed.

Lemma leaf_copy_fin x y : fin_all (leaf_copy x y).
Proof.
  unfold leaf_copy. destruct (String.eqb x y); [apply sid_fin_all|].
  apply scol_fin_all. intros u. destruct (String.eqb u y); discriminate.
Qed.

Lemma some_inj {T} (a b : T) : Some a = Some b -> a = b.
Proof. congruence. Qed.

Lemma leaf_bin_fin x op y z c A : leaf_bin x op y z c = Some A -> fin_all A.
Proof.
  intros H.
  destruct (mem_strb op BIN_OPS) eqn:Eop;
    [|unfold leaf_bin in H; rewrite Eop in H; discriminate H].
  destruct (cv_lookup CV_TABLE op y z) as [tr|] eqn:Etr;
    [|unfold leaf_bin in H; rewrite Eop, Etr in H; discriminate H].
  destruct (An_leaf.cv_lookup_len op y z tr Eop Etr) as [_ Hfin].
  unfold leaf_bin in H. rewrite Eop, Etr in H. change (negb true) with false in H.
  cbv iota zeta in H. apply some_inj in H. subst A.
  apply scol_fin_all. intros u. cbv beta. rewrite An_leaf.assoc_sc_index.
  destruct (index_of_str u _) as [i|]; [|discriminate].
  match goal with |- nth i ?vec O <> I => destruct (nth_in_or_default i vec O) as [Hin|E] end;
    [|rewrite E; discriminate].
  apply in_app_iff in Hin. destruct Hin as [Hin|Hin].
  - destruct (_ && _); [destruct Hin as [<-|[]]; discriminate|destruct Hin].
  - apply in_map_iff in Hin. destruct Hin as [t [<- Ht]].
    apply (proj1 (Forall_forall _ _) Hfin t Ht).
Qed.

Lemma d_bin_fin x op y z cs idx A : fst (d_bin x op y z cs idx) = Some A -> fin_all A.
Proof.
  unfold d_bin. destruct y, z; cbn [fst]; intros H;
    try (eapply leaf_bin_fin; exact H).
  injection H as <-. apply leaf_const_fin.
Qed.

Lemma memo_finite V A : finite_on V A -> finite_on V (memo V A).
Proof. intros H x y Hx Hy. rewrite Calc_alg.memo_eq. apply H; assumption. Qed.

(* finiteness of the closure without any hypothesis on V *)
Lemma sstar_finite V A St : finite_on V A -> sstar V A = Some St -> finite_on V St.
Proof.
  intros HA H. unfold sstar in H.
  refine (proj1 (Calc_alg.sstar_loop_inv (finite_on V) V A _ _ _ _ _ H)).
  - intros X HX. apply Calc_alg.sstep_finite; assumption.
  - apply Rel_fix.sid_finite.
Qed.

Lemma l_extend_finite V X A : finite_on V A -> finite_on V (l_extend V X A).
Proof.
  intros H u v Hu Hv. unfold l_extend. destruct (_ && _); [|apply H; assumption].
  apply Rel_fix.ssum_ne_I; [apply H; assumption|discriminate].
Qed.

Lemma d_while_some V mb A : d_while V mb = Some A -> exists B, mb = Some B.
Proof. destruct mb as [B|]; [eauto|discriminate]. Qed.

Lemma d_for_some V X mb A : d_for V X mb = Some A -> exists B, mb = Some B.
Proof. destruct mb as [B|]; [eauto|discriminate]. Qed.

Lemma d_if_some V mt me A : d_if V mt me = Some A ->
  exists At Ae, mt = Some At /\ me = Some Ae /\ A = memo V (sadd Ae At).
Proof.
  destruct mt as [At|], me as [Ae|]; try discriminate.
  cbn [d_if]. intros H. injection H as <-. eauto.
Qed.

Lemma d_while_finite V mb A :
  (forall B, mb = Some B -> finite_on V B) -> d_while V mb = Some A -> finite_on V A.
Proof.
  intros Hb H. destruct mb as [B|]; [|discriminate]. cbn [d_while] in H.
  destruct (sstar V B) as [St|] eqn:Es; [|discriminate].
  destruct (w_ok V St); [|discriminate]. injection H as <-.
  eapply sstar_finite; [|exact Es]. apply Hb. reflexivity.
Qed.

Lemma d_for_finite V X mb A :
  (forall B, mb = Some B -> finite_on V B) -> d_for V X mb = Some A -> finite_on V A.
Proof.
  intros Hb H. destruct mb as [B|]; [|discriminate]. cbn [d_for] in H.
  destruct (sstar V B) as [St|] eqn:Es; [|discriminate].
  destruct (l_ok V St); [|discriminate]. injection H as <-.
  apply memo_finite, l_extend_finite. eapply sstar_finite; [|exact Es]. apply Hb. reflexivity.
Qed.

Lemma d_if_finite V mt me A :
  (forall B, mt = Some B -> finite_on V B) -> (forall B, me = Some B -> finite_on V B) ->
  d_if V mt me = Some A -> finite_on V A.
Proof.
  intros Ht He H. destruct (d_if_some _ _ _ _ H) as [At [Ae [-> [-> ->]]]].
  apply memo_finite, Rel_fix.sadd_finite; [apply He|apply Ht]; reflexivity.
Qed.

Lemma dseq_finite V a b A :
  (forall B, a = Some B -> finite_on V B) -> (forall B, b = Some B -> finite_on V B) ->
  dseq V a b = Some A -> finite_on V A.
Proof.
  intros Ha Hb H. destruct a as [A1|], b as [B1|]; try discriminate.
  cbn [dseq] in H. injection H as <-.
  apply memo_finite, Calc_alg.smul_finite; [apply Ha|apply Hb]; reflexivity.
Qed.

Definition fin_rec (V : list string) (rec : stmt -> nat -> dres) (l : list stmt) : Prop :=
  forall s idx A, In s l -> fst (rec s idx) = Some A -> finite_on V A.

Lemma dlist_finite V rec : forall l acc idx A, fin_rec V rec l ->
  (forall B, acc = Some B -> finite_on V B) ->
  fst (dlist rec V l acc idx) = Some A -> finite_on V A.
Proof.
  induction l as [|s1 t IH]; intros acc idx A Hrec Hacc H; cbn [dlist] in H.
  - cbn [fst] in H. apply Hacc. exact H.
  - destruct (rec s1 idx) as [m idx'] eqn:E1.
    eapply IH; [| |exact H].
    + intros s i B Hs. apply Hrec. right; exact Hs.
    + intros B HB. eapply dseq_finite; [exact Hacc| |exact HB].
      intros C HC. apply (Hrec s1 idx C (or_introl eq_refl)). rewrite E1. exact HC.
Qed.

Theorem derive_finite_thm : derive_finite_stmt.
Proof.
  unfold derive_finite_stmt.
  induction fuel as [|fuel' IH]; intros V s cs idx A H; [discriminate|].
  assert (Hrec : forall l, fin_rec V (fun s1 i => derive fuel' V s1 cs i) l).
  { intros l s0 i0 A0 _ H0. exact (IH V s0 cs i0 A0 H0). }
  assert (Hsid : forall B, Some sid = Some B -> finite_on V B).
  { intros B HB. injection HB as <-. apply Rel_fix.sid_finite. }
  destruct s as [m|x op y z|x|x y|x op e|op e|t e|cv body|iters srcs conds nxt body|l];
    cbn [derive] in H.
  - injection H as <-. apply Rel_fix.sid_finite.
  - apply fin_all_on. eapply d_bin_fin. exact H.
  - injection H as <-. apply fin_all_on, leaf_const_fin.
  - injection H as <-. apply fin_all_on, leaf_copy_fin.
  - destruct (unary_asgn_rewrite x op e) as [s'|].
    + eapply IH. exact H.
    + injection H as <-. apply Rel_fix.sid_finite.
  - destruct e as [|y|]; try (injection H as <-; apply Rel_fix.sid_finite).
    destruct (mem_strb op INC_DEC); [|injection H as <-; apply Rel_fix.sid_finite].
    rewrite inc_dec_stmt_eq in H. apply fin_all_on. eapply d_bin_fin. exact H.
  - destruct (dlist _ V t (Some sid) idx) as [mt i1] eqn:Et.
    destruct (dlist _ V e (Some sid) i1) as [me i2] eqn:Ee.
    cbn [fst] in H. eapply d_if_finite; [| |exact H].
    + intros B HB. eapply (dlist_finite V _ t (Some sid) idx B (Hrec t) Hsid). rewrite Et. exact HB.
    + intros B HB. eapply (dlist_finite V _ e (Some sid) i1 B (Hrec e) Hsid). rewrite Ee. exact HB.
  - destruct (derive fuel' V body cs idx) as [mb i1] eqn:Eb. cbn [fst] in H.
    eapply d_while_finite; [|exact H]. intros B HB. apply (IH V body cs idx B). rewrite Eb. exact HB.
  - destruct (loop_compat iters srcs conds nxt body) as [X|];
      [|injection H as <-; apply Rel_fix.sid_finite].
    destruct (derive fuel' V body cs idx) as [mb i1] eqn:Eb. cbn [fst] in H.
    eapply d_for_finite; [|exact H]. intros B HB. apply (IH V body cs idx B). rewrite Eb. exact HB.
  - eapply (dlist_finite V _ l (Some sid) idx A (Hrec l) Hsid). exact H.
Qed.

Print Assumptions compute_vars_thm.
Print Assumptions derive_finite_thm.
