(* C18 at the level of the model: unary forms are analysed as their rewriting. *)
From Coq Require Import String List Bool.
From PM Require Import Semiring Poly Rel Analysis Calculus.
Import ListNotations.
Open Scope string_scope.

Lemma unary_asgn_is_rewriting fuel index x op e d s' :
  unary_asgn_rewrite x op e = Some s' ->
  compute (S fuel) index (SUnAsg x op e) d = compute fuel index s' d.
Proof. intros H. cbn [compute]. rewrite H. reflexivity. Qed.

Lemma unary_asgn_unsupported_is_skip fuel index x op e d :
  unary_asgn_rewrite x op e = None ->
  compute (S fuel) index (SUnAsg x op e) d = skip index d.
Proof. intros H. cbn [compute]. rewrite H. reflexivity. Qed.

Lemma rewriting_table x y :
  unary_asgn_rewrite x "p++" (UVar y) = Some (SBlock [SCopy x y; SBin y "+" (AVar y) ACst]) /\
  unary_asgn_rewrite x "++" (UVar y) = Some (SBlock [SBin y "+" (AVar y) ACst; SCopy x y]) /\
  unary_asgn_rewrite x "p--" (UVar y) = Some (SBlock [SCopy x y; SBin y "-" (AVar y) ACst]) /\
  unary_asgn_rewrite x "--" (UVar y) = Some (SBlock [SBin y "-" (AVar y) ACst; SCopy x y]) /\
  unary_asgn_rewrite x "-" (UVar y) = Some (SBin x "*" (AVar y) ACst) /\
  unary_asgn_rewrite x "+" (UVar y) = Some (SCopy x y) /\
  (forall e, unary_asgn_rewrite x "!" e = Some (SConst x)) /\
  (forall e, unary_asgn_rewrite x "sizeof" e = Some (SConst x)) /\
  (forall op, unary_asgn_rewrite x op UCst = Some (SConst x)).
Proof.
  repeat split; try reflexivity; try (intros e; destruct e; reflexivity).
  intros op. unfold unary_asgn_rewrite.
  destruct (String.eqb op "!"); [reflexivity|]. destruct (String.eqb op "sizeof"); reflexivity.
Qed.

Lemma standalone_incdec fuel index op y d :
  mem_strb op INC_DEC = true ->
  compute (S fuel) index (SUnary op (UVar y)) d =
  compute (S fuel) index (SBin y (if mem_strb op ["p++"; "++"] then "+" else "-") (AVar y) ACst) d.
Proof. intros H. cbn [compute]. rewrite H. reflexivity. Qed.

Lemma standalone_other_noop fuel index op e d :
  (forall y, e = UVar y -> mem_strb op INC_DEC = false) ->
  compute (S fuel) index (SUnary op e) d = skip index d.
Proof.
  intros H. cbn [compute]. destruct e; try reflexivity. rewrite (H y eq_refl). reflexivity.
Qed.

(* the same rewriting on the specification side *)
Lemma derive_unary_asgn_is_rewriting fuel V x op e cs idx s' :
  unary_asgn_rewrite x op e = Some s' ->
  derive (S fuel) V (SUnAsg x op e) cs idx = derive fuel V s' cs idx.
Proof. intros H. cbn [derive]. rewrite H. reflexivity. Qed.
