(* The empty relation Relation() stands for skip, i.e. for the IDENTITY, in sums as well as in compositions:
   r + Relation() is r + I (not r), Relation() + r is I + r, r . Relation() = r . I, Relation() . r = I . r.
   (Three independently seeded changes made `x + empty` return x: a then-branch that does nothing would then
   contribute nothing to the sum of the two branches of a conditional.) *)
From Coq Require Import String List Bool Arith.
From PM Require Import Semiring Poly Rel.
Import ListNotations.

Lemma is_nilb_false_cons {A} (l : list A) : is_nilb l = false -> l <> [].
Proof. destruct l; [discriminate|intros _ H; discriminate]. Qed.

Theorem homogenisation_empty_right : forall r, rel_is_empty r = false ->
  homogenisation r rel_empty = (r, rel_identity (rvars r)).
Proof.
  intros r Hne. unfold homogenisation.
  assert (Hv : rvars r <> []).
  { unfold rel_is_empty in Hne. apply orb_false_iff in Hne. destruct Hne as [Hv _]. apply is_nilb_false_cons. exact Hv. }
  destruct (rvars r) as [|v vs] eqn:Ev; [contradiction|].
  change (rvars rel_empty) with (@nil string).
  unfold list_str_eqb. cbn [list_eqb].
  rewrite Hne. reflexivity.
Qed.

Theorem homogenisation_empty_left : forall r, rel_is_empty r = false ->
  homogenisation rel_empty r = (rel_identity (rvars r), r).
Proof.
  intros r Hne. unfold homogenisation.
  assert (Hv : rvars r <> []).
  { unfold rel_is_empty in Hne. apply orb_false_iff in Hne. destruct Hne as [Hv _]. apply is_nilb_false_cons. exact Hv. }
  destruct (rvars r) as [|v vs] eqn:Ev; [contradiction|].
  change (rvars rel_empty) with (@nil string).
  unfold list_str_eqb. cbn [list_eqb]. reflexivity.
Qed.

Lemma filter_all {A} (f : A -> bool) (l : list A) : forallb f l = true -> filter f l = l.
Proof. induction l as [|x l IH]; [reflexivity|]. cbn [forallb filter]. intros H. apply andb_prop in H. destruct H as [Hx Hl]. rewrite Hx, (IH Hl). reflexivity. Qed.

Lemma list_str_eqb_refl l : list_str_eqb l l = true.
Proof. unfold list_str_eqb. induction l as [|x l IH]; [reflexivity|]. cbn [list_eqb]. rewrite String.eqb_refl. exact IH. Qed.

(* the sum with the empty relation is the sum with the identity over the same variables (names non-empty, as for every
   relation the analysis builds) *)
Theorem sum_empty_right_is_sum_identity : forall r, rel_is_empty r = false -> forallb nonempty_str (rvars r) = true ->
  rel_sum r rel_empty = rel_sum r (rel_identity (rvars r)).
Proof.
  intros r Hne Hnames. unfold rel_sum. rewrite (homogenisation_empty_right r Hne).
  unfold homogenisation.
  assert (E : rvars (rel_identity (rvars r)) = rvars r).
  { unfold rel_identity, mk_rel. cbn [rvars]. apply filter_all. exact Hnames. }
  cbn iota. rewrite ?E, list_str_eqb_refl. cbn iota. rewrite ?E. reflexivity.
Qed.

Theorem sum_empty_left_is_sum_identity : forall r, rel_is_empty r = false -> forallb nonempty_str (rvars r) = true ->
  rel_sum rel_empty r = rel_sum (rel_identity (rvars r)) r.
Proof.
  intros r Hne Hnames. unfold rel_sum. rewrite (homogenisation_empty_left r Hne).
  unfold homogenisation.
  assert (E : rvars (rel_identity (rvars r)) = rvars r).
  { unfold rel_identity, mk_rel. cbn [rvars]. apply filter_all. exact Hnames. }
  cbn iota. rewrite ?E, list_str_eqb_refl. cbn iota. rewrite ?E. reflexivity.
Qed.

Theorem comp_empty_right_is_comp_identity : forall r, rel_is_empty r = false -> forallb nonempty_str (rvars r) = true ->
  rel_comp r rel_empty = rel_comp r (rel_identity (rvars r)).
Proof.
  intros r Hne Hnames. unfold rel_comp. rewrite (homogenisation_empty_right r Hne).
  unfold homogenisation.
  assert (E : rvars (rel_identity (rvars r)) = rvars r).
  { unfold rel_identity, mk_rel. cbn [rvars]. apply filter_all. exact Hnames. }
  cbn iota. rewrite ?E, list_str_eqb_refl. cbn iota. rewrite ?E. reflexivity.
Qed.

(* it is NOT r: a concrete relation whose sum with the empty relation differs from itself (the then-branch that does nothing
   contributes the identity to the sum of the two branches) *)
Example sum_empty_is_not_neutral :
  let r := mk_rel ["x"; "y"]%string [[zero_poly; zero_poly]; [unit_poly; unit_poly]] in
  rel_is_empty r = false /\ rmat (rel_sum r rel_empty) <> rmat r.
Proof. vm_compute. split; [reflexivity|discriminate]. Qed.
