(* Scalar-matrix lemmas used to close loops (An_close.v): leastness of the closure against
   pre-fixed points, lifting a closure from a sub-list of variables to the full list, closure of a
   matrix that differs from another by part of the identity, and the side conditions / L extension
   of a matrix that is the identity outside a sub-list. *)
From Coq Require Import String List Bool Arith Lia.
From PM Require Import Semiring Poly Rel Analysis Calculus Rel_sem Sem_stmts Calc_alg.
From PMGen Require Import RulesGen.
Import ListNotations.
Open Scope list_scope.

(* identity extension helpers *)
Lemma sid_sid_idem x y : ssum (sid x y) (sid x y) = sid x y.
Proof. apply ssum_idem. Qed.

Lemma id_outside_finite V Vr A :
  id_outside Vr A -> (forall x y, In x Vr -> In y Vr -> A x y <> I) -> finite_on V A.
Proof.
  intros Hid Hf x y _ _.
  destruct (in_dec string_dec x Vr) as [Hx|Hx]; [|rewrite Hid by (left; exact Hx); apply sid_fin].
  destruct (in_dec string_dec y Vr) as [Hy|Hy]; [|rewrite Hid by (right; exact Hy); apply sid_fin].
  apply Hf; assumption.
Qed.

Lemma id_outside_eqV V Vr A B : id_outside Vr A -> id_outside Vr B -> eqV Vr A B -> eqV V A B.
Proof.
  intros HA HB H x y _ _.
  destruct (in_dec string_dec x Vr) as [Hx|Hx]; [|rewrite HA, HB by (left; exact Hx); reflexivity].
  destruct (in_dec string_dec y Vr) as [Hy|Hy]; [|rewrite HA, HB by (right; exact Hy); reflexivity].
  apply H; assumption.
Qed.

Lemma eqV_incl V Vr A B : incl Vr V -> eqV V A B -> eqV Vr A B.
Proof. intros Hi H x y Hx Hy. apply H; apply Hi; assumption. Qed.

Lemma finite_on_incl V Vr A : incl Vr V -> finite_on V A -> finite_on Vr A.
Proof. intros Hi H x y Hx Hy. apply H; apply Hi; assumption. Qed.

Lemma finite_on_eqV V A B : eqV V A B -> finite_on V B -> finite_on V A.
Proof. intros H HB x y Hx Hy. rewrite H by assumption. apply HB; assumption. Qed.

(* is_star only looks at A and St on V x V *)
Lemma is_star_ext V A A' S S' : eqV V A A' -> eqV V S S' -> is_star V A S -> is_star V A' S'.
Proof.
  intros HA HS [H1 H2]. split.
  - intros x y Hx Hy. rewrite <- (HS x y Hx Hy). rewrite (H1 x y Hx Hy). unfold sadd. f_equal.
    apply smul_ext; assumption.
  - intros X HX. eapply leV_trans; [apply eqV_leV, eqV_sym; exact HS|]. apply H2.
    intros x y Hx Hy. rewrite (HX x y Hx Hy). unfold sadd. f_equal.
    apply smul_ext; [apply eqV_refl | apply eqV_sym; exact HA | exact Hx | exact Hy].
Qed.

(* the closure is below every PRE-fixed point (is_star only states it for fixed points) *)
Lemma is_star_least_pre V A S X :
  NoDup V -> finite_on V A -> is_star V A S ->
  leV V (sadd sid (smul V X A)) X -> leV V S X.
Proof.
  intros Hnd HA HS Hpre.
  destruct (sstar_total V A Hnd HA) as [R HR].
  destruct (sstar_sound V A R Hnd HA HR) as [HRs _].
  eapply leV_trans; [apply eqV_leV; apply (is_star_unique V A S R HS HRs)|].
  unfold sstar in HR.
  pose (Pp := fun Y : smat => leV V Y X).
  assert (Hstep : forall Y, Pp Y -> Pp (sstep V A Y)).
  { intros Y HY. unfold Pp. eapply leV_trans; [|exact Hpre].
    intros x y Hx Hy. rewrite sstep_eq. unfold sadd. apply ssum_mono; [apply sc_le_refl|].
    apply smul_mono; [exact HY | apply leV_refl | exact Hx | exact Hy]. }
  assert (H0 : Pp sid).
  { intros x y Hx Hy. eapply sc_le_trans; [|apply (Hpre x y Hx Hy)]. unfold sadd. apply sc_le_ssum_l. }
  destruct (sstar_loop_inv Pp V A Hstep _ _ _ H0 HR) as [H _]. exact H.
Qed.

Lemma sumS_sub_le (f : string -> Sc) l l' : incl l' l -> sc_le (sumS f l') (sumS f l).
Proof.
  intros Hi. apply sumS_le_iff. intros k Hk. apply sumS_ge. apply Hi. exact Hk.
Qed.

(* LIFTING: a closure computed over a sub-list Vr of V is the closure over V, provided the matrix
   and the closure are the identity outside Vr (and finite) *)
Lemma is_star_lift V Vr A F :
  NoDup V -> NoDup Vr -> incl Vr V ->
  id_outside Vr A -> id_outside Vr F -> finite_on V A -> finite_on V F ->
  is_star Vr A F -> is_star V A F.
Proof.
  intros HndV HndR Hincl HidA HidF HfA HfF [Heq Hleast]. split.
  - intros x y Hx Hy. unfold sadd.
    rewrite (smul_restrict V Vr F A HndV HndR Hincl HidF HidA HfF HfA x y Hx Hy).
    destruct (mem_strb x Vr) eqn:Ex.
    + destruct (mem_strb y Vr) eqn:Ey; cbn [andb].
      * apply mem_strb_In in Ex. apply mem_strb_In in Ey. apply (Heq x y Ex Ey).
      * apply mem_strb_notIn in Ey. rewrite HidF by (right; exact Ey). symmetry. apply ssum_idem.
    + cbn [andb]. apply mem_strb_notIn in Ex. rewrite HidF by (left; exact Ex). symmetry. apply ssum_idem.
  - intros X HX.
    assert (Hpre : leV Vr (sadd sid (smul Vr X A)) X).
    { intros x y Hx Hy. rewrite (HX x y (Hincl _ Hx) (Hincl _ Hy)). unfold sadd.
      apply ssum_mono; [apply sc_le_refl|]. rewrite !smul_sumS. apply sumS_sub_le. exact Hincl. }
    assert (HfAr : finite_on Vr A) by (eapply finite_on_incl; eassumption).
    pose proof (is_star_least_pre Vr A F X HndR HfAr (conj Heq Hleast) Hpre) as HL.
    intros x y Hx Hy.
    destruct (in_dec string_dec x Vr) as [Hxr|Hxr];
      [destruct (in_dec string_dec y Vr) as [Hyr|Hyr]|].
    + apply HL; assumption.
    + rewrite HidF by (right; exact Hyr). rewrite (HX x y Hx Hy). unfold sadd. apply sc_le_ssum_l.
    + rewrite HidF by (left; exact Hxr). rewrite (HX x y Hx Hy). unfold sadd. apply sc_le_ssum_l.
Qed.

(* a matrix squeezed between A and A + 1 has the same closure as A *)
Lemma is_star_between V A A' F :
  NoDup V -> finite_on V A -> finite_on V F ->
  leV V A A' -> leV V A' (sadd A sid) -> is_star V A F -> is_star V A' F.
Proof.
  intros Hnd HfA HfF H1 H2 [Heq Hleast]. split.
  - intros x y Hx Hy. apply sc_le_antisym.
    + rewrite (Heq x y Hx Hy) at 1. unfold sadd. apply ssum_mono; [apply sc_le_refl|].
      apply smul_mono; [apply leV_refl | exact H1 | exact Hx | exact Hy].
    + unfold sadd. apply ssum_lub.
      * rewrite (Heq x y Hx Hy). unfold sadd. apply sc_le_ssum_l.
      * eapply sc_le_trans;
          [apply (smul_mono V F F A' (sadd A sid) (leV_refl V F) H2 x y Hx Hy)|].
        rewrite (proj1 smul_distr V F A sid x y).
        apply ssum_lub.
        -- rewrite (Heq x y Hx Hy). unfold sadd. apply sc_le_ssum_r.
        -- rewrite smul_id_r; [apply sc_le_refl | intros k Hk; apply HfF; assumption | exact Hy].
  - intros X HX. apply (is_star_least_pre V A F X Hnd HfA (conj Heq Hleast)).
    intros x y Hx Hy. rewrite (HX x y Hx Hy). unfold sadd.
    apply ssum_mono; [apply sc_le_refl|].
    apply smul_mono; [apply leV_refl | exact H1 | exact Hx | exact Hy].
Qed.

(* the diagonal of a closure is at least m *)
Lemma is_star_diag V A F v : is_star V A F -> In v V -> sc_le M (F v v).
Proof.
  intros [Heq _] Hv. rewrite (Heq v v Hv Hv). unfold sadd. rewrite sid_eq. apply sc_le_ssum_l.
Qed.

(* ---------------- side conditions ---------------- *)

Lemma forallb2_true_iff (f : string -> string -> bool) V :
  forallb (fun x => forallb (fun y => f x y) V) V = true <->
  forall x y, In x V -> In y V -> f x y = true.
Proof.
  rewrite forallb_forall. split.
  - intros H x y Hx Hy. specialize (H x Hx). rewrite forallb_forall in H. apply H. exact Hy.
  - intros H x Hx. rewrite forallb_forall. intros y Hy. apply H; assumption.
Qed.

Lemma w_ok_iff V A :
  w_ok V A = true <-> forall x y, In x V -> In y V -> W_BAD (A x y) (String.eqb x y) = false.
Proof.
  unfold w_ok. rewrite forallb2_true_iff. split; intros H x y Hx Hy; specialize (H x y Hx Hy).
  - apply negb_true_iff. exact H.
  - apply negb_true_iff. exact H.
Qed.

Lemma w_ok_ext V A B : eqV V A B -> w_ok V A = w_ok V B.
Proof.
  intros H. apply eq_true_iff_eq. rewrite !w_ok_iff.
  split; intros H1 x y Hx Hy; [rewrite <- (H x y Hx Hy) | rewrite (H x y Hx Hy)]; apply H1; assumption.
Qed.

Lemma W_BAD_sid x y : W_BAD (sid x y) (String.eqb x y) = false.
Proof. unfold sid. destruct (String.eqb x y); reflexivity. Qed.

Lemma w_ok_restrict V Vr A : incl Vr V -> id_outside Vr A -> w_ok V A = w_ok Vr A.
Proof.
  intros Hi Hid. apply eq_true_iff_eq. rewrite !w_ok_iff. split.
  - intros H x y Hx Hy. apply H; apply Hi; assumption.
  - intros H x y _ _.
    destruct (in_dec string_dec x Vr) as [Hx|Hx]; [|rewrite Hid by (left; exact Hx); apply W_BAD_sid].
    destruct (in_dec string_dec y Vr) as [Hy|Hy]; [|rewrite Hid by (right; exact Hy); apply W_BAD_sid].
    apply H; assumption.
Qed.

Lemma l_ok_iff V A : l_ok V A = true <-> forall x, In x V -> L_BAD (A x x) true = false.
Proof.
  unfold l_ok. rewrite forallb_forall. split; intros H x Hx; specialize (H x Hx);
    apply negb_true_iff; exact H.
Qed.

Lemma l_ok_ext V A B : eqV V A B -> l_ok V A = l_ok V B.
Proof.
  intros H. apply eq_true_iff_eq. rewrite !l_ok_iff.
  split; intros H1 x Hx; [rewrite <- (H x x Hx Hx) | rewrite (H x x Hx Hx)]; apply H1; assumption.
Qed.

Lemma l_ok_restrict V Vr A : incl Vr V -> id_outside Vr A -> l_ok V A = l_ok Vr A.
Proof.
  intros Hi Hid. apply eq_true_iff_eq. rewrite !l_ok_iff. split.
  - intros H x Hx. apply H. apply Hi. exact Hx.
  - intros H x _.
    destruct (in_dec string_dec x Vr) as [Hx|Hx]; [apply H; exact Hx|].
    rewrite Hid by (left; exact Hx). rewrite sid_eq. reflexivity.
Qed.

(* ---------------- the L extension ---------------- *)

Lemma existsb_ext_in {T} (f g : T -> bool) l : (forall k, In k l -> f k = g k) -> existsb f l = existsb g l.
Proof.
  induction l as [|a l IH]; intros H; [reflexivity|]. simpl.
  rewrite H by (left; reflexivity). rewrite IH; [reflexivity|]. intros; apply H; right; assumption.
Qed.

Lemma l_extend_ext V X A B : eqV V A B -> eqV V (l_extend V X A) (l_extend V X B).
Proof.
  intros H u v Hu Hv. unfold l_extend.
  rewrite (existsb_ext_in (fun i => L_PROPAGATE (A i v) (String.eqb i v))
                          (fun i => L_PROPAGATE (B i v) (String.eqb i v)) V)
    by (intros k Hk; rewrite (H k v Hk Hv); reflexivity).
  rewrite (H u v Hu Hv). reflexivity.
Qed.

Lemma L_PROPAGATE_sid x y d : L_PROPAGATE (sid x y) d = false.
Proof. unfold sid. destruct (String.eqb x y); reflexivity. Qed.

Lemma existsb_true_iff {T} (f : T -> bool) l : existsb f l = true <-> exists k, In k l /\ f k = true.
Proof. apply existsb_exists. Qed.

(* over a matrix that is the identity outside Vr, extending over V or over Vr is the same function *)
Lemma l_extend_restrict V Vr X A u v :
  incl Vr V -> id_outside Vr A -> l_extend V X A u v = l_extend Vr X A u v.
Proof.
  intros Hi Hid. unfold l_extend.
  assert (E : existsb (fun i => L_PROPAGATE (A i v) (String.eqb i v)) V =
              existsb (fun i => L_PROPAGATE (A i v) (String.eqb i v)) Vr).
  { apply eq_true_iff_eq. rewrite !existsb_true_iff. split.
    - intros [k [Hk H]]. exists k. split; [|exact H].
      destruct (in_dec string_dec k Vr) as [Hkr|Hkr]; [exact Hkr|].
      rewrite Hid in H by (left; exact Hkr). rewrite L_PROPAGATE_sid in H. discriminate.
    - intros [k [Hk H]]. exists k. split; [apply Hi; exact Hk | exact H]. }
  rewrite E. reflexivity.
Qed.

Lemma l_extend_id_outside Vr X A : In X Vr -> id_outside Vr A -> id_outside Vr (l_extend Vr X A).
Proof.
  intros HX Hid u v Huv. unfold l_extend.
  destruct (String.eqb u X && existsb (fun i => L_PROPAGATE (A i v) (String.eqb i v)) Vr) eqn:E;
    [|apply Hid; exact Huv].
  apply andb_true_iff in E. destruct E as [Eu E]. apply String.eqb_eq in Eu. subst u.
  apply existsb_true_iff in E. destruct E as [k [Hk H]].
  destruct Huv as [Hu|Hv]; [contradiction|].
  rewrite Hid in H by (right; exact Hv). rewrite L_PROPAGATE_sid in H. discriminate.
Qed.
