(* INF_FLOWS (property C15): generic facts behind "the problematic-flow description names only
   variable pairs whose matrix entry can be infinite": the shape of Relation.infty_vars(only_incl),
   what some_infty means, and that every relation the analysis returns is well formed. *)
From Coq Require Import String List Bool Arith Lia.
From PM Require Import Semiring Poly Poly_sem Poly_times Rel Analysis Calculus Rel_sem Sem_stmts An_stmts.
From PM Require Poly_wf Rel_hom An_seq An_func.
From PM Require DeltaGraph.
Import ListNotations.
Open Scope list_scope.

(* ------------------------------------------------------------------ *)
(* lists                                                               *)

Lemma combine_In_nth_error {T1 T2} (a : T1) (b : T2) : forall l1 l2,
  In (a, b) (combine l1 l2) -> exists i, nth_error l1 i = Some a /\ nth_error l2 i = Some b.
Proof.
  induction l1 as [|x t IH]; intros l2 H; [destruct H|].
  destruct l2 as [|y u]; [destruct H|]. cbn [combine In] in H. destruct H as [E|H].
  - injection E as -> ->. exists 0. split; reflexivity.
  - destruct (IH u H) as (i & H1 & H2). exists (S i). split; assumption.
Qed.

Lemma nth_error_combine_In {T1 T2} (a : T1) (b : T2) : forall l1 l2 i,
  nth_error l1 i = Some a -> nth_error l2 i = Some b -> In (a, b) (combine l1 l2).
Proof.
  induction l1 as [|x t IH]; intros l2 i H1 H2; [destruct i; discriminate H1|].
  destruct l2 as [|y u]; [destruct i; discriminate H2|].
  destruct i as [|i]; cbn [nth_error] in H1, H2.
  - injection H1 as ->. injection H2 as ->. left. reflexivity.
  - right. exact (IH u i H1 H2).
Qed.

Lemma nth_error_index l i x : NoDup l -> nth_error l i = Some x -> index_of_str x l = Some i.
Proof.
  intros ND H. assert (Hi : i < length l) by (apply nth_error_Some; congruence).
  rewrite <- (nth_error_nth l i EmptyString H). apply Rel_hom.index_of_str_nth_nodup; assumption.
Qed.

Lemma is_nilb_false {T} (l : list T) : negb (is_nilb l) = true <-> l <> [].
Proof. destruct l; cbn; split; congruence. Qed.

Lemma is_nilb_true {T} (l : list T) : is_nilb l = true <-> l = [].
Proof. destruct l; cbn; split; congruence. Qed.

(* ------------------------------------------------------------------ *)
(* some_infty                                                          *)

Lemma some_infty_iff p : some_infty p = true <-> exists m, In m p /\ sc m = I.
Proof.
  unfold some_infty. rewrite existsb_exists. split; intros (m & H1 & H2); exists m; (split; [exact H1|]);
    apply sc_eqb_eq; exact H2.
Qed.

(* an infinite monomial that some choice selects makes the polynomial infinite at that choice *)
Lemma some_infty_val p : some_infty p = true -> Forall msat p -> exists c, val p c = I.
Proof.
  intros H Hs. apply some_infty_iff in H. destruct H as (m & Hm & HI).
  destruct (proj1 (Forall_forall _ _) Hs m Hm) as [c Hc]. exists c.
  exact (An_func.val_I_of_mono p c m Hm HI Hc).
Qed.

(* ... and when the delta values are alternatives 0..2 the choice can be taken in the domain *)
Lemma msat_dom m : msat m -> mdom m -> exists c, (forall i, c i < 3) /\ mmatch c (ds m) = true.
Proof.
  intros [c Hc] Hd. exists (fun i => if Nat.ltb (c i) 3 then c i else 0). split.
  - intros i. destruct (Nat.ltb (c i) 3) eqn:E; [apply Nat.ltb_lt; exact E|lia].
  - unfold mmatch in *. rewrite forallb_forall in *. intros e He.
    pose proof (Hc e He) as H1. unfold dmatch in *. apply Nat.eqb_eq in H1.
    pose proof (proj1 (Forall_forall _ _) Hd e He) as H2. cbv beta in H2.
    rewrite <- H1. apply Nat.ltb_lt in H2. rewrite H2. apply Nat.eqb_refl.
Qed.

Lemma some_infty_val_dom p : some_infty p = true -> Forall msat p -> Forall mdom p ->
  exists c, (forall i, c i < 3) /\ val p c = I.
Proof.
  intros H Hs Hd. apply some_infty_iff in H. destruct H as (m & Hm & HI).
  destruct (msat_dom m (proj1 (Forall_forall _ _) Hs m Hm) (proj1 (Forall_forall _ _) Hd m Hm))
    as (c & Hc3 & Hc).
  exists c. split; [exact Hc3|]. exact (An_func.val_I_of_mono p c m Hm HI Hc).
Qed.

(* ------------------------------------------------------------------ *)
(* cells by position                                                   *)

Lemma cell_at r i j src tgt row p :
  NoDup (rvars r) ->
  nth_error (rvars r) i = Some src -> nth_error (rvars r) j = Some tgt ->
  nth_error (rmat r) i = Some row -> nth_error row j = Some p ->
  cell r src tgt = p.
Proof.
  intros ND Hi Hj Hr Hp. unfold cell.
  rewrite (nth_error_index _ _ _ ND Hi), (nth_error_index _ _ _ ND Hj).
  unfold mget. rewrite (nth_error_nth _ _ [] Hr). exact (nth_error_nth _ _ zero_poly Hp).
Qed.

(* ------------------------------------------------------------------ *)
(* every relation Analysis.cmds returns is well formed (exit or not, stop or not) *)

Section Walk.
Hypothesis MAIN : main_sim_stmt.

Lemma cmds_rel_ok V l : forall stop index acc di d di' index' acc' d',
  names_ok V -> incl (flat_map stmt_vars l) V -> dg_inv d -> rel_ok V acc ->
  cmds l stop index acc di d = ROk (di', index', acc', d') -> rel_ok V acc'.
Proof.
  induction l as [|s t IH]; intros stop index acc di d di' index' acc' d' HV Hi Hd Hacc Hrun.
  - cbn [cmds] in Hrun. injection Hrun as _ _ <- _. exact Hacc.
  - rewrite An_func.cmds_cons in Hrun.
    destruct (compute depth_fuel index s d) as [r|e] eqn:EC; cbn [rbind] in Hrun; [|discriminate].
    destruct (An_func.head_sim MAIN V s t index d r HV Hi Hd EC) as [Hr1 Hit].
    apply An_seq.sim_res_unfold in Hr1. destruct Hr1 as (Hd2 & _ & Hok1 & _).
    destruct (stop && (di || cr_exit r)).
    + injection Hrun as _ _ <- _. exact Hacc.
    + eapply IH; [exact HV|exact Hit|exact Hd2| |exact Hrun]. apply An_seq.rel_ok_comp; assumption.
Qed.

Lemma analyse_rel_ok f stop res r :
  func_ok f -> analyse f stop = ROk res -> fr_rel res = Some r -> rel_ok (func_vars f) r.
Proof.
  intros Hf Han Hr.
  destruct (An_func.analyse_unfold f stop res Han) as (di & index & r0 & d & Hrun & ->).
  cbn [fr_rel] in Hr.
  assert (E : r0 = r).
  { destruct (_ && stop) in Hr; [discriminate Hr|]. injection Hr as ->. reflexivity. }
  subst r0. pose proof (An_func.func_vars_names_ok f Hf) as HV.
  eapply cmds_rel_ok; [exact HV|apply An_func.func_vars_body|apply An_func.dg_new_inv| |exact Hrun].
  exact (proj1 (An_func.rel_identity_acc_ok _ HV)).
Qed.

End Walk.
