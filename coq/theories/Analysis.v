(* Executable, code-shaped model of pymwp/analysis.py (Analysis.func / cmds / compute_relation and
   helpers) over a typed statement grammar.  The harness reader (tools/cread.py) maps a pycparser
   function to [func_src]; everything from there on is computed here. *)
From Coq Require Import String List Bool Arith Lia Ascii.
From PM Require Import Semiring Poly Rel.
From PM Require DeltaGraph.
From PMGen Require Import RulesGen.
Import ListNotations.
Open Scope list_scope.

Inductive atom := AVar (x : string) | ACst.

(* operand of a unary operator (after looking through casts where the code does) *)
Inductive uarg := UCst | UVar (y : string) | UOther.

Inductive stmt :=
| SSkip (mentions : list string)      (* Return/Break/Continue/EmptyStatement/Decl/assert/assume/unsupported:
                                         no flow; [mentions] = names the Variables walker records in it *)
| SBin (x : string) (op : string) (y z : atom)       (* x = y op z, operand casts stripped *)
| SConst (x : string)                                  (* x = c *)
| SCopy (x y : string)                                 (* x = y *)
| SUnAsg (x : string) (op : string) (e : uarg)         (* x = op e *)
| SUnary (op : string) (e : uarg)                      (* op e;  as a statement *)
| SIf (t e : list stmt)
| SWhile (cond_vars : list string) (body : stmt)       (* while / do-while *)
| SFor (iters srcs conds nxt : list string) (body : stmt)
| SBlock (l : list stmt).

Record func_src := { f_params : list string; f_body : list stmt }.

(* ---------- Variables walker restricted to this grammar ---------- *)

Definition atom_vars (a : atom) : list string := match a with AVar x => [x] | ACst => [] end.
Definition uarg_vars (e : uarg) : list string := match e with UVar y => [y] | _ => [] end.

Definition U_OPS : list string := ["p++"; "++"; "p--"; "--"; "+"; "-"; "!"; "sizeof"]%string.
Definition INC_DEC : list string := ["p++"; "++"; "p--"; "--"]%string.
Definition PREFIX : list string := ["++"; "--"]%string.

Definition remove_all (xs from : list string) : list string :=
  filter (fun v => negb (mem_strb v xs)) from.

Fixpoint dedup (l : list string) : list string :=
  match l with
  | [] => []
  | h :: t => if mem_strb h t then dedup t else h :: dedup t
  end.

(* Coverage.loop_compat via Variables.loop_guard, on the header summary the reader extracted *)
Definition loop_guard_x (iters srcs conds nxt : list string) : list string :=
  dedup (remove_all (iters ++ nxt) (conds ++ srcs)).

Fixpoint stmt_vars (s : stmt) : list string :=
  match s with
  | SSkip m => m
  | SBin x _ y z => x :: atom_vars y ++ atom_vars z
  | SConst x => [x]
  | SCopy x y => [x; y]
  | SUnAsg x op e => x :: (if mem_strb op U_OPS then uarg_vars e else [])
  | SUnary op e => if mem_strb op U_OPS then uarg_vars e else []
  | SIf t e => flat_map stmt_vars t ++ flat_map stmt_vars e
  | SWhile cv b => cv ++ stmt_vars b
  | SFor iters srcs conds nxt b =>
      let bv := stmt_vars b in
      match loop_guard_x iters srcs conds nxt with
      | [x] => if mem_strb x bv then bv else x :: bv
      | _ => bv
      end
  | SBlock l => flat_map stmt_vars l
  end.

Definition loop_compat (iters srcs conds nxt : list string) (body : stmt) : option string :=
  match loop_guard_x iters srcs conds nxt with
  | [x] => if mem_strb x (stmt_vars body) then None else Some x
  | _ => None
  end.

(* sorted(vars): code-point order on the names *)
Fixpoint str_ltb (a b : string) : bool :=
  match a, b with
  | EmptyString, EmptyString => false
  | EmptyString, String _ _ => true
  | String _ _, EmptyString => false
  | String x s, String y t =>
      let nx := nat_of_ascii x in let ny := nat_of_ascii y in
      if Nat.ltb nx ny then true else if Nat.ltb ny nx then false else str_ltb s t
  end.

Fixpoint insert_sorted (x : string) (l : list string) : list string :=
  match l with
  | [] => [x]
  | h :: t => if str_ltb x h then x :: l else h :: insert_sorted x t
  end.

Definition sort_str (l : list string) : list string := fold_right insert_sorted [] l.

Definition func_vars (f : func_src) : list string :=
  sort_str (dedup (f_params f ++ flat_map stmt_vars (f_body f))).

(* ---------- create_vector from the generated table ---------- *)

Definition poly_of_triple (index : nat) (t : Sc * Sc * Sc) : poly :=
  let '(a, b, c) := t in from_scalars index [a; b; c].

Definition opt_str_eqb (a b : option string) : bool :=
  match a, b with
  | Some x, Some y => String.eqb x y
  | None, None => true
  | _, _ => false
  end.

Fixpoint cv_lookup (tbl : list (cv_cond * list string * list (Sc * Sc * Sc)))
         (op : string) (y z : option string) : option (list (Sc * Sc * Sc)) :=
  match tbl with
  | [] => Some []            (* no branch of the if/elif chain applies: nothing appended *)
  | (CvConst, _, tr) :: rest =>
      match y, z with
      | None, _ | _, None => Some tr
      | _, _ => cv_lookup rest op y z
      end
  | (CvEq, ops, tr) :: rest =>
      if mem_strb op ops && opt_str_eqb y z then Some tr else cv_lookup rest op y z
  | (CvNe, ops, tr) :: rest =>
      if mem_strb op ops && negb (opt_str_eqb y z) then Some tr else cv_lookup rest op y z
  end.

Definition BIN_OPS : list string := ["+"; "-"; "*"]%string.

(* None = AssertionError (op not in BIN_OPS) *)
Definition create_vector (index : nat) (op : string) (x : string) (y z : option string)
  : option (nat * list poly) :=
  if negb (mem_strb op BIN_OPS) then None else
  let pre := if negb (opt_str_eqb (Some x) y) && negb (opt_str_eqb (Some x) z) then [zero_poly] else [] in
  match cv_lookup CV_TABLE op y z with
  | Some tr => Some (S index, pre ++ map (poly_of_triple index) tr)
  | None => None
  end.

(* ---------- results with errors ---------- *)

Inductive res (T : Type) := ROk (x : T) | RErr (e : string).
Arguments ROk {T} x.
Arguments RErr {T} e.

Definition rbind {A B} (r : res A) (f : A -> res B) : res B :=
  match r with ROk x => f x | RErr e => RErr e end.

Definition of_dg {A} (r : DeltaGraph.result A) : res A :=
  match r with DeltaGraph.Ok x => ROk x | DeltaGraph.Err e => RErr e end.

Definition dgraph := DeltaGraph.dgraph.

Fixpoint dg_insert_all (d : dgraph) (l : list (list delta)) : res dgraph :=
  match l with
  | [] => ROk d
  | n :: t => rbind (of_dg (DeltaGraph.from_monomial d n)) (fun d' => dg_insert_all d' t)
  end.

Definition dg_fusion (d : dgraph) : res dgraph :=
  rbind (of_dg (DeltaGraph.fusion (DeltaGraph.dg_degree d) (DeltaGraph.dg_graph d)))
        (fun g => ROk {| DeltaGraph.dg_degree := DeltaGraph.dg_degree d;
                         DeltaGraph.dg_graph := g;
                         DeltaGraph.dg_recorded := DeltaGraph.dg_recorded d |}).

Definition dg_is_empty (d : dgraph) : bool := DeltaGraph.is_empty (DeltaGraph.dg_graph d).

(* ---------- compute_relation ---------- *)

(* state threaded through the walk: (index, delta graph); result: relation + exit flag *)
Record cr := { cr_index : nat; cr_rel : rel; cr_exit : bool; cr_dg : dgraph }.

Definition skip (index : nat) (d : dgraph) : res cr :=
  ROk {| cr_index := index; cr_rel := rel_empty; cr_exit := false; cr_dg := d |}.

Definition atom_name (a : atom) : option string := match a with AVar x => Some x | ACst => None end.

Definition opt_names (l : list (option string)) : list string :=
  flat_map (fun o => match o with Some x => [x] | None => [] end) l.

Fixpoint dedup_first (l : list (option string)) : list (option string) :=   (* list(dict.fromkeys(l)) *)
  match l with
  | [] => []
  | h :: t => h :: filter (fun o => negb (opt_str_eqb o h)) (dedup_first t)
  end.

(* RelationList.identity(variables).replace_column(vector, x) with variables possibly containing None *)
Definition leaf_rel (variables : list (option string)) (vector : list poly) (x : string) : res rel :=
  let r0 := mk_rel (map (fun o => match o with Some s => s | None => EmptyString end) variables)
                   (identity_matrix (length variables)) in
  match replace_column r0 vector x with
  | Some r => ROk r
  | None => RErr "IndexError:replace_column"
  end.

Definition an_constant (index : nat) (x : string) (d : dgraph) : res cr :=
  ROk {| cr_index := index; cr_rel := rel_zero [x]; cr_exit := false; cr_dg := d |}.

Definition an_binary (index : nat) (x op : string) (y z : atom) (d : dgraph) : res cr :=
  match y, z with
  | ACst, ACst => an_constant index x d
  | _, _ =>
      match create_vector index op x (atom_name y) (atom_name z) with
      | None => RErr "AssertionError:create_vector"
      | Some (index', vector) =>
          let variables := dedup_first [Some x; atom_name y; atom_name z] in
          rbind (leaf_rel variables vector x)
                (fun r => ROk {| cr_index := index'; cr_rel := r; cr_exit := false; cr_dg := d |})
      end
  end.

Definition an_id (index : nat) (x y : string) (d : dgraph) : res cr :=
  if String.eqb x y then skip index d
  else rbind (leaf_rel [Some x; Some y] [zero_poly; unit_poly] x)
             (fun r => ROk {| cr_index := index; cr_rel := r; cr_exit := false; cr_dg := d |}).

(* x = op e  rewritten as the code rewrites it (unary_asgn); the result is a small statement list *)
Definition inc_dec_stmt (op : string) (y : string) : stmt :=
  (* rewrite_id_inc_dec: new_op = op[-1] *)
  SBin y (if mem_strb op ["p++"; "++"]%string then "+" else "-")%string (AVar y) ACst.

Definition unary_asgn_rewrite (x op : string) (e : uarg) : option stmt :=
  let base :=
    match e with
    | UCst => Some (SConst x)
    | UVar y =>
        if mem_strb op INC_DEC then
          let fst_ := inc_dec_stmt op y in
          let snd_ := SCopy x y in
          Some (SBlock (if mem_strb op PREFIX then [fst_; snd_] else [snd_; fst_]))
        else if String.eqb op "-" then Some (SBin x "*" (AVar y) ACst)
        else if String.eqb op "+" then Some (SCopy x y)
        else None
    | UOther => None
    end in
  if String.eqb op "!" then Some (SConst x)
  else if String.eqb op "sizeof" then Some (SConst x)
  else base.

Definition fix_fuel : nat := 200.

(* Analysis.compound: compose first, then look at the exit flag *)
Fixpoint seq_compound (rec : nat -> stmt -> dgraph -> res cr) (l : list stmt) (index : nat) (acc : rel) (d : dgraph)
  : res cr :=
  match l with
  | [] => ROk {| cr_index := index; cr_rel := acc; cr_exit := false; cr_dg := d |}
  | s1 :: t =>
      rbind (rec index s1 d) (fun r =>
        let acc' := rel_comp acc (cr_rel r) in
        if cr_exit r then ROk {| cr_index := cr_index r; cr_rel := acc'; cr_exit := true; cr_dg := cr_dg r |}
        else seq_compound rec t (cr_index r) acc' (cr_dg r))
  end.

(* Analysis.if_branch: exit before composing *)
Fixpoint seq_branch (rec : nat -> stmt -> dgraph -> res cr) (l : list stmt) (index : nat) (acc : rel) (d : dgraph)
  : res cr :=
  match l with
  | [] => ROk {| cr_index := index; cr_rel := acc; cr_exit := false; cr_dg := d |}
  | s1 :: t =>
      rbind (rec index s1 d) (fun r =>
        if cr_exit r then ROk {| cr_index := cr_index r; cr_rel := acc; cr_exit := true; cr_dg := cr_dg r |}
        else seq_branch rec t (cr_index r) (rel_comp acc (cr_rel r)) (cr_dg r))
  end.

(* the fixpoint + W correction + delta-graph step that closes a while loop *)
Definition close_while (rb : cr) : res cr :=
  let r0 := rel_comp rel_empty (cr_rel rb) in
  match rel_fixpoint fix_fuel r0 with
  | None => RErr "fuel:fixpoint"
  | Some fx =>
      let '(rw, rec) := while_correction fx in
      rbind (dg_insert_all (cr_dg rb) rec) (fun d1 =>
      rbind (dg_fusion d1) (fun d2 =>
        ROk {| cr_index := cr_index rb; cr_rel := rw; cr_exit := dg_is_empty d2; cr_dg := d2 |}))
  end.

(* the fixpoint + L correction + delta-graph step that closes a counted for loop *)
Definition close_for (x : string) (rb : cr) : res cr :=
  let r0 := rel_comp (rel_zero [x]) (cr_rel rb) in
  match rel_fixpoint fix_fuel r0 with
  | None => RErr "fuel:fixpoint"
  | Some fx =>
      match loop_correction fx x with
      | None => RErr "ValueError:loop_correction"
      | Some (rl, rec) =>
          rbind (dg_insert_all (cr_dg rb) rec) (fun d1 =>
          rbind (dg_fusion d1) (fun d2 =>
            ROk {| cr_index := cr_index rb; cr_rel := rl; cr_exit := dg_is_empty d2; cr_dg := d2 |}))
      end
  end.

(* compute_relation; fuel only bounds the nesting of the rewriting step of unary_asgn *)
Fixpoint compute (fuel : nat) (index : nat) (s : stmt) (d : dgraph) {struct fuel} : res cr :=
  match fuel with
  | 0 => RErr "fuel"
  | S fuel' =>
    match s with
    | SSkip _ => skip index d
    | SBin x op y z => an_binary index x op y z d
    | SConst x => an_constant index x d
    | SCopy x y => an_id index x y d
    | SUnAsg x op e =>
        match unary_asgn_rewrite x op e with
        | Some s' => compute fuel' index s' d
        | None => skip index d                        (* _unsupported: warn and skip *)
        end
    | SUnary op e =>
        match e with
        | UVar y => if mem_strb op INC_DEC
                    then match inc_dec_stmt op y with
                         | SBin x o a b => an_binary index x o a b d
                         | _ => skip index d
                         end
                    else skip index d
        | _ => skip index d
        end
    | SIf t e =>
        rbind (seq_branch (compute fuel') t index rel_empty d) (fun rt =>
          if cr_exit rt then ROk rt
          else rbind (seq_branch (compute fuel') e (cr_index rt) rel_empty (cr_dg rt)) (fun re =>
            if cr_exit re then ROk re
            else ROk {| cr_index := cr_index re; cr_rel := rel_sum (cr_rel re) (cr_rel rt);
                        cr_exit := false; cr_dg := cr_dg re |}))
    | SWhile _ body =>
        rbind (compute fuel' index body d) (fun rb =>
          if cr_exit rb then ROk rb       (* returns the inner relation only *)
          else close_while rb)
    | SFor iters srcs conds nxt body =>
        match loop_compat iters srcs conds nxt body with
        | None => skip index d
        | Some x =>
            rbind (compute fuel' index body d) (fun rb =>
              if cr_exit rb then ROk {| cr_index := cr_index rb; cr_rel := cr_rel rb; cr_exit := true; cr_dg := cr_dg rb |}
              else close_for x rb)
        end
    | SBlock l => seq_compound (compute fuel') l index rel_empty d
    end
  end.

Definition depth_fuel : nat := 100.

(* Analysis.cmds *)
Fixpoint cmds (l : list stmt) (stop : bool) (index : nat) (acc : rel) (delta_infty : bool) (d : dgraph)
  : res (bool * nat * rel * dgraph) :=
  match l with
  | [] => ROk (delta_infty, index, acc, d)
  | s :: t =>
      rbind (compute depth_fuel index s d) (fun r =>
        let di := delta_infty || cr_exit r in
        if stop && di then ROk (di, cr_index r, acc, cr_dg r)
        else cmds t stop (cr_index r) (rel_comp acc (cr_rel r)) di (cr_dg r))
  end.

Record func_result := {
  fr_infinite : bool;
  fr_delta_infty : bool;
  fr_index : nat;
  fr_vars : list string;                    (* result.variables = relations.first.variables *)
  fr_rel : option rel;                      (* None when infinite and stop *)
  fr_inf_deltas : list (list delta);        (* what Relation.eval hands to Choices.generate *)
}.

(* does some vector of DOMAIN^n avoid every sequence?  (brute force; spec of Choices.infinite) *)
Fixpoint vectors (dom : list nat) (n : nat) : list (list nat) :=
  match n with
  | 0 => [[]]
  | S k => flat_map (fun v => map (fun x => v ++ [x]) dom) (vectors dom k)
  end.

Definition accepted (seqs : list (list delta)) (v : list nat) : bool :=
  negb (existsb (fun s => mmatch (choice_of_list v) s) seqs).

Definition no_valid_choice (dom : list nat) (n : nat) (seqs : list (list delta)) : bool :=
  negb (existsb (accepted seqs) (vectors dom n)).

(* Analysis.func (fields that do not depend on the set-iteration order of Choices) *)
Definition analyse (f : func_src) (stop : bool) : res func_result :=
  let vars := func_vars f in
  let r0 := rel_identity vars in
  rbind (cmds (f_body f) stop 0 r0 false (DeltaGraph.dg_new 3)) (fun '(di, index, r, d) =>
    let seqs := rel_infinity_deltas r [] (DeltaGraph.dg_recorded d) in
    (* Choices.infinite = (len(valid) == 0 and index > 0) *)
    let inf := di || (no_valid_choice DOMAIN index seqs && Nat.ltb 0 index) in
    ROk {| fr_infinite := inf; fr_delta_infty := di; fr_index := index; fr_vars := rvars r;
           fr_rel := if inf && stop then None else Some r;
           fr_inf_deltas := if di then [] else seqs |}).
