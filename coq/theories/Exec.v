(* Exact path-wise semantics of the constant-free fragment: the SPECIFICATION property C03 is stated
   against.  Written from the meaning of the C statements, not from pymwp; no proofs here.

   Values are polynomials over the INPUT variables with natural coefficients in EXPANDED form:
   a list of monomials, each monomial a list of variable names (a coefficient n is n copies of the
   monomial).  [+] is append, [*] is the pairwise concatenation of monomials.  There is no subtraction:
   [-] is read like [+], exactly as the flow calculus does (it bounds |y| + |z|); so no cancellation
   can occur and "the variables a value mentions" is well defined.

   A [path] fixes every branch outcome and every loop iteration count of one execution.  A counted
   for-loop the tool accepts as an mwp-loop ([loop_compat = Some X]) runs its body some number of
   times, like a while; the count is arbitrary in this semantics (in C it is determined by X, which
   the body does not mention).  Its header (iterator initialisation / increment) is not executed:
   the fragment is "counted for-loops whose iterator is not otherwise used".  A for-loop that is not
   compatible, constants, and unary forms are outside the fragment: [exec] answers None. *)
From Coq Require Import String List Bool Arith.
From PM Require Import Semiring Poly Rel Analysis.
Import ListNotations.
Open Scope list_scope.

Definition mono_n := list string.
Definition poly_n := list mono_n.

Definition padd (a b : poly_n) : poly_n := a ++ b.
Definition pmul (a b : poly_n) : poly_n := flat_map (fun m1 => map (fun m2 => m1 ++ m2) b) a.

Definition store := string -> poly_n.

(* every variable holds its own input value *)
Definition init : store := fun v => [[v]].

Definition upd (st : store) (x : string) (val : poly_n) : store :=
  fun y => if String.eqb y x then val else st y.

Inductive path :=
| PLeaf                              (* an assignment or a no-op *)
| PSeq (l : list path)               (* one sub-path per statement of a block *)
| PIf (b : bool) (l : list path)     (* the branch taken, one sub-path per statement of that branch *)
| PLoop (iters : list path).         (* one sub-path per iteration of the body *)

Definition exec_bin (op : string) (a b : poly_n) : option poly_n :=
  if String.eqb op "+" || String.eqb op "-" then Some (padd a b)
  else if String.eqb op "*" then Some (pmul a b)
  else None.

(* a statement list against a path list of the same length *)
Definition exec_seq (ex : path -> stmt -> store -> option store) :=
  fix go (ps : list path) (ss : list stmt) (st : store) {struct ps} : option store :=
    match ps, ss with
    | [], [] => Some st
    | p1 :: pr, s1 :: sr => match ex p1 s1 st with Some st' => go pr sr st' | None => None end
    | _, _ => None
    end.

(* one body, once per element of the path list *)
Definition exec_iter (ex : path -> store -> option store) :=
  fix go (its : list path) (st : store) {struct its} : option store :=
    match its with
    | [] => Some st
    | q :: r => match ex q st with Some st' => go r st' | None => None end
    end.

(* None: the path does not fit the statement, or the statement is outside the fragment *)
Fixpoint exec (p : path) (s : stmt) (st : store) {struct p} : option store :=
  match p, s with
  | PLeaf, SSkip _ => Some st
  | PLeaf, SCopy x y => Some (upd st x (st y))
  | PLeaf, SBin x op (AVar y) (AVar z) =>
      match exec_bin op (st y) (st z) with Some val => Some (upd st x val) | None => None end
  | PSeq ps, SBlock l => exec_seq exec ps l st
  | PIf b ps, SIf t e => exec_seq exec ps (if b then t else e) st
  | PLoop its, SWhile _ body => exec_iter (fun q => exec q body) its st
  | PLoop its, SFor iters srcs conds nxt body =>
      match loop_compat iters srcs conds nxt body with
      | Some _ => exec_iter (fun q => exec q body) its st
      | None => None
      end
  | _, _ => None
  end.

(* the constant-free fragment *)
Fixpoint cfree (s : stmt) : bool :=
  match s with
  | SSkip _ => true
  | SCopy _ _ => true
  | SBin _ op (AVar _) (AVar _) => String.eqb op "+" || String.eqb op "-" || String.eqb op "*"
  | SIf t e => forallb cfree t && forallb cfree e
  | SWhile _ b => cfree b
  | SFor iters srcs conds nxt b =>
      match loop_compat iters srcs conds nxt b with Some _ => cfree b | None => false end
  | SBlock l => forallb cfree l
  | _ => false
  end.

Definition cfree_func (f : func_src) : bool := forallb cfree (f_body f).

(* one execution of a function body from the initial store *)
Definition exec_func (p : path) (f : func_src) : option store := exec p (SBlock (f_body f)) init.

(* ---------------- what a bound column says about an exact value ---------------- *)

(* the variables a value mentions *)
Definition pvars (val : poly_n) : list string := concat val.

(* [col u] = the scalar listed for input u in the bound of the variable whose final value is [val]:
   M = max-listed, W = weak-listed, P = poly-listed, O = not listed.
   (1) the value mentions only listed variables;
   (2) a max-listed variable occurs only as one summand with coefficient one: the monomial [u] occurs
       exactly once and u occurs in no other monomial;
   (3) two max-listed variables are never added;
   (4) a max-listed variable is never added to a term containing a weak-listed variable. *)
Definition shape_ok (col : string -> Sc) (val : poly_n) : Prop :=
  (forall u, In u (pvars val) -> col u <> O) /\
  (forall u, col u = M -> In u (pvars val) ->
     count_occ (list_eq_dec string_dec) val [u] = 1 /\
     forall mo, In mo val -> In u mo -> mo = [u]) /\
  (forall u u', col u = M -> col u' = M -> In u (pvars val) -> In u' (pvars val) -> u = u') /\
  (forall u w, col u = M -> col w = W -> In u (pvars val) -> ~ In w (pvars val)).

(* reading a reported table (rows = sources, columns = targets, both in the order of V) *)
Definition tab_get (V : list string) (T : list (list Sc)) (u v : string) : Sc :=
  match index_of_str u V, index_of_str v V with
  | Some i, Some j => nth j (nth i T []) O
  | _, _ => O
  end.
