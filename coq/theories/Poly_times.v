(* Polynomial.times: the product law (pointwise semiring product; zero when either operand has no
   term for the choice), fuel sufficiency, normal form. *)
From Coq Require Import List Bool Arith Lia.
From PM Require Import Semiring Poly Poly_sem Poly_add.
Import ListNotations.

(* a monomial whose deltas can be matched by some choice (always true in pymwp: indices are unique) *)
Definition msat (m : mono) : Prop := exists c, mmatch c (ds m) = true.

Lemma insert_deltas_ok s : forall new cur c0,
  mmatch c0 cur && mmatch c0 new = true ->
  sc (insert_deltas s cur new) = s /\
  forall c, mmatch c (ds (insert_deltas s cur new)) = mmatch c cur && mmatch c new.
Proof.
  induction new as [|d t IH]; intros cur c0 H0; simpl.
  - split; [reflexivity|]. intros c. rewrite andb_true_r. reflexivity.
  - destruct (insert_delta cur d) as [r|] eqn:E.
    + assert (mmatch c0 r && mmatch c0 t = true) as H1.
      { rewrite (insert_delta_some _ _ _ c0 E). rewrite mmatch_cons in H0.
        destruct (mmatch c0 cur), (dmatch c0 d), (mmatch c0 t); simpl in *; congruence. }
      destruct (IH r c0 H1) as [A B]. split; [exact A|].
      intros c. rewrite B, (insert_delta_some _ _ _ c E), ?mmatch_cons.
      destruct (mmatch c cur), (dmatch c d), (mmatch c t); reflexivity.
    + pose proof (insert_delta_none _ _ c0 E) as H1. rewrite mmatch_cons in H0.
      destruct (mmatch c0 cur), (dmatch c0 d); simpl in *; congruence.
Qed.

Lemma mono_copy_sat m : msat m ->
  sc (mono_copy m) = sc m /\ forall c, mmatch c (ds (mono_copy m)) = mmatch c (ds m).
Proof.
  intros [c0 H0]. unfold mono_copy, mk_mono.
  destruct (insert_deltas_ok (sc m) (ds m) [] c0) as [A B]; [simpl; exact H0|].
  split; [exact A|]. intros c. rewrite B. reflexivity.
Qed.

Definition pairval (m1 m2 : mono) (c : choice) : Sc :=
  if mmatch c (ds m1) && mmatch c (ds m2) then sprod (sc m1) (sc m2) else O.

Lemma mval_mprod m1 m2 c : msat m1 -> mval (mprod m1 m2) c = pairval m1 m2 c.
Proof.
  intros Hs. destruct (mono_copy_sat m1 Hs) as [_ Hm]. unfold mprod, pairval.
  destruct (sprod (sc m1) (sc m2)) eqn:Es.
  - unfold mval. simpl. destruct (_ && _); reflexivity.
  - destruct (ds m2) eqn:Ed.
    + unfold mval. simpl. rewrite Hm, andb_true_r. reflexivity.
    + rewrite mval_insert_deltas, Hm. reflexivity.
  - destruct (ds m2) eqn:Ed.
    + unfold mval. simpl. rewrite Hm, andb_true_r. reflexivity.
    + rewrite mval_insert_deltas, Hm. reflexivity.
  - destruct (ds m2) eqn:Ed.
    + unfold mval. simpl. rewrite Hm, andb_true_r. reflexivity.
    + rewrite mval_insert_deltas, Hm. reflexivity.
  - destruct (ds m2) eqn:Ed.
    + unfold mval. simpl. rewrite Hm, andb_true_r. reflexivity.
    + rewrite mval_insert_deltas, Hm. reflexivity.
Qed.

(* value of a table of rows *)
Definition rows_val (rows : list (list mono)) (c : choice) : Sc :=
  fold_right (fun r acc => ssum (val r c) acc) O rows.

Lemma rows_val_cons r rows c : rows_val (r :: rows) c = ssum (val r c) (rows_val rows c).
Proof. reflexivity. Qed.

Lemma insert_row_val row rows c :
  rows_val (insert_row row rows) c = ssum (val row c) (rows_val rows c).
Proof.
  induction rows as [|r rs IH]; simpl.
  - reflexivity.
  - destruct row as [|m1 t1].
    + rewrite !rows_val_cons, IH. generalize (val r c), (rows_val rs c), (val [] c). intros x y z.
      destruct x, y, z; reflexivity.
    + destruct r as [|m2 t2].
      * rewrite !rows_val_cons, IH. generalize (val (m1 :: t1) c), (rows_val rs c), (val [] c). intros x y z.
        destruct x, y, z; reflexivity.
      * destruct (compare (ds m1) (ds m2)); rewrite ?rows_val_cons, ?IH; try reflexivity;
        generalize (val (m1 :: t1) c), (rows_val rs c), (val (m2 :: t2) c); intros x y z;
        destruct x, y, z; reflexivity.
Qed.

Lemma merge_rows_val fuel : forall rows result r c,
  merge_rows fuel rows result = Some r -> val r c = ssum (val result c) (rows_val rows c).
Proof.
  induction fuel as [|f IH]; intros rows result r c H; cbn [merge_rows] in H.
  - destruct rows; [|discriminate]. injection H as <-. simpl. rewrite ssum_O_r. reflexivity.
  - destruct rows as [|row rest].
    + injection H as <-. simpl. rewrite ssum_O_r. reflexivity.
    + destruct row as [|m tl].
      * apply (IH _ _ _ c) in H. rewrite H, rows_val_cons, val_nil, ssum_O_l. reflexivity.
      * destruct (pincl result m 0) as [[tobe i'] res1] eqn:E. cbv beta iota in H.
        apply (IH _ _ _ c) in H. rewrite H, rows_val_cons, val_cons.
        assert (rows_val (match tl with [] => rest | _ :: _ => insert_row tl rest end) c
                = ssum (val tl c) (rows_val rest c)) as Hr.
        { destruct tl; [rewrite val_nil, ssum_O_l; reflexivity | apply insert_row_val]. }
        rewrite Hr. clear Hr H.
        destruct tobe.
        -- destruct (pincl_val _ _ _ c _ _ _ E) as [H1 _].
           rewrite val_app, val_cons, val_nil, ssum_O_r, H1.
           generalize (val result c), (mval m c), (val tl c), (rows_val rest c). intros x y z w.
           destruct x, y, z, w; reflexivity.
        -- rewrite (pincl_val_false _ _ _ c _ _ E).
           generalize (val result c), (mval m c), (val tl c), (rows_val rest c). intros x y z w.
           destruct x, y, z, w; reflexivity.
Qed.

Lemma insert_row_total row rows : total_len (insert_row row rows) = length row + total_len rows.
Proof.
  induction rows as [|r rs IH]; simpl; [lia|].
  destruct row as [|m1 t1]; [simpl in *; lia|].
  destruct r as [|m2 t2]; [simpl in *; lia|].
  destruct (compare (ds m1) (ds m2)); simpl in *; lia.
Qed.

Lemma insert_row_nonempty row rows : row <> [] -> Forall (fun r => r <> []) rows ->
  Forall (fun r => r <> []) (insert_row row rows).
Proof.
  intros Hr. induction rows as [|r rs IH]; intros H; simpl.
  - constructor; [exact Hr | constructor].
  - inversion H; subst. destruct row as [|m1 t1]; [congruence|]. destruct r as [|m2 t2]; [congruence|].
    destruct (compare (ds m1) (ds m2)); constructor; auto.
Qed.

Lemma merge_rows_fuel_ok fuel : forall rows result,
  total_len rows < fuel -> Forall (fun r => r <> []) rows ->
  exists r, merge_rows fuel rows result = Some r.
Proof.
  induction fuel as [|f IH]; intros rows result Hf Hne; [lia|].
  cbn [merge_rows]. destruct rows as [|row rest]; [eexists; reflexivity|].
  inversion Hne as [|? ? Hrow Hrest]; subst.
  destruct row as [|m tl]; [congruence|].
  destruct (pincl result m 0) as [[tobe i'] res1].
  cbn [total_len fold_right length] in Hf. fold (total_len rest) in Hf.
  destruct tl as [|m' tl'].
  - apply IH; [cbn [length] in Hf; lia | exact Hrest].
  - apply IH.
    + rewrite insert_row_total. lia.
    + apply insert_row_nonempty; [discriminate | exact Hrest].
Qed.

(* ---- the double sum ---- *)

Definition row_pairs (p : poly) (m2 : mono) (c : choice) : Sc :=
  fold_right (fun m1 acc => ssum (pairval m1 m2 c) acc) O p.

Definition pairsum (p q : poly) (c : choice) : Sc :=
  fold_right (fun m2 acc => ssum (row_pairs p m2 c) acc) O q.

Lemma row_product_val p m2 c : Forall msat p ->
  val (filter (fun m => negb (is_O (sc m))) (map (fun m1 => mprod m1 m2) p)) c = row_pairs p m2 c.
Proof.
  intros Hs. rewrite val_filter_nz. induction p as [|m1 p IH]; simpl; [reflexivity|].
  inversion Hs; subst. rewrite val_cons, IH, mval_mprod by assumption. reflexivity.
Qed.

Lemma rows_val_filter_nonempty rows c :
  rows_val (filter (fun r => negb (is_nil r)) rows) c = rows_val rows c.
Proof.
  induction rows as [|r rs IH]; simpl; [reflexivity|].
  destruct r; simpl; rewrite ?rows_val_cons, IH; [rewrite val_nil, ssum_O_l|]; reflexivity.
Qed.

Lemma products_val p q c : Forall msat p -> rows_val (products p q) c = pairsum p q c.
Proof.
  intros Hs. unfold products. induction q as [|m2 q IH]; simpl; [reflexivity|].
  rewrite row_product_val, IH by assumption. reflexivity.
Qed.

Lemma fold_insert_row_val rest : forall acc c,
  rows_val (fold_left (fun a r => insert_row r a) rest acc) c = ssum (rows_val rest c) (rows_val acc c).
Proof.
  induction rest as [|r rs IH]; intros acc c; simpl.
  - rewrite ssum_O_l. reflexivity.
  - rewrite IH, insert_row_val. generalize (val r c), (rows_val rs c), (rows_val acc c). intros x y z.
    destruct x, y, z; reflexivity.
Qed.

Lemma order_rows_val table c : rows_val (order_rows table) c = rows_val table c.
Proof.
  destruct table as [|r0 rest]; [reflexivity|]. unfold order_rows.
  rewrite fold_insert_row_val. simpl. rewrite ssum_O_r. apply ssum_comm.
Qed.

Lemma fold_insert_row_total rest : forall acc,
  total_len (fold_left (fun a r => insert_row r a) rest acc) = total_len rest + total_len acc.
Proof.
  induction rest as [|r rs IH]; intros acc; simpl; [reflexivity|].
  rewrite IH, insert_row_total. lia.
Qed.

Lemma fold_insert_row_nonempty rest : forall acc,
  Forall (fun r => r <> []) rest -> Forall (fun r => r <> []) acc ->
  Forall (fun r => r <> []) (fold_left (fun a r => insert_row r a) rest acc).
Proof.
  induction rest as [|r rs IH]; intros acc H1 H2; simpl; [exact H2|].
  inversion H1; subst. apply IH; [assumption | apply insert_row_nonempty; assumption].
Qed.

Lemma table_nonempty p q : Forall (fun r => r <> []) (table_of p q).
Proof.
  unfold table_of. apply Forall_forall. intros r Hr. apply filter_In in Hr. destruct Hr as [_ Hr].
  destruct r; [discriminate | discriminate].
Qed.

Theorem ptimes_opt_total p q : exists r, ptimes_opt p q = Some r.
Proof.
  unfold ptimes_opt. pose proof (table_nonempty p q) as Hne.
  destruct (table_of p q) as [|r0 rest] eqn:Et; [eexists; reflexivity|].
  destruct (merge_rows_fuel_ok (total_len (r0 :: rest) + 1) (order_rows (r0 :: rest)) []) as [r Hr].
  - unfold order_rows. rewrite fold_insert_row_total. simpl. lia.
  - unfold order_rows. inversion Hne; subst. apply fold_insert_row_nonempty; [assumption|].
    constructor; [assumption | constructor].
  - rewrite Hr. eexists. reflexivity.
Qed.

Theorem ptimes_pairsum p q c : Forall msat p -> val (ptimes p q) c = pairsum p q c.
Proof.
  intros Hs. unfold ptimes. destruct (ptimes_opt_total p q) as [r Hr]. rewrite Hr.
  unfold ptimes_opt in Hr.
  assert (rows_val (table_of p q) c = pairsum p q c) as Ht.
  { unfold table_of. rewrite rows_val_filter_nonempty. apply products_val. exact Hs. }
  destruct (table_of p q) as [|r0 rest] eqn:Et.
  - injection Hr as <-. rewrite <- Ht. reflexivity.
  - destruct (merge_rows _ _ _) as [res|] eqn:Em; [|discriminate]. injection Hr as <-.
    rewrite remove_zeros_val, val_mk_poly, (merge_rows_val _ _ _ _ c Em), val_nil, ssum_O_l, order_rows_val.
    exact Ht.
Qed.

(* ---- distributivity: the double sum is the product of the sums, unless one side has no term ---- *)

Lemma row_pairs_nomatch p m2 c : mmatch c (ds m2) = false -> row_pairs p m2 c = O.
Proof.
  intros H. induction p as [|m1 p IH]; simpl; [reflexivity|].
  rewrite IH. unfold pairval. rewrite H, andb_false_r. reflexivity.
Qed.

Lemma terms_cons m p c :
  terms (m :: p) c = if mmatch c (ds m) then sc m :: terms p c else terms p c.
Proof. unfold terms. simpl. destruct (mmatch c (ds m)); reflexivity. Qed.

Lemma val_terms_nil p c : terms p c = [] -> val p c = O.
Proof. unfold val. intros ->. reflexivity. Qed.

Lemma row_pairs_match p m2 c : mmatch c (ds m2) = true ->
  row_pairs p m2 c = match terms p c with [] => O | _ => sprod (val p c) (sc m2) end.
Proof.
  intros H. induction p as [|m1 p IH]; [reflexivity|].
  cbn [row_pairs fold_right]. fold (row_pairs p m2 c). rewrite IH, terms_cons, val_cons.
  unfold pairval, mval. rewrite H, andb_true_r.
  destruct (mmatch c (ds m1)).
  - destruct (terms p c) eqn:Et.
    + rewrite (val_terms_nil _ _ Et). generalize (sc m1), (sc m2). intros x y. destruct x, y; reflexivity.
    + generalize (sc m1), (sc m2), (val p c). intros x y z. destruct x, y, z; reflexivity.
  - rewrite !ssum_O_l. reflexivity.
Qed.

Theorem pairsum_prod p q c :
  pairsum p q c = match terms p c, terms q c with
                  | [], _ | _, [] => O
                  | _, _ => sprod (val p c) (val q c)
                  end.
Proof.
  induction q as [|m2 q IH].
  - simpl. destruct (terms p c); reflexivity.
  - cbn [pairsum fold_right]. fold (pairsum p q c). rewrite IH, terms_cons, val_cons. unfold mval.
    destruct (mmatch c (ds m2)) eqn:Em.
    + rewrite (row_pairs_match _ _ _ Em).
      destruct (terms p c) as [|a l] eqn:Ep; [reflexivity|].
      destruct (terms q c) as [|b l'] eqn:Eq.
      * rewrite (val_terms_nil _ _ Eq). generalize (val p c), (sc m2). intros x y. destruct x, y; reflexivity.
      * generalize (val p c), (sc m2), (val q c). intros x y z. destruct x, y, z; reflexivity.
    + rewrite (row_pairs_nomatch _ _ _ Em), !ssum_O_l. reflexivity.
Qed.

Theorem ptimes_val p q c : Forall msat p ->
  val (ptimes p q) c = match terms p c, terms q c with
                       | [], _ | _, [] => O
                       | _, _ => sprod (val p c) (val q c)
                       end.
Proof. intros Hs. rewrite (ptimes_pairsum _ _ _ Hs). apply pairsum_prod. Qed.

(* ---- normal form ---- *)

Theorem ptimes_nfz p q : NFz (ptimes p q).
Proof.
  unfold ptimes. destruct (ptimes_opt_total p q) as [r Hr]. rewrite Hr.
  unfold ptimes_opt in Hr. destruct (table_of p q); [injection Hr as <-; left; reflexivity|].
  destruct (merge_rows _ _ _); [|discriminate]. injection Hr as <-. apply remove_zeros_NFz.
Qed.

(* no two terms of the result have the same delta list: stronger, no term's deltas are contained in
   another's with a comparable scalar -- we prove the delta-list clause *)
Definition no_same_ds (l : list mono) : Prop :=
  forall i j a b, nth_error l i = Some a -> nth_error l j = Some b -> i <> j -> ds a <> ds b.

Lemma mcontains_refl_ds a b : ds a = ds b -> mcontains a b = true.
Proof.
  intros H. unfold mcontains. rewrite H. apply forallb_forall. intros d Hd. apply delta_in_In. exact Hd.
Qed.

Lemma minclusion_same_ds a b : ds a = ds b -> minclusion a b <> EMPTYI.
Proof.
  intros H. unfold minclusion.
  rewrite (mcontains_refl_ds a b H), (mcontains_refl_ds b a (eq_sym H)). simpl.
  destruct (sc a), (sc b); simpl; discriminate.
Qed.

(* all elements of the pruned list answer EMPTYI when the verdict is "insert" *)
Lemma pincl_go_true rest mn : forall j i acc i' nl,
  pincl_go rest mn j i acc = (true, i', nl) ->
  Forall (fun m => minclusion m mn = EMPTYI) acc ->
  Forall (fun m => minclusion m mn = EMPTYI) nl /\
  (forall x, In x nl -> In x acc \/ In x rest).
Proof.
  induction rest as [|m t IH]; intros j i acc i' nl H Ha; simpl in H.
  - inversion H; subst. split.
    + apply Forall_rev. exact Ha.
    + intros x Hx. left. apply in_rev. exact Hx.
  - destruct (minclusion m mn) eqn:E.
    + destruct (IH _ _ _ _ _ H Ha) as [A B]. split; [exact A|].
      intros x Hx. destruct (B x Hx); [left; assumption | right; right; assumption].
    + discriminate.
    + destruct (IH _ _ _ _ _ H) as [A B]; [constructor; assumption|]. split; [exact A|].
      intros x Hx. destruct (B x Hx) as [[->|Hi]|Hi]; [right; left; reflexivity | left; assumption | right; right; assumption].
Qed.

Lemma pincl_go_sub rest mn : forall j i acc b i' nl,
  pincl_go rest mn j i acc = (b, i', nl) ->
  exists keep, nl = rev acc ++ keep /\ (forall x, In x keep -> In x rest) /\
               (NoDup (map ds rest) -> NoDup (map ds keep)).
Proof.
  induction rest as [|m t IH]; intros j i acc b i' nl H; simpl in H.
  - inversion H; subst. exists []. rewrite app_nil_r.
    split; [reflexivity|]. split; [intros x [] | intros _; constructor].
  - destruct (minclusion m mn).
    + destruct (IH _ _ _ _ _ _ H) as [k [A [B C]]]. exists k. split; [exact A|]. split.
      * intros x Hx. right. apply B. exact Hx.
      * intros Hn. inversion Hn; subst. auto.
    + inversion H; subst. exists (m :: t). rewrite rev_append_rev.
      split; [reflexivity|]. split; [intros x Hx; exact Hx | intros Hn; exact Hn].
    + destruct (IH _ _ _ _ _ _ H) as [k [A [B C]]]. exists (m :: k). split.
      * rewrite A. simpl. rewrite <- app_assoc. reflexivity.
      * split.
        -- intros x [->|Hx]; [left; reflexivity | right; apply B; exact Hx].
        -- intros Hn. inversion Hn as [|? ? Hnot Hn']; subst. simpl. constructor; [|auto].
           intros Hin. apply Hnot. apply in_map_iff in Hin. destruct Hin as [x [Hx Hin]].
           apply in_map_iff. exists x. split; [exact Hx | apply B; exact Hin].
Qed.

Lemma NoDup_app_single {A} (l : list A) a : NoDup l -> ~ In a l -> NoDup (l ++ [a]).
Proof.
  induction l as [|x l IH]; intros Hn Hin; simpl.
  - constructor; [intros [] | constructor].
  - inversion Hn; subst. constructor.
    + rewrite in_app_iff. simpl. intros [H|[H|[]]]; [contradiction | subst; apply Hin; left; reflexivity].
    + apply IH; [assumption | intros H; apply Hin; right; exact H].
Qed.

Lemma pincl_step_nodup result m b i' res1 :
  pincl result m 0 = (b, i', res1) -> NoDup (map ds result) ->
  NoDup (map ds (if b then res1 ++ [m] else res1)).
Proof.
  unfold pincl. intros H Hn.
  destruct (pincl_go_sub _ _ _ _ _ _ _ _ H) as [k [A [B C]]]. simpl in A. subst res1.
  specialize (C Hn). destruct b; [|exact C].
  destruct (pincl_go_true _ _ _ _ _ _ _ H (Forall_nil _)) as [F _].
  rewrite map_app. simpl. apply NoDup_app_single; [exact C|].
  intros Hin. apply in_map_iff in Hin. destruct Hin as [x [Hx Hin]].
  rewrite Forall_forall in F. specialize (F x Hin).
  exact (minclusion_same_ds _ _ Hx F).
Qed.

Lemma merge_rows_nodup fuel : forall rows result r,
  merge_rows fuel rows result = Some r -> NoDup (map ds result) -> NoDup (map ds r).
Proof.
  induction fuel as [|f IH]; intros rows result r H Hn; cbn [merge_rows] in H.
  - destruct rows; [|discriminate]. injection H as <-. exact Hn.
  - destruct rows as [|row rest]; [injection H as <-; exact Hn|].
    destruct row as [|m tl]; [eapply IH; eassumption|].
    destruct (pincl result m 0) as [[tobe i'] res1] eqn:E. cbv beta iota in H.
    eapply IH; [exact H|]. eapply pincl_step_nodup; eassumption.
Qed.

Lemma NoDup_filter_map {A B} (g : A -> B) f (l : list A) : NoDup (map g l) -> NoDup (map g (filter f l)).
Proof.
  induction l as [|x l IH]; simpl; intros H; [constructor|].
  inversion H as [|? ? Hnot Hn]; subst. destruct (f x); simpl; [|auto].
  constructor; [|auto]. intros Hin. apply Hnot. apply in_map_iff in Hin. destruct Hin as [y [Hy Hin]].
  apply in_map_iff. exists y. split; [exact Hy|]. apply filter_In in Hin. tauto.
Qed.

Theorem ptimes_nodup p q : NoDup (map ds (ptimes p q)).
Proof.
  unfold ptimes. destruct (ptimes_opt_total p q) as [r Hr]. rewrite Hr.
  unfold ptimes_opt in Hr. destruct (table_of p q).
  - injection Hr as <-. simpl. constructor; [intros [] | constructor].
  - destruct (merge_rows _ _ _) as [res|] eqn:Em; [|discriminate]. injection Hr as <-.
    pose proof (merge_rows_nodup _ _ _ _ Em (NoDup_nil _)) as Hn.
    unfold remove_zeros.
    pose proof (NoDup_filter_map ds (fun m => negb (is_O (sc m))) (mk_poly res)) as Hf.
    assert (NoDup (map ds (mk_poly res))) as Hm.
    { destruct res; [simpl; constructor; [intros [] | constructor] | exact Hn]. }
    specialize (Hf Hm).
    destruct (filter (fun m => negb (is_O (sc m))) (mk_poly res)); [simpl; constructor; [intros [] | constructor] | exact Hf].
Qed.

Theorem ptimes_nf p q : NFz (ptimes p q) /\ NoDup (map ds (ptimes p q)).
Proof. split; [apply ptimes_nfz | apply ptimes_nodup]. Qed.

Lemma pchoice_val p c least :
  pchoice p c least = match terms p c with [] => least | _ => Some (val p c) end.
Proof. unfold pchoice, val. destruct (terms p c); reflexivity. Qed.

Lemma mval_mprod_stmt m1 m2 c : msat m1 ->
  mval (mprod m1 m2) c = if mmatch c (ds m1) && mmatch c (ds m2) then sprod (sc m1) (sc m2) else O.
Proof. exact (mval_mprod m1 m2 c). Qed.

(* non-vacuity: the analysis' leaf forms satisfy the hypotheses and exercise both branches *)
Example leaf_forms_sat :
  Forall msat (from_scalars 3 [M; P; W]) /\ Forall msat (from_scalars 0 [W; W; W]) /\
  val (ptimes (from_scalars 0 [M; P; W]) (from_scalars 1 [P; M; W])) (choice_of_list [1; 2]) = P /\
  val (ptimes (from_scalars 0 [M; P; W]) [Mono I [(0, 1)]]) (choice_of_list [1; 2]) = O /\
  val (padd (from_scalars 0 [M; P; W]) [Mono I [(0, 1)]]) (choice_of_list [1; 0]) = I.
Proof.
  repeat split; try reflexivity;
  repeat constructor; try (exists (fun _ => 0); reflexivity); try (exists (fun _ => 1); reflexivity);
  try (exists (fun _ => 2); reflexivity).
Qed.
