(* Infrastructure lemmas for the walkers of Syntax.v: unfolding of the annotation scheme into
   "recursive equations" over child lookups, list helpers, the generated tables pinned. *)
From Coq Require Import String List Bool Arith Lia.
From PMGen Require Import SyntaxGen PycSchema.
From PM Require Import Tree Syntax.
Import ListNotations.
Open Scope string_scope.
Open Scope list_scope.

(* ---------- the model knows exactly the methods the code defines (fail closed) ---------- *)
Lemma coverage_methods_known :
  COVERAGE_METHODS = ["Assignment"; "BinaryOp"; "Cast"; "Decl"; "DoWhile"; "For"; "FuncCall"; "FuncDef"; "If"; "Return"; "UnaryOp"; "While"].
Proof. reflexivity. Qed.
Lemma findloops_methods_known : FINDLOOPS_METHODS = ["DoWhile"; "For"; "FuncDef"; "If"; "Switch"; "While"].
Proof. reflexivity. Qed.
Lemma vars_methods_known :
  VARS_METHODS = ["Assignment"; "BinaryOp"; "Cast"; "Decl"; "DoWhile"; "For"; "FuncDef"; "ID"; "If"; "Return"; "UnaryOp"; "While"].
Proof. reflexivity. Qed.
Lemma base_iter_known :
  BASE_ITER = [("Case", "stmts"); ("Compound", "block_items"); ("DeclList", "decls"); ("Default", "stmts"); ("ExprList", "exprs"); ("ParamList", "params")].
Proof. reflexivity. Qed.
Lemma funccall_is_listed : in_s "FuncCall" NODEHANDLER_METHODS = true.
Proof. reflexivity. Qed.
Lemma cr_dispatch_known :
  CR_DISPATCH = [(["UnaryOp"], "unary_op"); (["If"], "if_stmt"); (["While"; "DoWhile"], "while_loop"); (["For"], "for_loop"); (["Compound"], "compound")]
  /\ CR_ASSIGN_RV = [("BinaryOp", "binary_op"); ("Constant", "constant"); ("UnaryOp", "unary_asgn"); ("ID", "id")]
  /\ CR_SKIP = ["Return"; "Break"; "Continue"; "EmptyStatement"; "Decl"].
Proof. repeat split. Qed.

(* ---------- strings ---------- *)
Lemma in_s_In x l : in_s x l = true <-> In x l.
Proof.
  unfold in_s. rewrite existsb_exists. split.
  - intros [y [Hy E]]. apply String.eqb_eq in E. subst. exact Hy.
  - intros H. exists x. split; [exact H | apply String.eqb_refl].
Qed.

Lemma in_s_false x l : in_s x l = false <-> ~ In x l.
Proof. rewrite <- in_s_In. destruct (in_s x l); split; congruence. Qed.

(* ---------- annotation scheme ---------- *)
Section Walk.
  Context {R : Type}.
  Variable step : string -> list (string * string) -> list (string * list node) -> list (string * list (ann R)) -> R.

  Definition annk (ks : list (string * list node)) : list (string * list (ann R)) :=
    map (fun sk => (fst sk, map (annotate step) (snd sk))) ks.

  Lemma walk_eq c a ks : walk step (Node c a ks) = step c a ks (annk ks).
  Proof. reflexivity. Qed.

  Lemma annotate_eq c a ks : annotate step (Node c a ks) = Ann (step c a ks (annk ks)) (Node c a ks) (annk ks).
  Proof. reflexivity. Qed.

  Lemma ares_annotate n : ares (annotate step n) = walk step n.
  Proof. reflexivity. Qed.

  Lemma anode_annotate n : anode (annotate step n) = n.
  Proof. destruct n; reflexivity. Qed.

  Lemma akids_annotate n : akids (annotate step n) = annk (nkids n).
  Proof. destruct n; reflexivity. Qed.

  Lemma assoc_annk s ks : assoc s (annk ks) = option_map (map (annotate step)) (assoc s ks).
  Proof.
    induction ks as [|[s' l] ks IH]; simpl; [reflexivity|].
    destruct (String.eqb s s'); [reflexivity | exact IH].
  Qed.

  Lemma akl_annk s ks : akl (annk ks) s = map (annotate step) (match assoc s ks with Some l => l | None => [] end).
  Proof. unfold akl. rewrite assoc_annk. destruct (assoc s ks); reflexivity. Qed.

  Lemma akl_node c a ks s : akl (annk ks) s = map (annotate step) (kidl (Node c a ks) s).
  Proof. rewrite akl_annk. reflexivity. Qed.

  Lemma ak1_node c a ks s : ak1 (annk ks) s = option_map (annotate step) (kid1 (Node c a ks) s).
  Proof.
    unfold ak1, kid1. rewrite (akl_node c a ks s).
    destruct (kidl (Node c a ks) s); reflexivity.
  Qed.
End Walk.

(* children found by lookup are covered by the induction hypothesis of node_ind' *)
Lemma Forall_kidl (P : node -> Prop) c a ks s :
  Forall (fun sk => Forall P (snd sk)) ks -> Forall P (kidl (Node c a ks) s).
Proof.
  intros H. unfold kidl, slot. simpl.
  induction ks as [|[s' l] ks IH]; simpl; [constructor|].
  inversion H; subst. destruct (String.eqb s s'); [assumption | apply IH; assumption].
Qed.

Lemma Forall_kid1 (P : node -> Prop) c a ks s x :
  Forall (fun sk => Forall P (snd sk)) ks -> kid1 (Node c a ks) s = Some x -> P x.
Proof.
  intros H E. pose proof (Forall_kidl P c a ks s H) as F. unfold kid1 in E.
  destruct (kidl (Node c a ks) s); [discriminate|]. inversion E; subst. inversion F; assumption.
Qed.

(* ---------- mapi ---------- *)
Lemma mapi_from_app {A B} (f : nat -> A -> B) k l1 l2 :
  mapi_from f k (l1 ++ l2) = mapi_from f k l1 ++ mapi_from f (k + length l1) l2.
Proof.
  revert k. induction l1 as [|x l1 IH]; intros k; simpl.
  - rewrite Nat.add_0_r. reflexivity.
  - rewrite IH. replace (S k + length l1) with (k + S (length l1)) by lia. reflexivity.
Qed.

Lemma mapi_from_ext {A B} (f g : nat -> A -> B) k l :
  (forall i x, nth_error l i = Some x -> f (k + i) x = g (k + i) x) -> mapi_from f k l = mapi_from g k l.
Proof.
  revert k. induction l as [|x l IH]; intros k H; simpl; [reflexivity|].
  f_equal.
  - specialize (H 0 x eq_refl). rewrite Nat.add_0_r in H. exact H.
  - apply IH. intros i y Hy. specialize (H (S i) y Hy). replace (S k + i) with (k + S i) by lia. exact H.
Qed.

Lemma mapi_from_length {A B} (f : nat -> A -> B) k l : length (mapi_from f k l) = length l.
Proof. revert k. induction l; intros; simpl; [reflexivity | f_equal; apply IHl]. Qed.

Lemma path_eqb_refl p : path_eqb p p = true.
Proof.
  induction p as [|[s i] p IH]; simpl; [reflexivity|].
  unfold step_eqb; simpl. rewrite String.eqb_refl, Nat.eqb_refl, IH. reflexivity.
Qed.

Lemma step_eqb_eq a b : step_eqb a b = true <-> a = b.
Proof.
  destruct a as [s i], b as [t j]. unfold step_eqb; simpl. rewrite andb_true_iff, String.eqb_eq, Nat.eqb_eq.
  split; [intros [-> ->]; reflexivity | intros H; inversion H; auto].
Qed.

Lemma path_eqb_eq p q : path_eqb p q = true <-> p = q.
Proof.
  revert q. induction p as [|a p IH]; intros [|b q]; simpl; try (split; congruence).
  rewrite andb_true_iff, step_eqb_eq, IH. split; [intros [-> ->]; reflexivity | intros H; inversion H; auto].
Qed.
