(* C11: invariant of insert_node / fusion over arbitrary histories.
   Inv deg ins g: neighbour dictionaries duplicate-free, nodes in the bucket of their
   length, edges symmetric, no dangling edge, every present node and every neighbour
   well-formed and covered by the inserted tuples [ins], every edge labelled l joins
   tuples that agree off index l and differ at l. *)
From Coq Require Import String List Arith Bool Lia.
From PM Require Import DeltaGraph DeltaGraph_base DeltaGraph_node DeltaGraph_remove.
Import ListNotations.
Open Scope list_scope.

Definition Inv (deg : nat) (ins : list node) (g : graph) : Prop :=
  ND g /\ K1 g /\ S1 g /\ DG [] g /\ SI deg ins g.

Lemma good_incl deg ins ins' n : incl ins ins' -> good deg ins n -> good deg ins' n.
Proof. intros Hi [A B]. split; auto. eapply covered_incl; eauto. Qed.

Lemma Inv_incl deg ins ins' g : incl ins ins' -> Inv deg ins g -> Inv deg ins' g.
Proof.
  intros Hi [A [B [C [D E]]]]. unfold Inv. splits; auto.
  intros s a na H. destruct (E s a na H) as [G F]. split; [eapply good_incl; eauto|].
  intros b l Hl. destruct (F b l Hl) as [G' F']. split; auto. eapply good_incl; eauto.
Qed.

Lemma Inv_empty deg ins : Inv deg ins [].
Proof. unfold Inv, ND, K1, S1, DG, SI, glookup. simpl. splits; intros; discriminate. Qed.

(* ------------------------------------------------------------------ *)
(* one entry changed, buckets may have been added                      *)
(* ------------------------------------------------------------------ *)
Definition gupd0 (g g' : graph) (s : nat) (n : node) (o : option nbrs) : Prop :=
  glookup g' s n = o /\ (forall s' m, s' <> s \/ m <> n -> glookup g' s' m = glookup g s' m).

Lemma gupd_gupd0 g g' s n o : gupd g g' s n o -> gupd0 g g' s n o.
Proof. intros [A [B _]]. split; auto. Qed.

Lemma gupd0_cases g g' s n o :
  gupd0 g g' s n o -> forall s0 m,
    (s0 = s /\ m = n /\ glookup g' s0 m = o) \/
    ((s0 <> s \/ m <> n) /\ glookup g' s0 m = glookup g s0 m).
Proof.
  intros [U1 U2] s0 m. destruct (Nat.eq_dec s0 s) as [->|Hs].
  - destruct (node_eq_dec m n) as [->|Hm]; [left; auto | right; split; auto].
  - right. split; auto.
Qed.

(* a new isolated node *)
Lemma Inv_add_isolated deg ins g g' s n :
  gupd0 g g' s n (Some []) -> glookup g s n = None -> length n = s -> good deg ins n ->
  Inv deg ins g -> Inv deg ins g'.
Proof.
  intros U Hn Hl Hg [A [B [C [D E]]]]. unfold Inv. splits.
  - intros s0 a na H. destruct (gupd0_cases _ _ _ _ _ U s0 a) as [[-> [-> X]]|[_ X]]; rewrite X in H.
    + inversion H. constructor.
    + eauto.
  - intros s0 a na H. destruct (gupd0_cases _ _ _ _ _ U s0 a) as [[-> [-> X]]|[_ X]]; rewrite X in H; eauto.
  - intros s0 a na b l nb Ha Hlb Hb.
    destruct (gupd0_cases _ _ _ _ _ U s0 a) as [[-> [-> X]]|[_ X]]; rewrite X in Ha.
    + inversion Ha. subst na. discriminate.
    + destruct (gupd0_cases _ _ _ _ _ U s0 b) as [[-> [-> Y]]|[_ Y]]; rewrite Y in Hb.
      * exfalso. apply (D s a na n l Ha Hlb Hn).
      * eauto.
  - intros s0 a na b l Ha Hlb Hb.
    destruct (gupd0_cases _ _ _ _ _ U s0 a) as [[-> [-> X]]|[_ X]]; rewrite X in Ha.
    + inversion Ha. subst na. discriminate.
    + destruct (gupd0_cases _ _ _ _ _ U s0 b) as [[-> [-> Y]]|[_ Y]]; rewrite Y in Hb; [discriminate|].
      eauto.
  - intros s0 a na H. destruct (gupd0_cases _ _ _ _ _ U s0 a) as [[-> [-> X]]|[_ X]]; rewrite X in H.
    + inversion H. split; auto; intros b l Hb; discriminate.
    + eauto.
Qed.

(* ------------------------------------------------------------------ *)
(* insert_edge                                                         *)
(* ------------------------------------------------------------------ *)
Definition nbs_or_nil (g : graph) (s : nat) (n : node) : nbrs :=
  match glookup g s n with Some x => x | None => [] end.

Lemma ensure_spec (g : graph) s n (bk : bucket) :
  lookup Nat.eqb s g = Some bk ->
  exists g1, (if amem node_eqb n bk then Ok g else add_node g s n) = Ok g1 /\
             gupd g g1 s n (Some (nbs_or_nil g s n)).
Proof.
  intros H. destruct (amem node_eqb n bk) eqn:E.
  - exists g. split; auto. apply amem_true in E.
    assert (Hg : glookup g s n = lookup node_eqb n bk) by (unfold glookup; rewrite H; reflexivity).
    unfold nbs_or_nil. rewrite Hg. destruct (lookup node_eqb n bk) as [x|] eqn:El; [|congruence].
    split; [|split]; auto using bk_eq_refl.
  - apply amem_false in E.
    assert (Hg : glookup g s n = None) by (unfold glookup; rewrite H; exact E).
    unfold nbs_or_nil. rewrite Hg. apply add_node_spec with (bk := bk). exact H.
Qed.

Lemma insert_edge_spec (g : graph) a b l :
  has_bucket g (length a) ->
  exists g', insert_edge g a b l = Ok g' /\ bk_eq g g' /\
    (a <> b ->
     glookup g' (length a) a = Some (aset node_eqb b l (nbs_or_nil g (length a) a)) /\
     glookup g' (length a) b = Some (aset node_eqb a l (nbs_or_nil g (length a) b)) /\
     (forall s m, s <> length a \/ (m <> a /\ m <> b) -> glookup g' s m = glookup g s m)).
Proof.
  intros Hb. unfold insert_edge. set (s := length a) in *.
  destruct (has_bucket_get g s Hb) as [bk Hbk]. unfold get_bucket at 1. rewrite Hbk. simpl.
  destruct (ensure_spec g s a bk Hbk) as [g1 [E1 U1]]. rewrite E1. simpl.
  destruct (set_edge_spec g1 s a b l _ (proj1 U1)) as [g2 [E2 U2]]. rewrite E2. simpl.
  assert (Hb2 : has_bucket g2 s) by (apply (proj2 (proj2 U2)), (proj2 (proj2 U1)); exact Hb).
  destruct (has_bucket_get g2 s Hb2) as [bk2 Hbk2]. unfold get_bucket. rewrite Hbk2. simpl.
  destruct (ensure_spec g2 s b bk2 Hbk2) as [g3 [E3 U3]]. rewrite E3. simpl.
  destruct (set_edge_spec g3 s b a l _ (proj1 U3)) as [g4 [E4 U4]]. rewrite E4.
  exists g4. split; auto. split.
  - apply (bk_eq_trans g g3 g4); [|apply (proj2 (proj2 U4))].
    apply (bk_eq_trans g g2 g3); [|apply (proj2 (proj2 U3))].
    apply (bk_eq_trans g g1 g2); [|apply (proj2 (proj2 U2))]. apply (proj2 (proj2 U1)).
  - intros Hab.
    assert (Hg2b : glookup g2 s b = glookup g s b).
    { rewrite (proj1 (proj2 U2) s b); auto. rewrite (proj1 (proj2 U1) s b); auto. }
    split; [|split].
    + rewrite (proj1 (proj2 U4) s a); auto. rewrite (proj1 (proj2 U3) s a); auto. apply (proj1 U2).
    + rewrite (proj1 U4). unfold nbs_or_nil. rewrite Hg2b. reflexivity.
    + intros s0 m Hm.
      assert (Ha' : s0 <> s \/ m <> a) by tauto. assert (Hb' : s0 <> s \/ m <> b) by tauto.
      rewrite (proj1 (proj2 U4) s0 m Hb'), (proj1 (proj2 U3) s0 m Hb'), (proj1 (proj2 U2) s0 m Ha'),
        (proj1 (proj2 U1) s0 m Ha'). reflexivity.
Qed.

Lemma lookup_aset_inv x b l (na : nbrs) l' :
  lookup node_eqb x (aset node_eqb b l na) = Some l' ->
  (x = b /\ l' = l) \/ (x <> b /\ lookup node_eqb x na = Some l').
Proof.
  intros H. destruct (node_eq_dec b x) as [->|Hne].
  - rewrite (lookup_aset_eq node_eqb node_eqb_eq) in H. inversion H. auto.
  - rewrite (lookup_aset_neq node_eqb node_eqb_eq) in H; auto.
Qed.

Lemma lookup_nbs_or_nil (g : graph) s a x l :
  lookup node_eqb x (nbs_or_nil g s a) = Some l ->
  exists na : nbrs, glookup g s a = Some na /\ lookup node_eqb x na = Some l.
Proof.
  unfold nbs_or_nil. destruct (glookup g s a) as [na|]; [eauto | discriminate].
Qed.

Section InsertEdgeInv.
  Variables (deg : nat) (ins : list node) (g g' : graph) (a b : node) (l : nat).
  Let s := length a.
  Hypothesis HI : Inv deg ins g.
  Hypothesis Ga : good deg ins a.
  Hypothesis Gb : good deg ins b.
  Hypothesis Eab : edge_ok a b l.
  Hypothesis Hab : a <> b.
  Hypothesis Hlen : length b = s.
  Hypothesis Ha : glookup g' s a = Some (aset node_eqb b l (nbs_or_nil g s a)).
  Hypothesis Hb : glookup g' s b = Some (aset node_eqb a l (nbs_or_nil g s b)).
  Hypothesis Ho : forall s0 m, s0 <> s \/ (m <> a /\ m <> b) -> glookup g' s0 m = glookup g s0 m.

  Lemma ie_cases s0 m :
    (s0 = s /\ m = a) \/ (s0 = s /\ m = b) \/
    ((s0 <> s \/ (m <> a /\ m <> b)) /\ glookup g' s0 m = glookup g s0 m).
  Proof.
    destruct (Nat.eq_dec s0 s) as [->|Hs]; [|right; right; split; auto].
    destruct (node_eq_dec m a) as [->|Hma]; auto.
    destruct (node_eq_dec m b) as [->|Hmb]; auto.
    right. right. split; auto.
  Qed.

  (* the neighbour dictionary of m in g', seen from g *)
  Lemma ie_edge s0 m (nm' : nbrs) x lx :
    glookup g' s0 m = Some nm' -> lookup node_eqb x nm' = Some lx ->
    (s0 = s /\ m = a /\ x = b /\ lx = l) \/ (s0 = s /\ m = b /\ x = a /\ lx = l) \/
    (exists nm : nbrs, glookup g s0 m = Some nm /\ lookup node_eqb x nm = Some lx).
  Proof.
    intros Hm Hx. destruct (ie_cases s0 m) as [[-> ->]|[[-> ->]|[_ E]]].
    - rewrite Ha in Hm. inversion Hm. subst nm'. apply lookup_aset_inv in Hx.
      destruct Hx as [[-> ->]|[_ Hx]]; [left; auto | right; right; apply lookup_nbs_or_nil; exact Hx].
    - rewrite Hb in Hm. inversion Hm. subst nm'. apply lookup_aset_inv in Hx.
      destruct Hx as [[-> ->]|[_ Hx]]; [right; left; auto | right; right; apply lookup_nbs_or_nil; exact Hx].
    - rewrite E in Hm. eauto.
  Qed.

  Lemma ie_present s0 m : glookup g s0 m <> None -> glookup g' s0 m <> None.
  Proof.
    intros H. destruct (ie_cases s0 m) as [[-> ->]|[[-> ->]|[_ E]]]; congruence.
  Qed.

  (* an edge of g is still there *)
  Lemma ie_old s0 m (nm : nbrs) x lx :
    glookup g s0 m = Some nm -> lookup node_eqb x nm = Some lx ->
    exists nm' : nbrs, glookup g' s0 m = Some nm' /\ lookup node_eqb x nm' <> None.
  Proof.
    intros Hm Hx. destruct (ie_cases s0 m) as [[-> ->]|[[-> ->]|[_ E]]].
    - eexists. split; [exact Ha|]. unfold nbs_or_nil. fold s. rewrite Hm.
      destruct (node_eq_dec b x) as [->|Hne].
      + rewrite (lookup_aset_eq node_eqb node_eqb_eq). discriminate.
      + rewrite (lookup_aset_neq node_eqb node_eqb_eq); auto. congruence.
    - eexists. split; [exact Hb|]. unfold nbs_or_nil. fold s. rewrite Hm.
      destruct (node_eq_dec a x) as [->|Hne].
      + rewrite (lookup_aset_eq node_eqb node_eqb_eq). discriminate.
      + rewrite (lookup_aset_neq node_eqb node_eqb_eq); auto. congruence.
    - exists nm. rewrite E. split; auto. congruence.
  Qed.

  Lemma insert_edge_Inv : Inv deg ins g'.
  Proof.
    destruct HI as [A [B [C [D E]]]]. unfold Inv. splits.
    - (* ND *)
      intros s0 m nm Hm. destruct (ie_cases s0 m) as [[-> ->]|[[-> ->]|[_ X]]].
      + rewrite Ha in Hm. inversion Hm. apply (NoDup_aset node_eqb node_eqb_eq). unfold nbs_or_nil.
        destruct (glookup g s a) eqn:Y; [eapply A; eauto | constructor].
      + rewrite Hb in Hm. inversion Hm. apply (NoDup_aset node_eqb node_eqb_eq). unfold nbs_or_nil.
        destruct (glookup g s b) eqn:Y; [eapply A; eauto | constructor].
      + rewrite X in Hm. eauto.
    - (* K1 *)
      intros s0 m nm Hm. destruct (ie_cases s0 m) as [[-> ->]|[[-> ->]|[_ X]]]; auto.
      rewrite X in Hm. eauto.
    - (* S1 *)
      intros s0 x nx y ly ny Hx Hxy Hy.
      destruct (ie_edge s0 x nx y ly Hx Hxy) as [[-> [-> [-> ->]]]|[[-> [-> [-> ->]]]|[nx0 [Hx0 Hxy0]]]].
      + rewrite Hb in Hy. inversion Hy. rewrite (lookup_aset_eq node_eqb node_eqb_eq). discriminate.
      + rewrite Ha in Hy. inversion Hy. rewrite (lookup_aset_eq node_eqb node_eqb_eq). discriminate.
      + (* old edge x -> y; y is present in g because g has no dangling edge *)
        destruct (glookup g s0 y) as [ny0|] eqn:Hy0; [|exfalso; apply (D s0 x nx0 y ly Hx0 Hxy0 Hy0)].
        assert (Hback : lookup node_eqb x ny0 <> None) by (eapply C; eauto).
        destruct (lookup node_eqb x ny0) as [lb|] eqn:Hb0; [|congruence].
        destruct (ie_old s0 y ny0 x lb Hy0 Hb0) as [ny' [Hy' Hn']]. congruence.
    - (* no dangling edge *)
      intros s0 x nx y ly Hx Hxy Hy.
      destruct (ie_edge s0 x nx y ly Hx Hxy) as [[-> [-> [-> ->]]]|[[-> [-> [-> ->]]]|[nx0 [Hx0 Hxy0]]]].
      + congruence.
      + congruence.
      + destruct (glookup g s0 y) as [ny0|] eqn:Hy0; [|apply (D s0 x nx0 y ly Hx0 Hxy0 Hy0)].
        exfalso. apply (ie_present s0 y); congruence.
    - (* SI *)
      intros s0 m nm Hm. split.
      + destruct (ie_cases s0 m) as [[-> ->]|[[-> ->]|[_ X]]]; auto.
        rewrite X in Hm. apply (E s0 m nm Hm).
      + intros x lx Hx.
        destruct (ie_edge s0 m nm x lx Hm Hx) as [[-> [-> [-> ->]]]|[[-> [-> [-> ->]]]|[nm0 [Hm0 Hx0]]]].
        * auto.
        * split; auto. apply edge_ok_sym. exact Eab.
        * apply (E s0 m nm0 Hm0).  exact Hx0.
  Qed.
End InsertEdgeInv.

(* ------------------------------------------------------------------ *)
(* insert_node                                                         *)
(* ------------------------------------------------------------------ *)
Lemma glookup_new_bucket (g : graph) sz n :
  lookup Nat.eqb sz g = None ->
  gupd0 g (g ++ [(sz, [(n, [])])]) sz n (Some []) /\ bk_le g (g ++ [(sz, [(n, [])])]).
Proof.
  intros H. split; [split|].
  - unfold glookup. rewrite (lookup_app_none Nat.eqb); auto. simpl. rewrite Nat.eqb_refl. simpl.
    rewrite node_eqb_refl. reflexivity.
  - intros s m Hd. unfold glookup. destruct (lookup Nat.eqb s g) as [bk|] eqn:E.
    + rewrite (lookup_app_some Nat.eqb _ _ _ _ E). reflexivity.
    + rewrite (lookup_app_none Nat.eqb); auto. simpl. destruct (Nat.eqb s sz) eqn:Es; auto.
      apply Nat.eqb_eq in Es. subst. simpl. destruct Hd as [Hd|Hd]; [congruence|].
      rewrite node_eqb_neq; auto.
  - intros s Hs. unfold has_bucket in *. destruct (lookup Nat.eqb s g) as [bk|] eqn:E; [|congruence].
    rewrite (lookup_app_some Nat.eqb _ _ _ _ E). discriminate.
Qed.

Lemma node_diff_label a b : node_diff a b <> (true, None).
Proof. intros H. apply node_diff_sound in H. destruct H as [i [H _]]. discriminate. Qed.

(* insert_node never raises, whatever the graph and the tuple *)
Lemma insert_node_total (g : graph) n : exists g', insert_node g n = Ok g'.
Proof.
  unfold insert_node. destruct (lookup Nat.eqb (length n) g) as [bk|] eqn:Hbk; [|eauto].
  destruct (amem node_eqb n bk); [eauto|].
  destruct (fold_res_inv (insert_step n) (fun st => has_bucket (fst st) (length n)) (keys bk) (g, false))
    as [[g1 i1] [E1 P1]].
  - simpl. unfold has_bucket. congruence.
  - intros [gc ic] node2 _ Hb. simpl in Hb. unfold insert_step.
    destruct (node_diff n node2) as [[|] [i|]] eqn:Ed.
    + destruct (insert_edge_spec gc n node2 i Hb) as [g' [E [Beq _]]]. rewrite E. simpl.
      eexists. split; [reflexivity|]. simpl. apply Beq. exact Hb.
    + exfalso. eapply node_diff_label; eauto.
    + eexists. split; [reflexivity|]. exact Hb.
    + eexists. split; [reflexivity|]. exact Hb.
  - rewrite E1. simpl. destruct i1; [eauto|]. simpl in P1.
    destruct (has_bucket_get g1 _ P1) as [bk1 Hbk1].
    destruct (add_node_spec g1 (length n) n bk1 Hbk1) as [g2 [E2 _]]. eauto.
Qed.

Lemma insert_node_Inv deg ins (g : graph) n :
  Inv deg ins g -> good deg ins n ->
  exists g', insert_node g n = Ok g' /\ Inv deg ins g' /\ bk_le g g'.
Proof.
  intros HI Gn. unfold insert_node. set (sz := length n).
  destruct (lookup Nat.eqb sz g) as [bk|] eqn:Hbk.
  2:{ destruct (glookup_new_bucket g sz n Hbk) as [U Hle]. eexists. split; [reflexivity|]. split; auto.
      eapply Inv_add_isolated; eauto. unfold glookup. rewrite Hbk. reflexivity. }
  destruct (amem node_eqb n bk) eqn:Hmem.
  { exists g. split; auto. split; auto. apply bk_le_refl. }
  apply amem_false in Hmem.
  assert (Hn : glookup g sz n = None) by (unfold glookup; rewrite Hbk; exact Hmem).
  assert (Hbg : has_bucket g sz) by (unfold has_bucket; congruence).
  destruct (fold_res_inv (insert_step n)
              (fun st => Inv deg ins (fst st) /\ bk_eq g (fst st) /\ (snd st = false -> fst st = g))
              (keys bk) (g, false)) as [[g1 i1] [E1 [P1 [P2 P3]]]].
  - simpl. split; auto. split; auto. apply bk_eq_refl.
  - intros [gc ic] node2 Hin [Q1 [Q2 Q3]]. simpl in Q1, Q2, Q3. unfold insert_step.
    destruct (node_diff n node2) as [[|] [i|]] eqn:Ed.
    + apply node_diff_sound in Ed. destruct Ed as [i' [Ei Eok]]. inversion Ei. subst i'.
      assert (Hb : has_bucket gc (length n)) by (apply Q2; exact Hbg).
      destruct (insert_edge_spec gc n node2 i Hb) as [g' [E [Beq F]]]. rewrite E. simpl.
      eexists. split; [reflexivity|]. simpl.
      apply (lookup_keys node_eqb node_eqb_eq) in Hin.
      destruct (lookup node_eqb node2 bk) as [n2b|] eqn:H2; [|congruence].
      assert (H2g : glookup g sz node2 = Some n2b) by (unfold glookup; rewrite Hbk; exact H2).
      assert (Hne : n <> node2) by (intros ->; congruence).
      destruct (F Hne) as [F1 [F2 F3]].
      split; [|split].
      * destruct HI as [_ [K [_ [_ SIg]]]].
        eapply (insert_edge_Inv deg ins gc g' n node2 i); eauto.
        apply (SIg sz node2 n2b H2g).
      * apply (bk_eq_trans g gc g'); auto.
      * discriminate.
    + exfalso. eapply node_diff_label; eauto.
    + eexists. split; [reflexivity|]. simpl. auto.
    + eexists. split; [reflexivity|]. simpl. auto.
  - rewrite E1. simpl. simpl in P1, P2, P3. destruct i1.
    + exists g1. split; auto. split; auto. apply bk_eq_le. exact P2.
    + rewrite (P3 eq_refl).
      destruct (add_node_spec g sz n bk Hbk) as [g2 [E2 U2]]. exists g2. split; auto. split.
      * eapply Inv_add_isolated; eauto. apply gupd_gupd0. exact U2.
      * apply bk_eq_le. apply (proj2 (proj2 U2)).
Qed.

(* ------------------------------------------------------------------ *)
(* fusion                                                              *)
(* ------------------------------------------------------------------ *)
Lemma keys_filter_NoDup (f : node * nat -> bool) (nb : nbrs) : NoDup (keys nb) -> NoDup (keys (filter f nb)).
Proof.
  unfold keys. induction nb as [|[k v] t IH]; simpl; intros H; [constructor|].
  inversion H as [|? ? Hn Ht]. subst. destruct (f (k, v)); simpl; auto.
  constructor; auto. intros Hin. apply Hn. apply in_map_iff in Hin. destruct Hin as [[k' v'] [E Hin]].
  simpl in E. subst k'. apply filter_In in Hin. change k with (fst (k, v')). apply in_map. tauto.
Qed.

Lemma fusion_index_Inv deg ins size n (g : graph) idx :
  Inv deg ins g -> has_bucket g size -> In idx (map snd n) ->
  exists g', fusion_index deg size n g idx = Ok g' /\ Inv deg ins g' /\ bk_le g g'.
Proof.
  intros HI Hb Hidx. unfold fusion_index, get_bucket.
  destruct (has_bucket_get g size Hb) as [bk Hbk]. rewrite Hbk. simpl.
  destruct (amem node_eqb n bk) eqn:Hmem; [|exists g; split; auto; split; auto; apply bk_le_refl].
  apply amem_true in Hmem. destruct (lookup node_eqb n bk) as [nn|] eqn:Hn; [|congruence].
  unfold is_full, get_bucket. rewrite Hbk. cbn [bind of_opt]. rewrite Hn. cbn [bind of_opt].
  destruct (Nat.eqb (S (length (filter (fun e : node * nat => Nat.eqb (snd e) idx) nn))) deg) eqn:Hfull;
    [|exists g; split; auto; split; auto; apply bk_le_refl].
  apply Nat.eqb_eq in Hfull.
  assert (Hg : glookup g size n = Some nn) by (unfold glookup; rewrite Hbk; exact Hn).
  destruct HI as [A [B [C [D E]]]].
  assert (Hlen : length n = size) by (eapply B; eauto).
  destruct (remove_node_top_ok deg ins g n idx nn A B C D E) as [g1 [E1 [A1 [B1 [C1 [D1 [SI1 Beq1]]]]]]].
  { clear - Hlen Hg. subst size. exact Hg. }
  rewrite E1. simpl.
  destruct (E size n nn Hg) as [[Wn Cn] Hedges].
  assert (Gr : good deg ins (remove_index n idx)).
  { split; [apply Wf_remove_index; exact Wn|].
    apply (clique_covers deg ins n idx (keys (filter (fun e : node * nat => Nat.eqb (snd e) idx) nn))); auto.
    - apply keys_filter_NoDup. eapply A; eauto.
    - intros b Hbin. unfold keys in Hbin. apply in_map_iff in Hbin. destruct Hbin as [[b' lb] [Eb Hbin]].
      simpl in Eb. subst b'. apply filter_In in Hbin. destruct Hbin as [Hbin Hlb]. simpl in Hlb.
      apply Nat.eqb_eq in Hlb. subst lb.
      assert (Hlk : lookup node_eqb b nn = Some idx) by (apply (In_lookup node_eqb node_eqb_eq); [eapply A; eauto | exact Hbin]).
      destruct (Hedges b idx Hlk) as [[Wb Cb] Eb]. auto.
    - unfold keys. rewrite map_length. exact Hfull. }
  destruct (insert_node_Inv deg ins g1 (remove_index n idx)) as [g2 [E2 [I2 L2]]]; auto.
  { unfold Inv. splits; auto. }
  exists g2. split; auto. split; auto. eapply bk_le_trans; [apply bk_eq_le; exact Beq1 | exact L2].
Qed.

Lemma fold_Inv {A} deg ins (f : graph -> A -> result graph) (xs : list A) (g : graph) (Q : A -> Prop) :
  (forall x, In x xs -> Q x) ->
  (forall gc x, Q x -> Inv deg ins gc -> bk_le g gc ->
                exists g', f gc x = Ok g' /\ Inv deg ins g' /\ bk_le gc g') ->
  Inv deg ins g ->
  exists g', fold_res f xs g = Ok g' /\ Inv deg ins g' /\ bk_le g g'.
Proof.
  intros HQ Hf HI.
  apply (fold_res_inv f (fun gc => Inv deg ins gc /\ bk_le g gc)).
  - split; auto. apply bk_le_refl.
  - intros gc x Hin [I1 L1]. destruct (Hf gc x (HQ x Hin) I1 L1) as [g' [E [I2 L2]]].
    exists g'. split; auto. split; auto. eapply bk_le_trans; eauto.
Qed.

Lemma fusion_node_Inv deg ins size (g : graph) n :
  Inv deg ins g -> has_bucket g size ->
  exists g', fusion_node deg size g n = Ok g' /\ Inv deg ins g' /\ bk_le g g'.
Proof.
  intros HI Hb. unfold fusion_node.
  apply (fold_Inv deg ins (fusion_index deg size n) (map snd n) g (fun idx => In idx (map snd n))); auto.
  intros gc idx Hin I1 L1. apply fusion_index_Inv; auto.
Qed.

Lemma fusion_size_Inv deg ins (g : graph) size :
  Inv deg ins g -> has_bucket g size ->
  exists g', fusion_size deg g size = Ok g' /\ Inv deg ins g' /\ bk_le g g'.
Proof.
  intros HI Hb. unfold fusion_size, get_bucket.
  destruct (has_bucket_get g size Hb) as [bk Hbk]. rewrite Hbk. simpl.
  apply (fold_Inv deg ins (fusion_node deg size) (keys bk) g (fun _ => True)); auto.
  intros gc n _ I1 L1. apply fusion_node_Inv; auto.
Qed.

Lemma In_insert_desc x y l : In x (insert_desc y l) -> x = y \/ In x l.
Proof.
  induction l as [|z t IH]; simpl.
  - intros [H|H]; auto.
  - destruct (Nat.leb z y); simpl; intros [H|H]; auto. apply IH in H. tauto.
Qed.

Lemma In_sort_desc x l : In x (sort_desc l) -> In x l.
Proof.
  unfold sort_desc. induction l as [|y t IH]; simpl; auto.
  intros H. apply In_insert_desc in H. destruct H; auto.
Qed.

Lemma fusion_Inv deg ins (g : graph) :
  Inv deg ins g -> exists g', fusion deg g = Ok g' /\ Inv deg ins g' /\ bk_le g g'.
Proof.
  intros HI. unfold fusion.
  apply (fold_Inv deg ins (fusion_size deg) (sort_desc (keys g)) g (fun size => has_bucket g size)); auto.
  - intros size Hin. apply In_sort_desc in Hin. apply (lookup_keys Nat.eqb Nat.eqb_eq) in Hin. exact Hin.
  - intros gc size Hq I1 L1. apply fusion_size_Inv; auto.
Qed.

(* ------------------------------------------------------------------ *)
(* histories                                                           *)
(* ------------------------------------------------------------------ *)
Lemma run_from_Inv deg : forall h (g : graph) ins0,
  Inv deg ins0 g -> forallb (wf_op deg) h = true ->
  exists g', run_from deg g h = Ok g' /\ Inv deg (ins0 ++ inserted h) g'.
Proof.
  unfold run_from. induction h as [|o t IH]; intros g ins0 HI Hwf.
  - simpl. exists g. rewrite app_nil_r. auto.
  - simpl in Hwf. apply andb_true_iff in Hwf. destruct Hwf as [Ho Ht]. simpl fold_res.
    destruct o as [n|].
    + simpl in Ho. apply wf_node_Wf in Ho. unfold step.
      assert (HI' : Inv deg (ins0 ++ [n]) g) by (eapply Inv_incl; eauto; apply incl_appl, incl_refl).
      destruct (insert_node_Inv deg (ins0 ++ [n]) g n HI') as [g1 [E1 [I1 _]]].
      { split; auto. apply covered_self. apply in_or_app. right. simpl. auto. }
      rewrite E1. destruct (IH g1 (ins0 ++ [n]) I1 Ht) as [g2 [E2 I2]].
      exists g2. split; auto. simpl. rewrite <- app_assoc in I2. exact I2.
    + unfold step. destruct (fusion_Inv deg ins0 g HI) as [g1 [E1 [I1 _]]]. rewrite E1.
      destruct (IH g1 ins0 I1 Ht) as [g2 [E2 I2]]. exists g2. split; auto.
Qed.

Lemma run_Inv deg h :
  forallb (wf_op deg) h = true -> exists g, run deg h = Ok g /\ Inv deg (inserted h) g.
Proof. intros H. apply (run_from_Inv deg h [] [] (Inv_empty deg [])). exact H. Qed.

Lemma is_empty_spec (g : graph) : is_empty g = true -> glookup g 0 [] = Some [].
Proof.
  unfold is_empty, glookup. destruct (lookup Nat.eqb 0 g) as [bk|]; [|discriminate].
  destruct bk as [|[[|d k] [|e nb]] [|x t]]; try discriminate. reflexivity.
Qed.

(* (1) soundness of the collapse test *)
Lemma c11_sound deg h g :
  forallb (wf_op deg) h = true -> run deg h = Ok g -> is_empty g = true ->
  forall c : nat -> nat, (forall i, c i < deg) -> exists t, In t (inserted h) /\ matches t c = true.
Proof.
  intros Hwf Hrun Hemp c Hc. destruct (run_Inv deg h Hwf) as [g' [E [_ [_ [_ [_ HSI]]]]]].
  rewrite Hrun in E. inversion E. subst g'.
  destruct (HSI 0 [] [] (is_empty_spec g Hemp)) as [[_ Hcov] _].
  apply Hcov; auto.
Qed.

(* (2) no operation of a well-formed history raises *)
Lemma c11_no_raise deg h : forallb (wf_op deg) h = true -> exists g, run deg h = Ok g.
Proof. intros H. destruct (run_Inv deg h H) as [g [E _]]. eauto. Qed.

(* every state reached satisfies the structural invariant: symmetric, no dangling edge,
   every edge joins tuples that differ exactly at the label *)
Lemma c11_structure deg h g :
  forallb (wf_op deg) h = true -> run deg h = Ok g ->
  forall s a (na : nbrs) b l, glookup g s a = Some na -> lookup node_eqb b na = Some l ->
    length a = s /\ edge_ok a b l /\ exists nb : nbrs, glookup g s b = Some nb /\ lookup node_eqb a nb <> None.
Proof.
  intros Hwf Hrun s a na b l Ha Hl. destruct (run_Inv deg h Hwf) as [g' [E [_ [K [S [D HSI]]]]]].
  rewrite Hrun in E. inversion E. subst g'. split; [eapply K; eauto|]. split; [apply (proj2 (HSI s a na Ha) b l Hl)|].
  destruct (glookup g s b) as [nb|] eqn:Hb; [|exfalso; apply (D s a na b l Ha Hl Hb)].
  exists nb. split; auto. eapply S; eauto.
Qed.

(* from_monomial is insert_node on graph_dict *)
Lemma from_monomial_graph d n d' :
  from_monomial d n = Ok d' -> insert_node (dg_graph d) n = Ok (dg_graph d') /\ dg_degree d' = dg_degree d.
Proof.
  unfold from_monomial. destruct (insert_node (dg_graph d) n) as [g|e]; simpl; [|discriminate].
  intros H. inversion H. simpl. auto.
Qed.

(* the hypotheses are satisfiable in a non-trivial way: a history over two indices that
   collapses (through two fusion levels), is fused again after the collapse, then extended *)
Definition ex_history : list op :=
  [Insert [(0,0);(0,1)]; Insert [(0,0);(1,1)]; Insert [(0,0);(2,1)];
   Insert [(1,0)]; Fuse; Insert [(2,0)]; Fuse; Fuse; Insert [(1,0);(1,1)]; Fuse].

Example ex_history_wf : forallb (wf_op 3) ex_history = true.
Proof. reflexivity. Qed.

Example ex_history_collapses :
  exists g, run 3 ex_history = Ok g /\ is_empty g = true.
Proof. eexists. split; [vm_compute; reflexivity | reflexivity]. Qed.

(* outside the domain the collapse test is unsound: values 0,1,5 with degree 3 *)
Example out_of_domain_unsound :
  exists g, run 3 [Insert [(0,1)]; Insert [(1,1)]; Insert [(5,1)]; Fuse] = Ok g /\ is_empty g = true /\
            forall t, In t [[(0,1)]; [(1,1)]; [(5,1)]] -> matches t (fun _ => 2) = false.
Proof.
  eexists. split; [vm_compute; reflexivity|]. split; [reflexivity|].
  intros t [<-|[<-|[<-|[]]]]; reflexivity.
Qed.
