(* "Neither operation (sum, product of polynomials) changes its operands", on the reference-level
   model RefModel.v.

   Stage 1: corollaries of times_fresh / add_frame (RefModel_proofs.v).
   Stage 2: Polynomial.add writes to NO monomial that existed before the call -- also when the operands
            share monomials (x.add(x)).
   Stage 3: what the sortedness precondition is (not) needed for; non-vacuity.

   FINDING (stage 2/3).  The requested precondition "the views of both operands are strictly sorted" is
   NOT needed, and the requested example "an argument with two monomials of the same delta list gets
   mutated" does not exist: [add_writes_nothing_old] below holds for ALL operands.  Reason (this is what
   the proof formalises):
     - Polynomial.inclusion scans the WHOLE of new_list (not only the part from i on) before anything of
       the argument is inserted, and it answers EMPTY for a monomial m only if m and the candidate have
       different delta lists: for equal delta lists each monomial "contains" the other and, the scalars
       being totally ordered with sum = max, one of CONTAINS / INCLUDED applies (Poly_times.minclusion_same_ds).
     - hence the EQUAL branch of the main loop (`new_list[i].scalar = ...`) is dead code
       ([radd_loop_heap_const]: the loop returns the heap it was given), and
     - every monomial of the argument that enters new_list (insert / tail append, by reference) has a
       delta list different from the delta list of every other element of new_list, at that moment and
       for ever after (scalar writes do not change delta lists).  So when sort_monomials' merge finds
       two monomials with equal delta lists and writes `lhead.scalar`, both are copies made by
       self.copy() in this very call (that happens only when self holds two monomials whose delta lists
       agree after the re-insertion done by the Monomial constructor; see [sort_write_hits_fresh_copy]).
   The invariant is [pw (Rd n d)]: any two list positions holding monomials with the same delta list
   both hold objects allocated in this call (stamp >= n = length of the heap at the call). *)
From Coq Require Import List Bool Arith Lia.
From PM Require Import Semiring Poly Poly_sem Poly_add Poly_times Rel RefModel RefModel_proofs.
Import ListNotations.

(* ================================================================================================ *)
(* Stage 1                                                                                          *)
(* ================================================================================================ *)

Definition valid_p (h : heap) (p : rpoly) : Prop := Forall (fun s => s < length h) p.

Lemma view_keeps h h' p :
  valid_p h p -> (forall s, s < length h -> hget h' s = hget h s) -> view h' p = view h p.
Proof.
  intros V K. unfold view. apply map_ext_in. intros s Hs. apply K.
  unfold valid_p in V. rewrite Forall_forall in V. now apply V.
Qed.

Theorem times_operands_unchanged : forall h p q h' r,
  rtimes h p q = (h', r) -> valid_p h p -> valid_p h q ->
  view h' p = view h p /\ view h' q = view h q.
Proof.
  intros h p q h' r E Vp Vq.
  destruct (times_fresh _ _ _ _ _ E) as (_ & K & _).
  split; now apply view_keeps.
Qed.

Theorem add_self_unchanged : forall h p q h' r,
  radd h p q = (h', r) -> valid_p h p -> (forall s, In s p -> ~ In s q) ->
  view h' p = view h p.
Proof.
  intros h p q h' r E Vp Hdisj.
  destruct (add_frame _ _ _ _ _ E) as (_ & K & _).
  unfold view. apply map_ext_in. intros s Hs. apply K.
  - unfold valid_p in Vp. rewrite Forall_forall in Vp. now apply Vp.
  - now apply Hdisj.
Qed.

(* ================================================================================================ *)
(* Stage 2                                                                                          *)
(* ================================================================================================ *)

(* ---------------- pairwise relation on a list (by position) ---------------- *)

Section Pairwise.
  Variable X : Type.
  Variable R : X -> X -> Prop.

  Fixpoint pw (l : list X) : Prop :=
    match l with [] => True | a :: t => Forall (R a) t /\ pw t end.

  Lemma pw_app l1 l2 :
    pw (l1 ++ l2) <-> pw l1 /\ pw l2 /\ (forall a b, In a l1 -> In b l2 -> R a b).
  Proof.
    induction l1 as [|x t IH]; cbn [app pw].
    - split.
      + intro H. split; [exact Logic.I|]. split; [exact H|]. intros a b [].
      + intros (_ & H & _). exact H.
    - split.
      + intros [F P]. apply Forall_app in F. destruct F as [F1 F2].
        apply IH in P. destruct P as (P1 & P2 & C).
        split; [split; assumption|]. split; [assumption|].
        intros a b [<-|Ha] Hb.
        * rewrite Forall_forall in F2. now apply F2.
        * now apply C.
      + intros ((F1 & P1) & P2 & C). split.
        * apply Forall_app. split; [assumption|].
          apply Forall_forall. intros b Hb. apply C; [now left | assumption].
        * apply IH. split; [assumption|]. split; [assumption|].
          intros a b Ha Hb. apply C; [now right | assumption].
  Qed.

  Lemma pw_drop_mid l1 m t : pw (l1 ++ m :: t) -> pw (l1 ++ t).
  Proof.
    intro H. apply pw_app in H. destruct H as (P1 & [_ P2] & C).
    apply pw_app. split; [assumption|]. split; [assumption|].
    intros a b Ha Hb. apply C; [assumption | now right].
  Qed.

  Lemma pw_snoc l x : pw l -> Forall (fun a => R a x) l -> pw (l ++ [x]).
  Proof.
    intros P F. apply pw_app. split; [assumption|]. split; [cbn; auto|].
    intros a b Ha [<-|[]]. rewrite Forall_forall in F. now apply F.
  Qed.

  Lemma pw_list_insert l : forall i x,
    pw l -> Forall (R x) l -> Forall (fun a => R a x) l -> pw (list_insert l i x).
  Proof.
    induction l as [|a t IH]; intros [|i] x P F1 F2; cbn [list_insert pw].
    - split; [constructor | exact Logic.I].
    - split; [constructor | exact Logic.I].
    - split; assumption.
    - destruct P as [Pa Pt].
      pose proof (Forall_inv F2) as Hax. pose proof (Forall_inv_tail F1) as F1t.
      pose proof (Forall_inv_tail F2) as F2t.
      split; [now apply Forall_list_insert | now apply IH].
  Qed.

  Lemma pw_of_Forall (Q : X -> Prop) l :
    (forall a b, Q a -> Q b -> R a b) -> Forall Q l -> pw l.
  Proof.
    intros HQ F. induction F as [|a t Ha Ft IH]; cbn [pw]; [exact Logic.I|].
    split; [|exact IH]. apply Forall_forall. intros b Hb.
    rewrite Forall_forall in Ft. apply HQ; auto.
  Qed.
End Pairwise.

Arguments pw {X} R l.

(* ---------------- the relation ---------------- *)

(* [d] : the delta list of every stamp (constant during a call: only scalars are ever assigned);
   [n] : the number of objects that existed when the call started *)
Definition Rd (n : nat) (d : stamp -> list delta) (a b : stamp) : Prop :=
  d a = d b -> n <= a /\ n <= b.

Definition dsof (h : heap) : stamp -> list delta := fun s => ds (hget h s).

Lemma Rd_sym n d a b : Rd n d a b -> Rd n d b a.
Proof. unfold Rd. intros H E. symmetry in E. destruct (H E). split; assumption. Qed.

Lemma Rd_diff n d a b : d a <> d b -> Rd n d a b.
Proof. unfold Rd. intros H E. contradiction. Qed.

Lemma Rd_fresh n d a b : n <= a -> n <= b -> Rd n d a b.
Proof. unfold Rd. auto. Qed.

(* ---------------- Polynomial.inclusion ---------------- *)

Definition emptyI (h : heap) (mn m : stamp) : Prop := minclusion (hget h m) (hget h mn) = EMPTYI.

Lemma rincl_go_true h mn rest : forall j i acc i' nl,
  rincl_go h rest mn j i acc = (true, i', nl) -> Forall (emptyI h mn) acc -> Forall (emptyI h mn) nl.
Proof.
  induction rest as [|m t IH]; intros j i acc i' nl E Ha; cbn [rincl_go] in E.
  - inversion E; subst. now apply Forall_rev.
  - destruct (minclusion (hget h m) (hget h mn)) eqn:Em.
    + eapply IH; [exact E | exact Ha].
    + discriminate.
    + eapply IH; [exact E|]. constructor; [exact Em | exact Ha].
Qed.

(* verdict "insert" => every monomial left in the list has a delta list different from the candidate's *)
Lemma rincl_true_diff h l mn i i' nl :
  rincl h l mn i = (true, i', nl) -> Forall (fun m => dsof h m <> dsof h mn) nl.
Proof.
  intro E. unfold rincl in E.
  pose proof (rincl_go_true _ _ _ _ _ _ _ _ E (Forall_nil _)) as F.
  eapply Forall_impl; [|exact F].
  intros m Hm Heq. unfold emptyI in Hm. unfold dsof in Heq.
  exact (minclusion_same_ds _ _ Heq Hm).
Qed.

(* inclusion only removes elements (keeping the order of the others) *)
Lemma rincl_go_pw (R : stamp -> stamp -> Prop) h mn rest : forall j i acc b i' nl,
  rincl_go h rest mn j i acc = (b, i', nl) -> pw R (rev acc ++ rest) -> pw R nl.
Proof.
  induction rest as [|m t IH]; intros j i acc b i' nl E P; cbn [rincl_go] in E.
  - inversion E; subst. now rewrite app_nil_r in P.
  - destruct (minclusion (hget h m) (hget h mn)).
    + eapply IH; [exact E|]. eapply pw_drop_mid; exact P.
    + inversion E; subst. rewrite rev_append_rev. exact P.
    + eapply IH; [exact E|]. cbn [rev]. rewrite <- app_assoc. exact P.
Qed.

Lemma rincl_pw (R : stamp -> stamp -> Prop) h l mn i b i' nl :
  rincl h l mn i = (b, i', nl) -> pw R l -> pw R nl.
Proof. intros E P. unfold rincl in E. eapply rincl_go_pw; [exact E | exact P]. Qed.

(* ---------------- the main loop and the tail loop: no write at all ---------------- *)

Lemma diff_cross n h x l :
  Forall (fun m => dsof h m <> dsof h x) l ->
  Forall (Rd n (dsof h) x) l /\ Forall (fun a => Rd n (dsof h) a x) l.
Proof.
  intro F. split; (eapply Forall_impl; [|exact F]); intros a Ha.
  - apply Rd_sym. now apply Rd_diff.
  - now apply Rd_diff.
Qed.

Lemma radd_tail_pw n h rest : forall nl i,
  pw (Rd n (dsof h)) nl -> pw (Rd n (dsof h)) (radd_tail h nl rest i).
Proof.
  induction rest as [|m t IH]; intros nl i P; cbn [radd_tail]; [exact P|].
  destruct (rincl h nl m i) as [[tobe i'] nl'] eqn:E.
  pose proof (rincl_pw _ _ _ _ _ _ _ _ E P) as P'.
  apply IH. destruct tobe; [|exact P'].
  apply pw_snoc; [exact P'|].
  exact (proj2 (diff_cross n _ _ _ (rincl_true_diff _ _ _ _ _ _ E))).
Qed.

(* the EQUAL branch of the main loop is dead code: the loop returns the heap it got *)
Lemma radd_loop_inv n fuel : forall h nl q i h' r,
  radd_loop fuel h nl q i = Some (h', r) -> pw (Rd n (dsof h)) nl ->
  h' = h /\ pw (Rd n (dsof h)) r.
Proof.
  induction fuel as [|f IH]; intros h nl q i h' r E P; cbn [radd_loop] in E; [discriminate|].
  destruct q as [|mono2 q'].
  - inversion E; subst. split; [reflexivity | exact P].
  - destruct (rincl h nl mono2 i) as [[tobe i1] nl1] eqn:Ei.
    pose proof (rincl_pw _ _ _ _ _ _ _ _ Ei P) as P1.
    destruct tobe; cbn [negb] in E.
    + pose proof (rincl_true_diff _ _ _ _ _ _ Ei) as Hdiff.
      destruct (Nat.eqb i1 (length nl1)).
      * injection E as <- <-. split; [reflexivity|].
        change (pw (Rd n (dsof h)) (radd_tail h nl1 (mono2 :: q') i1)). now apply radd_tail_pw.
      * destruct (nth_error nl1 i1) as [mono1|] eqn:En; [|discriminate].
        destruct (compare (ds (hget h mono1)) (ds (hget h mono2))) eqn:Ec.
        -- eapply IH; [exact E | exact P1].
        -- exfalso. apply compare_equal_eq in Ec. apply nth_error_In in En.
           rewrite Forall_forall in Hdiff. exact (Hdiff _ En Ec).
        -- eapply IH; [exact E|].
           destruct (diff_cross n _ _ _ Hdiff) as [F1 F2].
           now apply pw_list_insert.
    + eapply IH; [exact E | exact P1].
Qed.

Corollary radd_loop_heap_const fuel h nl q i h' r :
  radd_loop fuel h nl q i = Some (h', r) -> h' = h.
Proof.
  intro E.
  (* with n = 0 every stamp counts as fresh, the invariant is trivially true *)
  assert (P : pw (Rd 0 (dsof h)) nl).
  { apply (pw_of_Forall _ _ (fun _ => True)); [|apply Forall_forall; auto].
    intros a b _ _. apply Rd_fresh; lia. }
  exact (proj1 (radd_loop_inv 0 _ _ _ _ _ _ _ E P)).
Qed.

(* ---------------- sort_monomials: writes only to objects allocated in this call ---------------- *)

Lemma hset_ds h s v s' : ds (hget (hset_sc h s v) s') = ds (hget h s').
Proof.
  unfold hget, hset_sc. revert s s'.
  induction h as [|m t IH]; intros [|s] [|s']; cbn [list_update nth]; try reflexivity.
  apply IH.
Qed.

Definition sort_post (n : nat) (d : stamp -> list delta) (h h' : heap) : Prop :=
  (forall s, dsof h' s = d s) /\ length h' = length h /\ (forall s, s < n -> hget h' s = hget h s).

Lemma sort_post_refl n d h : (forall s, dsof h s = d s) -> sort_post n d h h.
Proof. intro H. split; [exact H|]. split; reflexivity || auto. Qed.

Lemma sort_post_trans n d h1 h2 h3 : sort_post n d h1 h2 -> sort_post n d h2 h3 -> sort_post n d h1 h3.
Proof.
  intros (_ & L1 & K1) (D2 & L2 & K2). split; [exact D2|]. split; [congruence|].
  intros s Hs. rewrite K2, K1; auto.
Qed.

Lemma rmerge_fuel_inv n d fuel : forall h l r h' res,
  (forall s, dsof h s = d s) ->
  (forall a b, In a l -> In b r -> Rd n d a b) ->
  rmerge_fuel fuel h l r = (h', res) ->
  sort_post n d h h' /\ (forall x, In x res -> In x l \/ In x r).
Proof.
  induction fuel as [|f IH]; intros h l r h' res Hd Hc E; cbn [rmerge_fuel] in E.
  - injection E as <- <-. split; [now apply sort_post_refl|].
    intros x Hx. apply in_app_or in Hx. tauto.
  - destruct l as [|lh lt].
    { injection E as <- <-. split; [now apply sort_post_refl|].
      intros x Hx. apply in_app_or in Hx. tauto. }
    destruct r as [|rh rt].
    { injection E as <- <-. split; [now apply sort_post_refl|].
      intros x Hx. left. exact Hx. }
    destruct (compare (ds (hget h lh)) (ds (hget h rh))) eqn:Ec.
    + destruct (rmerge_fuel f h lt (rh :: rt)) as [h1 r1] eqn:E1. injection E as <- <-.
      assert (Hc' : forall a b, In a lt -> In b (rh :: rt) -> Rd n d a b)
        by (intros a b Ha Hb; apply Hc; [now right | exact Hb]).
      destruct (IH _ _ _ _ _ Hd Hc' E1) as [S1 I1]. split; [exact S1|].
      intros x [<-|Hx]; [left; now left|].
      destruct (I1 x Hx) as [H|H]; [left; now right | now right].
    + set (s := ssum (sc (hget h lh)) (sc (hget h rh))) in *.
      destruct (rmerge_fuel f (hset_sc h lh s) lt rt) as [h2 r2] eqn:E1.
      assert (Hfresh : n <= lh).
      { apply compare_equal_eq in Ec.
        assert (Heq : d lh = d rh) by (rewrite <- !Hd; exact Ec).
        exact (proj1 (Hc lh rh (or_introl eq_refl) (or_introl eq_refl) Heq)). }
      assert (Hd0 : forall s', dsof (hset_sc h lh s) s' = d s')
        by (intro s'; unfold dsof; rewrite hset_ds; apply Hd).
      assert (S0 : sort_post n d h (hset_sc h lh s)).
      { split; [exact Hd0|]. split; [apply hset_length|].
        intros s' Hs'. apply hget_set_other. lia. }
      assert (Hc' : forall a b, In a lt -> In b rt -> Rd n d a b)
        by (intros a b Ha Hb; apply Hc; now right).
      destruct (IH _ _ _ _ _ Hd0 Hc' E1) as [S1 I1].
      assert (Eh : h2 = h' /\ (match s with O => r2 | _ => lh :: r2 end) = res)
        by (split; congruence).
      destruct Eh as [<- <-].
      split; [eapply sort_post_trans; eassumption|].
      intros x Hx.
      assert (Hx' : x = lh \/ In x r2).
      { clear - Hx. clearbody s.
        destruct s; cbn [In] in Hx; [right; exact Hx | | | |];
          (destruct Hx as [<-|Hx]; [left; reflexivity | right; exact Hx]). }
      destruct Hx' as [->|Hx']; [left; now left|].
      destruct (I1 x Hx') as [H|H]; [left; now right | right; now right].
    + destruct (rmerge_fuel f h (lh :: lt) rt) as [h1 r1] eqn:E1. injection E as <- <-.
      assert (Hc' : forall a b, In a (lh :: lt) -> In b rt -> Rd n d a b)
        by (intros a b Ha Hb; apply Hc; [exact Ha | now right]).
      destruct (IH _ _ _ _ _ Hd Hc' E1) as [S1 I1]. split; [exact S1|].
      intros x [<-|Hx]; [right; now left|].
      destruct (I1 x Hx) as [H|H]; [now left | right; now right].
Qed.

Lemma rsort_fuel_inv n d fuel : forall h l h' res,
  (forall s, dsof h s = d s) -> pw (Rd n d) l ->
  rsort_fuel fuel h l = (h', res) ->
  sort_post n d h h' /\ (forall x, In x res -> In x l).
Proof.
  induction fuel as [|f IH]; intros h l h' res Hd P E; cbn [rsort_fuel] in E.
  - injection E as <- <-. split; [now apply sort_post_refl | auto].
  - destruct l as [|a [|b t]];
      try (injection E as <- <-; split; [now apply sort_post_refl | auto]; fail).
    remember (a :: b :: t) as l0 eqn:El0.
    set (mid := Nat.div2 (length l0)) in *.
    destruct (rsort_fuel f h (skipn mid l0)) as [h1 lft] eqn:E1.
    destruct (rsort_fuel f h1 (firstn mid l0)) as [h2 rgt] eqn:E2.
    rewrite <- (firstn_skipn mid l0) in P. apply pw_app in P. destruct P as (Pf & Ps & C).
    destruct (IH _ _ _ _ Hd Ps E1) as [S1 I1].
    destruct (IH _ _ _ _ (proj1 S1) Pf E2) as [S2 I2].
    unfold rmerge in E.
    assert (Hc : forall x y, In x lft -> In y rgt -> Rd n d x y).
    { intros x y Hx Hy. apply Rd_sym. apply C; auto. }
    destruct (rmerge_fuel_inv n d _ _ _ _ _ _ (proj1 S2) Hc E) as [S3 I3].
    split; [eapply sort_post_trans; [exact S1|]; eapply sort_post_trans; eassumption|].
    intros x Hx. rewrite <- (firstn_skipn mid l0). apply in_or_app.
    destruct (I3 x Hx) as [H|H]; [right; now apply I1 | left; now apply I2].
Qed.

(* ---------------- allocation-only steps ---------------- *)

Definition keeps (n : nat) (h h' : heap) : Prop :=
  length h <= length h' /\ forall s, s < n -> hget h' s = hget h s.

Lemma keeps_trans n h1 h2 h3 : keeps n h1 h2 -> keeps n h2 h3 -> keeps n h1 h3.
Proof. intros [L1 K1] [L2 K2]. split; [lia|]. intros s Hs. rewrite K2, K1; auto. Qed.

Lemma rmk_poly_keeps n h l h' r : n <= length h -> rmk_poly h l = (h', r) -> keeps n h h'.
Proof.
  intros Hn E. destruct l; cbn in E; inversion E; subst; split; auto.
  - rewrite app_length. cbn. lia.
  - intros s Hs. apply hget_app_old. lia.
Qed.

Lemma rremove_zeros_keeps n h l h' r : n <= length h -> rremove_zeros h l = (h', r) -> keeps n h h'.
Proof.
  intros Hn E. unfold rremove_zeros in E.
  destruct (filter (fun s => negb (is_O (sc (hget h s)))) l); cbn in E; inversion E; subst; split; auto.
  - rewrite app_length. cbn. lia.
  - intros s Hs. apply hget_app_old. lia.
Qed.

Lemma rcopy_keeps h p h' r :
  rcopy h p = (h', r) -> keeps (length h) h h' /\ Forall (fun s => length h <= s) r.
Proof.
  intro E.
  destruct (rcopy_ok (fresh_from (length h)) (length h) (fresh_up _) _ _ _ _ (le_n _) E) as [W F].
  split; [|exact F]. split; [apply W | now apply wr_fresh_keeps].
Qed.

(* ---------------- Polynomial.add ---------------- *)

(* for ALL operands: no monomial object that existed before the call is written to *)
Theorem add_writes_nothing_old : forall h p q h' r,
  radd h p q = (h', r) ->
  length h <= length h' /\ (forall s, s < length h -> hget h' s = hget h s).
Proof.
  intros h p q h' r E. change (keeps (length h) h h'). unfold radd in E.
  destruct p as [|p0 pt].
  - destruct q as [|q0 qt].
    + eapply rmk_poly_keeps; [apply le_n | exact E].
    + exact (proj1 (rcopy_keeps _ _ _ _ E)).
  - destruct q as [|q0 qt]; [exact (proj1 (rcopy_keeps _ _ _ _ E))|].
    remember (p0 :: pt) as p eqn:Ep. remember (q0 :: qt) as q eqn:Eq.
    set (n := length h).
    destruct (rcopy h p) as [h1 nl0] eqn:E1.
    destruct (rcopy_keeps _ _ _ _ E1) as [K1 F1]. fold n in K1, F1.
    destruct (radd_loop (radd_fuel_for p q) h1 nl0 q 0) as [[h2 nl]|] eqn:E2.
    + assert (P0 : pw (Rd n (dsof h1)) nl0).
      { apply (pw_of_Forall _ _ (fun s => n <= s)); [|exact F1].
        intros a b Ha Hb. now apply Rd_fresh. }
      destruct (radd_loop_inv n _ _ _ _ _ _ _ E2 P0) as [-> P2].
      destruct (rsort_monomials h1 nl) as [h3 sorted] eqn:E3. unfold rsort_monomials in E3.
      destruct (rsort_fuel_inv n (dsof h1) _ _ _ _ _ (fun s => eq_refl) P2 E3) as [(_ & L3 & K3) _].
      assert (K13 : keeps n h1 h3) by (split; [lia | exact K3]).
      destruct (rmk_poly h3 sorted) as [h4 pl] eqn:E4.
      assert (Hn3 : n <= length h3) by (destruct K1; lia).
      pose proof (rmk_poly_keeps n _ _ _ _ Hn3 E4) as K34.
      assert (Hn4 : n <= length h4) by (destruct K34; lia).
      pose proof (rremove_zeros_keeps n _ _ _ _ Hn4 E) as K45.
      eapply keeps_trans; [exact K1|]. eapply keeps_trans; [exact K13|].
      eapply keeps_trans; eassumption.
    + inversion E; subst. exact K1.
Qed.

(* the statement that was asked for; its two sortedness hypotheses are not used (see the header) *)
Theorem add_operands_unchanged : forall h p q h' r,
  radd h p q = (h', r) -> valid_p h p -> valid_p h q ->
  ssorted (view h p) -> ssorted (view h q) ->
  (forall s, s < length h -> hget h' s = hget h s) /\ view h' p = view h p /\ view h' q = view h q.
Proof.
  intros h p q h' r E Vp Vq _ _.
  destruct (add_writes_nothing_old _ _ _ _ _ E) as [_ K].
  split; [exact K|]. split; now apply view_keeps.
Qed.

(* the same without them *)
Theorem add_operands_unchanged_any : forall h p q h' r,
  radd h p q = (h', r) -> valid_p h p -> valid_p h q ->
  view h' p = view h p /\ view h' q = view h q.
Proof.
  intros h p q h' r E Vp Vq.
  destruct (add_writes_nothing_old _ _ _ _ _ E) as [_ K].
  split; now apply view_keeps.
Qed.

(* ================================================================================================ *)
(* Stage 3                                                                                          *)
(* ================================================================================================ *)

(* The example that was asked for,
     Example add_mutates_unsorted_argument : exists h p q, valid_p h p /\ valid_p h q /\
        exists s, s < length h /\ hget (fst (radd h p q)) s <> hget h s,
   is FALSE in the model: its negation is a corollary of [add_writes_nothing_old].  In particular an
   argument holding two monomials with the same delta list is not mutated either: whichever of the two
   comes second is either dropped by Polynomial.inclusion (INCLUDED) or makes inclusion remove the
   first one from new_list (CONTAINS) before it is inserted.  (A random test of the real
   Polynomial.add over 20000 pairs of arbitrary, also unsorted / duplicated / aliased operands found no
   write to an operand either.) *)
Theorem add_never_mutates_an_existing_monomial :
  ~ exists h p q, valid_p h p /\ valid_p h q /\
      exists s, s < length h /\ hget (fst (radd h p q)) s <> hget h s.
Proof.
  intros (h & p & q & _ & _ & s & Hs & Hne).
  destruct (radd h p q) as [h' r] eqn:E. cbn [fst] in Hne.
  apply Hne. exact (proj2 (add_writes_nothing_old _ _ _ _ _ E) s Hs).
Qed.

(* non-vacuity 1: two strictly sorted operands of two monomials each, which share the delta list
   [(0,0)] (stamps 2 and 4).  The copy of 2 is removed by inclusion (4 has the larger scalar), 4 and 5
   enter the result BY REFERENCE (the result aliases the argument), and nothing old is written *)
Definition op_heap : heap :=
  heap0 ++ [Mono M [(0, 0)]; Mono W [(1, 0)]; Mono W [(0, 0)]; Mono P [(0, 1)]].
Definition op_p : rpoly := [2; 3].
Definition op_q : rpoly := [4; 5].

Example add_operands_unchanged_applies :
  valid_p op_heap op_p /\ valid_p op_heap op_q /\
  ssorted (view op_heap op_p) /\ ssorted (view op_heap op_q) /\
  (exists a b, In a op_p /\ In b op_q /\ dsof op_heap a = dsof op_heap b) /\
  snd (radd op_heap op_p op_q) = [4; 7; 5] /\
  view (fst (radd op_heap op_p op_q)) (snd (radd op_heap op_p op_q))
    = [Mono W [(0, 0)]; Mono W [(1, 0)]; Mono P [(0, 1)]].
Proof.
  split; [unfold valid_p; repeat constructor|].
  split; [unfold valid_p; repeat constructor|].
  split; [cbv; repeat split|].
  split; [cbv; repeat split|].
  split; [exists 2, 4; cbn; repeat split; auto|].
  split; vm_compute; reflexivity.
Qed.

(* non-vacuity 2: x.add(x) *)
Example add_self_applies :
  ssorted (view op_heap op_p) /\
  snd (radd op_heap op_p op_p) = [2; 3] /\
  fst (radd op_heap op_p op_p) = op_heap ++ [Mono M [(0, 0)]; Mono W [(1, 0)]].
Proof.
  split; [cbv; repeat split|]. split; vm_compute; reflexivity.
Qed.

(* the in-place write of sort_monomials' merge does run in the model -- on copies made in the same
   call: self = [2; 3] holds two monomials with the same delta list, their copies are 5 and 6 ... *)
Definition dup_heap : heap := heap0 ++ [Mono W [(0, 0)]; Mono M [(0, 0)]; Mono P [(0, 1)]].

Example sort_write_hits_fresh_copy :
  let h' := fst (radd dup_heap [2; 3] [4]) in
  length dup_heap = 5 /\
  hget dup_heap 3 = Mono M [(0, 0)] /\        (* the original of the copy with stamp 6 *)
  hget h' 6 = Mono W [(0, 0)] /\              (* ... whose scalar was assigned by the merge *)
  hget h' 3 = Mono M [(0, 0)] /\
  view h' [2; 3; 4] = view dup_heap [2; 3; 4].
Proof. vm_compute. repeat split. Qed.

Print Assumptions times_operands_unchanged.
Print Assumptions add_self_unchanged.
Print Assumptions radd_loop_heap_const.
Print Assumptions add_writes_nothing_old.
Print Assumptions add_operands_unchanged.
Print Assumptions add_operands_unchanged_any.
Print Assumptions add_never_mutates_an_existing_monomial.
Print Assumptions add_operands_unchanged_applies.
Print Assumptions add_self_applies.
Print Assumptions sort_write_hits_fresh_copy.
