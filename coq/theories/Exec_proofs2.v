(* C03, part 2: conformance of a store to a flow matrix, the leaf rules, and the induction along
   [derive] (sequence = product, if/else = sum, loops = closure; the W and L side conditions are not
   needed for shape).  DESIGN.md appendix A.4. *)
From Coq Require Import String List Bool Arith Lia.
From PM Require Import Semiring Poly Rel Analysis Calculus Sem_stmts Calc_alg Exec Exec_proofs.
From PMGen Require Import RulesGen.
Import ListNotations.
Open Scope list_scope.
Open Scope string_scope.

(* ------------------------------------------------------------------ *)
(* conformance                                                         *)

(* the value of every variable v of V has the shape column v of A allows *)
Definition Conf (V : list string) (A : smat) (st : store) : Prop :=
  forall v, In v V -> good V (fun u => A u v) (st v).

Lemma Conf_weaken V A A' st : leV V A A' -> Conf V A st -> Conf V A' st.
Proof.
  intros H C v Hv. eapply good_weaken; [|apply C; exact Hv].
  intros u Hu. apply H; assumption.
Qed.

Lemma Conf_init V : Conf V sid init.
Proof. intros v Hv. apply good_init. exact Hv. Qed.

(* A <= A.S whenever S has at least m on the diagonal *)
Lemma leV_smul_diag V A S : (forall y, In y V -> sc_le M (S y y)) -> leV V A (smul V A S).
Proof.
  intros HS x y Hx Hy. rewrite smul_sumS.
  eapply sc_le_trans; [| apply (sumS_ge (fun k => sprod (A x k) (S k y)) V y Hy)].
  apply sprod_ge_l. apply HS. exact Hy.
Qed.

Lemma leV_smul_sid V A : leV V A (smul V A sid).
Proof. apply leV_smul_diag. intros y _. rewrite sid_eq. apply sc_le_refl. Qed.

(* one entry of a product dominates each of its terms *)
Lemma smul_ge V A L u x k : In k V -> sc_le (sprod (A u k) (L k x)) (smul V A L u x).
Proof. intros Hk. rewrite smul_sumS. apply (sumS_ge (fun j => sprod (A u j) (L j x)) V k Hk). Qed.

(* a leaf whose matrix is the identity except column x *)
Definition col_mat (L : smat) (x : string) (f : string -> Sc) : Prop :=
  forall u v, L u v = if String.eqb v x then f u else sid u v.

Lemma Conf_leaf V A L x f st val :
  col_mat L x f -> Conf V A st ->
  (In x V -> good V (fun u => smul V A L u x) val) ->
  Conf V (smul V A L) (upd st x val).
Proof.
  intros HL C Hx v Hv. unfold upd. destruct (String.eqb v x) eqn:E.
  - apply String.eqb_eq in E. subst v. apply Hx. exact Hv.
  - eapply good_weaken; [|apply C; exact Hv]. intros u Hu. cbv beta.
    eapply sc_le_trans; [|apply (smul_ge V A L u v v Hv)].
    rewrite HL, E, sid_eq. rewrite sprod_M_r. apply sc_le_refl.
Qed.

(* ------------------------------------------------------------------ *)
(* the rule table, as far as shape needs it                            *)

Ltac str_eqs :=
  repeat match goal with
         | |- context [String.eqb ?a ?a] => rewrite (String.eqb_refl a)
         | H : ?a <> ?b |- context [String.eqb ?a ?b] => rewrite (proj2 (String.eqb_neq a b) H)
         | H : ?a <> ?b |- context [String.eqb ?b ?a] => rewrite (proj2 (String.eqb_neq b a) (not_eq_sym H))
         end.

Definition alt_add (fy fz : Sc) : Prop :=
  (sc_le M fy /\ sc_le P fz) \/ (sc_le P fy /\ sc_le M fz) \/ (sc_le W fy /\ sc_le W fz).

Lemma leaf_bin_shape x op y z c L :
  leaf_bin x op (Some y) (Some z) c = Some L ->
  exists f, col_mat L x f /\
    ((op = "*" /\ sc_le W (f y) /\ sc_le W (f z)) \/
     ((op = "+" \/ op = "-") /\ alt_add (f y) (f z))).
Proof.
  unfold leaf_bin. destruct (mem_strb op BIN_OPS) eqn:Eop; [|discriminate].
  apply mem_strb_In in Eop. rewrite cv_table_is_documented.
  assert (Hc : c = 0 \/ c = 1 \/ exists c', c = S (S c')) by (destruct c as [|[|c']]; eauto).
  unfold alt_add, sc_le.
  destruct (string_dec x y) as [Exy|Nxy]; destruct (string_dec x z) as [Exz|Nxz];
    destruct (string_dec y z) as [Eyz|Nyz]; subst; try congruence;
    simpl in Eop; destruct Eop as [<-|[<-|[<-|[]]]];
    cbn [negb cv_lookup mem_strb index_of_str opt_str_eqb andb orb option_map String.eqb Ascii.eqb Bool.eqb
         dedup_first filter opt_names flat_map app map];
    str_eqs;
    cbn [negb cv_lookup mem_strb index_of_str opt_str_eqb andb orb option_map String.eqb Ascii.eqb Bool.eqb
         dedup_first filter opt_names flat_map app map];
    str_eqs;
    cbn [negb cv_lookup mem_strb index_of_str opt_str_eqb andb orb option_map String.eqb Ascii.eqb Bool.eqb
         dedup_first filter opt_names flat_map app map];
    intros HL; inversion HL; subst L; clear HL;
    (eexists; split; [intros u v; reflexivity|]);
    cbn [assoc_sc]; str_eqs;
    destruct Hc as [->|[->|[c' ->]]]; cbn [nth_triple rank]; (left + right); repeat split; auto; lia.
Qed.
