(* C03, part 2: conformance of a store to a flow matrix, the leaf rules, and the induction along
   [derive] (sequence = product, if/else = sum, loops = closure; the W and L side conditions are not
   needed for shape).  DESIGN.md appendix A.4. *)
From Coq Require Import String List Bool Arith Lia.
From PM Require Import Semiring Poly Rel Analysis Calculus Sem_stmts Calc_alg Exec Exec_proofs.
From PM Require An_stmts.
From PMGen Require Import RulesGen.
Import ListNotations.
Open Scope list_scope.
Open Scope string_scope.

(* ------------------------------------------------------------------ *)
(* conformance                                                         *)

(* the value of every variable v of V has the shape column v of A allows *)
Definition Conf (V : list string) (A : smat) (st : store) : Prop :=
  forall v, In v V -> good V (fun u => A u v) (st v).

Lemma Conf_weaken V A A' st : leV V A A' -> Conf V A st -> Conf V A' st.
Proof.
  intros H C v Hv. eapply good_weaken; [|apply C; exact Hv].
  intros u Hu. apply H; assumption.
Qed.

Lemma Conf_init V : Conf V sid init.
Proof. intros v Hv. apply good_init. exact Hv. Qed.

(* A <= A.S whenever S has at least m on the diagonal *)
Lemma leV_smul_diag V A S : (forall y, In y V -> sc_le M (S y y)) -> leV V A (smul V A S).
Proof.
  intros HS x y Hx Hy. rewrite smul_sumS.
  eapply sc_le_trans; [| apply (sumS_ge (fun k => sprod (A x k) (S k y)) V y Hy)].
  apply sprod_ge_l. apply HS. exact Hy.
Qed.

Lemma leV_smul_sid V A : leV V A (smul V A sid).
Proof. apply leV_smul_diag. intros y _. rewrite sid_eq. apply sc_le_refl. Qed.

(* one entry of a product dominates each of its terms *)
Lemma smul_ge V A L u x k : In k V -> sc_le (sprod (A u k) (L k x)) (smul V A L u x).
Proof. intros Hk. rewrite smul_sumS. apply (sumS_ge (fun j => sprod (A u j) (L j x)) V k Hk). Qed.

(* a leaf whose matrix is the identity except column x *)
Definition col_mat (L : smat) (x : string) (f : string -> Sc) : Prop :=
  forall u v, L u v = if String.eqb v x then f u else sid u v.

Lemma Conf_leaf V A L x f st val :
  col_mat L x f -> Conf V A st ->
  (In x V -> good V (fun u => smul V A L u x) val) ->
  Conf V (smul V A L) (upd st x val).
Proof.
  intros HL C Hx v Hv. unfold upd. destruct (String.eqb v x) eqn:E.
  - apply String.eqb_eq in E. subst v. apply Hx. exact Hv.
  - eapply good_weaken; [|apply C; exact Hv]. intros u Hu. cbv beta.
    eapply sc_le_trans; [|apply (smul_ge V A L u v v Hv)].
    rewrite HL, E, sid_eq. rewrite sprod_M_r. apply sc_le_refl.
Qed.

(* ------------------------------------------------------------------ *)
(* the rule table, as far as shape needs it                            *)

Ltac str_eqs :=
  repeat match goal with
         | |- context [String.eqb ?a ?a] => rewrite (String.eqb_refl a)
         | H : ?a <> ?b |- context [String.eqb ?a ?b] => rewrite (proj2 (String.eqb_neq a b) H)
         | H : ?a <> ?b |- context [String.eqb ?b ?a] => rewrite (proj2 (String.eqb_neq b a) (not_eq_sym H))
         end.

Definition alt_add (fy fz : Sc) : Prop :=
  (sc_le M fy /\ sc_le P fz) \/ (sc_le P fy /\ sc_le M fz) \/ (sc_le W fy /\ sc_le W fz).

Lemma leaf_bin_shape x op y z c L :
  leaf_bin x op (Some y) (Some z) c = Some L ->
  exists f, col_mat L x f /\
    ((op = "*" /\ sc_le W (f y) /\ sc_le W (f z)) \/
     ((op = "+" \/ op = "-") /\ alt_add (f y) (f z))).
Proof.
  unfold leaf_bin. destruct (mem_strb op BIN_OPS) eqn:Eop; [|discriminate].
  apply mem_strb_In in Eop. rewrite cv_table_is_documented.
  assert (Hc : c = 0 \/ c = 1 \/ exists c', c = S (S c')) by (destruct c as [|[|c']]; eauto).
  unfold alt_add, sc_le.
  destruct (string_dec x y) as [Exy|Nxy]; destruct (string_dec x z) as [Exz|Nxz];
    destruct (string_dec y z) as [Eyz|Nyz]; subst; try congruence;
    simpl in Eop; destruct Eop as [<-|[<-|[<-|[]]]].
  all: cbn [negb cv_lookup mem_strb index_of_str opt_str_eqb andb orb option_map String.eqb Ascii.eqb Bool.eqb
         dedup_first filter opt_names flat_map app map].
  all: str_eqs.
  all: cbn [negb cv_lookup mem_strb index_of_str opt_str_eqb andb orb option_map String.eqb Ascii.eqb Bool.eqb
         dedup_first filter opt_names flat_map app map].
  all: str_eqs.
  all: cbn [negb cv_lookup mem_strb index_of_str opt_str_eqb andb orb option_map String.eqb Ascii.eqb Bool.eqb
         dedup_first filter opt_names flat_map app map].
  all: intros HL; inversion HL; subst L; clear HL.
  all: (eexists; split; [intros u v; reflexivity|]).
  all: cbn [assoc_sc]; str_eqs.
  all: destruct Hc as [->|[->|[c' ->]]]; cbn [nth_triple rank].
  all: first [ left; split; [reflexivity | lia] | right; split; [auto | lia] ].
Qed.

(* ------------------------------------------------------------------ *)
(* leaves                                                              *)

Lemma Conf_copy V A st x y :
  In x V -> In y V -> Conf V A st -> Conf V (smul V A (leaf_copy x y)) (upd st x (st y)).
Proof.
  intros Hx Hy C. unfold leaf_copy. destruct (String.eqb x y) eqn:E.
  - apply String.eqb_eq in E. subst y. intros v Hv. unfold upd.
    apply good_weaken with (col := fun u => A u v).
    + intros u Hu. apply leV_smul_sid; assumption.
    + destruct (String.eqb v x) eqn:E2; [apply String.eqb_eq in E2; subst v|]; apply C; assumption.
  - apply Conf_leaf with (f := fun u => if String.eqb u y then M else O).
    + intros u v. reflexivity.
    + exact C.
    + intros _. eapply good_weaken; [|apply C; exact Hy]. intros u Hu. cbv beta.
      eapply sc_le_trans; [|apply (smul_ge V A _ u x y Hy)].
      unfold scol. rewrite !String.eqb_refl. rewrite sprod_M_r. apply sc_le_refl.
Qed.

Lemma Conf_bin V A st x op y z c L val :
  In x V -> In y V -> In z V ->
  leaf_bin x op (Some y) (Some z) c = Some L -> exec_bin op (st y) (st z) = Some val ->
  Conf V A st -> Conf V (smul V A L) (upd st x val).
Proof.
  intros Hx Hy Hz HL Hex C.
  destruct (leaf_bin_shape _ _ _ _ _ _ HL) as [f [Hcol Hf]].
  apply (Conf_leaf V A L x f st val Hcol C). intros _.
  assert (Gy := C y Hy). assert (Gz := C z Hz).
  assert (Ly : forall u, sc_le (sprod (A u y) (f y)) (smul V A L u x)).
  { intros u. eapply sc_le_trans; [|apply (smul_ge V A L u x y Hy)].
    rewrite Hcol, String.eqb_refl. apply sc_le_refl. }
  assert (Lz : forall u, sc_le (sprod (A u z) (f z)) (smul V A L u x)).
  { intros u. eapply sc_le_trans; [|apply (smul_ge V A L u x z Hz)].
    rewrite Hcol, String.eqb_refl. apply sc_le_refl. }
  destruct Hf as [[-> [Wy Wz]] | [Hop Halt]].
  - unfold exec_bin in Hex. simpl in Hex. inversion Hex; subst val.
    apply (good_WW V (fun u => A u y) (fun u => A u z) _ (st y) (st z)).
    + intros u. apply pvars_pmul.
    + exact Gy.
    + exact Gz.
    + intros u Hu. eapply sc_le_trans; [apply sprod_ge_W; exact Wy | apply Ly].
    + intros u Hu. eapply sc_le_trans; [apply sprod_ge_W; exact Wz | apply Lz].
  - assert (Ev : val = padd (st y) (st z)).
    { destruct Hop as [-> | ->]; unfold exec_bin in Hex; simpl in Hex; inversion Hex; reflexivity. }
    subst val. destruct Halt as [[My Pz] | [[Py Mz] | [Wy Wz]]].
    + apply (good_add_MP V (fun u => A u y) (fun u => A u z)); [exact Gy | exact Gz | |].
      * intros u Hu. eapply sc_le_trans; [apply sprod_ge_l; exact My | apply Ly].
      * intros u Hu. eapply sc_le_trans; [apply sprod_ge_P; exact Pz | apply Lz].
    + apply (good_add_PM V (fun u => A u y) (fun u => A u z)); [exact Gy | exact Gz | |].
      * intros u Hu. eapply sc_le_trans; [apply sprod_ge_P; exact Py | apply Ly].
      * intros u Hu. eapply sc_le_trans; [apply sprod_ge_l; exact Mz | apply Lz].
    + apply (good_WW V (fun u => A u y) (fun u => A u z) _ (st y) (st z)).
      * intros u Hu. unfold padd in Hu. rewrite pvars_app in Hu. apply in_app_or. exact Hu.
      * exact Gy.
      * exact Gz.
      * intros u Hu. eapply sc_le_trans; [apply sprod_ge_W; exact Wy | apply Ly].
      * intros u Hu. eapply sc_le_trans; [apply sprod_ge_W; exact Wz | apply Lz].
Qed.

(* ------------------------------------------------------------------ *)
(* unfolding lemmas for the semantics                                  *)

Lemma exec_seq_nil ex st : exec_seq ex [] [] st = Some st.
Proof. reflexivity. Qed.

Lemma exec_seq_cons ex p1 pr s1 sr st :
  exec_seq ex (p1 :: pr) (s1 :: sr) st =
  match ex p1 s1 st with Some st' => exec_seq ex pr sr st' | None => None end.
Proof. reflexivity. Qed.

Lemma exec_seq_mismatch ex ps ss st st' :
  exec_seq ex ps ss st = Some st' -> length ps = length ss.
Proof.
  revert ss st. induction ps as [|p1 pr IH]; intros [|s1 sr] st H; try discriminate H; [reflexivity|].
  rewrite exec_seq_cons in H. destruct (ex p1 s1 st) as [st1|]; [|discriminate].
  simpl. f_equal. eapply IH. exact H.
Qed.

Lemma exec_iter_cons ex q r st :
  exec_iter ex (q :: r) st = match ex q st with Some st' => exec_iter ex r st' | None => None end.
Proof. reflexivity. Qed.

Lemma dlist_None rec V l : forall idx, fst (dlist rec V l None idx) = None.
Proof.
  induction l as [|s1 t IH]; intros idx; simpl; [reflexivity|].
  destruct (rec s1 idx) as [m idx']. apply IH.
Qed.

(* ------------------------------------------------------------------ *)
(* the closure                                                         *)

Lemma star_props V B0 St :
  sstar V B0 = Some St ->
  (forall y, In y V -> sc_le M (St y y)) /\ leV V (smul V St B0) St.
Proof.
  unfold sstar. intros H.
  destruct (sstar_loop_inv (fun _ => True) V B0 (fun _ _ => Logic.I) _ _ _ Logic.I H) as [_ Hfix].
  split.
  - intros y Hy. rewrite <- (Hfix y y Hy Hy), sstep_eq, sid_eq. apply sc_le_ssum_l.
  - intros x y Hx Hy. rewrite <- (Hfix x y Hx Hy), sstep_eq. apply sc_le_ssum_r.
Qed.

Lemma l_extend_ge V X St : leV V St (memo V (l_extend V X St)).
Proof.
  intros u v _ _. rewrite memo_eq. unfold l_extend.
  destruct (String.eqb u X && existsb (fun i => L_PROPAGATE (St i v) (String.eqb i v)) V).
  - apply sc_le_ssum_l.
  - apply sc_le_refl.
Qed.

Lemma for_body_vars iters srcs conds nxt body :
  incl (stmt_vars body) (stmt_vars (SFor iters srcs conds nxt body)).
Proof.
  intros v Hv. simpl. destruct (loop_guard_x iters srcs conds nxt) as [|x [|? ?]]; try exact Hv.
  destruct (mem_strb x (stmt_vars body)); [exact Hv | right; exact Hv].
Qed.

(* ------------------------------------------------------------------ *)
(* the induction                                                       *)

Section Induction.
Variable V : list string.
Variable cs : list nat.

Definition SoundF (fuel : nat) : Prop :=
  forall s p idx A B st st', incl (stmt_vars s) V ->
    fst (derive fuel V s cs idx) = Some B -> exec p s st = Some st' ->
    Conf V A st -> Conf V (smul V A B) st'.

(* F = what is in front of the accumulated matrix: the identity at top level, A. inside a statement *)
Lemma sound_list fuel (F : smat -> smat) :
  SoundF fuel ->
  (forall X m, leV V (smul V (F X) m) (F (memo V (smul V X m)))) ->
  forall l ps idx acc B st st', incl (flat_map stmt_vars l) V ->
    fst (dlist (fun s1 i => derive fuel V s1 cs i) V l (Some acc) idx) = Some B ->
    exec_seq exec ps l st = Some st' -> Conf V (F acc) st -> Conf V (F B) st'.
Proof.
  intros IH HF. induction l as [|s1 t IHl]; intros ps idx acc B st st' Hv Hd Hex C.
  - destruct ps; [|discriminate Hex]. rewrite exec_seq_nil in Hex. simpl in Hd.
    inversion Hd; inversion Hex; subst. exact C.
  - destruct ps as [|p1 pr]; [discriminate Hex|]. rewrite exec_seq_cons in Hex.
    destruct (exec p1 s1 st) as [st1|] eqn:E1; [|discriminate].
    simpl in Hd. destruct (derive fuel V s1 cs idx) as [m idx'] eqn:Ed.
    simpl in Hv. apply incl_app_inv in Hv. destruct Hv as [Hv1 Hvt].
    destruct m as [m1|].
    + simpl in Hd. apply (IHl pr idx' _ B st1 st' Hvt Hd Hex).
      eapply Conf_weaken; [apply HF|].
      apply (IH s1 p1 idx (F acc) m1 st st1 Hv1); [rewrite Ed; reflexivity | exact E1 | exact C].
    + simpl in Hd. rewrite dlist_None in Hd. discriminate.
Qed.

Lemma F_smul A : forall X m, leV V (smul V (smul V A X) m) (smul V A (memo V (smul V X m))).
Proof.
  intros X m x y Hx Hy. rewrite (smul_assoc V A X m x y).
  apply (smul_mono V A A (smul V X m) (memo V (smul V X m))); auto.
  - apply leV_refl.
  - intros a b _ _. rewrite memo_eq. apply sc_le_refl.
Qed.

Lemma F_id : forall X m, leV V (smul V X m) (memo V (smul V X m)).
Proof. intros X m x y _ _. rewrite memo_eq. apply sc_le_refl. Qed.

Lemma sound_iter A B0 St body :
  (forall q A' st st', exec q body st = Some st' -> Conf V A' st -> Conf V (smul V A' B0) st') ->
  leV V (smul V St B0) St ->
  forall its st st', exec_iter (fun q => exec q body) its st = Some st' ->
    Conf V (smul V A St) st -> Conf V (smul V A St) st'.
Proof.
  intros Hb HS. induction its as [|q r IH]; intros st st' Hex C.
  - simpl in Hex. inversion Hex; subst. exact C.
  - rewrite exec_iter_cons in Hex. destruct (exec q body st) as [st1|] eqn:E1; [|discriminate].
    apply (IH st1 st' Hex). eapply Conf_weaken; [|apply (Hb q _ st st1 E1 C)].
    intros x y Hx Hy. rewrite (smul_assoc V A St B0 x y).
    apply (smul_mono V A A (smul V St B0) St); auto. apply leV_refl.
Qed.

Lemma sound_loop fuel A body idx B0 St its st st' :
  SoundF fuel -> incl (stmt_vars body) V ->
  fst (derive fuel V body cs idx) = Some B0 -> sstar V B0 = Some St ->
  exec_iter (fun q => exec q body) its st = Some st' ->
  Conf V A st -> Conf V (smul V A St) st'.
Proof.
  intros IH Hv Hd Hs Hex C. destruct (star_props V B0 St Hs) as [S1 S2].
  apply (sound_iter A B0 St body) with (its := its) (st := st); auto.
  - intros q A' s1 s2 E C'. apply (IH body q idx A' B0 s1 s2 Hv Hd E C').
  - eapply Conf_weaken; [apply leV_smul_diag; exact S1 | exact C].
Qed.

Lemma sound_fuel : forall fuel, SoundF fuel.
Proof.
  induction fuel as [|fuel IH]; intros s p idx A B st st' Hv Hd Hex C.
  - simpl in Hd. discriminate.
  - destruct s; cbn [derive] in Hd.
    + (* SSkip *)
      destruct p; try discriminate Hex. simpl in Hex, Hd. inversion Hex; inversion Hd; subst.
      eapply Conf_weaken; [apply leV_smul_sid | exact C].
    + (* SBin *)
      destruct p; try discriminate Hex.
      destruct y as [y|]; [|discriminate Hex]. destruct z as [z|]; [|discriminate Hex].
      cbn [exec] in Hex. destruct (exec_bin op (st y) (st z)) as [val|] eqn:Eb; [|discriminate].
      inversion Hex; subst st'. unfold d_bin in Hd. simpl in Hd.
      simpl in Hv.
      apply (Conf_bin V A st x op y z (nth idx cs 0) B val); auto.
      * apply Hv. simpl; auto.
      * apply Hv. simpl; auto.
      * apply Hv. simpl; auto.
    + (* SConst *) destruct p; discriminate Hex.
    + (* SCopy *)
      destruct p; try discriminate Hex. simpl in Hex, Hd. inversion Hex; inversion Hd; subst.
      apply Conf_copy; auto; apply Hv; simpl; auto.
    + (* SUnAsg *) destruct p; discriminate Hex.
    + (* SUnary *) destruct p; discriminate Hex.
    + (* SIf *)
      destruct p as [|? |b ps|?]; try discriminate Hex.
      change (exec_seq exec ps (if b then t else e) st = Some st') in Hex.
      destruct (dlist (fun s1 i => derive fuel V s1 cs i) V t (Some sid) idx) as [mt i1] eqn:Et.
      destruct (dlist (fun s1 i => derive fuel V s1 cs i) V e (Some sid) i1) as [me i2] eqn:Ee.
      simpl in Hd. destruct mt as [Bt|]; [|discriminate]. destruct me as [Be|]; [|discriminate].
      simpl in Hd. inversion Hd; subst B.
      simpl in Hv. apply incl_app_inv in Hv. destruct Hv as [Hvt Hve].
      assert (C0 : Conf V (smul V A sid) st) by (eapply Conf_weaken; [apply leV_smul_sid | exact C]).
      destruct b.
      * eapply Conf_weaken;
          [| apply (sound_list fuel (smul V A) IH (F_smul A) t ps idx sid Bt st st' Hvt); [rewrite Et; reflexivity | exact Hex | exact C0]].
        apply (smul_mono V A A Bt (memo V (sadd Be Bt))); [apply leV_refl|].
        intros x y _ _. rewrite memo_eq. unfold sadd. apply sc_le_ssum_r.
      * eapply Conf_weaken;
          [| apply (sound_list fuel (smul V A) IH (F_smul A) e ps i1 sid Be st st' Hve); [rewrite Ee; reflexivity | exact Hex | exact C0]].
        apply (smul_mono V A A Be (memo V (sadd Be Bt))); [apply leV_refl|].
        intros x y _ _. rewrite memo_eq. unfold sadd. apply sc_le_ssum_l.
    + (* SWhile *)
      destruct p as [|? |? ?|its]; try discriminate Hex.
      change (exec_iter (fun q => exec q s) its st = Some st') in Hex.
      destruct (derive fuel V s cs idx) as [mb i1] eqn:Eb. simpl in Hd. unfold d_while in Hd.
      destruct mb as [B0|]; [|discriminate]. destruct (sstar V B0) as [St|] eqn:Es; [|discriminate].
      destruct (w_ok V St); [|discriminate]. inversion Hd; subst B.
      simpl in Hv. apply incl_app_inv in Hv. destruct Hv as [_ Hvb].
      apply (sound_loop fuel A s idx B0 St its st st' IH Hvb); auto. rewrite Eb; reflexivity.
    + (* SFor *)
      destruct p as [|? |? ?|its]; try discriminate Hex.
      cbn [exec] in Hex.
      destruct (loop_compat iters srcs conds nxt s) as [X|] eqn:El; [|discriminate Hex].
      destruct (derive fuel V s cs idx) as [mb i1] eqn:Eb. simpl in Hd. unfold d_for in Hd.
      destruct mb as [B0|]; [|discriminate]. destruct (sstar V B0) as [St|] eqn:Es; [|discriminate].
      destruct (l_ok V St); [|discriminate]. inversion Hd; subst B.
      assert (Hvb : incl (stmt_vars s) V).
      { intros v Hin. apply Hv. apply for_body_vars. exact Hin. }
      eapply Conf_weaken; [| apply (sound_loop fuel A s idx B0 St its st st' IH Hvb); auto; rewrite Eb; reflexivity].
      apply (smul_mono V A A St (memo V (l_extend V X St))); [apply leV_refl | apply l_extend_ge].
    + (* SBlock *)
      destruct p as [|ps |? ?|?]; try discriminate Hex.
      change (exec_seq exec ps l st = Some st') in Hex.
      apply (sound_list fuel (smul V A) IH (F_smul A) l ps idx sid B st st'); auto.
      eapply Conf_weaken; [apply leV_smul_sid | exact C].
Qed.

End Induction.

(* ------------------------------------------------------------------ *)
(* function level                                                      *)

Lemma dedup_In' x l : In x (dedup l) <-> In x l.
Proof.
  induction l as [|h t IH]; simpl; [tauto|].
  destruct (mem_strb h t) eqn:E.
  - rewrite IH. split; [auto|]. intros [->|H]; [apply mem_strb_In; exact E | exact H].
  - simpl. rewrite IH. tauto.
Qed.

Lemma insert_sorted_In' x y l : In y (insert_sorted x l) <-> y = x \/ In y l.
Proof.
  induction l as [|h t IH]; simpl; [intuition congruence|].
  destruct (str_ltb x h); simpl; [intuition congruence|]. rewrite IH. intuition congruence.
Qed.

Lemma sort_str_In' x l : In x (sort_str l) <-> In x l.
Proof.
  unfold sort_str. induction l as [|h t IH]; simpl; [tauto|].
  rewrite insert_sorted_In', IH. intuition congruence.
Qed.

Lemma func_vars_body' f : incl (flat_map stmt_vars (f_body f)) (func_vars f).
Proof.
  intros v Hv. unfold func_vars. apply sort_str_In'. apply dedup_In'. apply in_or_app. right; exact Hv.
Qed.

Theorem good_func f cs A p st' v :
  fst (derive_func f cs) = Some A -> exec_func p f = Some st' -> In v (func_vars f) ->
  good (func_vars f) (fun u => A u v) (st' v).
Proof.
  unfold derive_func, derive_list, exec_func. intros Hd Hex Hv.
  destruct p as [|ps |? ?|?]; try discriminate Hex.
  change (exec_seq exec ps (f_body f) init = Some st') in Hex.
  apply (sound_list (func_vars f) cs depth_fuel (fun X => X) (sound_fuel (func_vars f) cs depth_fuel)
           (F_id (func_vars f)) (f_body f) ps 0 sid A init st' (func_vars_body' f) Hd Hex).
  - apply Conf_init.
  - exact Hv.
Qed.

Theorem shape_func : forall f cs A p st' v,
  fst (derive_func f cs) = Some A -> exec_func p f = Some st' -> In v (func_vars f) ->
  shape_ok (fun u => A u v) (st' v) /\ incl (pvars (st' v)) (func_vars f).
Proof.
  intros f cs A p st' v Hd Hex Hv. pose proof (good_func f cs A p st' v Hd Hex Hv) as G.
  split; [eapply good_shape; exact G|]. intros u Hu. apply G. exact Hu.
Qed.

(* ---- reading the reported table ---- *)

Lemma tab_get_table V A u v : In u V -> In v V -> tab_get V (smat_table V A) u v = A u v.
Proof.
  intros Hu Hv. unfold tab_get, smat_table.
  apply mem_strb_In in Hu. apply mem_strb_In in Hv. unfold mem_strb in Hu, Hv.
  destruct (index_of_str u V) as [i|] eqn:Ei; [|discriminate].
  destruct (index_of_str v V) as [j|] eqn:Ej; [|discriminate].
  apply index_of_str_some in Ei. apply index_of_str_some in Ej.
  destruct Ei as [Hi Eu], Ej as [Hj Ev].
  rewrite (nth_map_lt _ _ _ _ ""%string Hi).
  rewrite (nth_map_lt _ _ _ _ ""%string Hj).
  subst. reflexivity.
Qed.

Theorem reported_func :
  An_stmts.finite_result_stmt ->
  forall f stop res r cs p st' v,
    An_stmts.func_ok f -> analyse f stop = ROk res -> fr_infinite res = false -> fr_rel res = Some r ->
    An_stmts.vec_ok (fr_index res) cs -> accepted (fr_inf_deltas res) cs = true ->
    exec_func p f = Some st' -> In v (func_vars f) ->
    shape_ok (fun u => tab_get (func_vars f) (apply_choice r (choice_of_list cs)) u v) (st' v).
Proof.
  intros FR f stop res r cs p st' v Hok Han Hinf Hr Hvec Hacc Hex Hv.
  destruct (FR f stop res Hok Han Hinf) as [_ [_ [r' [Hr' [_ Hall]]]]].
  rewrite Hr in Hr'. inversion Hr'; subst r'.
  destruct (Hall cs Hvec) as [Hiff Hmat]. destruct (proj1 Hiff Hacc) as [A HA].
  rewrite (Hmat A HA).
  apply (good_shape (func_vars f)).
  eapply good_weaken; [|apply (good_func f cs A p st' v HA Hex Hv)].
  intros u Hu. cbv beta. rewrite tab_get_table by assumption. apply sc_le_refl.
Qed.

(* ---- the guard of a counted loop ---- *)

Theorem guard_not_in_body iters srcs conds nxt body X :
  loop_compat iters srcs conds nxt body = Some X -> ~ In X (stmt_vars body).
Proof.
  unfold loop_compat. destruct (loop_guard_x iters srcs conds nxt) as [|x [|? ?]]; try discriminate.
  destruct (mem_strb x (stmt_vars body)) eqn:E; [discriminate|].
  intros H. inversion H; subst. apply mem_strb_notIn. exact E.
Qed.

(* a for statement whose guard variable occurs in its body gets no L rule: the calculus and the
   analysis model treat it as a skip, and it has no execution in the fragment *)
Theorem guard_in_body_no_L iters srcs conds nxt body X :
  loop_guard_x iters srcs conds nxt = [X] -> In X (stmt_vars body) ->
  loop_compat iters srcs conds nxt body = None /\
  (forall fuel V cs idx, derive (S fuel) V (SFor iters srcs conds nxt body) cs idx = (Some sid, idx)) /\
  (forall fuel index d, compute (S fuel) index (SFor iters srcs conds nxt body) d = skip index d) /\
  (forall p st, exec p (SFor iters srcs conds nxt body) st = None) /\
  cfree (SFor iters srcs conds nxt body) = false.
Proof.
  intros Hg Hin.
  assert (E : loop_compat iters srcs conds nxt body = None).
  { unfold loop_compat. rewrite Hg. apply mem_strb_In in Hin. rewrite Hin. reflexivity. }
  split; [exact E|]. split; [|split; [|split]].
  - intros. cbn [derive]. rewrite E. reflexivity.
  - intros. cbn [compute]. rewrite E. reflexivity.
  - intros p st. destruct p; try reflexivity. cbn [exec]. rewrite E. reflexivity.
  - cbn [cfree]. rewrite E. reflexivity.
Qed.

(* ---- the fragment is inhabited: every constant-free statement has an execution ---- *)

Fixpoint default_path (s : stmt) : path :=
  match s with
  | SIf t _ => PIf true (map default_path t)
  | SWhile _ b => PLoop [default_path b; default_path b]
  | SFor _ _ _ _ b => PLoop [default_path b; default_path b]
  | SBlock l => PSeq (map default_path l)
  | _ => PLeaf
  end.

Fixpoint stmt_size (s : stmt) : nat :=
  match s with
  | SIf t e => S (fold_right (fun x a => stmt_size x + a) 0 t + fold_right (fun x a => stmt_size x + a) 0 e)
  | SWhile _ b => S (stmt_size b)
  | SFor _ _ _ _ b => S (stmt_size b)
  | SBlock l => S (fold_right (fun x a => stmt_size x + a) 0 l)
  | _ => 1
  end.

Lemma cfree_has_path_n : forall n s, stmt_size s <= n -> cfree s = true ->
  forall st, exists st', exec (default_path s) s st = Some st'.
Proof.
  induction n as [|n IH]; intros s Hn Hc st.
  - destruct s; simpl in Hn; lia.
  - assert (HL : forall l, fold_right (fun x a => stmt_size x + a) 0 l <= n -> forallb cfree l = true ->
               forall st, exists st', exec_seq exec (map default_path l) l st = Some st').
    { induction l as [|s1 t IHl]; intros Hs Hf st0.
      - exists st0. reflexivity.
      - simpl in Hs, Hf. apply andb_true_iff in Hf. destruct Hf as [Hf1 Hf2].
        destruct (IH s1 ltac:(lia) Hf1 st0) as [st1 E1].
        destruct (IHl ltac:(lia) Hf2 st1) as [st2 E2].
        exists st2. simpl map. rewrite exec_seq_cons, E1. exact E2. }
    destruct s; simpl in Hn; cbn [cfree] in Hc; try discriminate Hc.
    + exists st. reflexivity.
    + destruct y as [y|]; [|discriminate Hc]. destruct z as [z|]; [|discriminate Hc].
      cbn [default_path exec]. unfold exec_bin.
      destruct (String.eqb op "+" || String.eqb op "-"); [eauto|].
      simpl in Hc. rewrite Hc. eauto.
    + eexists. reflexivity.
    + apply andb_true_iff in Hc. destruct Hc as [Hc1 _].
      destruct (HL t ltac:(lia) Hc1 st) as [st' E]. exists st'. exact E.
    + destruct (IH s ltac:(lia) Hc st) as [st1 E1]. destruct (IH s ltac:(lia) Hc st1) as [st2 E2].
      exists st2. cbn [default_path exec]. rewrite exec_iter_cons. cbv beta. rewrite E1. cbv beta iota. rewrite exec_iter_cons. cbv beta. rewrite E2. reflexivity.
    + destruct (loop_compat iters srcs conds nxt s) eqn:El; [|discriminate Hc].
      destruct (IH s ltac:(lia) Hc st) as [st1 E1]. destruct (IH s ltac:(lia) Hc st1) as [st2 E2].
      exists st2. cbn [default_path exec]. rewrite El, exec_iter_cons. cbv beta. rewrite E1. cbv beta iota. rewrite exec_iter_cons. cbv beta. rewrite E2. reflexivity.
    + destruct (HL l ltac:(lia) Hc st) as [st' E]. exists st'. exact E.
Qed.

Theorem cfree_has_path f : cfree_func f = true -> exists p st', exec_func p f = Some st'.
Proof.
  intros H. unfold exec_func.
  destruct (cfree_has_path_n _ (SBlock (f_body f)) (le_n _) H init) as [st' E].
  exists (default_path (SBlock (f_body f))), st'. exact E.
Qed.

(* ---- the statement is satisfiable and discriminating: the paper's example 3.1 ---- *)

Definition ex31 : func_src :=
  {| f_params := ["X1"; "X2"; "X3"];
     f_body := [SBin "X1" "+" (AVar "X2") (AVar "X3"); SBin "X1" "+" (AVar "X1") (AVar "X1")] |}.

Example ex31_instance :
  cfree_func ex31 = true /\ func_vars ex31 = ["X1"; "X2"; "X3"] /\
  exists A st',
    fst (derive_func ex31 [0; 0]) = Some A /\
    smat_table (func_vars ex31) A = [[O; O; O]; [P; M; O]; [P; O; M]] /\
    exec_func (PSeq [PLeaf; PLeaf]) ex31 = Some st' /\
    st' "X1" = [["X2"]; ["X3"]; ["X2"]; ["X3"]] /\
    shape_ok (fun u => A u "X1") (st' "X1") /\
    (* a wrong column (X2 max-listed: the bound max(X2) + X3) is rejected *)
    ~ shape_ok (fun u => if String.eqb u "X2" then M else if String.eqb u "X3" then P else O) (st' "X1").
Proof.
  split; [reflexivity|]. split; [reflexivity|].
  assert (H1 : match fst (derive_func ex31 [0; 0]) with
               | Some A => smat_table (func_vars ex31) A = [[O; O; O]; [P; M; O]; [P; O; M]]
               | None => False end) by (vm_compute; reflexivity).
  assert (H2 : match exec_func (PSeq [PLeaf; PLeaf]) ex31 with
               | Some st' => st' "X1" = [["X2"]; ["X3"]; ["X2"]; ["X3"]]
               | None => False end) by (vm_compute; reflexivity).
  destruct (fst (derive_func ex31 [0; 0])) as [A|] eqn:EA; [|contradiction].
  destruct (exec_func (PSeq [PLeaf; PLeaf]) ex31) as [st'|] eqn:Est; [|contradiction].
  exists A, st'. split; [reflexivity|]. rename H1 into ET. rename H2 into EV.
  split; [exact ET|]. split; [reflexivity|]. split; [exact EV|]. split.
  - assert (Hin : In "X1" (func_vars ex31)) by (vm_compute; auto).
    exact (proj1 (shape_func ex31 [0; 0] A (PSeq [PLeaf; PLeaf]) st' "X1" EA Est Hin)).
  - rewrite EV. intros [_ [H2 _]].
    destruct (H2 "X2" eq_refl) as [Hc _]; [simpl; auto|]. vm_compute in Hc. discriminate.
Qed.

Print Assumptions shape_func.
Print Assumptions reported_func.
Print Assumptions guard_not_in_body.
Print Assumptions guard_in_body_no_L.
Print Assumptions cfree_has_path.
Print Assumptions ex31_instance.
