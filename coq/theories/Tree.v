(* Generic labelled tree for pycparser ASTs (DESIGN 2.1) + schema well-formedness from the
   GENERATED PycSchema + the "annotate every node with the walker's result" recursion scheme
   used by every tree walker of Syntax.v.  Definitions and their structural lemmas only. *)
From Coq Require Import String List Bool Arith Lia.
From PMGen Require Import PycSchema.
Import ListNotations.
Open Scope string_scope.

(* A pycparser node: class name, plain (string) attributes -- an attribute whose Python value is
   None is ABSENT from [attrs], list-valued ones (quals, names, ...) are joined with spaces --,
   child slots in _c_ast.cfg order: a single slot `x*` holds a list of length <= 1 ([] = None),
   a list slot `x**` any list ([] = None or []). *)
Inductive node : Type :=
  Node (cls : string) (attrs : list (string * string)) (kids : list (string * list node)).

Definition ncls (n : node) : string := let 'Node c _ _ := n in c.
Definition nattrs (n : node) : list (string * string) := let 'Node _ a _ := n in a.
Definition nkids (n : node) : list (string * list node) := let 'Node _ _ k := n in k.

Section NodeInd.
  Variable P : node -> Prop.
  Hypothesis H : forall c a ks, Forall (fun sk => Forall P (snd sk)) ks -> P (Node c a ks).
  Fixpoint node_ind' (n : node) : P n :=
    match n with
    | Node c a ks =>
      H c a ks ((fix goK (l : list (string * list node)) : Forall (fun sk => Forall P (snd sk)) l :=
                   match l with
                   | [] => Forall_nil _
                   | sk :: l' =>
                     Forall_cons sk
                       ((fix goN (m : list node) : Forall P m :=
                           match m with
                           | [] => Forall_nil _
                           | x :: m' => Forall_cons x (node_ind' x) (goN m')
                           end) (snd sk))
                       (goK l')
                   end) ks)
    end.
End NodeInd.

(* ---------- small generic helpers ---------- *)
Definition in_s (x : string) (l : list string) : bool := existsb (String.eqb x) l.

Fixpoint assoc {A} (k : string) (l : list (string * A)) : option A :=
  match l with
  | [] => None
  | (k', v) :: t => if String.eqb k k' then Some v else assoc k t
  end.

Definition path := list (string * nat).

Definition step_eqb (a b : string * nat) : bool := String.eqb (fst a) (fst b) && Nat.eqb (snd a) (snd b).
Fixpoint path_eqb (p q : path) : bool :=
  match p, q with
  | [], [] => true
  | a :: p', b :: q' => step_eqb a b && path_eqb p' q'
  | _, _ => false
  end.

(* ---------- accessors (= getattr on the pycparser object) ---------- *)
Definition attr (n : node) (a : string) : option string := assoc a (nattrs n).
(* [slot n s = None]  <->  not hasattr(n, s)  for child attributes *)
Definition slot (n : node) (s : string) : option (list node) := assoc s (nkids n).
Definition has_slot (s : string) (n : node) : bool := match slot n s with Some _ => true | None => false end.
Definition kidl (n : node) (s : string) : list node := match slot n s with Some l => l | None => [] end.
(* value of a single-child attribute when it is a node (None otherwise) *)
Definition kid1 (n : node) (s : string) : option node := match kidl n s with x :: _ => Some x | [] => None end.
Definition is_cls (c : string) (n : node) : bool := String.eqb (ncls n) c.
Definition ois_cls (c : string) (o : option node) : bool := match o with Some n => is_cls c n | None => false end.
Definition ocls_in (cs : list string) (o : option node) : bool := match o with Some n => in_s (ncls n) cs | None => false end.
(* hasattr(n,'name') and n.name and isinstance(n.name, str) *)
Definition str_name (n : node) : option string :=
  match attr n "name" with Some s => if String.eqb s "" then None else Some s | None => None end.

(* ---------- boolean equality ---------- *)
Fixpoint attrs_eqb (a b : list (string * string)) : bool :=
  match a, b with
  | [], [] => true
  | (k1, v1) :: a', (k2, v2) :: b' => String.eqb k1 k2 && String.eqb v1 v2 && attrs_eqb a' b'
  | _, _ => false
  end.

Fixpoint node_eqb (x y : node) : bool :=
  match x, y with
  | Node c1 a1 k1, Node c2 a2 k2 =>
    String.eqb c1 c2 && attrs_eqb a1 a2 &&
    (fix kids_eqb (p q : list (string * list node)) : bool :=
       match p, q with
       | [], [] => true
       | (s1, l1) :: p', (s2, l2) :: q' =>
         String.eqb s1 s2 &&
         (fix list_eqb (u v : list node) : bool :=
            match u, v with
            | [], [] => true
            | n1 :: u', n2 :: v' => node_eqb n1 n2 && list_eqb u' v'
            | _, _ => false
            end) l1 l2 && kids_eqb p' q'
       | _, _ => false
       end) k1 k2
  end.

(* ---------- schema well-formedness ---------- *)
Definition schema_of (c : string) : option (list string * list (string * bool)) := assoc c PYC_SCHEMA.

Fixpoint nodup_s (l : list string) : bool :=
  match l with [] => true | x :: t => negb (in_s x t) && nodup_s t end.

Fixpoint list_s_eqb (a b : list string) : bool :=
  match a, b with
  | [], [] => true
  | x :: a', y :: b' => String.eqb x y && list_s_eqb a' b'
  | _, _ => false
  end.

(* a tree respects pycparser's class schema: known class, attribute names among the declared plain
   attributes (no repeats), exactly the declared child slots in order, single slots hold <= 1 child *)
Fixpoint wf_pyc (n : node) : bool :=
  match n with
  | Node c a ks =>
    match schema_of c with
    | None => false
    | Some (an, sl) =>
      forallb (fun k => in_s k an) (map fst a) && nodup_s (map fst a) &&
      list_s_eqb (map fst ks) (map fst sl) &&
      forallb (fun sk => match assoc (fst sk) sl with
                         | Some many => (many || Nat.leb (List.length (snd sk)) 1) && forallb wf_pyc (snd sk)
                         | None => false
                         end) ks
    end
  end.

(* ---------- depth / size ---------- *)
Fixpoint nsize (n : node) : nat :=
  match n with Node _ _ ks => S (fold_right (fun sk acc => fold_right (fun x acc' => nsize x + acc') acc (snd sk)) 0 ks) end.

(* all nodes, preorder *)
Fixpoint subnodes (n : node) : list node :=
  match n with Node _ _ ks => n :: flat_map (fun sk => flat_map subnodes (snd sk)) ks end.

(* node at a path *)
Fixpoint node_at (p : path) (n : node) : option node :=
  match p with
  | [] => Some n
  | (s, i) :: p' => match nth_error (kidl n s) i with Some x => node_at p' x | None => None end
  end.

(* ---------- the annotation scheme ----------
   A walker is given by [step c attrs kids akids : R] where [akids] are the kids already annotated
   with their own results; [walk n] is the result at the root.  Walkers read children AND
   grandchildren results through [akid1]/[akidl] exactly where the Python code calls self.recurse. *)
Inductive ann (R : Type) : Type :=
  Ann (r : R) (n : node) (ks : list (string * list (ann R))).
Arguments Ann {R}.

Definition ares {R} (x : ann R) : R := let 'Ann r _ _ := x in r.
Definition anode {R} (x : ann R) : node := let 'Ann _ n _ := x in n.
Definition akids {R} (x : ann R) : list (string * list (ann R)) := let 'Ann _ _ k := x in k.
Definition akl {R} (ks : list (string * list (ann R))) (s : string) : list (ann R) :=
  match assoc s ks with Some l => l | None => [] end.
Definition ak1 {R} (ks : list (string * list (ann R))) (s : string) : option (ann R) :=
  match akl ks s with x :: _ => Some x | [] => None end.

Section Annotate.
  Context {R : Type}.
  Variable step : string -> list (string * string) -> list (string * list node) -> list (string * list (ann R)) -> R.
  Fixpoint annotate (n : node) : ann R :=
    match n with
    | Node c a ks =>
      let aks := map (fun sk => (fst sk, map annotate (snd sk))) ks in
      Ann (step c a ks aks) n aks
    end.
  Definition walk (n : node) : R := ares (annotate n).
End Annotate.

(* mapi with the index, used for list slots *)
Fixpoint mapi_from {A B} (f : nat -> A -> B) (i : nat) (l : list A) : list B :=
  match l with [] => [] | x :: t => f i x :: mapi_from f (S i) t end.
Definition mapi {A B} (f : nat -> A -> B) (l : list A) : list B := mapi_from f 0 l.

(* ---------- monomorphic literal builders (generated case files type-check much faster
   without implicit type arguments to infer) ---------- *)
Definition kN : list (string * list node) := [].
Definition kC (s : string) (l : list node) (r : list (string * list node)) : list (string * list node) := (s, l) :: r.
Definition aN : list (string * string) := [].
Definition aC (k v : string) (r : list (string * string)) : list (string * string) := (k, v) :: r.
Definition lN : list node := [].
Definition lC (n : node) (l : list node) : list node := n :: l.
Definition pN : path := [].
Definition pC (s : string) (i : nat) (p : path) : path := (s, i) :: p.
Definition ppN : list path := [].
Definition ppC (p : path) (l : list path) : list path := p :: l.
Definition sN : list string := [].
Definition sC (s : string) (l : list string) : list string := s :: l.
