(* C08 -- loop mode gives a variable a bound only from a derivation valid for it.

   All statements are about the executable model PM.LoopAn of LoopAnalysis.inspect / get_result /
   maybe_result and the VResult setters (tied to the real code by tools/props/c08.py on every run), on top
   of PM.Analysis (Analysis.cmds / compute_relation), PM.Rel (var_eval, apply_choice) and PM.Bound
   (Bound.calculate).  The Choices object enters through its specification (props/C04.v): the vector the
   code takes as `choices.first` is a PARAMETER ([c], [firsts], [rf]); the model answers
   RErr "spec:Choices.first" unless it is a vector of DOMAIN^index accepted by the delta lists the object
   was generated from, so "= ROk ..." hypotheses quantify over exactly the vectors C04 allows.
   Vocabulary (PM.LoopAn):
     level_seqs r col k       delta lists of column col at ladder level k (0: w,p,i excluded; 1: p,i; 2: i)
     accepted seqs c          c selects none of the delta lists           choices_infinite: no vector does (and index > 0)
     column r c col           column col of apply_choice r c              bad_at k s: scalar s is excluded at level k
     rows_with r c col s      names of the rows whose entry in that column is s
     flags_of_level k         (is_m, is_w, is_p) = 0: TTT  1: FTT  2: FFT
     fail_vars / rest_vars / fail_rows / red_seqs   the split of maybe_result
     valid_for_dependencies r c v   c selects no infinity in the column of v nor in the column of any u with a
                                    non-zero entry (u, v) at c
   No bound on the number of variables, sites, monomials or on nesting.  Statements only. *)
From Coq Require Import String List Bool Arith.
From PM Require Import Semiring Poly Rel Analysis Calculus LoopAn
  LoopAn_proofs LoopAn_proofs_bound LoopAn_proofs_maybe LoopAn_proofs_refuted.
From PM Require Bound.
From PMGen Require Import RulesGen.
Import ListNotations.
Open Scope string_scope.
Open Scope list_scope.

(* ---- (1) the three flag setters, exactly as in result.py, keep is_m -> is_w -> is_p ---- *)

Theorem C08_flags_nested : forall is_m is_w is_p (calls : list (attr * bool)),
  let f := run_setters (flags_init is_m is_w is_p) calls in
  (f_m f = true -> f_w f = true) /\ (f_w f = true -> f_p f = true).
Proof. exact flags_nested. Qed.

(* ... and so is every flag triple loop mode reports, from either branch of inspect *)
Theorem C08_reported_flags_nested : forall loop rf firsts res v vr,
  inspect loop rf firsts = ROk res -> In (v, vr) res ->
  (f_m (vr_flags vr) = true -> f_w (vr_flags vr) = true) /\ (f_w (vr_flags vr) = true -> f_p (vr_flags vr) = true).
Proof. exact inspect_nested. Qed.

(* ---- (2) the reported bound is the column of apply_choice at the chosen vector ---- *)

Theorem C08_bound_is_column : forall r index v c vr,
  NoDup (rvars r) -> get_result r index v c = ROk vr ->
  exists col mb, index_of_str v (rvars r) = Some col /\ vr_bound vr = Some mb /\
    Bound.bound_triple mb =
      (Bound.sort_uniq (map Bound.L (rows_with r c col M)),
       Bound.sort_uniq (map Bound.L (rows_with r c col W)),
       Bound.sort_uniq (map Bound.L (rows_with r c col P))).
Proof. exact bound_is_column_triple. Qed.

Theorem C08_rows_with_reads_the_column : forall r c col s u,
  In u (rows_with r c col s) <->
  exists i, i < length (rvars r) /\ nth i (rvars r) EmptyString = u /\ nth i (column r c col) O = s.
Proof. exact rows_with_spec. Qed.

(* ---- (3) the class is the least ladder level: the chosen vector is accepted for that level's delta
        lists, no vector at all is accepted at a lower level; read on the column: no coefficient excluded
        at the level occurs in it, and one excluded at each lower level does (so the class is the largest
        coefficient of the column) ---- *)

Theorem C08_class_is_least_level : forall r index v c vr,
  length (rmat r) = length (rvars r) ->
  get_result r index v c = ROk vr ->
  exists col k,
    index_of_str v (rvars r) = Some col /\ k <= 2 /\
    vr_flags vr = flags_of_level k /\
    vr_choices vr = Some (level_seqs r col k) /\
    In c (vectors DOMAIN index) /\
    accepted (level_seqs r col k) c = true /\
    (forall j, j < k -> 0 < index /\ forall c', In c' (vectors DOMAIN index) -> accepted (level_seqs r col j) c' = false) /\
    (forall s, In s (column r c col) -> bad_at k s = false) /\
    (forall j, j < k -> exists s, In s (column r c col) /\ bad_at j s = true).
Proof. exact class_is_least_level. Qed.

Theorem C08_accepted_is_column_free_of_excluded : forall r col k c,
  k <= 2 -> length (rmat r) = length (rvars r) -> col < length (rvars r) ->
  accepted (level_seqs r col k) c = negb (existsb (bad_at k) (column r c col)).
Proof. exact accepted_column. Qed.

(* ---- (4) unbounded: when the loop does not fail as a whole no variable is reported with all flags
        false, and no column lacks an accepted vector; get_result's assertion fires exactly when the last
        level has no accepted vector ---- *)

Theorem C08_unbounded_iff : forall r index firsts res,
  choices_infinite index (rel_infinity_deltas r [] []) = false ->
  all_results r index firsts = ROk res ->
  map fst res = rvars r /\
  forall v vr, In (v, vr) res ->
    (f_p (vr_flags vr) = false <->
     exists col, index_of_str v (rvars r) = Some col /\ choices_infinite index (level_seqs r col 2) = true).
Proof. exact unbounded_iff. Qed.

Theorem C08_get_result_asserts_iff : forall r index v c,
  get_result r index v c = RErr "AssertionError:get_result" <->
  exists col, index_of_str v (rvars r) = Some col /\ choices_infinite index (level_seqs r col 2) = true.
Proof. exact get_result_asserts. Qed.

Theorem C08_inspect_branches : forall loop rf firsts res,
  inspect loop rf firsts = ROk res ->
  is_loop_stmt loop = true /\ exists di index r, loop_relation loop = ROk (di, index, r) /\
    if loop_infty di index r then maybe_result r index rf firsts = ROk res else all_results r index firsts = ROk res.
Proof. exact inspect_ok. Qed.

(* ---- (5) when the loop fails as a whole: the variables whose own column has no accepted vector are
        reported unbounded; of the others exactly those with a zero entry against every failing row (at the
        vector of the reduced choices) get get_result's answer, the rest are reported unbounded ---- *)

Theorem C08_maybe_result : forall r index rf firsts res,
  maybe_result r index rf firsts = ROk res ->
  exists rest_res,
    res = map (fun v => (v, vresult_new v)) (fail_vars r index) ++ rest_res /\
    map fst rest_res = rest_vars r index /\
    (rest_vars r index <> [] ->
       choices_infinite index (red_seqs r index) = false /\ first_ok index (red_seqs r index) rf = true) /\
    forall v vr, In (v, vr) rest_res ->
      In v (rest_vars r index) /\
      if deps_zero (simple_matrix r rf) (fail_rows r index) (index_or0 v (rvars r))
      then get_result r index v (firsts v) = ROk vr
      else vr = vresult_new v.
Proof. exact maybe_result_spec. Qed.

Theorem C08_deps_zero_meaning : forall simple rows idx,
  deps_zero simple rows idx = true <-> rows <> [] /\ forall fi, In fi rows -> cell simple fi idx = O.
Proof. exact deps_zero_spec. Qed.

(* ---- (6) the dependency clause is FALSE of the faithful model (DESIGN D10):
        for (i = 0; i < X; i++) { k = k + a; v = k; }  does not fail as a whole; whatever vector the Choices
        specification allows as `first`, v is reported with a bound although that vector selects an infinity in
        the column of k, on which v depends at that vector.  Open known finding ["C08","dependency-invalid"]. ---- *)

Theorem C08_valid_for_dependencies_refuted :
  exists loop di index r v col,
    is_loop_stmt loop = true /\
    loop_relation loop = ROk (di, index, r) /\ loop_infty di index r = false /\
    index_of_str v (rvars r) = Some col /\
    (exists c vr, get_result r index v c = ROk vr) /\
    forall c vr, get_result r index v c = ROk vr ->
      f_p (vr_flags vr) = true /\ valid_for_dependencies r c col = false.
Proof. exact valid_for_dependencies_refuted. Qed.

(* ---- (7) a nested loop that fails for every choice makes Analysis.while_loop / for_loop return the inner
        relation only:  while (c > 0) { while (d > 0) { x = x + x; } y = y * y; }  is analysed with degree 1
        although it has 2 sites, and y is reported linear with bound y although the statement assigning it has
        no derivation in the loop at any vector.  Open known finding ["C08","early-exit-partial"]. ---- *)

Theorem C08_early_exit_partial_refuted :
  exists loop di index r,
    is_loop_stmt loop = true /\
    loop_relation loop = ROk (di, index, r) /\
    index < sites {| f_params := []; f_body := [loop] |} /\
    exists rf firsts res vr,
      inspect loop rf firsts = ROk res /\ In ("y", vr) res /\
      vr_flags vr = flags_of_level 0 /\
      option_map Bound.bound_triple (vr_bound vr) = Some ([Bound.L "y"], [], []) /\
      forall cs, fst (derive depth_fuel ["c"; "y"] (SWhile ["c"] (SBin "y" "*" (AVar "y") (AVar "y"))) cs 0) = None.
Proof. exact early_exit_partial_refuted. Qed.

Print Assumptions C08_flags_nested.
Print Assumptions C08_reported_flags_nested.
Print Assumptions C08_bound_is_column.
Print Assumptions C08_rows_with_reads_the_column.
Print Assumptions C08_class_is_least_level.
Print Assumptions C08_accepted_is_column_free_of_excluded.
Print Assumptions C08_unbounded_iff.
Print Assumptions C08_get_result_asserts_iff.
Print Assumptions C08_inspect_branches.
Print Assumptions C08_maybe_result.
Print Assumptions C08_deps_zero_meaning.
Print Assumptions C08_valid_for_dependencies_refuted.
Print Assumptions C08_early_exit_partial_refuted.
