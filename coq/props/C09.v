(* C09 -- polynomial sum and product are pointwise semiring operations on choices.
   Statements only; proofs are in theories/Poly_*.v. The model functions (Poly.v) are tied to
   pymwp/polynomial.py and monomial.py by the structural correspondence run of tools/props/c09.py. *)
From Coq Require Import List Bool.
From PM Require Import Semiring Poly Poly_sem Poly_add Poly_times.
Import ListNotations.

(* sum: for ALL monomial lists (sorted or not, duplicated, conflicting deltas, zero terms) *)
Theorem C09_add_pointwise : forall p q c, val (padd p q) c = ssum (val p c) (val q c).
Proof. exact padd_val. Qed.

(* product: semiring product of the values; zero when either operand has no term for the choice.
   [msat]: every monomial of the left operand is satisfiable (no two deltas on one index with different
   values) -- an invariant of every Monomial pymwp constructs. *)
Theorem C09_times_pointwise : forall p q c, Forall msat p ->
  val (ptimes p q) c = match terms p c, terms q c with
                       | [], _ | _, [] => O
                       | _, _ => sprod (val p c) (val q c)
                       end.
Proof. exact ptimes_val. Qed.

(* the loops of add / times never run out of the fuel the model gives them (= they terminate) *)
Theorem C09_add_terminates : forall p q, exists r, padd_opt p q = Some r.
Proof. exact padd_opt_total. Qed.
Theorem C09_times_terminates : forall p q, exists r, ptimes_opt p q = Some r.
Proof. exact ptimes_opt_total. Qed.

(* results never contain a zero term alongside others, nor two terms with the same delta list *)
Theorem C09_add_normal_form : forall p q, p <> [] -> q <> [] ->
  NFz (padd p q) /\ ssorted (padd p q) /\ NoDup (map ds (padd p q)).
Proof. exact padd_nf. Qed.
Theorem C09_times_normal_form : forall p q, NFz (ptimes p q) /\ NoDup (map ds (ptimes p q)).
Proof. exact ptimes_nf. Qed.

(* Polynomial.choice_scalar is [val] wherever some monomial matches *)
Theorem C09_choice_scalar_is_val : forall p c least,
  pchoice p c least = match terms p c with [] => least | _ => Some (val p c) end.
Proof. exact pchoice_val. Qed.

(* monomial product: meaning of the merged delta list *)
Theorem C09_monomial_product : forall m1 m2 c, msat m1 ->
  mval (mprod m1 m2) c = if mmatch c (ds m1) && mmatch c (ds m2) then sprod (sc m1) (sc m2) else O.
Proof. exact mval_mprod_stmt. Qed.

Print Assumptions C09_add_pointwise.
Print Assumptions C09_times_pointwise.
Print Assumptions C09_add_terminates.
Print Assumptions C09_times_terminates.
Print Assumptions C09_add_normal_form.
Print Assumptions C09_times_normal_form.
Print Assumptions C09_choice_scalar_is_val.
Print Assumptions C09_monomial_product.
