(* C09 -- polynomial sum and product are pointwise semiring operations on choices.
   Statements only; proofs are in theories/Poly_*.v. The model functions (Poly.v) are tied to
   pymwp/polynomial.py and monomial.py by the structural correspondence run of tools/props/c09.py. *)
From Coq Require Import List Bool.
From PM Require Import Semiring Poly Poly_sem Poly_add Poly_times RefModel RefModel_operands.
Import ListNotations.

(* sum: for ALL monomial lists (sorted or not, duplicated, conflicting deltas, zero terms) *)
Theorem C09_add_pointwise : forall p q c, val (padd p q) c = ssum (val p c) (val q c).
Proof. exact padd_val. Qed.

(* product: semiring product of the values; zero when either operand has no term for the choice.
   [msat]: every monomial of the left operand is satisfiable (no two deltas on one index with different
   values) -- an invariant of every Monomial pymwp constructs. *)
Theorem C09_times_pointwise : forall p q c, Forall msat p ->
  val (ptimes p q) c = match terms p c, terms q c with
                       | [], _ | _, [] => O
                       | _, _ => sprod (val p c) (val q c)
                       end.
Proof. exact ptimes_val. Qed.

(* the loops of add / times never run out of the fuel the model gives them (= they terminate) *)
Theorem C09_add_terminates : forall p q, exists r, padd_opt p q = Some r.
Proof. exact padd_opt_total. Qed.
Theorem C09_times_terminates : forall p q, exists r, ptimes_opt p q = Some r.
Proof. exact ptimes_opt_total. Qed.

(* results never contain a zero term alongside others, nor two terms with the same delta list *)
Theorem C09_add_normal_form : forall p q, p <> [] -> q <> [] ->
  NFz (padd p q) /\ ssorted (padd p q) /\ NoDup (map ds (padd p q)).
Proof. exact padd_nf. Qed.
Theorem C09_times_normal_form : forall p q, NFz (ptimes p q) /\ NoDup (map ds (ptimes p q)).
Proof. exact ptimes_nf. Qed.

(* Polynomial.choice_scalar is [val] wherever some monomial matches *)
Theorem C09_choice_scalar_is_val : forall p c least,
  pchoice p c least = match terms p c with [] => least | _ => Some (val p c) end.
Proof. exact pchoice_val. Qed.

(* monomial product: meaning of the merged delta list *)
Theorem C09_monomial_product : forall m1 m2 c, msat m1 ->
  mval (mprod m1 m2) c = if mmatch c (ds m1) && mmatch c (ds m2) then sprod (sc m1) (sc m2) else O.
Proof. exact mval_mprod_stmt. Qed.

(* "Neither operation changes its operands" -- in the REFERENCE-level model (RefModel.v: a heap of monomial
   objects addressed by stamps; Polynomial.list holds references; `new_list[i].scalar = ...` and
   `lhead.scalar = ...` are in-place writes; the argument's monomials enter the result of add by reference).
   The model is tied to the real object graph by tools/props/c13.py (object identities) and to operand
   snapshots by tools/props/c09.py.
   add, for ARBITRARY operands (unsorted, duplicated delta lists, aliased: x.add(x)): no monomial object that
   existed before the call has any field changed.  The reason (proved, not assumed): Polynomial.inclusion
   answers "no relation" only for different delta lists, so an argument monomial that enters new_list by
   reference never meets an equal delta list; the EQUAL branch of the main loop is dead
   (radd_loop_heap_const) and the write in sort_monomials' merge can only hit copies made by this call. *)
Theorem C09_add_writes_no_existing_monomial : forall h p q h' r, radd h p q = (h', r) ->
  length h <= length h' /\ (forall s, s < length h -> hget h' s = hget h s).
Proof. exact add_writes_nothing_old. Qed.
Theorem C09_add_operands_unchanged : forall h p q h' r, radd h p q = (h', r) ->
  valid_p h p -> valid_p h q -> view h' p = view h p /\ view h' q = view h q.
Proof. exact add_operands_unchanged_any. Qed.
Theorem C09_times_operands_unchanged : forall h p q h' r, rtimes h p q = (h', r) ->
  valid_p h p -> valid_p h q -> view h' p = view h p /\ view h' q = view h q.
Proof. exact times_operands_unchanged. Qed.
(* the in-place write of the main loop of add is unreachable: the loop returns the heap it was given *)
Theorem C09_add_loop_never_writes : forall fuel h nl q i h' r,
  radd_loop fuel h nl q i = Some (h', r) -> h' = h.
Proof. exact radd_loop_heap_const. Qed.
(* not vacuous: the write of the merge DOES run (self holding two monomials with one delta list), on a copy *)
Theorem C09_merge_write_hits_fresh_copy :
  let h' := fst (radd dup_heap [2; 3] [4]) in
  length dup_heap = 5 /\
  hget dup_heap 3 = Mono M [(0, 0)] /\        (* the original of the copy with stamp 6 *)
  hget h' 6 = Mono W [(0, 0)] /\              (* ... whose scalar was assigned by the merge *)
  hget h' 3 = Mono M [(0, 0)] /\
  view h' [2; 3; 4] = view dup_heap [2; 3; 4].
Proof. exact sort_write_hits_fresh_copy. Qed.

Print Assumptions C09_add_pointwise.
Print Assumptions C09_times_pointwise.
Print Assumptions C09_add_terminates.
Print Assumptions C09_times_terminates.
Print Assumptions C09_add_normal_form.
Print Assumptions C09_times_normal_form.
Print Assumptions C09_choice_scalar_is_val.
Print Assumptions C09_monomial_product.
Print Assumptions C09_add_writes_no_existing_monomial.
Print Assumptions C09_add_operands_unchanged.
Print Assumptions C09_times_operands_unchanged.
Print Assumptions C09_add_loop_never_writes.
Print Assumptions C09_merge_write_hits_fresh_copy.
