(* C05 -- strict mode never silently ignores a statement that changes a variable.
   Statements only.  [full] is the model of Coverage(f).full, [func_events] the model of the DISPATCH
   of Analysis.func / compute_relation / unary_asgn / unary_op / if_stmt / while_loop / for_loop /
   compound (which rule each statement reaches, what is skipped with a warning, which expressions are
   discarded uninspected), both driven by tables GENERATED from pymwp on this run;
   [c05_bad f] lists what the analysis of f loses: ("unsupported", p) = statement at p sent to the
   warn-and-skip path, ("cond", p) = a condition that changes a variable, ("dropped", p) = a discarded
   expression that changes a variable ([changes_var]: contains an assignment, ++/--, or a call).

   Full-strength statements (for all schema-respecting function trees f):
     C05_no_skip                  : full f = true -> no ("unsupported", _) in c05_bad f
     C05_no_effect_in_conditions  : full f = true -> no ("cond", _) and no ("dropped", _) in c05_bad f
     C05_converse                 : c05_bad f <> [] -> full f = false
   All three are FALSE of the faithful model of the unchanged code (D3); the refutations below are
   vm_compute evaluations of the shrunk witnesses found by the search (each replays on the real code). *)
From Coq Require Import String List.
From PM Require Import Tree Syntax Syntax_proofs_C05 Syntax_proofs_C05b Syntax_proofs_guard.
Import ListNotations.

(*  L: x=y*z;   x=y, y=z*z;   x=-(-y);   x=-(int)y;   (int)x++;   x+y;  *)
Theorem C05_no_skip_refuted :
  accepted_and_lossy w_label "unsupported" /\ accepted_and_lossy w_comma "unsupported" /\
  accepted_and_lossy w_negneg "unsupported" /\ accepted_and_lossy w_negcast "unsupported" /\
  accepted_and_lossy w_cast_inc "unsupported" /\ accepted_and_lossy w_expr_stmt "unsupported".
Proof. exact no_skip_refuted. Qed.

(*  - x++;   return x=y*z;   x=!y++;   assert(x++>0);  *)
Theorem C05_no_dropped_effect_refuted :
  accepted_and_lossy w_neg_inc "dropped" /\ accepted_and_lossy w_return_asg "dropped" /\
  accepted_and_lossy w_not_inc "dropped" /\ accepted_and_lossy w_assert_inc "dropped".
Proof. exact no_dropped_effect_refuted. Qed.

(*  if (x++>0) ...   while ((x=x*y)<z) ...  *)
Theorem C05_no_effect_in_conditions_refuted :
  accepted_and_lossy w_if_inc "cond" /\ accepted_and_lossy w_while_asg "cond".
Proof. exact no_effect_in_conditions_refuted. Qed.

Theorem C05_converse_refuted :
  exists f, wf_pyc f = true /\ is_func f = true /\ c05_bad f <> [] /\ full f = true.
Proof. exact converse_refuted. Qed.

(* PROVED for every schema-respecting function tree, of any size and nesting depth: if the gate accepts f
   and the statements along the positions the analysis visits (function body, blocks, branches, loop
   bodies) are of the forms the analysis dispatches on -- [plain_func]: no label, no comma expression,
   no bare expression statement, and on the right of an assignment sign / ++ / -- only applied to an
   atom -- then NO statement is sent to the warn-and-skip path, no for-loop is silently skipped (gate and
   analysis use the same loop_compat) and no assert of binary_op fails ([NL]: no KUnsupported / KForSkip /
   KRaise event).  This is the gate/analysis agreement on assignments, operators, casts, calls, loops
   and conditionals; the excluded forms are exactly the refuted ones above. *)
Theorem C05_no_skip_partial :
  forall f, wf_pyc f = true -> is_func f = true -> full f = true -> plain_func f = true -> NL (func_events f).
Proof. exact no_skip_partial. Qed.

(* the rewriting of `x = <unary op> e` either applies a rule (and then only discards the operand of
   ! / sizeof) or warns; it never silently does nothing *)
Theorem C05_unary_asgn_partial :
  forall u rp,
    unary_asgn_events u rp = [Ev KUnsupported []] \/
    (exists r, unary_asgn_events u rp = Ev KFlow [] :: r /\
               forall e, In e r -> exists k p, e = Ev k p /\ (k = KDropEval \/ k = KDropSizeof)).
Proof. exact unary_asgn_total. Qed.

(* an accepted for-header has ONE source of iteration: every variable an initialiser copies from is the guard X or an
   iterator (initialised in the header or mentioned in the next expression); no initialiser's source is dropped from the
   guard computation (SyntaxUtils.init_vars / Variables.loop_guard, bodies pinned by the translator); and X does not
   occur in the loop body *)
Theorem C05_accepted_header_sources :
  forall init conds nxt body x iters0 srcs,
    init_vars init = Some (iters0, srcs) -> loop_guard_of init conds nxt body = LcYes x ->
    forall s, In s srcs -> s = x \/ In s iters0 \/ In s (vnames_of nxt).
Proof. exact Syntax_proofs_guard.accepted_header_sources. Qed.

Theorem C05_accepted_guard_not_in_body :
  forall init conds nxt body x, loop_guard_of init conds nxt body = LcYes x -> ~ In x (vnames_of body).
Proof. exact Syntax_proofs_guard.accepted_header_guard_not_in_body. Qed.

Print Assumptions C05_no_skip_refuted.
Print Assumptions C05_no_dropped_effect_refuted.
Print Assumptions C05_no_effect_in_conditions_refuted.
Print Assumptions C05_converse_refuted.
Print Assumptions C05_no_skip_partial.
Print Assumptions C05_unary_asgn_partial.
Print Assumptions C05_accepted_header_sources.
Print Assumptions C05_accepted_guard_not_in_body.
