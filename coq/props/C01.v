(* C01 -- every reported bound is a derivation of the mwp flow calculus.  Statements only.
   Model: theories/Analysis.v (executable model of Analysis.func/cmds/compute_relation, tied to
   pymwp/analysis.py, relation.py, polynomial.py ... by the correspondence run of tools/props/c01.py);
   specification: theories/Calculus.v ([derive_func f cs]: the matrix the calculus derives for the
   function body at the choice vector cs, or None when a while/for side condition fails), built on the
   rule table and side conditions REGENERATED from the source on every run. *)
From Coq Require Import String List Bool.
From PM Require Import Semiring Poly Rel Analysis Calculus An_stmts.
From PM Require An_closed.
From PM Require Bound An_extra.
From PMGen Require Import RulesGen.
Import ListNotations.

(* "nothing missing and nothing extra": for a function the analysis reports as not infinite
   (whatever the early-stop option), the degree is the number k of binary-operation sites, the reported
   variables are the function's, and for each of the 3^k choice vectors cs:
     - the choice object accepts cs  <->  the calculus has a derivation at cs,
     - at such a vector the matrix obtained by applying cs to the reported relation IS the derived matrix. *)
Theorem C01_valid_choices_and_matrices_are_the_derivations :
  forall f stop res, func_ok f -> analyse f stop = ROk res -> fr_infinite res = false ->
    fr_index res = sites f /\
    fr_vars res = func_vars f /\
    exists r, fr_rel res = Some r /\ rvars r = func_vars f /\
    forall cs, vec_ok (fr_index res) cs ->
      (accepted (fr_inf_deltas res) cs = true <-> exists A, fst (derive_func f cs) = Some A) /\
      (forall A, fst (derive_func f cs) = Some A ->
         apply_choice r (choice_of_list cs) = smat_table (func_vars f) A).
Proof. exact An_closed.finite_result. Qed.

(* the statement-level invariant behind it (any nesting depth, any number of variables and sites) *)
Theorem C01_statement_simulation :
  forall V fuel index s d, names_ok V -> incl (stmt_vars s) V -> dg_inv d -> stmt_sim V fuel index s d.
Proof. exact An_closed.main_sim. Qed.

(* the rule alternatives and side conditions the analysis uses are the documented ones *)
Theorem C01_rule_table_is_documented :
  CV_TABLE = [(CvConst, [], [(M, M, M)]);
              (CvEq, ["*"%string], [(W, W, W)]);
              (CvNe, ["*"%string], [(W, W, W); (W, W, W)]);
              (CvEq, ["+"%string; "-"%string], [(P, P, W)]);
              (CvNe, ["+"%string; "-"%string], [(M, P, W); (P, M, W)])].
Proof. exact cv_table_is_documented. Qed.

Theorem C01_side_conditions_are_documented :
  (forall s d, W_BAD s d = (sc_eqb s P || (sc_eqb s W && d))) /\
  (forall s d, L_BAD s d = (d && negb (sc_eqb s M))) /\
  (forall s d, L_PROPAGATE s d = sc_eqb s P) /\ APPLY_CHOICE_LEAST = O /\ DOMAIN = [0; 1; 2].
Proof. exact side_conditions_are_documented. Qed.

(* "the bound attached to the result is the matrix of the first reported valid choice, read column-wise":
   Bound.calculate reads columns (theorem C20_calculate_columns in props/C20.v); that the tool applies it
   to apply_choice(first) is checked on every real result by tools/props/c01.py (clause `bound`). *)

(* ... and in the model: [An_extra.bound_of r cs] is Bound().calculate(r.apply_choice( *cs)) (model PM.Bound
   of pymwp/bound.py; names as text, scalars as the strings of semiring.py).  For a function reported not
   infinite and ANY accepted vector cs (the tool takes the first one of its choice object): the calculus
   has a derivation A at cs, the bound has one entry per variable of the function, in order, and the entry
   of v lists exactly the variables u with A u v = m as max-, = w as weak-, = p as polynomial-dependencies
   (in the order of the variables) *)
Theorem C01_bound_reads_derived_columns :
  forall f stop res, func_ok f -> analyse f stop = ROk res -> fr_infinite res = false ->
    exists r, fr_rel res = Some r /\
    forall cs, vec_ok (fr_index res) cs -> accepted (fr_inf_deltas res) cs = true ->
      let V := func_vars f in
      exists A bd, fst (derive_func f cs) = Some A /\ An_extra.bound_of r cs = Some bd /\
        map fst bd = map Bound.L V /\
        forall v, In v V ->
          Bound.dict_get bd (Bound.L v) =
          Some (Bound.mb_of_lists (map Bound.L (filter (fun u => sc_eqb (A u v) M) V))
                                  (map Bound.L (filter (fun u => sc_eqb (A u v) W) V))
                                  (map Bound.L (filter (fun u => sc_eqb (A u v) P) V))).
Proof. exact An_extra.bound_reads_derived_columns. Qed.

Print Assumptions C01_valid_choices_and_matrices_are_the_derivations.
Print Assumptions C01_statement_simulation.
Print Assumptions C01_rule_table_is_documented.
Print Assumptions C01_side_conditions_are_documented.
Print Assumptions C01_bound_reads_derived_columns.
