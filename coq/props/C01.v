(* C01 -- every reported bound is a derivation of the mwp flow calculus.
   Statements only. Model: theories/Analysis.v (tied to pymwp/analysis.py by the correspondence run);
   specification: theories/Calculus.v.  This file grows as the lemma chain of DESIGN.md appendix A lands. *)
From Coq Require Import String List Bool.
From PM Require Import Semiring Poly Rel Analysis Calculus.
From PMGen Require Import RulesGen.
Import ListNotations.

(* the rule alternatives and side conditions the analysis uses (regenerated from the source on every run)
   are the documented ones *)
Theorem C01_rule_table_is_documented :
  CV_TABLE = [(CvConst, [], [(M, M, M)]);
              (CvEq, ["*"%string], [(W, W, W)]);
              (CvNe, ["*"%string], [(W, W, W); (W, W, W)]);
              (CvEq, ["+"%string; "-"%string], [(P, P, W)]);
              (CvNe, ["+"%string; "-"%string], [(M, P, W); (P, M, W)])].
Proof. exact cv_table_is_documented. Qed.

Theorem C01_side_conditions_are_documented :
  (forall s d, W_BAD s d = (sc_eqb s P || (sc_eqb s W && d))) /\
  (forall s d, L_BAD s d = (d && negb (sc_eqb s M))) /\
  (forall s d, L_PROPAGATE s d = sc_eqb s P) /\ APPLY_CHOICE_LEAST = O /\ DOMAIN = [0; 1; 2].
Proof. exact side_conditions_are_documented. Qed.

Print Assumptions C01_rule_table_is_documented.
Print Assumptions C01_side_conditions_are_documented.
