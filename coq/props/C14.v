(* C14 -- a saved result loads back as a working, equal result.

   Objects (coq/theories/Result.v, an executable model of pymwp/result.py compared with the real code on
   every run): typed records [Result], [FuncResult], [FuncLoops], [LoopResult], [VResult], [Program];
   [to_dict o] / [from_dict cls j] are Serializable.to_dict / Cls.from_dict, iterating over the
   attribute lists GENERATED from result.py (PMGen.ResultGen); [save_result r] is the JSON value
   file_io.save_result writes, [load_result j] what file_io.load_result builds from it;
   [reload o] = from_dict (to_dict o);  [roundtrips o] says: to_dict o succeeds with some j,
   from_dict j succeeds with some o', and to_dict o' is j again.

   Well-formedness (Result_proofs_base.v / Result_proofs_classes.v), satisfied by [ex_result]
   ([wf_ex_result]) and by the all-falsy [falsy_result]:
     wf_rs r   a program record is present; the keys of `relations` / `loops` are distinct and are the
               names of their entries; every entry is well formed;
     wf_fr f   if a relation is present: its variables are f.variables, no name is empty, the matrix has
               one row per variable, every polynomial is non-empty and every monomial has its deltas
               sorted by strictly increasing index; if a choice object is present its index is the
               length of its first vector (or -1 when it has no vector: `Choices()`); if a bound is
               present its keys are distinct and the names listed in it are non-empty without ',' ';';
     wf_fl / wf_lr   keys of `variables` distinct and equal to the names of the entries, entries wf;
     wf_vr v   is_m -> is_w -> is_p; a choice object has at least one vector and a consistent index;
               the names listed in the bound are non-empty without ',' ';'.
   [canon_rs] / [canon_fr] / ... : the same object with every bound's three name SETS listed in sorted
   order (what MwpBound(bound_str) builds); nothing else changes.
   Statements only; proofs in theories/Result_proofs*.v. *)
From Coq Require Import String List Bool ZArith.
From PMGen Require Import ResultGen.
From PM Require Import Semiring Poly Rel Json Result Result_proofs_base Result_proofs_classes Result_proofs.
From PM Require Bound Choice.
Import ListNotations.
Open Scope string_scope.

(* ---------------------------------------------------------------- (1) round trip, every class *)

Theorem C14_roundtrip : forall r : Result, wf_rs r ->
  exists j r', save_result r = Ok j /\ load_result j = Ok r' /\ save_result r' = Ok j /\ wf_rs r'.
Proof. exact save_load_save. Qed.

Theorem C14_roundtrip_result : forall r, wf_rs r -> roundtrips (AResult r).
Proof. exact roundtrip_result. Qed.

Theorem C14_roundtrip_funcresult : forall f, wf_fr f -> roundtrips (AFuncResult f).
Proof. exact roundtrip_funcresult. Qed.

Theorem C14_roundtrip_funcloops : forall f, wf_fl f -> roundtrips (AFuncLoops f).
Proof. exact roundtrip_funcloops. Qed.

Theorem C14_roundtrip_loopresult : forall l, wf_lr l -> roundtrips (ALoopResult l).
Proof. exact roundtrip_loopresult. Qed.

Theorem C14_roundtrip_vresult : forall v, wf_vr v -> roundtrips (AVResult v).
Proof. exact roundtrip_vresult. Qed.

Theorem C14_roundtrip_program : forall p, roundtrips (AProgram p).
Proof. exact roundtrip_program. Qed.

(* the exact characterisation everything else follows from: loading a saved result gives the result
   itself, up to the listing order of the names inside bounds *)
Theorem C14_reload_is_canonical : forall r, wf_rs r -> save_load r = Ok (canon_rs r).
Proof. exact save_load_result. Qed.

Theorem C14_reload_program_identity : forall p, reload (AProgram p) = Ok (AProgram p).
Proof. exact reload_program. Qed.

(* ---------------------------------------------------------------- (2) scalar fields, whatever their value *)

Theorem C14_fields_kept : forall f, wf_fr f ->
  exists f', reload (AFuncResult f) = Ok (AFuncResult f') /\
    fr_name f' = fr_name f /\ fr_infinite f' = fr_infinite f /\ fr_start f' = fr_start f /\
    fr_end f' = fr_end f /\ fr_variables f' = fr_variables f /\ fr_inf_flows f' = fr_inf_flows f /\
    fr_index f' = fr_index f /\ fr_func_code f' = fr_func_code f.
Proof. exact fields_kept_funcresult. Qed.

Theorem C14_fields_kept_result : forall r, wf_rs r ->
  exists r', save_load r = Ok r' /\
    rs_start r' = rs_start r /\ rs_end r' = rs_end r /\ rs_program r' = rs_program r /\
    map fst (rs_relations r') = map fst (rs_relations r) /\ map fst (rs_loops r') = map fst (rs_loops r).
Proof. exact fields_kept_result. Qed.

Theorem C14_fields_kept_funcloops : forall f, wf_fl f ->
  exists f', reload (AFuncLoops f) = Ok (AFuncLoops f') /\
    fl_name f' = fl_name f /\ fl_start f' = fl_start f /\ fl_end f' = fl_end f /\
    length (fl_loops f') = length (fl_loops f).
Proof. exact fields_kept_funcloops. Qed.

Theorem C14_fields_kept_loopresult : forall l, wf_lr l ->
  exists l', reload (ALoopResult l) = Ok (ALoopResult l') /\
    lr_code l' = lr_code l /\ lr_start l' = lr_start l /\ lr_end l' = lr_end l /\
    map fst (lr_variables l') = map fst (lr_variables l).
Proof. exact fields_kept_loopresult. Qed.

Theorem C14_fields_kept_vresult : forall v, wf_vr v ->
  exists v', reload (AVResult v) = Ok (AVResult v') /\
    vr_name v' = vr_name v /\ vr_m v' = vr_m v /\ vr_w v' = vr_w v /\ vr_p v' = vr_p v.
Proof. exact fields_kept_vresult. Qed.

(* every function result of a saved result is found again under its key *)
Theorem C14_function_found_again : forall r k f, wf_rs r -> In (k, f) (rs_relations r) ->
  exists r', save_load r = Ok r' /\ In (k, canon_fr f) (rs_relations r') /\ wf_fr f.
Proof. exact reloaded_function. Qed.

(* index 0, infinite False, variables [], inf_flows '', func_code '', program_path '', n_lines 0, all
   timestamps 0, the empty relation and the empty bound of a function without variables: unchanged *)
Theorem C14_falsy_values_kept : wf_rs falsy_result /\ save_load falsy_result = Ok falsy_result.
Proof. exact (conj wf_falsy_result falsy_result_unchanged). Qed.

(* ---------------------------------------------------------------- (3) the relation *)

(* same variables; the matrix is Polynomial.equal cell by cell (it is identical), so it has the same
   value at every choice, and composing the loaded relation with itself gives what the original gives *)
Theorem C14_relation_same : forall f, wf_fr f ->
  exists f', reload (AFuncResult f) = Ok (AFuncResult f') /\
    match fr_relation f with
    | None => fr_relation f' = None
    | Some r => exists r', fr_relation f' = Some r' /\ rvars r' = rvars r /\ rvars r' = fr_variables f' /\
          (length (rmat r') = length (rmat r) /\
           (forall i j, poly_eqb (mget (rmat r') i j) (mget (rmat r) i j) = true) /\
           (forall c i j, val (mget (rmat r') i j) c = val (mget (rmat r) i j) c)) /\
          rel_comp r' r' = rel_comp r r
    end.
Proof. exact relation_same. Qed.

(* without the sortedness assumption: decode . encode rebuilds every monomial with the Monomial
   constructor, and every polynomial keeps its value at every choice *)
Theorem C14_decode_encode_value : forall m : matrix,
  decode (encode m) = Ok (map (map redecode) m) /\ forall p c, val (redecode p) c = val p c.
Proof. exact (fun m => conj (decode_encode_any m) val_redecode). Qed.

(* ---------------------------------------------------------------- (4) choices and bounds *)

Theorem C14_choices_same : forall f, wf_fr f ->
  exists f', reload (AFuncResult f) = Ok (AFuncResult f') /\
    match fr_choices f, fr_choices f' with
    | Some c, Some c' => Choice.valid c' = Choice.valid c /\ Choice.index c' = Choice.index c /\
                         forall v, Choice.is_valid c' v = Choice.is_valid c v
    | None, None => True
    | _, _ => False
    end.
Proof. exact choices_is_valid_same. Qed.

Theorem C14_choices_same_vresult : forall v, wf_vr v ->
  exists v', reload (AVResult v) = Ok (AVResult v') /\ vr_choices v' = vr_choices v.
Proof. exact choices_same_vresult. Qed.

(* Choices(valid) recomputes the index as len(valid[0]) *)
Theorem C14_index_recomputed : forall v0 vs,
  choices_init (v0 :: vs) = Choice.mkC (v0 :: vs) (Z.of_nat (length v0)).
Proof. exact choices_index_recomputed. Qed.

(* Bound.__eq__ holds between the loaded bound and the original, and both save to the same JSON *)
Theorem C14_bound_eq : forall f, wf_fr f ->
  exists f', reload (AFuncResult f) = Ok (AFuncResult f') /\
    match fr_bound f, fr_bound f' with
    | Some b, Some b' => bd_eqb b' b = true /\ bound_json b' = bound_json b
    | None, None => True
    | _, _ => False
    end.
Proof. exact bound_eq. Qed.

Theorem C14_bound_eq_vresult : forall v, wf_vr v ->
  exists v', reload (AVResult v) = Ok (AVResult v') /\
    match vr_bound v, vr_bound v' with
    | Some b, Some b' => Bound.mb_eqb b' b = true /\ Bound.bound_str b' = Bound.bound_str b
    | None, None => True
    | _, _ => False
    end.
Proof. exact bound_eq_vresult. Qed.

(* ---------------------------------------------------------------- regression / domain boundary *)

(* the code before the repair (`_try_set` and FuncResult.from_dict testing truthiness, modelled by
   [reload_truthy]) does not satisfy (2): on the all-falsy function result index 0 comes back as -1,
   '' as None, and the empty relation and bound are lost; its JSON does not round-trip *)
Theorem C14_truthiness_variant_refuted :
  (exists f', reload_truthy (AFuncResult falsy_fr) = Ok (AFuncResult f') /\
              fr_index falsy_fr = 0%Z /\ fr_index f' = (-1)%Z /\
              fr_inf_flows falsy_fr = Some "" /\ fr_inf_flows f' = None /\
              fr_relation falsy_fr = Some (Rel [] []) /\ fr_relation f' = None /\
              fr_bound falsy_fr = Some [] /\ fr_bound f' = None) /\
  (exists j o' j', to_dict (AFuncResult falsy_fr) = Ok j /\ from_dict_truthy "FuncResult" j = Ok o' /\
                   to_dict o' = Ok j' /\ j' <> j).
Proof. exact (conj truthy_variant_loses_fields truthy_variant_not_roundtrip). Qed.

(* outside the domain: a VResult whose choice object has no vector (the analyses never build one:
   LoopAnalysis.get_result asserts a non-infinite choice, and Choices.generate at index 0 yields [[]])
   is saved as [] and dropped by VResult.from_dict, which tests truthiness *)
Theorem C14_vresult_without_vector_not_restored :
  let v := mkVR (Some "x") true true true None (Some (Choice.mkC [] 0)) in
  exists v', reload (AVResult v) = Ok (AVResult v') /\ vr_choices v' = None.
Proof. exact vresult_empty_choices_dropped. Qed.

(* the generated __init__ tables assign every field of the records *)
Theorem C14_init_tables_cover :
  init_covers "Program" ["program_path"; "n_lines"; "n_func"; "n_loops"; "n_func_vars"; "n_loop_vars"] = true /\
  init_covers "VResult" ["name"; "_is_m"; "_is_w"; "_is_p"; "bound"; "choices"] = true /\
  init_covers "LoopResult" ["loop_code"; "start_time"; "end_time"; "variables"] = true /\
  init_covers "FuncLoops" ["name"; "start_time"; "end_time"; "loops"] = true /\
  init_covers "FuncResult" ["name"; "infinite"; "start_time"; "end_time"; "variables"; "inf_flows"; "index";
                            "func_code"; "relation"; "choices"; "bound"] = true /\
  init_covers "Result" ["start_time"; "end_time"; "program"; "relations"; "loops"] = true.
Proof. exact init_tables_cover. Qed.

(* the hypotheses are satisfiable by a result with a relation carrying infinity monomials, a choice
   object, bounds, and a loop-mode part; on it the reloaded result is NOT syntactically the original
   (bound names get sorted) yet saves to the same JSON *)
Theorem C14_hypotheses_satisfiable :
  wf_rs ex_result /\
  res_is_ok (save_result ex_result) = true /\
  (r' <- save_load ex_result ;; save_result r') = save_result ex_result /\
  save_load ex_result = Ok (canon_rs ex_result) /\ canon_rs ex_result <> ex_result.
Proof. exact (conj wf_ex_result ex_result_roundtrip). Qed.

Print Assumptions C14_roundtrip.
Print Assumptions C14_roundtrip_result.
Print Assumptions C14_roundtrip_funcresult.
Print Assumptions C14_roundtrip_funcloops.
Print Assumptions C14_roundtrip_loopresult.
Print Assumptions C14_roundtrip_vresult.
Print Assumptions C14_roundtrip_program.
Print Assumptions C14_reload_is_canonical.
Print Assumptions C14_reload_program_identity.
Print Assumptions C14_fields_kept.
Print Assumptions C14_fields_kept_result.
Print Assumptions C14_fields_kept_funcloops.
Print Assumptions C14_fields_kept_loopresult.
Print Assumptions C14_fields_kept_vresult.
Print Assumptions C14_function_found_again.
Print Assumptions C14_falsy_values_kept.
Print Assumptions C14_relation_same.
Print Assumptions C14_decode_encode_value.
Print Assumptions C14_choices_same.
Print Assumptions C14_choices_same_vresult.
Print Assumptions C14_index_recomputed.
Print Assumptions C14_bound_eq.
Print Assumptions C14_bound_eq_vresult.
Print Assumptions C14_truthiness_variant_refuted.
Print Assumptions C14_vresult_without_vector_not_restored.
Print Assumptions C14_init_tables_cover.
Print Assumptions C14_hypotheses_satisfiable.
