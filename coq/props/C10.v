(* C10 -- relation operations mean matrix operations at every choice.  Statements only.
   Model: theories/Rel.v (tied to pymwp/relation.py, matrix.py by the correspondence run). *)
From Coq Require Import String List Bool.
From PM Require Import Semiring Poly Poly_sem Rel Calculus Rel_sem Sem_stmts.
From PM Require Rel_hom Rel_ops_closed Rel_fix_closed Rel_persist.
Import ListNotations.

(* variable-list unification: both operands keep their meaning (identity on missing variables),
   whatever the order and overlap of the two variable lists *)
Theorem C10_homogenisation : forall r1 r2, wf_rel r1 -> wf_rel r2 ->
    let '(e1, e2) := homogenisation r1 r2 in
    wf_rel e1 /\ wf_rel e2 /\ rvars e1 = rvars e2 /\
    (forall v, In v (rvars e1) <-> In v (rvars r1) \/ In v (rvars r2)) /\
    (forall x y, cell e1 x y = cell r1 x y) /\ (forall x y, cell e2 x y = cell r2 x y) /\
    (rel_pwf r1 -> rel_pwf r2 -> rel_pwf e1 /\ rel_pwf e2).
Proof. exact Rel_hom.homogenisation_sem. Qed.

(* sum: the matrix sum at EVERY choice vector (infinity included) *)
Theorem C10_sum : forall a b, wf_rel a -> wf_rel b ->
    wf_rel (rel_sum a b) /\
    (forall v, In v (rvars (rel_sum a b)) <-> In v (rvars a) \/ In v (rvars b)) /\
    (forall x y c, rval (rel_sum a b) c x y = ssum (rval a c x y) (rval b c x y)) /\
    (rel_pwf a -> rel_pwf b -> rel_pwf (rel_sum a b)).
Proof. exact Rel_ops_closed.rel_sum_sem. Qed.

(* composition: exact value at every choice ... *)
Theorem C10_composition_exact : forall a b, wf_rel a -> wf_rel b -> rel_pwf a -> rel_pwf b ->
    wf_rel (rel_comp a b) /\ rel_pwf (rel_comp a b) /\
    (forall v, In v (rvars (rel_comp a b)) <-> In v (rvars a) \/ In v (rvars b)) /\
    (forall x y c, In x (rvars (rel_comp a b)) -> In y (rvars (rel_comp a b)) ->
       rval (rel_comp a b) c x y =
       fold_right (fun k acc => ssum (pprod_val (cell a x k) (cell b k y) c) acc) O (rvars (rel_comp a b))).
Proof. exact Rel_ops_closed.rel_comp_sem. Qed.

(* ... which is the plain matrix product wherever the operands are free of infinity *)
Theorem C10_composition_is_matrix_product : forall a b c,
    wf_rel a -> wf_rel b -> rel_pwf a -> rel_pwf b -> clean a c -> clean b c ->
    forall x y, In x (rvars (rel_comp a b)) -> In y (rvars (rel_comp a b)) ->
      rval (rel_comp a b) c x y = smul (rvars (rel_comp a b)) (rval a c) (rval b c) x y.
Proof. exact Rel_ops_closed.rel_comp_clean. Qed.

(* fixpoint: when it returns, the reflexive-transitive closure at every infinity-free choice *)
Theorem C10_fixpoint_is_closure : forall fuel r f, wf_rel r -> rel_pwf r -> rel_fixpoint fuel r = Some f ->
    wf_rel f /\ rel_pwf f /\ rel_nfz f /\ rvars f = rvars r /\
    forall c, clean r c ->
      clean f c /\ is_star (rvars r) (rval r c) (rval f c) /\
      (forall x, In x (rvars r) ->
         (forall i, In i (rvars r) -> i <> x -> rval r c i x = O) ->
         (forall i, In i (rvars r) -> i <> x -> rval f c i x = O)).
Proof. exact Rel_fix_closed.rel_fixpoint_sem. Qed.

(* "an infinity in an operand at some choice is still present in the result at that choice":
   true for sums ... *)
Theorem C10_infinity_persists_in_sum : forall a b c x y, wf_rel a -> wf_rel b ->
  (rval a c x y = I \/ rval b c x y = I) -> rval (rel_sum a b) c x y = I.
Proof. exact Rel_persist.infinity_persists_sum. Qed.

(* ... but REFUTED for composition, on relations the analysis reaches (witness replayed on the real
   code by tools/props/c10.py; recorded as an open finding, see known_findings.json): the product of
   the zero polynomial with an entry that fails only at some choices has no term at the others, and
   no term times infinity is no term. *)
Theorem C10_infinity_persists_in_composition_refuted :
  exists a b c, wf_rel a /\ wf_rel b /\ rel_pwf a /\ rel_pwf b /\
    (exists x y, In x (rvars b) /\ In y (rvars b) /\ rval b c x y = I) /\
    clean (rel_comp a b) c.
Proof. exact Rel_persist.infinity_persists_comp_refuted. Qed.

Print Assumptions C10_homogenisation.
Print Assumptions C10_infinity_persists_in_sum.
Print Assumptions C10_infinity_persists_in_composition_refuted.
Print Assumptions C10_sum.
Print Assumptions C10_composition_exact.
Print Assumptions C10_composition_is_matrix_product.
Print Assumptions C10_fixpoint_is_closure.
