(* C10 -- relation operations mean matrix operations at every choice.  Statements only.
   Model: theories/Rel.v (tied to pymwp/relation.py, matrix.py by the correspondence run). *)
From Coq Require Import String List Bool.
From PM Require Import Semiring Poly Poly_sem Rel Calculus Rel_sem Sem_stmts.
From PM Require Rel_hom Rel_ops_closed Rel_fix_closed Rel_persist.
From PM Require Import Analysis An_stmts.
From PM Require An_extra.
From PM Require Rel Rel_sem Rel_term Rel_empty.
Import ListNotations.

(* variable-list unification: both operands keep their meaning (identity on missing variables),
   whatever the order and overlap of the two variable lists *)
Theorem C10_homogenisation : forall r1 r2, wf_rel r1 -> wf_rel r2 ->
    let '(e1, e2) := homogenisation r1 r2 in
    wf_rel e1 /\ wf_rel e2 /\ rvars e1 = rvars e2 /\
    (forall v, In v (rvars e1) <-> In v (rvars r1) \/ In v (rvars r2)) /\
    (forall x y, cell e1 x y = cell r1 x y) /\ (forall x y, cell e2 x y = cell r2 x y) /\
    (rel_pwf r1 -> rel_pwf r2 -> rel_pwf e1 /\ rel_pwf e2).
Proof. exact Rel_hom.homogenisation_sem. Qed.

(* sum: the matrix sum at EVERY choice vector (infinity included) *)
Theorem C10_sum : forall a b, wf_rel a -> wf_rel b ->
    wf_rel (rel_sum a b) /\
    (forall v, In v (rvars (rel_sum a b)) <-> In v (rvars a) \/ In v (rvars b)) /\
    (forall x y c, rval (rel_sum a b) c x y = ssum (rval a c x y) (rval b c x y)) /\
    (rel_pwf a -> rel_pwf b -> rel_pwf (rel_sum a b)).
Proof. exact Rel_ops_closed.rel_sum_sem. Qed.

(* composition: exact value at every choice ... *)
Theorem C10_composition_exact : forall a b, wf_rel a -> wf_rel b -> rel_pwf a -> rel_pwf b ->
    wf_rel (rel_comp a b) /\ rel_pwf (rel_comp a b) /\
    (forall v, In v (rvars (rel_comp a b)) <-> In v (rvars a) \/ In v (rvars b)) /\
    (forall x y c, In x (rvars (rel_comp a b)) -> In y (rvars (rel_comp a b)) ->
       rval (rel_comp a b) c x y =
       fold_right (fun k acc => ssum (pprod_val (cell a x k) (cell b k y) c) acc) O (rvars (rel_comp a b))).
Proof. exact Rel_ops_closed.rel_comp_sem. Qed.

(* ... which is the plain matrix product wherever the operands are free of infinity *)
Theorem C10_composition_is_matrix_product : forall a b c,
    wf_rel a -> wf_rel b -> rel_pwf a -> rel_pwf b -> clean a c -> clean b c ->
    forall x y, In x (rvars (rel_comp a b)) -> In y (rvars (rel_comp a b)) ->
      rval (rel_comp a b) c x y = smul (rvars (rel_comp a b)) (rval a c) (rval b c) x y.
Proof. exact Rel_ops_closed.rel_comp_clean. Qed.

(* fixpoint: when it returns, the reflexive-transitive closure at every infinity-free choice *)
Theorem C10_fixpoint_is_closure : forall fuel r f, wf_rel r -> rel_pwf r -> rel_fixpoint fuel r = Some f ->
    wf_rel f /\ rel_pwf f /\ rel_nfz f /\ rvars f = rvars r /\
    forall c, clean r c ->
      clean f c /\ is_star (rvars r) (rval r c) (rval f c) /\
      (forall x, In x (rvars r) ->
         (forall i, In i (rvars r) -> i <> x -> rval r c i x = O) ->
         (forall i, In i (rvars r) -> i <> x -> rval f c i x = O)).
Proof. exact Rel_fix_closed.rel_fixpoint_sem. Qed.

(* "an infinity in an operand at some choice is still present in the result at that choice":
   true for sums ... *)
Theorem C10_infinity_persists_in_sum : forall a b c x y, wf_rel a -> wf_rel b ->
  (rval a c x y = I \/ rval b c x y = I) -> rval (rel_sum a b) c x y = I.
Proof. exact Rel_persist.infinity_persists_sum. Qed.

(* ... but REFUTED for composition, on relations the analysis reaches (witness replayed on the real
   code by tools/props/c10.py; recorded as an open finding, see known_findings.json): the product of
   the zero polynomial with an entry that fails only at some choices has no term at the others, and
   no term times infinity is no term. *)
Theorem C10_infinity_persists_in_composition_refuted :
  exists a b c, wf_rel a /\ wf_rel b /\ rel_pwf a /\ rel_pwf b /\
    (exists x y, In x (rvars b) /\ In y (rvars b) /\ rval b c x y = I) /\
    clean (rel_comp a b) c.
Proof. exact Rel_persist.infinity_persists_comp_refuted. Qed.

(* "analysing a statement sequence equals composing the analyses of any split of it".
   Calculus level: the derivation of l1 ++ l2 is the derivation of l2 continued from the matrix and the
   site index where l1 stopped (any variable list, choice vector, accumulator, index) ... *)
Theorem C10_split_append : forall V l1 l2 cs acc idx,
  derive_list V (l1 ++ l2) cs acc idx =
  derive_list V l2 cs (fst (derive_list V l1 cs acc idx)) (snd (derive_list V l1 cs acc idx)).
Proof. exact An_extra_split.derive_list_app. Qed.

(* ... and, each part started from the identity (l2 at the index where l1 ended), the matrix of l1 ++ l2
   is on V x V the product of the matrix of l1 and the matrix of l2; it fails iff one of them fails *)
Theorem C10_split_derivation : forall V l1 l2 cs idx,
  let d1 := derive_list V l1 cs (Some sid) idx in
  let d2 := derive_list V l2 cs (Some sid) (snd d1) in
  let d := derive_list V (l1 ++ l2) cs (Some sid) idx in
  snd d = snd d2 /\
  (fst d = None <-> fst d1 = None \/ fst d2 = None) /\
  (forall A1 A2, fst d1 = Some A1 -> fst d2 = Some A2 ->
     exists A, fst d = Some A /\ eqV V A (smul V A1 A2)).
Proof. exact An_extra_split.derive_list_split. Qed.

(* Analysis level: a function whose body is l1 ++ l2 (ANY split), reported not infinite.  A choice vector
   is accepted iff both parts have derivations (l1 on the sites 0 .. k1-1, l2 on the sites k1 .. k-1), and
   there the reported matrix is the product of the two parts' matrices *)
Theorem C10_split : forall f stop res l1 l2, func_ok f -> f_body f = l1 ++ l2 ->
    analyse f stop = ROk res -> fr_infinite res = false ->
    exists r, fr_rel res = Some r /\ rvars r = func_vars f /\
    forall cs, vec_ok (fr_index res) cs ->
      let V := func_vars f in
      let d1 := derive_list V l1 cs (Some sid) 0 in
      let d2 := derive_list V l2 cs (Some sid) (snd d1) in
      snd d2 = fr_index res /\
      (accepted (fr_inf_deltas res) cs = true <->
         (exists A1, fst d1 = Some A1) /\ (exists A2, fst d2 = Some A2)) /\
      (forall A1 A2, fst d1 = Some A1 -> fst d2 = Some A2 ->
         apply_choice r (choice_of_list cs) = smat_table V (smul V A1 A2)).
Proof. exact An_extra.split_analysis. Qed.

(* Relation.fixpoint TERMINATES: the iteration "sum of powers until syntactically stable" stops for every
   well-formed relation (the down-closure, under the domination order, of each cell grows strictly at every
   non-final round inside a finite universe of monomials), and its result does not depend on the fuel once
   it is large enough; in particular for the two relations the analysis closes loops on. *)
Theorem C10_fixpoint_terminates : forall r, Rel_sem.wf_rel r -> Rel_sem.rel_pwf r ->
  exists fuel f, forall fuel', fuel <= fuel' -> Rel.rel_fixpoint fuel' r = Some f.
Proof. exact Rel_term.rel_fixpoint_terminates_stable. Qed.

Theorem C10_loop_closures_terminate : forall body x, Rel_sem.wf_rel body -> Rel_sem.rel_pwf body ->
  (exists fuel f, Rel.rel_fixpoint fuel (Rel.rel_comp Rel.rel_empty body) = Some f) /\
  (exists fuel f, Rel.rel_fixpoint fuel (Rel.rel_comp (Rel.rel_zero [x]) body) = Some f).
Proof. exact Rel_term.rel_fixpoint_total_for_analysis. Qed.

(* The empty relation Relation() (a statement list with no effect) stands for the IDENTITY, in sums as in compositions: the sum of a
   relation with the empty relation is its sum with the identity over the same variables -- not the relation itself (the example
   shows they differ): a branch that does nothing contributes the identity to the sum of the two branches of a conditional. *)
Theorem C10_sum_with_empty_is_sum_with_identity : forall r, rel_is_empty r = false -> forallb nonempty_str (rvars r) = true ->
  rel_sum r rel_empty = rel_sum r (rel_identity (rvars r)) /\ rel_sum rel_empty r = rel_sum (rel_identity (rvars r)) r.
Proof. intros r H1 H2. split; [exact (Rel_empty.sum_empty_right_is_sum_identity r H1 H2) | exact (Rel_empty.sum_empty_left_is_sum_identity r H1 H2)]. Qed.

Theorem C10_composition_with_empty_is_composition_with_identity : forall r, rel_is_empty r = false -> forallb nonempty_str (rvars r) = true ->
  rel_comp r rel_empty = rel_comp r (rel_identity (rvars r)).
Proof. exact Rel_empty.comp_empty_right_is_comp_identity. Qed.

Theorem C10_empty_is_not_neutral_for_sum :
  let r := mk_rel ["x"; "y"]%string [[zero_poly; zero_poly]; [unit_poly; unit_poly]] in
  rel_is_empty r = false /\ rmat (rel_sum r rel_empty) <> rmat r.
Proof. exact Rel_empty.sum_empty_is_not_neutral. Qed.

Print Assumptions C10_homogenisation.
Print Assumptions C10_infinity_persists_in_sum.
Print Assumptions C10_infinity_persists_in_composition_refuted.
Print Assumptions C10_sum.
Print Assumptions C10_composition_exact.
Print Assumptions C10_composition_is_matrix_product.
Print Assumptions C10_fixpoint_is_closure.
Print Assumptions C10_split_append.
Print Assumptions C10_split_derivation.
Print Assumptions C10_split.
Print Assumptions C10_fixpoint_terminates.
Print Assumptions C10_loop_closures_terminate.
Print Assumptions C10_sum_with_empty_is_sum_with_identity.
Print Assumptions C10_composition_with_empty_is_composition_with_identity.
Print Assumptions C10_empty_is_not_neutral_for_sum.
