(* C18 -- unary operators and casts are analysed as their documented rewriting.  Statements only.
   (A cast of a whole right-hand side or of an operand is looked through by the reader tools/cread.py
   exactly where Analysis.compute_relation / rm_cast do; the metamorphic twin runs of tools/props/c18.py
   check its transparency on the real tool.) *)
From Coq Require Import String List Bool.
From PM Require Import Semiring Poly Rel Analysis Calculus An_unary.
Import ListNotations.
Open Scope string_scope.

Theorem C18_unary_assignment_is_its_rewriting : forall fuel index x op e d s',
  unary_asgn_rewrite x op e = Some s' ->
  compute (S fuel) index (SUnAsg x op e) d = compute fuel index s' d.
Proof. exact unary_asgn_is_rewriting. Qed.

Theorem C18_documented_rewritings : forall x y,
  unary_asgn_rewrite x "p++" (UVar y) = Some (SBlock [SCopy x y; SBin y "+" (AVar y) ACst]) /\
  unary_asgn_rewrite x "++" (UVar y) = Some (SBlock [SBin y "+" (AVar y) ACst; SCopy x y]) /\
  unary_asgn_rewrite x "p--" (UVar y) = Some (SBlock [SCopy x y; SBin y "-" (AVar y) ACst]) /\
  unary_asgn_rewrite x "--" (UVar y) = Some (SBlock [SBin y "-" (AVar y) ACst; SCopy x y]) /\
  unary_asgn_rewrite x "-" (UVar y) = Some (SBin x "*" (AVar y) ACst) /\
  unary_asgn_rewrite x "+" (UVar y) = Some (SCopy x y) /\
  (forall e, unary_asgn_rewrite x "!" e = Some (SConst x)) /\
  (forall e, unary_asgn_rewrite x "sizeof" e = Some (SConst x)) /\
  (forall op, unary_asgn_rewrite x op UCst = Some (SConst x)).
Proof. exact rewriting_table. Qed.

Theorem C18_standalone_increment_decrement : forall fuel index op y d,
  mem_strb op INC_DEC = true ->
  compute (S fuel) index (SUnary op (UVar y)) d =
  compute (S fuel) index (SBin y (if mem_strb op ["p++"; "++"] then "+" else "-") (AVar y) ACst) d.
Proof. exact standalone_incdec. Qed.

Theorem C18_other_standalone_unary_has_no_effect : forall fuel index op e d,
  (forall y, e = UVar y -> mem_strb op INC_DEC = false) ->
  compute (S fuel) index (SUnary op e) d = skip index d.
Proof. exact standalone_other_noop. Qed.

Theorem C18_unsupported_unary_assignment_is_skipped : forall fuel index x op e d,
  unary_asgn_rewrite x op e = None ->
  compute (S fuel) index (SUnAsg x op e) d = skip index d.
Proof. exact unary_asgn_unsupported_is_skip. Qed.

Print Assumptions C18_unary_assignment_is_its_rewriting.
Print Assumptions C18_documented_rewritings.
Print Assumptions C18_standalone_increment_decrement.
Print Assumptions C18_other_standalone_unary_has_no_effect.
Print Assumptions C18_unsupported_unary_assignment_is_skipped.
