(* C18 -- unary operators and casts are analysed as their documented rewriting.  Statements only.
   (A cast of a whole right-hand side or of an operand is looked through by the reader tools/cread.py
   exactly where Analysis.compute_relation / rm_cast do; the metamorphic twin runs of tools/props/c18.py
   check its transparency on the real tool.)
   Casts in the DISPATCH of compute_relation (model Syntax.cr_step over pycparser trees), for all trees:
   one cast around a whole right-hand side leaves the kinds of the events unchanged -- one level only,
   `x = (int)(int)y` is warned about and skipped; casts around the operands of a binary operation are removed
   by rm_cast, any number of them; a cast STATEMENT `(T)x++;` is warned about and skipped. *)
From Coq Require Import String List Bool.
From PM Require Import Tree Syntax Syntax_proofs_cast.
From PM Require Import Semiring Poly Rel Analysis Calculus An_unary.
Import ListNotations.
Open Scope string_scope.

Theorem C18_unary_assignment_is_its_rewriting : forall fuel index x op e d s',
  unary_asgn_rewrite x op e = Some s' ->
  compute (S fuel) index (SUnAsg x op e) d = compute fuel index s' d.
Proof. exact unary_asgn_is_rewriting. Qed.

Theorem C18_documented_rewritings : forall x y,
  unary_asgn_rewrite x "p++" (UVar y) = Some (SBlock [SCopy x y; SBin y "+" (AVar y) ACst]) /\
  unary_asgn_rewrite x "++" (UVar y) = Some (SBlock [SBin y "+" (AVar y) ACst; SCopy x y]) /\
  unary_asgn_rewrite x "p--" (UVar y) = Some (SBlock [SCopy x y; SBin y "-" (AVar y) ACst]) /\
  unary_asgn_rewrite x "--" (UVar y) = Some (SBlock [SBin y "-" (AVar y) ACst; SCopy x y]) /\
  unary_asgn_rewrite x "-" (UVar y) = Some (SBin x "*" (AVar y) ACst) /\
  unary_asgn_rewrite x "+" (UVar y) = Some (SCopy x y) /\
  (forall e, unary_asgn_rewrite x "!" e = Some (SConst x)) /\
  (forall e, unary_asgn_rewrite x "sizeof" e = Some (SConst x)) /\
  (forall op, unary_asgn_rewrite x op UCst = Some (SConst x)).
Proof. exact rewriting_table. Qed.

Theorem C18_standalone_increment_decrement : forall fuel index op y d,
  mem_strb op INC_DEC = true ->
  compute (S fuel) index (SUnary op (UVar y)) d =
  compute (S fuel) index (SBin y (if mem_strb op ["p++"; "++"] then "+" else "-") (AVar y) ACst) d.
Proof. exact standalone_incdec. Qed.

Theorem C18_other_standalone_unary_has_no_effect : forall fuel index op e d,
  (forall y, e = UVar y -> mem_strb op INC_DEC = false) ->
  compute (S fuel) index (SUnary op e) d = skip index d.
Proof. exact standalone_other_noop. Qed.

Theorem C18_unsupported_unary_assignment_is_skipped : forall fuel index x op e d,
  unary_asgn_rewrite x op e = None ->
  compute (S fuel) index (SUnAsg x op e) d = skip index d.
Proof. exact unary_asgn_unsupported_is_skip. Qed.

(* ---------- casts: the dispatch ---------- *)
Theorem C18_cast_of_whole_right_side_is_transparent : forall a lv c e,
  kid1 c "expr" = Some e /\ is_cls "Cast" c = true ->
  is_cls "Cast" e = false ->
  map ekind_of (cr_events (Node "Assignment" a [("lvalue", [lv]); ("rvalue", [c])])) =
  map ekind_of (cr_events (Node "Assignment" a [("lvalue", [lv]); ("rvalue", [e])])).
Proof. exact Syntax_proofs_cast.cast_rhs_transparent. Qed.

(* the weakest side condition *)
Theorem C18_cast_of_whole_right_side_transparent_iff : forall a lv c e,
  kid1 c "expr" = Some e /\ is_cls "Cast" c = true ->
  (map ekind_of (cr_events (Node "Assignment" a [("lvalue", [lv]); ("rvalue", [c])])) =
   map ekind_of (cr_events (Node "Assignment" a [("lvalue", [lv]); ("rvalue", [e])]))
   <->
   is_cls "ID" lv = false \/ is_cls "Cast" e = false \/
   map ekind_of (cr_events (Node "Assignment" a [("lvalue", [lv]); ("rvalue", [e])])) = [KUnsupported]).
Proof. exact Syntax_proofs_cast.cast_rhs_transparent_iff. Qed.

(* x = (int)(int)y is skipped with a warning, x = (int)y is a flow *)
Theorem C18_cast_twice_not_transparent :
  let e := cast_ (id_ "y") in
  let c := cast_ e in
  wf_pyc (asg_ (id_ "x") c) = true /\
  (kid1 c "expr" = Some e /\ is_cls "Cast" c = true) /\
  map ekind_of (cr_events (asg_ (id_ "x") c)) = [KUnsupported] /\
  map ekind_of (cr_events (asg_ (id_ "x") e)) = [KFlow] /\
  map ekind_of (cr_events (asg_ (id_ "x") c)) <> map ekind_of (cr_events (asg_ (id_ "x") e)).
Proof. exact Syntax_proofs_cast.cast_twice_not_transparent. Qed.

Theorem C18_binary_op_reads_operands_through_rm_cast : forall rv rv',
  orm_cast (kid1 rv "left") = orm_cast (kid1 rv' "left") ->
  orm_cast (kid1 rv "right") = orm_cast (kid1 rv' "right") ->
  binary_op_events rv = binary_op_events rv'.
Proof. exact Syntax_proofs_cast.binary_op_events_rm_cast. Qed.

Theorem C18_rm_cast_removes_a_cast : forall c e,
  is_cls "Cast" c = true -> kid1 c "expr" = Some e -> rm_cast c = rm_cast e.
Proof. exact Syntax_proofs_cast.rm_cast_cast. Qed.

Theorem C18_rm_cast_keeps_other_nodes : forall n, is_cls "Cast" n = false -> rm_cast n = n.
Proof. exact Syntax_proofs_cast.rm_cast_not_cast. Qed.

Theorem C18_rm_cast_idempotent : forall n, rm_cast (rm_cast n) = rm_cast n.
Proof. exact Syntax_proofs_cast.rm_cast_idem. Qed.

(* [casts_of e w]: w is e under any number of casts *)
Theorem C18_casts_of_operands_are_transparent : forall a a' l r l' r',
  casts_of l l' -> casts_of r r' ->
  binary_op_events (Node "BinaryOp" a' [("left", [l']); ("right", [r'])]) =
  binary_op_events (Node "BinaryOp" a [("left", [l]); ("right", [r])]).
Proof. exact Syntax_proofs_cast.binary_op_cast_operands. Qed.

Theorem C18_cast_operands_statement : forall a ab i j t x l r,
  cr_events (Node "Assignment" a [("lvalue", [id_ x]); ("rvalue", [Node "BinaryOp" ab [("left", [cast_n i t l]); ("right", [cast_n j t r])]])]) =
  cr_events (Node "Assignment" a [("lvalue", [id_ x]); ("rvalue", [Node "BinaryOp" ab [("left", [l]); ("right", [r])]])]).
Proof. exact Syntax_proofs_cast.cast_operands_statement. Qed.

Theorem C18_cast_statement_is_skipped : forall a ks, cr_events (Node "Cast" a ks) = [Ev KUnsupported []].
Proof. exact Syntax_proofs_cast.cast_statement_is_skipped. Qed.

(* (int)x++; against x++; *)
Theorem C18_cast_statement_not_transparent :
  let s := Node "UnaryOp" [("op", "p++")] [("expr", [id_ "x"])] in
  wf_pyc (cast_ s) = true /\
  cr_events (cast_ s) = [Ev KUnsupported []] /\ cr_events s = [Ev KFlow []].
Proof. exact Syntax_proofs_cast.cast_statement_not_transparent. Qed.

Print Assumptions C18_unary_assignment_is_its_rewriting.
Print Assumptions C18_documented_rewritings.
Print Assumptions C18_standalone_increment_decrement.
Print Assumptions C18_other_standalone_unary_has_no_effect.
Print Assumptions C18_unsupported_unary_assignment_is_skipped.
Print Assumptions C18_cast_of_whole_right_side_is_transparent.
Print Assumptions C18_cast_of_whole_right_side_transparent_iff.
Print Assumptions C18_cast_twice_not_transparent.
Print Assumptions C18_binary_op_reads_operands_through_rm_cast.
Print Assumptions C18_rm_cast_removes_a_cast.
Print Assumptions C18_rm_cast_keeps_other_nodes.
Print Assumptions C18_rm_cast_idempotent.
Print Assumptions C18_casts_of_operands_are_transparent.
Print Assumptions C18_cast_operands_statement.
Print Assumptions C18_cast_statement_is_skipped.
Print Assumptions C18_cast_statement_not_transparent.
