(* C07 -- unsupported statements are dropped exactly, and only they.
   Statements only.  [coverage] / [full] / [ast_mod] / [syntax_check] (PM.Syntax) are the executable
   model of Coverage, Coverage.full, Coverage.ast_mod and Analysis.syntax_check, driven by the method
   tables GENERATED from pymwp on this run.  All theorems are for every tree respecting pycparser's
   class schema, of any size and depth. *)
From Coq Require Import String List.
From PM Require Import Tree Syntax Syntax_proofs_C07a Syntax_proofs_C07c Syntax_proofs_C07d Syntax_proofs_loopmode.
Import ListNotations.

(* after the removal pass the syntax check reports fully supported *)
Theorem C07_idempotent_full :
  forall t t', wf_pyc t = true -> ast_mod t = Ok t' -> full t' = true.
Proof. exact idempotent_full. Qed.

(* a fully supported function is left untouched by the removal pass *)
Theorem C07_supported_untouched :
  forall t, full t = true -> ast_mod t = Ok t.
Proof. exact supported_untouched. Qed.

(* Inserting any number of unsupported statements (Coverage asks for their removal as a whole, nothing
   raises, they do not mention a guard variable of a counted for-loop of f) at any block positions of a
   supported f -- function body, nested blocks, loop bodies, branch bodies, any depth -- and running the
   removal pass gives f back.  Equality of the analysis results follows since the analysis runs on the
   tree after the pass (observed metamorphically on the real tool). *)
Theorem C07_insert :
  forall f f', wf_pyc f' = true -> full f = true -> ins (unsupported_for f) f f' -> ast_mod f' = Ok f.
Proof. exact insert_removed. Qed.

(* ... but NOT at a block position under a label: Coverage does not look below a Label (same defect
   as C05's "covered-but-skipped Label"); the insertion survives and the gate still says full *)
Theorem C07_insert_under_label_refuted :
  full (lbl_block []) = true /\ wf_pyc (lbl_block [a_call]) = true /\ full (lbl_block [a_call]) = true /\
  ast_mod (lbl_block [a_call]) = Ok (lbl_block [a_call]).
Proof. exact insert_under_label_not_removed. Qed.

(* strict mode: a function that is not fully supported is refused and not modified *)
Theorem C07_strict :
  forall t, full t = false -> (exists l, coverage t = Ok l) -> syntax_check t true = Ok (false, t).
Proof. exact strict_refuses. Qed.

(* default mode: the function is analysed, on a tree the gate accepts *)
Theorem C07_default_mode :
  forall t r, wf_pyc t = true -> syntax_check t false = Ok r -> fst r = true /\ full (snd r) = true.
Proof. exact default_mode_cleans. Qed.

(* ---- loop mode (LoopAnalysis.run): [loop_mode_loops f strict] = the loops inspected, as
   (path in the function f, tree inspected); [find_loops f] = FindLoops(f).loops as paths ---- *)

(* strict: an inspected loop is the source loop itself, untouched, and the gate accepts it as it is *)
Theorem C07_loop_mode_strict_sound :
  forall f r, loop_mode_loops f true = Ok r ->
  forall p l, In (p, l) r -> node_at p f = Some l /\ full l = true /\ is_loop l = true.
Proof. exact Syntax_proofs_loopmode.loop_mode_strict_sound. Qed.

(* strict: no fully supported loop is dropped *)
Theorem C07_loop_mode_strict_complete :
  forall f r ps, loop_mode_loops f true = Ok r -> find_loops f = Some ps ->
  forall p l, In p ps -> node_at p f = Some l -> full l = true -> is_loop l = true -> In (p, l) r.
Proof. exact Syntax_proofs_loopmode.loop_mode_strict_complete. Qed.

(* strict: a loop holding an unsupported statement is not analysed at all *)
Theorem C07_loop_mode_strict_refuses :
  forall f r ps, loop_mode_loops f true = Ok r -> find_loops f = Some ps ->
  forall p l, In p ps -> node_at p f = Some l -> full l = false -> ~ In p (map fst r).
Proof. exact Syntax_proofs_loopmode.loop_mode_strict_refuses. Qed.

(* strict, in one equation: FindLoops' list filtered by "gate accepts it as it is and parser.is_loop
   keeps it" ([strict_keeps f p] = full l && is_loop l for the node l at p), loops untouched *)
Theorem C07_loop_mode_strict_exact :
  forall f r ps, loop_mode_loops f true = Ok r -> find_loops f = Some ps ->
  map fst r = filter (strict_keeps f) ps /\ forall p l, In (p, l) r -> node_at p f = Some l.
Proof. exact Syntax_proofs_loopmode.loop_mode_strict_exact. Qed.

(* default: every analysed loop is the source loop after the removal pass, a tree the gate accepts *)
Theorem C07_loop_mode_default_clean :
  forall f r, loop_mode_loops f false = Ok r ->
  forall p l', In (p, l') r ->
  exists l, node_at p f = Some l /\ syntax_check l false = Ok (true, l') /\ is_loop l' = true /\
            (wf_pyc l = true -> full l' = true).
Proof. exact Syntax_proofs_loopmode.loop_mode_default_clean. Qed.

Theorem C07_loop_mode_default_clean_wf :
  forall f r, wf_pyc f = true -> loop_mode_loops f false = Ok r ->
  forall p l', In (p, l') r ->
  exists l, node_at p f = Some l /\ ast_mod l = Ok l' /\ is_loop l' = true /\ full l' = true.
Proof. exact Syntax_proofs_loopmode.loop_mode_default_clean_wf. Qed.

(* default: a listed loop is dropped only if parser.is_loop refuses it AFTER its removal pass ... *)
Theorem C07_loop_mode_default_complete :
  forall f r ps, loop_mode_loops f false = Ok r -> find_loops f = Some ps ->
  forall p l v l', In p ps -> node_at p f = Some l -> syntax_check l false = Ok (v, l') -> is_loop l' = true ->
  In (p, l') r.
Proof. exact Syntax_proofs_loopmode.loop_mode_default_complete. Qed.

(* ... which happens: a loop whose body is only unsupported statements is cleaned to an empty body *)
Theorem C07_loop_mode_default_drops_emptied :
  wf_pyc lm_fn2 = true /\ find_loops lm_fn2 = Some [lm_p0; lm_p1] /\
  is_loop lm_loop_only_call = true /\
  syntax_check lm_loop_only_call false = Ok (true, h_while (h_block [])) /\
  is_loop (h_while (h_block [])) = false /\
  loop_mode_loops lm_fn2 false = Ok [(lm_p1, lm_loop_clean)] /\
  loop_mode_loops lm_fn2 true = Ok [(lm_p1, lm_loop_clean)].
Proof. exact Syntax_proofs_loopmode.lm_fn2_default_drops. Qed.

(* both modes: the analysed loops are a subsequence of FindLoops' list, same order
   ([sublist l l']: l is l' with some elements left out; [kept f strict p]: the test run on the loop at p) *)
Theorem C07_loop_mode_order :
  forall f strict r ps, loop_mode_loops f strict = Ok r -> find_loops f = Some ps -> sublist (map fst r) ps.
Proof. exact Syntax_proofs_loopmode.loop_mode_order. Qed.

Theorem C07_loop_mode_filter :
  forall f strict r ps, loop_mode_loops f strict = Ok r -> find_loops f = Some ps ->
  map fst r = filter (kept f strict) ps.
Proof. exact Syntax_proofs_loopmode.loop_mode_filter. Qed.

(* non-vacuity: two loops, the first holds a call; strict analyses exactly the clean one,
   default both, the first without the call *)
Theorem C07_loop_mode_example :
  wf_pyc lm_fn = true /\ find_loops lm_fn = Some [lm_p0; lm_p1] /\
  node_at lm_p0 lm_fn = Some lm_loop_call /\ node_at lm_p1 lm_fn = Some lm_loop_clean /\
  full lm_loop_call = false /\ full lm_loop_clean = true /\ full lm_loop_call_cleaned = true.
Proof. exact Syntax_proofs_loopmode.lm_fn_shape. Qed.
Theorem C07_loop_mode_example_strict : loop_mode_loops lm_fn true = Ok [(lm_p1, lm_loop_clean)].
Proof. exact Syntax_proofs_loopmode.lm_fn_strict. Qed.
Theorem C07_loop_mode_example_default :
  loop_mode_loops lm_fn false = Ok [(lm_p0, lm_loop_call_cleaned); (lm_p1, lm_loop_clean)].
Proof. exact Syntax_proofs_loopmode.lm_fn_default. Qed.

Print Assumptions C07_idempotent_full.
Print Assumptions C07_supported_untouched.
Print Assumptions C07_insert.
Print Assumptions C07_insert_under_label_refuted.
Print Assumptions C07_strict.
Print Assumptions C07_default_mode.
Print Assumptions C07_loop_mode_strict_sound.
Print Assumptions C07_loop_mode_strict_complete.
Print Assumptions C07_loop_mode_strict_refuses.
Print Assumptions C07_loop_mode_strict_exact.
Print Assumptions C07_loop_mode_default_clean.
Print Assumptions C07_loop_mode_default_clean_wf.
Print Assumptions C07_loop_mode_default_complete.
Print Assumptions C07_loop_mode_default_drops_emptied.
Print Assumptions C07_loop_mode_order.
Print Assumptions C07_loop_mode_filter.
Print Assumptions C07_loop_mode_example.
Print Assumptions C07_loop_mode_example_strict.
Print Assumptions C07_loop_mode_example_default.
