(* C07 -- unsupported statements are dropped exactly, and only they.
   Statements only.  [coverage] / [full] / [ast_mod] / [syntax_check] (PM.Syntax) are the executable
   model of Coverage, Coverage.full, Coverage.ast_mod and Analysis.syntax_check, driven by the method
   tables GENERATED from pymwp on this run.  All theorems are for every tree respecting pycparser's
   class schema, of any size and depth. *)
From Coq Require Import String List.
From PM Require Import Tree Syntax Syntax_proofs_C07a Syntax_proofs_C07c Syntax_proofs_C07d.
Import ListNotations.

(* after the removal pass the syntax check reports fully supported *)
Theorem C07_idempotent_full :
  forall t t', wf_pyc t = true -> ast_mod t = Ok t' -> full t' = true.
Proof. exact idempotent_full. Qed.

(* a fully supported function is left untouched by the removal pass *)
Theorem C07_supported_untouched :
  forall t, full t = true -> ast_mod t = Ok t.
Proof. exact supported_untouched. Qed.

(* Inserting any number of unsupported statements (Coverage asks for their removal as a whole, nothing
   raises, they do not mention a guard variable of a counted for-loop of f) at any block positions of a
   supported f -- function body, nested blocks, loop bodies, branch bodies, any depth -- and running the
   removal pass gives f back.  Equality of the analysis results follows since the analysis runs on the
   tree after the pass (observed metamorphically on the real tool). *)
Theorem C07_insert :
  forall f f', wf_pyc f' = true -> full f = true -> ins (unsupported_for f) f f' -> ast_mod f' = Ok f.
Proof. exact insert_removed. Qed.

(* ... but NOT at a block position under a label: Coverage does not look below a Label (same defect
   as C05's "covered-but-skipped Label"); the insertion survives and the gate still says full *)
Theorem C07_insert_under_label_refuted :
  full (lbl_block []) = true /\ wf_pyc (lbl_block [a_call]) = true /\ full (lbl_block [a_call]) = true /\
  ast_mod (lbl_block [a_call]) = Ok (lbl_block [a_call]).
Proof. exact insert_under_label_not_removed. Qed.

(* strict mode: a function that is not fully supported is refused and not modified *)
Theorem C07_strict :
  forall t, full t = false -> (exists l, coverage t = Ok l) -> syntax_check t true = Ok (false, t).
Proof. exact strict_refuses. Qed.

(* default mode: the function is analysed, on a tree the gate accepts *)
Theorem C07_default_mode :
  forall t r, wf_pyc t = true -> syntax_check t false = Ok r -> fst r = true /\ full (snd r) = true.
Proof. exact default_mode_cleans. Qed.

Print Assumptions C07_idempotent_full.
Print Assumptions C07_supported_untouched.
Print Assumptions C07_insert.
Print Assumptions C07_insert_under_label_refuted.
Print Assumptions C07_strict.
Print Assumptions C07_default_mode.
