(* C20 -- the printed bound expression denotes the computed bound.

   Objects: [mb_of_lists x y z] is the MwpBound whose three sets were filled with the names x, y, z
   (any order, duplicates allowed: every reachable MwpBound has this form, see [mb_append_lists] and
   [mb_init]); [bound_poly b compact] is the TEXT MwpBound.bound_poly prints (model of bound.py,
   compared with the real code character for character on every run); [bound_expr] is the tree
   the same case analysis builds; [eval_text]/[parse_expr] (Bound_syntax.v) is an independently
   defined reader of the concrete syntax  E ::= T(+T)*, T ::= F( *F)*, F ::= name | 0 | max(E,..,E) | (E).
   [ident a]: a is non-empty, has none of ( ) , + *  and is not the literal 0.
   Statements only; proofs are in theories/Bound_{proofs,reader,text}.v. *)
From Coq Require Import String Ascii List Bool Sorted.
From PMGen Require Import SemiringGen.
From PM Require Import Bound Bound_syntax Bound_proofs Bound_reader Bound_text.
Import ListNotations.
Local Open Scope list_scope.

(* (1) the printed text, in both forms, read back by the independent reader, evaluates under every
   valuation to max(max x, sum y) + prod z; an empty list contributes nothing (prodz [] = 0). *)
Theorem C20_denotes : forall (rho : valuation) (x y z : list str) (compact : bool),
  Forall ident x -> Forall ident y -> Forall ident z -> NoDup y -> NoDup z ->
  eval_text rho (bound_poly (mb_of_lists x y z) compact)
  = Some (Nat.max (maxl rho x) (suml rho y) + prodz rho z).
Proof. exact text_denotes_nodup. Qed.

(* the same without the distinctness hypothesis: the sets are what counts *)
Theorem C20_denotes_sets : forall (rho : valuation) (x y z : list str) (compact : bool),
  Forall ident x -> Forall ident y -> Forall ident z ->
  eval_text rho (bound_poly (mb_of_lists x y z) compact)
  = Some (Nat.max (maxl rho x) (suml rho (sort_uniq y)) + prodz rho (sort_uniq z)).
Proof. exact text_denotes. Qed.

(* tree level, no hypothesis on the names at all *)
Theorem C20_denotes_tree : forall (rho : valuation) (x y z : list str) (compact : bool),
  eval rho (bound_expr (mb_of_lists x y z) compact)
  = Nat.max (maxl rho x) (suml rho (sort_uniq y)) + prodz rho (sort_uniq z).
Proof. exact eval_bound_expr. Qed.

(* the text IS the rendering of the tree, and reading the text gives the tree back *)
Theorem C20_text_is_tree : forall (x y z : list str) (compact : bool),
  Forall ident x -> Forall ident y -> Forall ident z ->
  bound_poly (mb_of_lists x y z) compact = render (bound_expr (mb_of_lists x y z) compact) /\
  parse_expr (bound_poly (mb_of_lists x y z) compact) = Some (bound_expr (mb_of_lists x y z) compact).
Proof. exact text_is_tree. Qed.

(* equal texts (even across the two forms) come from equal trees *)
Theorem C20_unambiguous : forall x y z c x' y' z' c',
  Forall ident x -> Forall ident y -> Forall ident z ->
  Forall ident x' -> Forall ident y' -> Forall ident z' ->
  bound_poly (mb_of_lists x y z) c = bound_poly (mb_of_lists x' y' z') c' ->
  bound_expr (mb_of_lists x y z) c = bound_expr (mb_of_lists x' y' z') c'.
Proof. exact text_unambiguous. Qed.

(* what is printed when all three lists are empty *)
Theorem C20_all_empty_prints_0 : forall compact, bound_poly (mb_of_lists [] [] []) compact = L "0".
Proof. exact all_empty_text. Qed.

(* HonestPoly.vars is the strictly increasing list of the distinct names *)
Theorem C20_vars_sorted_set : forall l,
  StronglySorted (fun a b => str_cmp a b = Lt) (sort_uniq l) /\ (forall v, In v (sort_uniq l) <-> In v l).
Proof. exact vars_sorted_set. Qed.

(* (2) the text form parses back: for ANY triple of lists of names (non-empty, no ',' no ';') *)
Theorem C20_parse_str : forall X Y Z : list str,
  Forall csv_name X -> Forall csv_name Y -> Forall csv_name Z ->
  parse (Some (joinl (L ";") (map (joinl (L ",")) [X; Y; Z]))) = [X; Y; Z].
Proof. exact parse_join3. Qed.

Theorem C20_parse_bound_str : forall x y z : list str,
  Forall csv_name x -> Forall csv_name y -> Forall csv_name z ->
  let b := mb_of_lists x y z in
  parse (Some (bound_str b)) = (let '(X, Y, Z) := bound_triple b in [X; Y; Z]) /\
  exists b', mb_init (Some (bound_str b)) = Some b' /\ bound_triple b' = bound_triple b /\ mb_eqb b' b = true.
Proof. exact parse_bound_str_full. Qed.

(* (3) show(significant=True) keeps, in order, exactly the entries of show(significant=False) whose
   bound is not "the variable itself and nothing else" *)
Theorem C20_significant : forall (bd : bdict) (variables : list str),
  Forall entry_ok bd ->
  show_entries bd true variables
  = filter (fun kv => negb (only_self kv)) (show_entries bd false variables).
Proof. exact show_entries_significant. Qed.

Theorem C20_significant_all_keys : forall bd : bdict,
  Forall entry_ok bd ->
  show_entries bd false [] = bd /\ show_entries bd true [] = filter (fun kv => negb (only_self kv)) bd.
Proof. exact significant_all_keys. Qed.

Theorem C20_only_self_meaning : forall k X Y Z, only_selfb k X Y Z = true <-> X ++ Y ++ Z = [k].
Proof. exact only_selfb_spec. Qed.

(* (4) Bound.calculate on a well-formed scalar matrix: the bound of variable j is column j, split
   by scalar into (rows with m, rows with w, rows with p) *)
Theorem C20_calculate_columns : forall (vars : list str) (matrix : list (list string)),
  NoDup vars -> length matrix = length vars ->
  Forall (fun row => length vars <= length row) matrix ->
  calculate [] vars matrix
  = Some (map (fun jn => (snd jn,
                          mb_of_lists (select UNIT_MWP (fst jn) matrix vars)
                                      (select WEAK_MWP (fst jn) matrix vars)
                                      (select POLY_MWP (fst jn) matrix vars)))
              (combine (seq 0 (length vars)) vars)).
Proof. exact calculate_columns. Qed.

Theorem C20_calculate_column_of : forall vars matrix j name,
  NoDup vars -> length matrix = length vars ->
  Forall (fun row => length vars <= length row) matrix ->
  nth_error vars j = Some name ->
  exists bd, calculate [] vars matrix = Some bd /\ map fst bd = vars /\
             dict_get bd name = Some (column_bound j matrix vars).
Proof. exact calculate_column_of. Qed.

Print Assumptions C20_denotes.
Print Assumptions C20_denotes_sets.
Print Assumptions C20_denotes_tree.
Print Assumptions C20_text_is_tree.
Print Assumptions C20_unambiguous.
Print Assumptions C20_all_empty_prints_0.
Print Assumptions C20_vars_sorted_set.
Print Assumptions C20_parse_str.
Print Assumptions C20_parse_bound_str.
Print Assumptions C20_significant.
Print Assumptions C20_significant_all_keys.
Print Assumptions C20_only_self_meaning.
Print Assumptions C20_calculate_columns.
Print Assumptions C20_calculate_column_of.
