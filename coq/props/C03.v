(* C03 -- strict-mode bounds hold for every concrete execution (constant-free code).
   Statements only.  Specification of executions: theories/Exec.v (exact path-wise semantics, values =
   expanded polynomials over the inputs); flow calculus: theories/Calculus.v; analysis model:
   theories/Analysis.v (tied to pymwp/analysis.py by the correspondence runs of C01/C03).
   Proofs: theories/Exec_proofs.v, theories/Exec_proofs2.v.

   What is claimed is the property's "concretely ..." clause (the SHAPE of the exact final value against
   the bound column), for every program of the fragment, every choice vector with a derivation, every
   path (branch outcomes, iteration counts) -- not the paper's quantitative soundness. *)
From Coq Require Import String List Bool.
From PM Require Import Semiring Poly Rel Analysis Calculus Exec.
From PM Require An_stmts Exec_proofs Exec_proofs2 Exec_proofs_closed.
Import ListNotations.
Open Scope string_scope.

(* (1) every derivation of the calculus constrains every execution: for a matrix A derived for the
   choice vector cs, the exact final value of every variable v has the shape column v of A allows
   (shape_ok = only listed variables; a max-listed variable only as one summand with coefficient one;
   never two max-listed variables; never a max-listed variable next to a term with a weak-listed one),
   and mentions only variables of the function.  [exec_func p f = Some _] says that p is an execution
   of f inside the constant-free fragment (exec answers None otherwise); all statement forms of the
   fragment, any nesting, any iteration counts. *)
Theorem C03_shape : forall f cs A p st' v,
  fst (derive_func f cs) = Some A -> exec_func p f = Some st' -> In v (func_vars f) ->
  shape_ok (fun u => A u v) (st' v) /\ incl (pvars (st' v)) (func_vars f).
Proof. exact Exec_proofs2.shape_func. Qed.

(* the hypotheses of (1) are satisfiable: every constant-free function has an execution (loops run
   twice, first branches taken) *)
Theorem C03_fragment_inhabited : forall f,
  cfree_func f = true -> exists p st', exec_func p f = Some st'.
Proof. exact Exec_proofs2.cfree_has_path. Qed.

(* (2) the guard of a counted loop does not occur in its body ... *)
Theorem C03_guard_in_body : forall iters srcs conds nxt body X,
  loop_compat iters srcs conds nxt body = Some X -> ~ In X (stmt_vars body).
Proof. exact Exec_proofs2.guard_not_in_body. Qed.

(* ... and a for statement whose guard occurs in its body is never given the L rule: calculus and
   analysis model skip it (in strict mode the real tool refuses the function: checked by the plugin),
   and it is outside the fragment *)
Theorem C03_guard_in_body_no_L : forall iters srcs conds nxt body X,
  loop_guard_x iters srcs conds nxt = [X] -> In X (stmt_vars body) ->
  loop_compat iters srcs conds nxt body = None /\
  (forall fuel V cs idx, derive (S fuel) V (SFor iters srcs conds nxt body) cs idx = (Some sid, idx)) /\
  (forall fuel index d, compute (S fuel) index (SFor iters srcs conds nxt body) d = skip index d) /\
  (forall p st, exec p (SFor iters srcs conds nxt body) st = None) /\
  cfree (SFor iters srcs conds nxt body) = false.
Proof. exact Exec_proofs2.guard_in_body_no_L. Qed.

(* (3) what the tool reports: for a function the analysis model reports not infinite and a choice
   vector it accepts, column v of the reported matrix (Relation.apply_choice, from which Bound.calculate
   reads the bound triple) constrains every execution.  First with C01's statement [finite_result_stmt]
   (theories/An_stmts.v: the reported matrix at an accepted vector is the derivation's matrix) as an
   explicit premise -- this form does not depend on the simulation proof --, then with the premise
   discharged by the closed theorem An_closed.finite_result. *)
Theorem C03_reported :
  An_stmts.finite_result_stmt ->
  forall f stop res r cs p st' v,
    An_stmts.func_ok f -> analyse f stop = ROk res -> fr_infinite res = false -> fr_rel res = Some r ->
    An_stmts.vec_ok (fr_index res) cs -> accepted (fr_inf_deltas res) cs = true ->
    exec_func p f = Some st' -> In v (func_vars f) ->
    shape_ok (fun u => tab_get (func_vars f) (apply_choice r (choice_of_list cs)) u v) (st' v).
Proof. exact Exec_proofs2.reported_func. Qed.

Theorem C03_reported_closed :
  forall f stop res r cs p st' v,
    An_stmts.func_ok f -> analyse f stop = ROk res -> fr_infinite res = false -> fr_rel res = Some r ->
    An_stmts.vec_ok (fr_index res) cs -> accepted (fr_inf_deltas res) cs = true ->
    exec_func p f = Some st' -> In v (func_vars f) ->
    shape_ok (fun u => tab_get (func_vars f) (apply_choice r (choice_of_list cs)) u v) (st' v).
Proof. exact Exec_proofs_closed.reported_closed. Qed.

(* the statement is satisfiable and discriminating on the paper's example 3.1
   (X1 = X2 + X3; X1 = X1 + X1 at choice (0,0)): the derived column is accepted, a wrong one is not *)
Theorem C03_example :
  cfree_func Exec_proofs2.ex31 = true /\ func_vars Exec_proofs2.ex31 = ["X1"; "X2"; "X3"] /\
  exists A st',
    fst (derive_func Exec_proofs2.ex31 [0; 0]) = Some A /\
    smat_table (func_vars Exec_proofs2.ex31) A = [[O; O; O]; [P; M; O]; [P; O; M]] /\
    exec_func (PSeq [PLeaf; PLeaf]) Exec_proofs2.ex31 = Some st' /\
    st' "X1" = [["X2"]; ["X3"]; ["X2"]; ["X3"]] /\
    shape_ok (fun u => A u "X1") (st' "X1") /\
    ~ shape_ok (fun u => if String.eqb u "X2" then M else if String.eqb u "X3" then P else O) (st' "X1").
Proof. exact Exec_proofs2.ex31_instance. Qed.

Print Assumptions C03_shape.
Print Assumptions C03_fragment_inhabited.
Print Assumptions C03_guard_in_body.
Print Assumptions C03_guard_in_body_no_L.
Print Assumptions C03_reported.
Print Assumptions C03_reported_closed.
Print Assumptions C03_example.
