(* C19 -- loop discovery and program statistics match the source.
   Statements only.  [find_loops], [take_counts] (PM.Syntax) and [loc] (PM.FileIO) are the executable
   models of FindLoops, Analysis.take_counts and file_io.loc, driven by the method tables GENERATED from
   pymwp on this run; [spec_pre] / [spec_loops] / [code_lines] are the specification.
   Full-strength statements C19_find_loops and C19_loc are FALSE of the faithful model of the unchanged
   code (D12, D11): their refutations (vm_compute witnesses that replay on the real code) and the
   strongest proved restrictions are listed instead. *)
From Coq Require Import String Ascii List.
From PM Require Import Tree Syntax FileIO Syntax_proofs_C19 Syntax_proofs_loc.
Import ListNotations.

(* full statement (all schema-respecting trees):  find_loops f = Some (spec_loops f).  Refuted: *)
Theorem C19_find_loops_refuted :
  exists f, wf_pyc f = true /\ is_func f = true /\ spec_loops f = [] /\
            find_loops f = Some [[("body"%string, 0); ("block_items"%string, 0)]].
Proof. exact find_loops_refuted. Qed.

(* proved for every tree, of any size and depth, whose traversed nodes have classes NodeHandler lists
   (no fall-through to FindLoops.handler), are not comma-expression / declaration-list nodes, and whose
   for-loop headers do not make init_vars raise: FindLoops = the while, do-while and counted for nodes of
   the preorder through {FuncDef body, Compound, If, While, DoWhile, For, Switch, Case, Default}, in
   source order *)
Theorem C19_find_loops_partial :
  forall f, plain_tree f -> find_loops f = Some (spec_loops f).
Proof. exact find_loops_partial. Qed.

(* statistics: number of function definitions, of loops of the specification traversal, of distinct
   variable names per function and per loop *)
Theorem C19_counts_partial :
  forall ast cnt, Forall plain_tree (filter is_func (kidl ast "ext")) -> take_counts ast = Some cnt -> count_spec ast cnt.
Proof. exact counts_partial. Qed.

Theorem C19_vars_distinct :
  forall ns l, vars_of ns = Some l -> NoDup l /\ (forall x, In x l <-> In x (vnames_of (flat_map vitems ns))).
Proof. exact vars_of_nodup. Qed.

(* full statement (all texts):  loc text = code_lines text.  Refuted by  a;/*<newline>*/b;  *)
Theorem C19_loc_refuted : exists text, loc text = 1 /\ code_lines text = 2.
Proof. exact loc_refuted. Qed.

(* proved for every text in which each comment spanning a line break starts its line; missing: comments
   that END a line (code before, nothing after) also count correctly but need a look-ahead invariant *)
Theorem C19_loc_partial :
  forall text, ml_ok false (lex text) = true -> loc text = code_lines text.
Proof. exact loc_partial. Qed.

Print Assumptions C19_find_loops_refuted.
Print Assumptions C19_find_loops_partial.
Print Assumptions C19_counts_partial.
Print Assumptions C19_vars_distinct.
Print Assumptions C19_loc_refuted.
Print Assumptions C19_loc_partial.
