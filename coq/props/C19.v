(* C19 -- loop discovery and program statistics match the source.
   Statements only.  [find_loops], [take_counts] (PM.Syntax) and [loc] (PM.FileIO) are the executable
   models of FindLoops, Analysis.take_counts and file_io.loc, driven by the method tables GENERATED from
   pymwp on this run; [spec_pre] / [spec_loops] / [code_lines] are the specification.
   All statements are for every tree of the generic pycparser tree type (any size, any nesting depth)
   and every text. *)
From Coq Require Import String Ascii List.
From PM Require Import Tree Syntax FileIO Syntax_proofs_C19 Syntax_proofs_loc.
Import ListNotations.

(* FindLoops = the while, do-while and counted for nodes of the preorder through FuncDef body, Compound,
   If, While, DoWhile, For, Switch, Case, Default (and the expression / declaration lists BaseAnalysis
   iterates, which hold no statements in a parse tree), in source order, at any depth.  [find_loops f]
   is None only when the variable walker raises (a FuncDef without declarator: no parse tree has one). *)
Theorem C19_find_loops :
  forall f l, find_loops f = Some l -> l = spec_loops f.
Proof. exact find_loops_spec. Qed.

(* statistics: number of function definitions, of loops of the specification traversal (empty ones
   included), of distinct variable names per function and per loop *)
Theorem C19_counts :
  forall ast cnt, take_counts ast = Some cnt -> count_spec ast cnt.
Proof. exact counts_spec. Qed.

Theorem C19_vars_distinct :
  forall ns l, vars_of ns = Some l -> NoDup l /\ (forall x, In x l <-> In x (vnames_of (flat_map vitems ns))).
Proof. exact vars_of_nodup. Qed.

(* loc = number of physical lines holding a non-blank character outside comments; character and
   string literals are opaque (their content is code) *)
Theorem C19_loc :
  forall text, loc text = code_lines text.
Proof. exact loc_spec. Qed.

(* regressions of the two repaired defects, evaluated on the current model *)
Theorem C19_regression_typedef_not_a_loop :
  wf_pyc d12_func = true /\ is_func d12_func = true /\ find_loops d12_func = Some [] /\ vars_of [d12_func] = Some [].
Proof. exact find_loops_d12. Qed.

Theorem C19_regression_comment_between_code : loc d11_text = 2 /\ code_lines d11_text = 2.
Proof. exact loc_d11. Qed.

Print Assumptions C19_find_loops.
Print Assumptions C19_counts.
Print Assumptions C19_vars_distinct.
Print Assumptions C19_loc.
Print Assumptions C19_regression_typedef_not_a_loop.
Print Assumptions C19_regression_comment_between_code.
