(* C04 -- the choice representation is the exact complement of the failing choices.

   All statements are about the executable model PM.Choice of pymwp/choice.py (tied to the real code
   by tools/props/c04.py on every run).  Vocabulary (PM.Choice_base):
     smatch v s          v makes every choice (value,index) of the delta sequence s
     accepted S v        no sequence of S is matched by v
     vec_in dom n v      v is a vector of dom^n
     wf_seq dom n s      s non-empty, indices strictly increasing and < n, values in dom
     wf_seqs dom n S     every sequence of S is well formed
     equiv_on dom n S S' S and S' accept the same vectors of dom^n
     in_box v b          v picks at every index a value the stored vector b allows
     covered bs v        some stored vector of bs allows v
     ord_ok / pick_ok    the oracle standing for Python's set iteration order returns the same elements
     ord_perm            ... and is a permutation (needed only for termination)
   A pass takes its set as a LIST in iteration order, so "for all lists" = "for every iteration order".
   No bound on the domain, the vector length, the number or length of sequences.  Statements only. *)
From Coq Require Import List Arith Bool ZArith Sorted Permutation.
From PM Require Import Choice Choice_base Choice_passes Choice_build Choice_proofs Choice_term.
Import ListNotations.

(* ---- (1) every simplification pass preserves well-formedness and the accepted set ---- *)

Theorem C04_reduce_preserves : forall dom n S S',
  reduce dom S = Ok (Some S') -> wf_seqs dom n S -> wf_seqs dom n S' /\ equiv_on dom n S S'.
Proof. exact reduce_ok. Qed.

Theorem C04_reduce_end_preserves : forall dom n S S',
  reduce_end dom S = Ok (Some S') -> wf_seqs dom n S -> wf_seqs dom n S' /\ equiv_on dom n S S'.
Proof. exact reduce_end_ok. Qed.

Theorem C04_unique_sequences_preserves : forall dom n S,
  wf_seqs dom n S -> wf_seqs dom n (unique_sequences S) /\ equiv_on dom n S (unique_sequences S).
Proof. exact unique_sequences_ok. Qed.

(* superset removal needs no hypothesis at all *)
Theorem C04_unique_sequences_exact : forall S v, accepted (unique_sequences S) v <-> accepted S v.
Proof. exact unique_sequences_accepted. Qed.

Theorem C04_except_one_preserves : forall dom n S,
  wf_seqs dom n S -> wf_seqs dom n (except_one dom S) /\ equiv_on dom n S (except_one dom S).
Proof. exact except_one_ok. Qed.

Theorem C04_simplify_preserves : forall ord fuel dom n S S', ord_ok ord ->
  simplify ord fuel dom S = Ok S' -> wf_seqs dom n S -> wf_seqs dom n S' /\ equiv_on dom n S S'.
Proof. exact simplify_ok. Qed.

(* ---- (2) build_choices / generate: membership <-> accepted ---- *)

Theorem C04_build : forall pick dom n S,
  pick_ok pick -> NoDup dom -> dom <> [] -> wf_seqs dom n S ->
  exists bs, build_choices pick dom n S = Ok bs /\
    (forall v, covered bs v <-> vec_in dom n v /\ accepted S v) /\
    Forall (good_box dom n) bs.
Proof. exact build_choices_spec. Qed.

Theorem C04_generate_is_valid : forall ord pick fuel dom n S c,
  ord_ok ord -> pick_ok pick -> NoDup dom -> dom <> [] -> wf_seqs dom n S ->
  generate ord pick fuel dom n S = Ok c ->
  forall v, length v = n -> (is_valid c v = true <-> vec_in dom n v /\ accepted S v).
Proof. exact generate_is_valid. Qed.

Theorem C04_generate_all : forall ord pick fuel dom n S c,
  ord_ok ord -> pick_ok pick -> NoDup dom -> dom <> [] -> wf_seqs dom n S ->
  generate ord pick fuel dom n S = Ok c ->
  forall v, In v (all c) <-> vec_in dom n v /\ accepted S v.
Proof. exact generate_all. Qed.

(* `first` never raises; it is an accepted vector, or None exactly when the object is infinite *)
Theorem C04_generate_first : forall ord pick fuel dom n S c,
  ord_ok ord -> pick_ok pick -> NoDup dom -> dom <> [] -> wf_seqs dom n S ->
  generate ord pick fuel dom n S = Ok c ->
  match first c with
  | Ok (Some v) => vec_in dom n v /\ accepted S v
  | Ok None => infinite c = true
  | Err _ => False
  end.
Proof. exact generate_first. Qed.

(* generate is total on well-formed input: no IndexError, and simplify's loops stop within the
   stated fuel, whatever the iteration orders *)
Theorem C04_generate_total : forall ord pick fuel dom n S,
  ord_perm ord -> pick_ok pick -> NoDup dom -> dom <> [] -> wf_seqs dom n S -> msize S < fuel ->
  exists c, generate ord pick fuel dom n S = Ok c.
Proof. exact generate_total. Qed.

(* ---- (3) infinite <-> nothing is accepted (every n; for n = 0 see also C04_n0) ---- *)

Theorem C04_infinite : forall ord pick fuel dom n S c,
  ord_ok ord -> pick_ok pick -> NoDup dom -> dom <> [] -> wf_seqs dom n S ->
  generate ord pick fuel dom n S = Ok c ->
  (infinite c = true <-> forall v, vec_in dom n v -> ~ accepted S v).
Proof. exact generate_infinite. Qed.

Theorem C04_n0 : forall ord pick fuel dom n S c,
  ord_ok ord -> pick_ok pick -> NoDup dom -> dom <> [] -> wf_seqs dom n S ->
  generate ord pick fuel dom n S = Ok c -> n = 0 ->
  infinite c = false /\ is_valid c [] = true /\ first c = Ok (Some []).
Proof. exact generate_n0. Qed.

(* ---- (4) intersection ---- *)

(* any two choice objects of the same degree n (0 included) whose stored vectors have n non-empty entries *)
Theorem C04_intersection_objects : forall dom n c1 c2,
  wf_choices dom n c1 -> wf_choices dom n c2 ->
  exists c, intersection c1 c2 = Ok c /\ wf_choices dom n c /\
    forall v, covered c.(valid) v <-> covered c1.(valid) v /\ covered c2.(valid) v.
Proof. exact intersection_spec. Qed.

Theorem C04_intersection : forall ord1 ord2 pick1 pick2 fuel1 fuel2 dom n S1 S2 c1 c2,
  ord_ok ord1 -> ord_ok ord2 -> pick_ok pick1 -> pick_ok pick2 -> NoDup dom -> dom <> [] ->
  wf_seqs dom n S1 -> wf_seqs dom n S2 ->
  generate ord1 pick1 fuel1 dom n S1 = Ok c1 -> generate ord2 pick2 fuel2 dom n S2 = Ok c2 ->
  exists c, intersection c1 c2 = Ok c /\
    (forall v, length v = n ->
       (is_valid c v = true <-> vec_in dom n v /\ accepted S1 v /\ accepted S2 v)) /\
    (forall v, In v (all c) <-> vec_in dom n v /\ accepted S1 v /\ accepted S2 v) /\
    (infinite c = true <-> forall v, vec_in dom n v -> ~ (accepted S1 v /\ accepted S2 v)) /\
    match first c with
    | Ok (Some v) => vec_in dom n v /\ accepted S1 v /\ accepted S2 v
    | Ok None => infinite c = true
    | Err _ => False
    end.
Proof. exact generate_intersection. Qed.

(* n = 0 made explicit (choice.py:558 after fix df06735, `... for j in sub if j is not None`) *)
Theorem C04_intersection_n0 :
  exists c1 c,
    generate ord_id pick_head 5 [0; 1; 2] 0 [] = Ok c1 /\ is_valid c1 [] = true /\
    intersection c1 c1 = Ok c /\ is_valid c [] = true /\ all c = [[]] /\ infinite c = false /\
    first c = Ok (Some []).
Proof. exact intersection_n0_ok. Qed.

(* regression: the filter as it was BEFORE df06735 (`... if j`, model [intersection_truthy]) dropped the
   empty tuple, i.e. the only vector of dom^0: the clause failed at n = 0 *)
Theorem C04_intersection_old_filter_n0_refuted :
  exists c1 c,
    generate ord_id pick_head 5 [0; 1; 2] 0 [] = Ok c1 /\ is_valid c1 [] = true /\
    intersection_truthy c1 c1 = Ok c /\ is_valid c [] = false /\ all c = [] /\ infinite c = false /\
    first c = Err IndexError.
Proof. exact intersection_truthy_n0_refuted. Qed.

Print Assumptions C04_reduce_preserves.
Print Assumptions C04_reduce_end_preserves.
Print Assumptions C04_unique_sequences_preserves.
Print Assumptions C04_unique_sequences_exact.
Print Assumptions C04_except_one_preserves.
Print Assumptions C04_simplify_preserves.
Print Assumptions C04_build.
Print Assumptions C04_generate_is_valid.
Print Assumptions C04_generate_all.
Print Assumptions C04_generate_first.
Print Assumptions C04_generate_total.
Print Assumptions C04_infinite.
Print Assumptions C04_n0.
Print Assumptions C04_intersection_objects.
Print Assumptions C04_intersection.
Print Assumptions C04_intersection_n0.
Print Assumptions C04_intersection_old_filter_n0_refuted.
