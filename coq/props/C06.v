(* C06 -- analysis of any parseable C file terminates without raising.

   What a theorem can carry here.  PM.Analysis is the executable, Err-instrumented model of
   Analysis.func / cmds / compute_relation over the typed statement grammar [stmt] (what
   tools/cread.py reads out of the pycparser tree the tool analyses).  It returns [RErr e] exactly
   where the Python raises:
       "AssertionError:create_vector"   assert op in BIN_OPS
       "IndexError:replace_column"      vector longer than the variable list
       "ValueError:loop_correction"     variables.index(x) on a guard that is not a variable
       "KeyError" "TypeError" "fuel"    dictionary misses / label None / remove_node recursion of the
                                        delta graph (PM.DeltaGraph)
   plus two ARTIFICIAL errors that exist only because Gallina functions are total:
       "fuel"            statement nesting deeper than the recursion fuel of [compute]
       "fuel:fixpoint"   Relation.fixpoint did not stabilise within [fix_fuel] rounds.

   Hypotheses (all satisfiable: An_total.ex_hyps, ex_runs):
     [ops_ok s]   every binary operator of s is in BIN_OPS (what Coverage.BinaryOp lets through);
     [names_ne s] no variable name is the empty string (C identifiers; the model uses "" for a
                  constant operand);
     [dg_inv d]   d is a reachable state of DeltaGraph(degree=3) (An_stmts.v; the initial graph is one).
   No bound on the size or nesting of s, on the index, on the fuel.

   NOT PROVED -- stated plainly: termination of Relation.fixpoint on polynomials.  Every theorem
   below leaves [RErr "fuel:fixpoint"] open; that the real `while fix != prev` loop stops is only
   observed (tools/props/c06.py, 20 s limit per run).
   NOT COVERED BY A THEOREM HERE: the dispatch over arbitrary pycparser node classes, the gate and
   the removal pass (Coverage / ast_mod), Variables, FindLoops, LoopAnalysis, Result.to_dict.  Those
   are the generic-tree model PM.Syntax of C05/C07/C19 and the differential fuzzing of the real tool
   by tools/props/c06.py (exceptions, hangs, JSON serialisability, every function in the result).
   This file holds statements only. *)
From Coq Require Import String List Bool Arith.
From PM Require Import Semiring Poly Rel Analysis An_stmts An_total.
From PM Require Rel Rel_sem Rel_term.
Import ListNotations.

(* (1) No spurious error at statement level: compute_relation either returns, or runs out of one of
   the two artificial fuels.  In particular no IndexError (replace_column), no AssertionError
   (create_vector), no ValueError (loop_correction), no KeyError/TypeError/fuel from the delta graph. *)
Theorem C06_compute_no_spurious_error : forall (fuel index : nat) (s : stmt) (d : dgraph),
  ops_ok s = true -> names_ne s -> dg_inv d ->
  (exists r, compute fuel index s d = ROk r) \/
  compute fuel index s d = RErr "fuel" \/
  compute fuel index s d = RErr "fuel:fixpoint".
Proof. exact compute_no_spurious_error. Qed.

(* (2) The nesting fuel is not an obstacle: with fuel above the nesting depth (counting the
   rewriting step of `x = y++`) the only error left is the fixpoint fuel. *)
Theorem C06_fuel_sufficient_nesting : forall (fuel index : nat) (s : stmt) (d : dgraph),
  ops_ok s = true -> names_ne s -> dg_inv d -> depth s < fuel ->
  (exists r, compute fuel index s d = ROk r) \/
  compute fuel index s d = RErr "fuel:fixpoint".
Proof. exact fuel_sufficient_nesting. Qed.

(* (3) What a returned result satisfies (the invariant the induction carries): the delta graph is
   again a reachable state, the relation is well formed, its delta lists are sorted with values < 3. *)
Theorem C06_compute_result_ok : forall (fuel index : nat) (s : stmt) (d : dgraph) (r : cr),
  ops_ok s = true -> names_ne s -> dg_inv d -> compute fuel index s d = ROk r -> cr_ok r.
Proof. exact compute_result_ok. Qed.

(* (4) Function level (Analysis.func up to the choice object), both values of [stop] = not fin. *)
Theorem C06_analyse_no_spurious_error : forall (f : func_src) (stop : bool),
  body_ok f ->
  (exists r, analyse f stop = ROk r) \/
  analyse f stop = RErr "fuel" \/
  analyse f stop = RErr "fuel:fixpoint".
Proof. exact analyse_no_spurious_error. Qed.

(* (5) ... and with top-level statements nested less deeply than the model's recursion fuel
   (depth_fuel = 100; the generated programs nest <= 10) only the fixpoint fuel is left. *)
Theorem C06_analyse_fuel_sufficient : forall (f : func_src) (stop : bool),
  body_ok f -> depth_list (f_body f) < depth_fuel ->
  (exists r, analyse f stop = ROk r) \/ analyse f stop = RErr "fuel:fixpoint".
Proof. exact analyse_fuel_sufficient. Qed.

(* (6) The hypothesis on operators is necessary: the model raises where the assertion does. *)
Theorem C06_operator_outside_BIN_OPS_raises :
  compute 3 0 (SBin "x" "/" (AVar "y") (AVar "z")) (DeltaGraph.dg_new 3) = RErr "AssertionError:create_vector".
Proof. exact ex_op. Qed.

(* Relation.fixpoint TERMINATES: the iteration "sum of powers until syntactically stable" stops for every
   well-formed relation (the down-closure, under the domination order, of each cell grows strictly at every
   non-final round inside a finite universe of monomials), and its result does not depend on the fuel once
   it is large enough; in particular for the two relations the analysis closes loops on. *)
Theorem C06_fixpoint_terminates : forall r, Rel_sem.wf_rel r -> Rel_sem.rel_pwf r ->
  exists fuel f, forall fuel', fuel <= fuel' -> Rel.rel_fixpoint fuel' r = Some f.
Proof. exact Rel_term.rel_fixpoint_terminates_stable. Qed.

Theorem C06_loop_closures_terminate : forall body x, Rel_sem.wf_rel body -> Rel_sem.rel_pwf body ->
  (exists fuel f, Rel.rel_fixpoint fuel (Rel.rel_comp Rel.rel_empty body) = Some f) /\
  (exists fuel f, Rel.rel_fixpoint fuel (Rel.rel_comp (Rel.rel_zero [x]) body) = Some f).
Proof. exact Rel_term.rel_fixpoint_total_for_analysis. Qed.

Print Assumptions C06_compute_no_spurious_error.
Print Assumptions C06_fuel_sufficient_nesting.
Print Assumptions C06_compute_result_ok.
Print Assumptions C06_analyse_no_spurious_error.
Print Assumptions C06_analyse_fuel_sufficient.
Print Assumptions C06_operator_outside_BIN_OPS_raises.
Print Assumptions C06_fixpoint_terminates.
Print Assumptions C06_loop_closures_terminate.
