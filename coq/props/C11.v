(* C11 -- the delta graph never declares failure while a valid choice remains; insertions and
   fusion passes never raise.

   Statements are about PM.DeltaGraph, the executable model of pymwp/delta_graphs.py
   (graph_dict = nested association lists in CPython dict order; every dictionary read is an
   option lookup, a miss is [Err "KeyError"]; remove_node runs on fuel = 1 + number of nodes,
   out of fuel is [Err "fuel"]).  A history is any finite list of [Insert node | Fuse];
   [run deg h] starts from the empty graph of a DeltaGraph(degree=deg).  Domain: well-formed
   tuples ([wf_op]: deltas sorted by strictly increasing index, values < deg), which is what
   Monomial produces; deg is arbitrary (3 in the analysis).  No bound on the history length,
   on the number of indices or on deg.  This file holds statements only. *)
From Coq Require Import String List Arith Bool.
From PM Require Import DeltaGraph DeltaGraph_base DeltaGraph_node DeltaGraph_remove DeltaGraph_proofs.
Import ListNotations.

(* (1) If the graph reports the collapse (is_empty), every choice vector with values below the
   degree matches at least one tuple inserted by the history. *)
Theorem C11_sound : forall (deg : nat) (h : list op) (g : graph),
  forallb (wf_op deg) h = true ->
  run deg h = Ok g -> is_empty g = true ->
  forall c : nat -> nat, (forall i, c i < deg) ->
  exists t, In t (inserted h) /\ matches t c = true.
Proof. exact c11_sound. Qed.

(* (2) No operation of any history raises: no KeyError, no IndexError, no label None, and the
   fuel of remove_node suffices -- including Fuse after the graph already holds the empty node
   (the history is arbitrary, so every such continuation is covered). *)
Theorem C11_no_raise : forall (deg : nat) (h : list op),
  forallb (wf_op deg) h = true -> exists g, run deg h = Ok g.
Proof. exact c11_no_raise. Qed.

(* insert_node alone never raises on ANY graph_dict and ANY tuple (no domain assumption). *)
Theorem C11_insert_total : forall (g : graph) (n : node), exists g', insert_node g n = Ok g'.
Proof. exact insert_node_total. Qed.

(* What the graph is at every reachable state: a node sits in the bucket of its length, an edge
   labelled l joins two tuples that both carry index l with different values and agree on every
   other delta, its target is present and carries the back edge. *)
Theorem C11_edges : forall (deg : nat) (h : list op) (g : graph),
  forallb (wf_op deg) h = true -> run deg h = Ok g ->
  forall s a (na : nbrs) b l, glookup g s a = Some na -> lookup node_eqb b na = Some l ->
    length a = s /\ edge_ok a b l /\
    exists nb : nbrs, glookup g s b = Some nb /\ lookup node_eqb a nb <> None.
Proof. exact c11_structure. Qed.

(* node_diff answers True only for tuples that differ at exactly the returned index. *)
Theorem C11_node_diff_sound : forall a b r,
  node_diff a b = (true, r) -> exists i, r = Some i /\ edge_ok a b i.
Proof. exact node_diff_sound. Qed.

(* from_monomial changes graph_dict exactly as insert_node does (recorded is bookkeeping). *)
Theorem C11_from_monomial : forall d n d',
  from_monomial d n = Ok d' -> insert_node (dg_graph d) n = Ok (dg_graph d') /\ dg_degree d' = dg_degree d.
Proof. exact from_monomial_graph. Qed.

(* The domain restriction is necessary: is_full counts degree-1 neighbours whatever their values,
   so values outside [0, deg) make the collapse unsound (degree 3, values 0, 1, 5 at one index:
   is_empty holds, the vector choosing 2 matches nothing).  Not a violation of C11, whose
   quantifier is over delta tuples of the analysis domain. *)
Theorem C11_values_outside_degree_unsound :
  exists g, run 3 [Insert [(0,1)]; Insert [(1,1)]; Insert [(5,1)]; Fuse] = Ok g /\ is_empty g = true /\
            forall t, In t [[(0,1)]; [(1,1)]; [(5,1)]] -> matches t (fun _ => 2) = false.
Proof. exact out_of_domain_unsound. Qed.

Print Assumptions C11_sound.
Print Assumptions C11_no_raise.
Print Assumptions C11_insert_total.
Print Assumptions C11_edges.
Print Assumptions C11_node_diff_sound.
Print Assumptions C11_from_monomial.
Print Assumptions C11_values_outside_degree_unsound.
