(* C17 -- the command line produces the library's result under every flag combination.

   What is proved here is the part of the property decided by code: the decision logic of
   pymwp/__main__.py (interpreted from the tables gen/CliGen.v regenerates from the source on every
   run), the text preparation of PyCParser.parse / add_attr_x, and default_file_out.  Process
   behaviour (exit status, files written, gcc -E, argparse itself, json) is checked by differential
   runs of the real command line (tools/props/c17.py); level "other".

   [to_cmdline input f] is the command line   input [--mode m] [--fin] [--strict] [--no_save]
   [--out p] [--no_cpp] [--silent] [--info];  [main_model] is the model of __parse_args + main().
   [Run r] = main() reached the analysis: r records the class whose run() is called (r_analyzer), its
   keyword arguments (r_run_kw), whether an emitter saving to a path was installed (r_save), the
   keyword arguments of Parser.parse (r_parser_kw; run_use_cpp r = its use_cpp), the file parsed /
   recorded / line-counted.  This file holds statements only. *)
From Coq Require Import String Ascii List Bool.
From PMGen Require Import CliGen.
From PM Require Import Cli Cli_proofs.
Import ListNotations.
Open Scope string_scope.

(* All 5 * 2^7 = 640 flag shapes (mode absent/F/L/f/l; fin, strict, no_save, out present?, no_cpp,
   silent, info), every non-empty input path, every --out string (the empty string counts as absent):
   the library call made has the mode / fin / strict of the flags, saving happens iff --no_save is
   absent, to --out or else default_file_out(input), the preprocessor is used iff --no_cpp is absent,
   and the file parsed, recorded as program_path and line-counted is the input. *)
Theorem C17_plumbing : forall (c0 : ascii) (s0 : string) (f : flagset),
  In (fl_mode f) [None; Some "F"; Some "L"; Some "f"; Some "l"] ->
  let input := String c0 s0 in
  exists r, main_model (to_cmdline input f) = Run r /\
    r_analyzer r = (if wants_loops f then "LoopAnalysis" else "Analysis") /\
    ns_get (r_run_kw r) "fin" = Some (VBool (fl_fin f)) /\
    ns_get (r_run_kw r) "strict" = Some (VBool (fl_strict f)) /\
    length (r_run_kw r) = 2 /\
    (fl_no_save f = true -> r_save r = None) /\
    (fl_no_save f = false ->
       r_save r = Some (VStr match fl_out f with
                             | Some (String a b) => String a b
                             | _ => default_file_out input
                             end)) /\
    run_use_cpp r = negb (fl_no_cpp f) /\
    r_parse_file r = VStr input /\ r_program_path r = VStr input /\ r_loc_of r = VStr input.
Proof. exact plumbing_unpacked. Qed.

Theorem C17_flag_space : length flag_shapes = 640.
Proof. exact flag_shapes_count. Qed.

(* --no_cpp: the text PyCParser.parse hands to pycparser is the file's text, unchanged
   (false before the fix of D6: the define was prepended whatever use_cpp) *)
Theorem C17_no_cpp_text : forall (c0 : ascii) (s0 : string) (f : flagset) (t : string),
  In (fl_mode f) [None; Some "F"; Some "L"; Some "f"; Some "l"] -> fl_no_cpp f = true ->
  cli_parser_text (to_cmdline (String c0 s0) f) t = Some t.
Proof. exact no_cpp_text. Qed.

Theorem C17_no_cpp_text_parser : forall t, parser_text false t = t.
Proof. exact parser_text_no_cpp. Qed.

(* with the preprocessor: the define is prepended exactly when no line starts with it; applying the
   step twice is applying it once; afterwards some line starts with it *)
Theorem C17_cpp_define_once : forall t,
  parser_text true t = add_attr_x t /\
  ((forall l, In l (lines t) -> String.prefix ATTR_X l = false) ->
      lines (add_attr_x t) = ATTR_X :: lines t /\ add_attr_x t = ATTR_X ++ nls ++ t) /\
  ((exists l, In l (lines t) /\ String.prefix ATTR_X l = true) -> add_attr_x t = t) /\
  add_attr_x (add_attr_x t) = add_attr_x t /\
  (exists l, In l (lines (add_attr_x t)) /\ String.prefix ATTR_X l = true).
Proof. exact define_once_parser. Qed.

(* the same step on a text given as its list of lines, and the two forms agree *)
Theorem C17_cpp_define_once_lines : forall ls,
  ((forall l, In l ls -> String.prefix ATTR_X l = false) -> add_attr_x_lines ls = ATTR_X :: ls) /\
  ((exists l, In l ls /\ String.prefix ATTR_X l = true) -> add_attr_x_lines ls = ls) /\
  add_attr_x_lines (add_attr_x_lines ls) = add_attr_x_lines ls /\
  (forall t, lines (add_attr_x t) = add_attr_x_lines (lines t)) /\
  (forall t, unlines (lines t) = t).
Proof. exact define_once_lines. Qed.

(* cpp on / off: UNDER THE STATED HYPOTHESIS about the external preprocessor and lexer (recorded in the
   trusted base: for a text with no directive, no comment, no mention of __attribute__ and no
   predefined macro name, preprocessing "define + text" yields the token sequence of the text), the C
   parser reads the same tokens with and without --no_cpp and everything else main() does is equal *)
Theorem C17_cpp_irrelevant :
  forall (cpp : string -> string) (tokens : string -> list string) (predefined_free : string -> Prop),
  (forall t, plain t = true -> predefined_free t -> tokens (cpp (ATTR_X ++ nls ++ t)) = tokens t) ->
  forall (c0 : ascii) (s0 : string) (f : flagset) (t : string),
  In (fl_mode f) [None; Some "F"; Some "L"; Some "f"; Some "l"] ->
  plain t = true -> predefined_free t ->
  let input := String c0 s0 in
  match main_model (to_cmdline input (with_no_cpp f false)),
        main_model (to_cmdline input (with_no_cpp f true)) with
  | Run r1, Run r2 =>
    tokens (lexer_input cpp (run_use_cpp r1) t) = tokens t /\
    tokens (lexer_input cpp (run_use_cpp r2) t) = tokens t /\
    run_use_cpp r1 = true /\ run_use_cpp r2 = false /\
    r_analyzer r1 = r_analyzer r2 /\ r_run_kw r1 = r_run_kw r2 /\ r_save r1 = r_save r2 /\
    r_parse_file r1 = r_parse_file r2 /\ r_program_path r1 = r_program_path r2 /\
    r_loc_of r1 = r_loc_of r2 /\ r_headers r1 = r_headers r2
  | _, _ => False
  end.
Proof. exact cpp_irrelevant. Qed.

(* the default output path is output/<name>.json with no directory part in <name> *)
Theorem C17_default_out_shape : forall p,
  exists n, default_file_out p = "output/" ++ n ++ ".json" /\ no_char "/"%char n = true.
Proof. exact default_out_shape. Qed.

(* outcomes decided before any analysis: no file -> 1; --version/--help/--license -> 0;
   unknown option, invalid mode, missing value, two files -> 2 *)
Theorem C17_early_exits :
  main_model (mk_cmd [] []) = Exit 1 /\
  (forall p, main_model (mk_cmd [p] [("--version", None)]) = Exit 0) /\
  (forall p, main_model (mk_cmd [p] [("--help", None)]) = Exit 0) /\
  (forall p v, main_model (mk_cmd [p] [("--fin", None); ("--bogus", v)]) = Exit 2) /\
  (forall p, main_model (mk_cmd [p] [("--mode", Some "X")]) = Exit 2) /\
  (forall p, main_model (mk_cmd [p] [("--out", None)]) = Exit 2) /\
  (forall p q, main_model (mk_cmd [p; q] []) = Exit 2) /\
  (forall p, main_model (mk_cmd [p] [("--license", Some "w")]) = Exit 0).
Proof. exact early_exits. Qed.

Print Assumptions C17_plumbing.
Print Assumptions C17_flag_space.
Print Assumptions C17_no_cpp_text.
Print Assumptions C17_no_cpp_text_parser.
Print Assumptions C17_cpp_define_once.
Print Assumptions C17_cpp_define_once_lines.
Print Assumptions C17_cpp_irrelevant.
Print Assumptions C17_default_out_shape.
Print Assumptions C17_early_exits.
