(* C12 -- results do not depend on names, layout or equivalent spellings.  Statements only.

   Model: theories/Analysis.v (typed statements, Analysis.func = [analyse]); specification:
   theories/Calculus.v ([derive]).  The equivariance is proved for the SPECIFICATION (sections 1-4) and
   transferred to the analysis (section 5) through the three statements that relate the two
   (theories/An_stmts.v, proved in An_func.v from the statement-level simulation); they are explicit
   premises FR / VS / VC of the theorems of section 5, not axioms.

   Definitions used in the statements (theories/Equiv_base.v, Equiv_rel.v, Equiv_layout.v, Equiv.v):
     rename_stmt rho s / rename_func rho f   rename every variable occurrence (for-header name lists
                                             and mentions of no-flow statements included)
     stmt_names s / func_names f             every name occurring (superset of stmt_vars / func_vars:
                                             header names of for loops that the Variables walker drops)
     plus_for_minus s / pfm_func f           every binary operator "-" spelled "+"
     inj_on l rho      := forall a b, In a l -> In b l -> rho a = rho b -> a = b
     same_elems V V'   := (forall v, In v V <-> In v V') /\ length V' = length V
     oeq_all a a'      := both None, or Some A / Some A' with forall x y, A' x y = A x y
     oeq_ren V rho a a':= both None, or Some A / Some A' with
                          forall x y, In x V -> In y V -> A' (rho x) (rho y) = A x y
     oeqV V a a'       := both None, or Some A / Some A' with eqV V A A';  deqV = same index + oeqV
     fuel_ok f s       := An_func.fuel_ok: the derivation of s does not run out of the fuel f
     sem_eq V s s'     := forall f f' cs idx, fuel_ok f s -> fuel_ok f' s' ->
                            deqV V (derive f V s cs idx) (derive f' V s' cs idx)
     seml V l l'       := the same for statement lists (Calculus.dlist) from any two finite accumulators
                          that agree on V x V
     tbl_get V t x y   := entry of the table t at the positions of the NAMES x, y in V
     results_agree V rho r r' := see C12_results_agree_def below

   do-while: `while` and `do-while` are one constructor (SWhile) of the statement grammar, so a loop
   written the other way is the identical statement; there is no theorem to state. *)
From Coq Require Import String List Bool Permutation.
From PM Require Import Semiring Poly Rel Analysis Calculus Sem_stmts An_stmts.
From PM Require Import Equiv_base Equiv_rel Equiv_layout Equiv Equiv_closed.
From PM Require An_func.
From PMGen Require Import RulesGen.
Import ListNotations.

(* ------------------------------------------------------------------ *)
(* 1. the order of the variable list (the sorted order of the names) is irrelevant *)

Theorem C12_order_permutation : forall V V', Permutation V V' -> same_elems V V'.
Proof. exact perm_same_elems. Qed.

Theorem C12_order_nodup : forall V V', NoDup V -> NoDup V' -> (forall v, In v V <-> In v V') -> same_elems V V'.
Proof. exact nodup_same_elems. Qed.

Theorem C12_order_smul : forall V V', same_elems V V' -> forall A B x y, smul V A B x y = smul V' A B x y.
Proof. exact smul_perm. Qed.

Theorem C12_order_smat_eqb : forall V V', same_elems V V' -> forall A B, smat_eqb V A B = smat_eqb V' A B.
Proof. exact smat_eqb_perm. Qed.

Theorem C12_order_sstar : forall V V', same_elems V V' -> forall A, oeq_all (sstar V A) (sstar V' A).
Proof. exact sstar_perm. Qed.

Theorem C12_order_w_ok : forall V V', same_elems V V' -> forall A, w_ok V A = w_ok V' A.
Proof. exact w_ok_perm. Qed.

Theorem C12_order_l_ok : forall V V', same_elems V V' -> forall A, l_ok V A = l_ok V' A.
Proof. exact l_ok_perm. Qed.

Theorem C12_order_l_extend : forall V V', same_elems V V' ->
  forall X A u v, l_extend V X A u v = l_extend V' X A u v.
Proof. exact l_extend_perm. Qed.

(* same sites, same failures, pointwise equal matrices (everywhere, not only on V) *)
Theorem C12_order_derive : forall V V', same_elems V V' -> forall fuel s cs idx,
  snd (derive fuel V' s cs idx) = snd (derive fuel V s cs idx) /\
  oeq_all (fst (derive fuel V s cs idx)) (fst (derive fuel V' s cs idx)).
Proof. exact derive_perm. Qed.

(* ------------------------------------------------------------------ *)
(* 2. consistent renaming                                              *)

Theorem C12_rename_stmt_vars : forall (P : string -> Prop) rho,
  (forall a b, P a -> P b -> rho a = rho b -> a = b) ->
  forall s, (forall v, In v (stmt_names s) -> P v) ->
  stmt_vars (rename_stmt rho s) = map rho (stmt_vars s).
Proof. exact stmt_vars_rename. Qed.

Theorem C12_rename_loop_compat : forall (P : string -> Prop) rho,
  (forall a b, P a -> P b -> rho a = rho b -> a = b) ->
  forall i s c n b,
  (forall v, In v i -> P v) -> (forall v, In v s -> P v) -> (forall v, In v c -> P v) ->
  (forall v, In v n -> P v) -> (forall v, In v (stmt_names b) -> P v) ->
  loop_compat (map rho i) (map rho s) (map rho c) (map rho n) (rename_stmt rho b) =
  option_map rho (loop_compat i s c n b).
Proof. exact loop_compat_rename. Qed.

Theorem C12_rename_unary_rewrite : forall rho x op e,
  unary_asgn_rewrite (rho x) op (rename_uarg rho e) = option_map (rename_stmt rho) (unary_asgn_rewrite x op e).
Proof. exact unary_asgn_rewrite_rename. Qed.

Theorem C12_stmt_vars_are_names : forall s v, In v (stmt_vars s) -> In v (stmt_names s).
Proof. exact stmt_vars_names. Qed.

(* the specification over the renamed variable list *)
Theorem C12_rename_derive : forall rho V s,
  inj_on V rho -> incl (stmt_names s) V ->
  forall fuel cs idx,
    snd (derive fuel (map rho V) (rename_stmt rho s) cs idx) = snd (derive fuel V s cs idx) /\
    oeq_ren V rho (fst (derive fuel V s cs idx)) (fst (derive fuel (map rho V) (rename_stmt rho s) cs idx)).
Proof. exact derive_rename. Qed.

(* ... and over the renamed variables in any other order (e.g. sorted again, as Analysis.func does);
   N = the names rho is injective on *)
Theorem C12_rename_derive_any_order : forall rho N V V' s,
  inj_on N rho -> incl V N -> incl (stmt_names s) N ->
  (forall z, In z V' <-> In z (map rho V)) -> length V' = length V ->
  forall fuel cs idx,
    snd (derive fuel V' (rename_stmt rho s) cs idx) = snd (derive fuel V s cs idx) /\
    oeq_ren N rho (fst (derive fuel V s cs idx)) (fst (derive fuel V' (rename_stmt rho s) cs idx)).
Proof. exact derive_rename_gen. Qed.

(* ------------------------------------------------------------------ *)
(* 3. "-" spelled "+"                                                  *)

Theorem C12_minus_rule_table : forall y z, cv_lookup CV_TABLE "-" y z = cv_lookup CV_TABLE "+" y z.
Proof. exact cv_lookup_minus_plus. Qed.

Theorem C12_minus_stmt_vars : forall s, stmt_vars (plus_for_minus s) = stmt_vars s.
Proof. exact stmt_vars_pfm. Qed.

Theorem C12_minus_derive : forall fuel V s cs idx,
  derive fuel V (plus_for_minus s) cs idx = derive fuel V s cs idx.
Proof. exact derive_pfm. Qed.

(* ------------------------------------------------------------------ *)
(* 4. layout                                                           *)

Theorem C12_fuel_irrelevant : forall f1 f2 V s cs idx,
  fuel_ok f1 s -> fuel_ok f2 s -> derive f1 V s cs idx = derive f2 V s cs idx.
Proof. exact derive_fuel_irrelevant. Qed.

Theorem C12_fuel_exists : forall s, exists f, fuel_ok f s.
Proof. exact fuel_ok_exists. Qed.

(* { s } against s, one derivation step, no hypothesis *)
Theorem C12_block_single_step : forall V fuel s cs idx,
  deqV V (derive (S fuel) V (SBlock [s]) cs idx) (derive fuel V s cs idx).
Proof. exact derive_block_single. Qed.

Theorem C12_block_single : forall V s, sem_eq V (SBlock [s]) s.
Proof. exact layout_block_single. Qed.

Theorem C12_insert_skip : forall V l1 m l2, seml V (l1 ++ SSkip m :: l2) (l1 ++ l2).
Proof. exact layout_insert_skip. Qed.

Theorem C12_insert_empty_block : forall V l1 l2, seml V (l1 ++ SBlock [] :: l2) (l1 ++ l2).
Proof. exact layout_insert_empty_block. Qed.

Theorem C12_flatten : forall V l1 l2 l3, seml V (l1 ++ [SBlock l2] ++ l3) (l1 ++ l2 ++ l3).
Proof. exact layout_flatten. Qed.

Theorem C12_block_insert_skip : forall V l1 m l2, sem_eq V (SBlock (l1 ++ SSkip m :: l2)) (SBlock (l1 ++ l2)).
Proof. exact layout_block_insert_skip. Qed.

Theorem C12_block_insert_empty_block : forall V l1 l2,
  sem_eq V (SBlock (l1 ++ SBlock [] :: l2)) (SBlock (l1 ++ l2)).
Proof. exact layout_block_insert_empty_block. Qed.

Theorem C12_block_flatten : forall V l1 l2 l3,
  sem_eq V (SBlock (l1 ++ [SBlock l2] ++ l3)) (SBlock (l1 ++ l2 ++ l3)).
Proof. exact layout_block_flatten. Qed.

(* sem_eq / seml are equivalences and congruences: a layout change anywhere in a program *)
Theorem C12_sem_refl : forall V s, sem_eq V s s.
Proof. exact sem_refl. Qed.
Theorem C12_sem_sym : forall V s s', sem_eq V s s' -> sem_eq V s' s.
Proof. exact sem_sym. Qed.
Theorem C12_sem_trans : forall V s1 s2 s3, sem_eq V s1 s2 -> sem_eq V s2 s3 -> sem_eq V s1 s3.
Proof. exact sem_trans. Qed.
Theorem C12_seml_refl : forall V l, seml V l l.
Proof. exact seml_refl. Qed.
Theorem C12_seml_sym : forall V l l', seml V l l' -> seml V l' l.
Proof. exact seml_sym. Qed.
Theorem C12_seml_trans : forall V l1 l2 l3, seml V l1 l2 -> seml V l2 l3 -> seml V l1 l3.
Proof. exact seml_trans. Qed.
Theorem C12_seml_cons : forall V s s' l l', sem_eq V s s' -> seml V l l' -> seml V (s :: l) (s' :: l').
Proof. exact seml_cons. Qed.
Theorem C12_seml_skip : forall V m l l', seml V l l' -> seml V (SSkip m :: l) l'.
Proof. exact seml_skip. Qed.
Theorem C12_seml_flat : forall V l2 l l', seml V (l2 ++ l) l' -> seml V (SBlock l2 :: l) l'.
Proof. exact seml_flat. Qed.
Theorem C12_sem_unwrap : forall V s s', sem_eq V s s' -> sem_eq V (SBlock [s]) s'.
Proof. exact sem_unwrap. Qed.
Theorem C12_sem_block : forall V l l', seml V l l' -> sem_eq V (SBlock l) (SBlock l').
Proof. exact sem_block. Qed.
Theorem C12_sem_if : forall V t t' e e', seml V t t' -> seml V e e' -> sem_eq V (SIf t e) (SIf t' e').
Proof. exact sem_if. Qed.
Theorem C12_sem_while : forall V cv cv' b b', sem_eq V b b' -> sem_eq V (SWhile cv b) (SWhile cv' b').
Proof. exact sem_while. Qed.
Theorem C12_sem_for : forall V i s c n i' s' c' n' b b',
  sem_eq V b b' -> loop_compat i s c n b = loop_compat i' s' c' n' b' ->
  sem_eq V (SFor i s c n b) (SFor i' s' c' n' b').
Proof. exact sem_for. Qed.

(* ------------------------------------------------------------------ *)
(* 5. the analysis                                                     *)

Theorem C12_results_agree_def : forall V rho r r',
  results_agree V rho r r' <->
  (fr_infinite r = fr_infinite r' /\
   (fr_infinite r = false ->
     fr_index r = fr_index r' /\
     exists rl rl', fr_rel r = Some rl /\ fr_rel r' = Some rl' /\
       forall cs, vec_ok (fr_index r) cs ->
         accepted (fr_inf_deltas r) cs = accepted (fr_inf_deltas r') cs /\
         (accepted (fr_inf_deltas r) cs = true ->
            forall x y, In x V -> In y V ->
              tbl_get (fr_vars r') (apply_choice rl' (choice_of_list cs)) (rho x) (rho y) =
              tbl_get (fr_vars r) (apply_choice rl (choice_of_list cs)) x y))).
Proof. exact results_agree_unfold. Qed.

(* the form of completeness used below contains the restricted one of An_stmts.v *)
Theorem C12_premise_vc : An_func.verdict_complete_all_stmt -> verdict_complete_stmt.
Proof. exact vca_implies_vc. Qed.

(* consistent renaming (rho injective on the names of the function; proper identifiers on both sides):
   same verdict; when not infinite the same degree, the same accepted choice vectors, and at every
   accepted vector the matrix entry at (rho x, rho y) of the renamed function is the entry at (x, y) *)
Theorem C12_rename :
  forall (FR : finite_result_stmt) (VS : verdict_sound_stmt) (VC : An_func.verdict_complete_all_stmt)
         rho f stop stop' r r',
    inj_on (func_names f) rho -> func_ok f -> func_ok (rename_func rho f) ->
    analyse f stop = ROk r -> analyse (rename_func rho f) stop' = ROk r' ->
    results_agree (func_vars f) rho r r'.
Proof. exact analyse_rename. Qed.

Theorem C12_minus :
  forall (FR : finite_result_stmt) (VS : verdict_sound_stmt) (VC : An_func.verdict_complete_all_stmt)
         f stop stop' r r',
    func_ok f -> analyse f stop = ROk r -> analyse (pfm_func f) stop' = ROk r' ->
    results_agree (func_vars f) (fun x => x) r r'.
Proof. exact analyse_pfm. Qed.

(* same variable order on both sides here, so the reported tables are equal as they are *)
Theorem C12_minus_tables :
  forall (FR : finite_result_stmt) f stop stop' r r',
    func_ok f -> analyse f stop = ROk r -> analyse (pfm_func f) stop' = ROk r' ->
    fr_infinite r = false -> fr_infinite r' = false ->
    fr_vars r = fr_vars r' /\
    exists rl rl', fr_rel r = Some rl /\ fr_rel r' = Some rl' /\
      forall cs, vec_ok (fr_index r) cs -> accepted (fr_inf_deltas r) cs = true ->
        apply_choice rl' (choice_of_list cs) = apply_choice rl (choice_of_list cs).
Proof. exact analyse_pfm_tables. Qed.

(* layout variants: same variables, bodies related by seml, nesting within the fuel of the analysis *)
Theorem C12_layout :
  forall (FR : finite_result_stmt) (VS : verdict_sound_stmt) (VC : An_func.verdict_complete_all_stmt)
         f f' stop stop' r r',
    func_ok f ->
    ((forall v, In v (func_vars f) <-> In v (func_vars f')) /\
     seml (func_vars f) (f_body f) (f_body f') /\
     Forall (fuel_ok depth_fuel) (f_body f) /\ Forall (fuel_ok depth_fuel) (f_body f')) ->
    analyse f stop = ROk r -> analyse f' stop' = ROk r' ->
    results_agree (func_vars f) (fun x => x) r r'.
Proof. exact analyse_layout. Qed.

Theorem C12_empty_statement :
  forall (FR : finite_result_stmt) (VS : verdict_sound_stmt) (VC : An_func.verdict_complete_all_stmt)
         f l1 l2 stop stop' r r',
    func_ok (with_body f (l1 ++ l2)) -> Forall (fuel_ok depth_fuel) (l1 ++ l2) ->
    analyse (with_body f (l1 ++ l2)) stop = ROk r ->
    analyse (with_body f (l1 ++ SSkip [] :: l2)) stop' = ROk r' ->
    results_agree (func_vars (with_body f (l1 ++ l2))) (fun x => x) r r'.
Proof. exact analyse_empty_statement. Qed.

Theorem C12_braces :
  forall (FR : finite_result_stmt) (VS : verdict_sound_stmt) (VC : An_func.verdict_complete_all_stmt)
         f l1 l2 l3 stop stop' r r',
    func_ok (with_body f (l1 ++ l2 ++ l3)) ->
    Forall (fuel_ok depth_fuel) (l1 ++ l2 ++ l3) -> Forall (fuel_ok depth_fuel) (l1 ++ [SBlock l2] ++ l3) ->
    analyse (with_body f (l1 ++ l2 ++ l3)) stop = ROk r ->
    analyse (with_body f (l1 ++ [SBlock l2] ++ l3)) stop' = ROk r' ->
    results_agree (func_vars (with_body f (l1 ++ l2 ++ l3))) (fun x => x) r r'.
Proof. exact analyse_braces. Qed.

(* the result of a function does not mention any other function: the results of a program are a map
   over its functions, so reordering the functions reorders the results and changes none *)
Theorem C12_function_independent : forall fs fs' stop,
  Permutation fs fs' ->
  Permutation (analyse_program fs stop) (analyse_program fs' stop) /\
  (forall n f, In (n, f) fs -> In (n, analyse f stop) (analyse_program fs' stop)).
Proof. exact function_independent. Qed.

(* ---- the same with the premises discharged (An_closed.v: the closed simulation theorems) ---- *)

Theorem C12_rename_closed : forall rho f stop stop' r r',
    inj_on (func_names f) rho -> func_ok f -> func_ok (rename_func rho f) ->
    analyse f stop = ROk r -> analyse (rename_func rho f) stop' = ROk r' ->
    results_agree (func_vars f) rho r r'.
Proof. exact analyse_rename_closed. Qed.

Theorem C12_minus_closed : forall f stop stop' r r',
    func_ok f -> analyse f stop = ROk r -> analyse (pfm_func f) stop' = ROk r' ->
    results_agree (func_vars f) (fun x => x) r r'.
Proof. exact analyse_pfm_closed. Qed.

Theorem C12_minus_tables_closed : forall f stop stop' r r',
    func_ok f -> analyse f stop = ROk r -> analyse (pfm_func f) stop' = ROk r' ->
    fr_infinite r = false -> fr_infinite r' = false ->
    fr_vars r = fr_vars r' /\
    exists rl rl', fr_rel r = Some rl /\ fr_rel r' = Some rl' /\
      forall cs, vec_ok (fr_index r) cs -> accepted (fr_inf_deltas r) cs = true ->
        apply_choice rl' (choice_of_list cs) = apply_choice rl (choice_of_list cs).
Proof. exact analyse_pfm_tables_closed. Qed.

Theorem C12_layout_closed : forall f f' stop stop' r r',
    func_ok f ->
    ((forall v, In v (func_vars f) <-> In v (func_vars f')) /\
     seml (func_vars f) (f_body f) (f_body f') /\
     Forall (fuel_ok depth_fuel) (f_body f) /\ Forall (fuel_ok depth_fuel) (f_body f')) ->
    analyse f stop = ROk r -> analyse f' stop' = ROk r' ->
    results_agree (func_vars f) (fun x => x) r r'.
Proof. exact analyse_layout_closed. Qed.

Theorem C12_empty_statement_closed : forall f l1 l2 stop stop' r r',
    func_ok (with_body f (l1 ++ l2)) -> Forall (fuel_ok depth_fuel) (l1 ++ l2) ->
    analyse (with_body f (l1 ++ l2)) stop = ROk r ->
    analyse (with_body f (l1 ++ SSkip [] :: l2)) stop' = ROk r' ->
    results_agree (func_vars (with_body f (l1 ++ l2))) (fun x => x) r r'.
Proof. exact analyse_empty_statement_closed. Qed.

Theorem C12_braces_closed : forall f l1 l2 l3 stop stop' r r',
    func_ok (with_body f (l1 ++ l2 ++ l3)) ->
    Forall (fuel_ok depth_fuel) (l1 ++ l2 ++ l3) -> Forall (fuel_ok depth_fuel) (l1 ++ [SBlock l2] ++ l3) ->
    analyse (with_body f (l1 ++ l2 ++ l3)) stop = ROk r ->
    analyse (with_body f (l1 ++ [SBlock l2] ++ l3)) stop' = ROk r' ->
    results_agree (func_vars (with_body f (l1 ++ l2 ++ l3))) (fun x => x) r r'.
Proof. exact analyse_braces_closed. Qed.

Print Assumptions C12_order_permutation.
Print Assumptions C12_order_nodup.
Print Assumptions C12_order_smul.
Print Assumptions C12_order_smat_eqb.
Print Assumptions C12_order_sstar.
Print Assumptions C12_order_w_ok.
Print Assumptions C12_order_l_ok.
Print Assumptions C12_order_l_extend.
Print Assumptions C12_order_derive.
Print Assumptions C12_rename_stmt_vars.
Print Assumptions C12_rename_loop_compat.
Print Assumptions C12_rename_unary_rewrite.
Print Assumptions C12_stmt_vars_are_names.
Print Assumptions C12_rename_derive.
Print Assumptions C12_rename_derive_any_order.
Print Assumptions C12_minus_rule_table.
Print Assumptions C12_minus_stmt_vars.
Print Assumptions C12_minus_derive.
Print Assumptions C12_fuel_irrelevant.
Print Assumptions C12_fuel_exists.
Print Assumptions C12_block_single_step.
Print Assumptions C12_block_single.
Print Assumptions C12_insert_skip.
Print Assumptions C12_insert_empty_block.
Print Assumptions C12_flatten.
Print Assumptions C12_block_insert_skip.
Print Assumptions C12_block_insert_empty_block.
Print Assumptions C12_block_flatten.
Print Assumptions C12_sem_refl.
Print Assumptions C12_sem_sym.
Print Assumptions C12_sem_trans.
Print Assumptions C12_seml_refl.
Print Assumptions C12_seml_sym.
Print Assumptions C12_seml_trans.
Print Assumptions C12_seml_cons.
Print Assumptions C12_seml_skip.
Print Assumptions C12_seml_flat.
Print Assumptions C12_sem_unwrap.
Print Assumptions C12_sem_block.
Print Assumptions C12_sem_if.
Print Assumptions C12_sem_while.
Print Assumptions C12_sem_for.
Print Assumptions C12_results_agree_def.
Print Assumptions C12_premise_vc.
Print Assumptions C12_rename.
Print Assumptions C12_minus.
Print Assumptions C12_minus_tables.
Print Assumptions C12_layout.
Print Assumptions C12_empty_statement.
Print Assumptions C12_braces.
Print Assumptions C12_function_independent.
Print Assumptions C12_rename_closed.
Print Assumptions C12_minus_closed.
Print Assumptions C12_minus_tables_closed.
Print Assumptions C12_layout_closed.
Print Assumptions C12_empty_statement_closed.
Print Assumptions C12_braces_closed.
