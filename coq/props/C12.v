(* C12 -- equivariance theorems are added when proved *)
From PM Require Import Calculus.
Theorem C12_placeholder : True.
Proof. exact Logic.I. Qed.
Print Assumptions C12_placeholder.
