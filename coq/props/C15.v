(* C15 -- the fields of a function result agree with each other and across modes.  Statements only. *)
From Coq Require Import String List Bool.
From PM Require Import Semiring Poly Rel Analysis Calculus An_stmts.
From PM Require An_closed An_witness.
Import ListNotations.

(* infinite: relation only when run-to-completion was requested; not infinite: relation present and the
   delta graph never collapsed *)
Theorem C15_which_fields_are_present :
  forall f stop res, analyse f stop = ROk res ->
    (fr_infinite res = true -> (fr_rel res <> None <-> stop = false)) /\
    (fr_infinite res = false -> fr_rel res <> None /\ fr_delta_infty res = false).
Proof. exact An_closed.result_fields. Qed.

(* for functions that are not infinite the two modes produce equal results *)
Theorem C15_modes_equal_when_not_infinite :
  forall f r1 r2, analyse f true = ROk r1 -> analyse f false = ROk r2 ->
    fr_infinite r1 = fr_infinite r2 /\ (fr_infinite r1 = false -> r1 = r2).
Proof. exact An_closed.modes_agree. Qed.

(* a non-infinite result has a valid vector of the reported degree, and its choice object accepts exactly
   the derivable vectors, where the relation's matrix is the derived one (hence free of infinity) *)
Theorem C15_choices_are_the_derivable_vectors :
  forall f stop res, func_ok f -> analyse f stop = ROk res -> fr_infinite res = false ->
    fr_index res = sites f /\ fr_vars res = func_vars f /\
    exists r, fr_rel res = Some r /\ rvars r = func_vars f /\
    forall cs, vec_ok (fr_index res) cs ->
      (accepted (fr_inf_deltas res) cs = true <-> exists A, fst (derive_func f cs) = Some A) /\
      (forall A, fst (derive_func f cs) = Some A ->
         apply_choice r (choice_of_list cs) = smat_table (func_vars f) A).
Proof. exact An_closed.finite_result. Qed.

(* "its choice object accepts exactly the vectors at which its own relation has no infinity": the
   direction accepted -> no infinity follows from the theorem above (a derived matrix has no infinity);
   the converse is REFUTED on the faithful model (open finding, see known_findings.json): for
   x=5; y=5; while(z>0){x=y+y;} while(z>0){z=x+x;} the vector (2,0) is rejected -- rightly, the calculus
   has no derivation there -- although the reported relation shows no infinity at (2,0). *)
Theorem C15_choices_exactly_relation_infinities_refuted :
  exists res r, analyse An_witness.f_lost false = ROk res /\ fr_infinite res = false /\ fr_rel res = Some r /\
    accepted (fr_inf_deltas res) [2; 0] = false /\
    An_witness.has_infinity (apply_choice r (choice_of_list [2; 0])) = false /\
    fst (derive_func An_witness.f_lost [2; 0]) = None.
Proof. exact An_witness.choices_stricter_than_relation. Qed.

Print Assumptions C15_which_fields_are_present.
Print Assumptions C15_modes_equal_when_not_infinite.
Print Assumptions C15_choices_are_the_derivable_vectors.
Print Assumptions C15_choices_exactly_relation_infinities_refuted.
