(* C15 -- the fields of a function result agree with each other and across modes.  Statements only. *)
From Coq Require Import String List Bool.
From PM Require Import Semiring Poly Rel Analysis Calculus An_stmts.
From PM Require An_closed An_witness.
From PM Require Import Poly_times Rel_sem.
From PM Require An_extra.
Import ListNotations.

(* infinite: relation only when run-to-completion was requested; not infinite: relation present and the
   delta graph never collapsed *)
Theorem C15_which_fields_are_present :
  forall f stop res, analyse f stop = ROk res ->
    (fr_infinite res = true -> (fr_rel res <> None <-> stop = false)) /\
    (fr_infinite res = false -> fr_rel res <> None /\ fr_delta_infty res = false).
Proof. exact An_closed.result_fields. Qed.

(* for functions that are not infinite the two modes produce equal results *)
Theorem C15_modes_equal_when_not_infinite :
  forall f r1 r2, analyse f true = ROk r1 -> analyse f false = ROk r2 ->
    fr_infinite r1 = fr_infinite r2 /\ (fr_infinite r1 = false -> r1 = r2).
Proof. exact An_closed.modes_agree. Qed.

(* a non-infinite result has a valid vector of the reported degree, and its choice object accepts exactly
   the derivable vectors, where the relation's matrix is the derived one (hence free of infinity) *)
Theorem C15_choices_are_the_derivable_vectors :
  forall f stop res, func_ok f -> analyse f stop = ROk res -> fr_infinite res = false ->
    fr_index res = sites f /\ fr_vars res = func_vars f /\
    exists r, fr_rel res = Some r /\ rvars r = func_vars f /\
    forall cs, vec_ok (fr_index res) cs ->
      (accepted (fr_inf_deltas res) cs = true <-> exists A, fst (derive_func f cs) = Some A) /\
      (forall A, fst (derive_func f cs) = Some A ->
         apply_choice r (choice_of_list cs) = smat_table (func_vars f) A).
Proof. exact An_closed.finite_result. Qed.

(* "its choice object accepts exactly the vectors at which its own relation has no infinity": the
   direction accepted -> no infinity follows from the theorem above (a derived matrix has no infinity);
   the converse is REFUTED on the faithful model (open finding, see known_findings.json): for
   x=5; y=5; while(z>0){x=y+y;} while(z>0){z=x+x;} the vector (2,0) is rejected -- rightly, the calculus
   has no derivation there -- although the reported relation shows no infinity at (2,0). *)
Theorem C15_choices_exactly_relation_infinities_refuted :
  exists res r, analyse An_witness.f_lost false = ROk res /\ fr_infinite res = false /\ fr_rel res = Some r /\
    accepted (fr_inf_deltas res) [2; 0] = false /\
    An_witness.has_infinity (apply_choice r (choice_of_list [2; 0])) = false /\
    fst (derive_func An_witness.f_lost [2; 0]) = None.
Proof. exact An_witness.choices_stricter_than_relation. Qed.

(* "the problematic-flow description names only variable pairs whose matrix entry can be infinite".
   [An_extra.infty_vars_incl only r] is Relation.infty_vars(only_incl) (dictionary source -> targets, as a
   list; Analysis.func passes the individually infinite variables as only_incl; [] = no filter = Rel.infty_vars).
   For the relation of ANY result of the analysis (infinite or not, either mode): every listed source has a
   non-empty target list, and for every listed pair the matrix entry has a monomial with scalar infinity
   and evaluates to infinity at some assignment of alternatives 0..2 to the sites; the filter keeps only
   pairs that touch only_incl *)
Theorem C15_inf_flows_pairs_can_be_infinite :
  forall f stop res r only src l tgt,
    func_ok f -> analyse f stop = ROk res -> fr_rel res = Some r ->
    In (src, l) (An_extra.infty_vars_incl only r) -> In tgt l ->
    l <> [] /\ In src (rvars r) /\ In tgt (rvars r) /\
    (only = [] \/ In src only \/ In tgt only) /\
    some_infty (cell r src tgt) = true /\
    (exists m, In m (cell r src tgt) /\ sc m = I) /\
    (exists c, (forall i, c i < 3) /\ rval r c src tgt = I).
Proof. exact An_extra.inf_flows_of_result. Qed.

Theorem C15_inf_flows_unfiltered :
  forall f stop res r src l tgt,
    func_ok f -> analyse f stop = ROk res -> fr_rel res = Some r ->
    In (src, l) (infty_vars r) -> In tgt l ->
    l <> [] /\ In src (rvars r) /\ In tgt (rvars r) /\
    some_infty (cell r src tgt) = true /\
    (exists m, In m (cell r src tgt) /\ sc m = I) /\
    (exists c, (forall i, c i < 3) /\ rval r c src tgt = I).
Proof. exact An_extra.inf_flows_of_result_unfiltered. Qed.

(* the same by position, for an arbitrary relation (no well-formedness): row i / column j of the matrix *)
Theorem C15_inf_flows_positions : forall only r src l,
  In (src, l) (An_extra.infty_vars_incl only r) ->
  l <> [] /\
  exists i row, nth_error (rvars r) i = Some src /\ nth_error (rmat r) i = Some row /\
    forall tgt, In tgt l ->
      exists j p, nth_error (rvars r) j = Some tgt /\ nth_error row j = Some p /\
                  p = mget (rmat r) i j /\ some_infty p = true /\
                  (only = [] \/ In src only \/ In tgt only).
Proof. exact An_extra.infty_vars_incl_positions. Qed.

(* nothing is forgotten (well-formed relation), the unfiltered description is the case only_incl = [],
   and filtering only drops targets *)
Theorem C15_inf_flows_complete : forall only r src tgt,
  wf_rel r -> In src (rvars r) -> In tgt (rvars r) -> some_infty (cell r src tgt) = true ->
  (only = [] \/ In src only \/ In tgt only) ->
  exists l, In (src, l) (An_extra.infty_vars_incl only r) /\ In tgt l.
Proof. exact An_extra.infty_vars_incl_complete. Qed.

Theorem C15_inf_flows_no_filter : forall r, An_extra.infty_vars_incl [] r = infty_vars r.
Proof. exact An_extra.infty_vars_incl_nil. Qed.

Theorem C15_inf_flows_filter_drops : forall only r src l,
  In (src, l) (An_extra.infty_vars_incl only r) -> exists l', In (src, l') (infty_vars r) /\ incl l l'.
Proof. exact An_extra.infty_vars_incl_sub. Qed.

(* what "has an infinite monomial" means: a satisfiable one makes the polynomial infinite at a choice *)
Theorem C15_some_infty_meaning :
  forall p, (some_infty p = true <-> exists m, In m p /\ sc m = I) /\
            (forall m, In m p -> sc m = I -> msat m -> exists c, val p c = I).
Proof. exact An_extra.some_infty_meaning. Qed.

Print Assumptions C15_which_fields_are_present.
Print Assumptions C15_modes_equal_when_not_infinite.
Print Assumptions C15_choices_are_the_derivable_vectors.
Print Assumptions C15_choices_exactly_relation_infinities_refuted.
Print Assumptions C15_inf_flows_pairs_can_be_infinite.
Print Assumptions C15_inf_flows_unfiltered.
Print Assumptions C15_inf_flows_positions.
Print Assumptions C15_inf_flows_complete.
Print Assumptions C15_inf_flows_no_filter.
Print Assumptions C15_inf_flows_filter_drops.
Print Assumptions C15_some_infty_meaning.
