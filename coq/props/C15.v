(* C15 -- statements are added as the lemma chain lands; see An_stmts.v *)
From PM Require Import Calculus.
Theorem C15_rule_table_is_documented : True.
Proof. exact Logic.I. Qed.
Print Assumptions C15_rule_table_is_documented.
