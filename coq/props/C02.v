(* C02 -- a function is reported infinite exactly when no derivation exists; both modes agree; a
   function reported not infinite has a valid choice.  Statements only (model Analysis.v, spec Calculus.v). *)
From Coq Require Import String List Bool.
From PM Require Import Semiring Poly Rel Analysis Calculus An_stmts.
From PM Require An_closed An_func.
Import ListNotations.

(* reported infinite (by the delta graph's early verdict or by the complete one) => every one of the 3^k
   choice vectors makes some while/for side condition fail *)
Theorem C02_infinite_implies_no_derivation :
  forall f stop res, func_ok f -> analyse f stop = ROk res -> fr_infinite res = true ->
    forall cs, vec_ok (sites f) cs -> fst (derive_func f cs) = None.
Proof. exact An_closed.verdict_sound. Qed.

(* reported not infinite => some choice vector of the reported degree has a derivation
   (hence, by C01, is accepted by the choice object): "has at least one valid choice" *)
Theorem C02_not_infinite_has_a_derivable_choice :
  forall f stop res, func_ok f -> analyse f stop = ROk res -> fr_infinite res = false ->
    exists cs, vec_ok (fr_index res) cs /\ fst (derive_func f cs) <> None.
Proof. exact An_closed.verdict_complete_all. Qed.

(* the verdict does not depend on the early-stop option, and when not infinite nothing else does either *)
Theorem C02_modes_agree :
  forall f r1 r2, analyse f true = ROk r1 -> analyse f false = ROk r2 ->
    fr_infinite r1 = fr_infinite r2 /\ (fr_infinite r1 = false -> r1 = r2).
Proof. exact An_closed.modes_agree. Qed.

Print Assumptions C02_infinite_implies_no_derivation.
Print Assumptions C02_not_infinite_has_a_derivable_choice.
Print Assumptions C02_modes_agree.
