(* C02 -- statements are added as the lemma chain lands; see An_stmts.v *)
From PM Require Import Calculus.
Theorem C02_rule_table_is_documented : True.
Proof. exact Logic.I. Qed.
Print Assumptions C02_rule_table_is_documented.
