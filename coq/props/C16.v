(* C16 -- the coefficient semiring obeys its laws and its documented tables.
   Every statement is about [prod_src]/[sum_src]: the guard + dictionary lookup over the
   tables GENERATED from pymwp/semiring.py on this run.  This file holds statements only. *)
From Coq Require Import String List.
From PMGen Require Import SemiringGen.
From PM Require Import Semiring C16_proofs.
Import ListNotations.

Theorem C16_total_on_keys : forall a b, In a KEYS -> In b KEYS ->
  (exists r, prod_src a b = Some r /\ In r KEYS) /\ (exists r, sum_src a b = Some r /\ In r KEYS).
Proof. exact total_on_keys. Qed.

Theorem C16_comm : forall a b, In a KEYS -> In b KEYS ->
  prod_src a b = prod_src b a /\ sum_src a b = sum_src b a.
Proof. exact comm_src. Qed.

Theorem C16_assoc : forall a b c, In a KEYS -> In b KEYS -> In c KEYS ->
  bind2 prod_src (Some a) (prod_src b c) = bind2 prod_src (prod_src a b) (Some c) /\
  bind2 sum_src (Some a) (sum_src b c) = bind2 sum_src (sum_src a b) (Some c).
Proof. exact assoc_src. Qed.

Theorem C16_distr : forall a b c, In a KEYS -> In b KEYS -> In c KEYS ->
  bind2 prod_src (Some a) (sum_src b c) = bind2 sum_src (prod_src a b) (prod_src a c) /\
  bind2 prod_src (sum_src a b) (Some c) = bind2 sum_src (prod_src a c) (prod_src b c).
Proof. exact distr_src. Qed.

Theorem C16_sum_idem_and_max : forall a b, In a KEYS -> In b KEYS ->
  sum_src a a = Some a /\
  exists r ia ib ir, sum_src a b = Some r /\ index_of a KEYS = Some ia /\ index_of b KEYS = Some ib /\
     index_of r KEYS = Some ir /\ ir = Nat.max ia ib.
Proof. exact sum_idem_max_src. Qed.

Theorem C16_order_is_o_m_w_p_i : KEYS = ["o"; "m"; "w"; "p"; "i"]%string.
Proof. exact keys_literal. Qed.

Theorem C16_units : forall a, In a KEYS ->
  prod_src "m" a = Some a /\ prod_src a "m" = Some a /\ sum_src "o" a = Some a /\ sum_src a "o" = Some a.
Proof. exact units_src. Qed.

Theorem C16_infinity_absorbs : forall a, In a KEYS ->
  prod_src "i" a = Some "i"%string /\ prod_src a "i" = Some "i"%string /\
  sum_src "i" a = Some "i"%string /\ sum_src a "i" = Some "i"%string.
Proof. exact infty_src. Qed.

Theorem C16_zero_annihilates_finite : forall a, In a KEYS -> a <> "i"%string ->
  prod_src "o" a = Some "o"%string /\ prod_src a "o" = Some "o"%string.
Proof. exact zero_src. Qed.

Theorem C16_nonkey_raises : forall a b, ~ In a KEYS \/ ~ In b KEYS ->
  prod_src a b = None /\ sum_src a b = None.
Proof. exact nonkey_raises. Qed.

Theorem C16_typed_agrees : forall a b,
  prod_src (sc_str a) (sc_str b) = Some (sc_str (sprod a b)) /\
  sum_src (sc_str a) (sc_str b) = Some (sc_str (ssum a b)).
Proof. exact typed_agrees. Qed.

Print Assumptions C16_total_on_keys.
Print Assumptions C16_comm.
Print Assumptions C16_assoc.
Print Assumptions C16_distr.
Print Assumptions C16_sum_idem_and_max.
Print Assumptions C16_order_is_o_m_w_p_i.
Print Assumptions C16_units.
Print Assumptions C16_infinity_absorbs.
Print Assumptions C16_zero_annihilates_finite.
Print Assumptions C16_nonkey_raises.
Print Assumptions C16_typed_agrees.
