(* C13 -- analysing one function is unaffected by anything analysed before.

   The property lives partly in the Python runtime (object identity, hash seeds); level "other".
   What is proved here is the aliasing discipline on the reference-level model RefModel.v and the
   purity of the analysis model; the decisive part (results after arbitrary histories against fresh
   processes, hash seeds, the real objects' identities) is differential: tools/props/c13.py.

   RefModel.v: a Monomial object is a stamp = its allocation index; [heap] maps stamps to the
   current (scalar, deltas); a polynomial is the list of the stamps in its [.list]; a matrix is a
   list of rows of polynomials.  [hget h s] reads object s; [length h] is the number of objects
   allocated so far, so "allocated after the state h0" is [length h0 <= s].  Stamps 0 and 1
   (ZERO_ST, UNIT_ST) are the monomials of matrix.ZERO / matrix.UNIT, which identity_matrix puts
   by reference into every matrix.  [radd h p q] copies p's monomials (fresh stamps) and inserts
   q's by reference, [rtimes] allocates every monomial of its result, [rfixpoint] iterates
   current = current * self; fix = fix + current from one shared identity matrix, and
   [rwhile] / [rfor] are what Analysis.while_loop / for_loop do to the relation [body] obtained from
   the loop body:  fixpoint, then while_correction / loop_correction, which assign scalars in place
   and report the stamps they assigned ([w]).  [None] = out of fuel (the fixpoint did not converge).
   [valid_in h0 old]: every monomial of the matrix [old] exists in h0 -- i.e. [old] is any relation
   that existed before the call: the loop body's relation, an identity matrix, the relation of an
   earlier result, the caller's accumulated relation.  [vmat h old] is what [old] reads as in h.
   This file holds statements only. *)
From Coq Require Import List.
From PM Require Import Semiring Poly Rel RefModel RefModel_proofs.
Require PM.Analysis.
Import ListNotations.

(* For every heap, every body relation -- whatever it aliases, ZERO/UNIT included -- every fuel:
   every monomial the correction writes, and every monomial of the corrected relation, was allocated
   inside this fixpoint/correction; none of them belongs to a matrix that existed before; every such
   matrix reads exactly as before; no pre-existing object has any field changed (this includes the
   in-place scalar assignments of Polynomial.add and sort_monomials). *)
Theorem C13_fresh_mutation : forall fuel h0 k body,
  (forall h2 fx w, rwhile fuel h0 k body = Some (h2, fx, w) ->
     (forall s, In s w -> length h0 <= s) /\
     (forall s, In s (mat_stamps fx) -> length h0 <= s) /\
     (forall old, valid_in h0 old -> forall s, In s w -> ~ In s (mat_stamps old)) /\
     (forall old, valid_in h0 old -> vmat h2 old = vmat h0 old) /\
     (forall s, s < length h0 -> hget h2 s = hget h0 s)) /\
  (forall ell h2 fx w, rfor fuel h0 k body ell = Some (h2, fx, w) ->
     (forall s, In s w -> length h0 <= s) /\
     (forall s, In s (mat_stamps fx) -> length h0 <= s) /\
     (forall old, valid_in h0 old -> forall s, In s w -> ~ In s (mat_stamps old)) /\
     (forall old, valid_in h0 old -> vmat h2 old = vmat h0 old) /\
     (forall s, s < length h0 -> hget h2 s = hget h0 s)).
Proof. exact fresh_mutation. Qed.

(* [heap_ok h]: stamps 0 and 1 exist and hold (o, []) and (m, []).  Both loop pipelines, fixpoint
   alone, matrix_prod (relation composition) on ARBITRARY operands and times keep it, and the
   corrections never assign ZERO's or UNIT's monomial; add keeps it whenever its argument does not
   contain those two monomials (add can only write to its own copies and to its argument). *)
Theorem C13_constants_unchanged : forall h0, heap_ok h0 ->
  (forall fuel k body h2 fx w, rwhile fuel h0 k body = Some (h2, fx, w) ->
     heap_ok h2 /\ ~ In ZERO_ST w /\ ~ In UNIT_ST w) /\
  (forall fuel k body ell h2 fx w, rfor fuel h0 k body ell = Some (h2, fx, w) ->
     heap_ok h2 /\ ~ In ZERO_ST w /\ ~ In UNIT_ST w) /\
  (forall fuel k body h1 fx, rfixpoint fuel h0 k body = Some (h1, fx) -> heap_ok h1) /\
  (forall m1 m2 h1 r, rmatrix_prod h0 m1 m2 = (h1, r) -> heap_ok h1) /\
  (forall p q h1 r, rtimes h0 p q = (h1, r) -> heap_ok h1) /\
  (forall p q h1 r, radd h0 p q = (h1, r) -> ~ In ZERO_ST q -> ~ In UNIT_ST q -> heap_ok h1).
Proof. exact constants_unchanged. Qed.

(* Polynomial.add on arbitrary operands: the heap only grows; a pre-existing monomial outside the
   ARGUMENT keeps all its fields (in particular every monomial of self); every monomial of the result
   is fresh or is a monomial of the argument (shared by reference). *)
Theorem C13_add_aliasing : forall h p q h' r, radd h p q = (h', r) ->
  length h <= length h' /\
  (forall s, s < length h -> ~ In s q -> hget h' s = hget h s) /\
  (forall s, In s r -> length h <= s \/ In s q).
Proof. exact add_frame. Qed.

(* Polynomial.times on arbitrary operands: no pre-existing monomial changes; the result is fresh *)
Theorem C13_times_fresh : forall h p q h' r, rtimes h p q = (h', r) ->
  length h <= length h' /\
  (forall s, s < length h -> hget h' s = hget h s) /\
  (forall s, In s r -> length h <= s).
Proof. exact times_fresh. Qed.

(* The hypotheses are satisfiable and the conclusions are not vacuous: on the heap and body relation of
   `while (..) { x = x + y; }` (cells of the body ARE the shared ZERO / UNIT) the pipeline returns and
   the correction writes 4 monomials. *)
Theorem C13_instance : heap_ok ex_heap /\ valid_in ex_heap ex_body /\
  exists h2 fx w, rwhile 10 ex_heap 2 ex_body = Some (h2, fx, w) /\ length w = 4 /\
                  In UNIT_ST (mat_stamps ex_body) /\ In ZERO_ST (mat_stamps ex_body).
Proof. exact ex_while_runs. Qed.

(* (trivial, stated) the Coq model of Analysis.func is a function of (function, stop) only: at any
   position of any sequence of calls its value is its value alone.  History independence of the REAL
   code is therefore equivalent to agreement with this model on every history, which
   tools/props/c13.py tests. *)
Theorem C13_model_is_function : forall (pre post : list (PM.Analysis.func_src * bool)) f stop,
  nth_error (map (fun c => PM.Analysis.analyse (fst c) (snd c)) (pre ++ (f, stop) :: post)) (length pre)
  = Some (PM.Analysis.analyse f stop).
Proof. exact model_is_function. Qed.

Print Assumptions C13_fresh_mutation.
Print Assumptions C13_constants_unchanged.
Print Assumptions C13_add_aliasing.
Print Assumptions C13_times_fresh.
Print Assumptions C13_instance.
Print Assumptions C13_model_is_function.
