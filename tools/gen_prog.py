"""Seeded generator of C functions in (and at the edge of) the fragment pymwp analyses.
Programs are small trees; `render` gives C text. Every decision comes from the rng handed in."""

NAMES = ["x", "y", "z", "u", "v", "w"]


class Cfg:
    def __init__(self, **kw):
        self.nvars = 3
        self.max_sites = 5          # bound on binary-operation sites (k): 3^k vectors are enumerated
        self.max_depth = 2
        self.max_stmts = 4
        self.constants = True
        self.sugar = True           # unary / cast forms
        self.loops = True
        self.fors = True
        self.skips = True
        self.bias = None            # None | "overwrite-loop" | "two-loops" | "loops-in-branches"
        self.names = None
        for k, v in kw.items():
            setattr(self, k, v)


class Gen:
    def __init__(self, rng, cfg):
        self.r = rng
        self.c = cfg
        self.vars = list(cfg.names or NAMES[:cfg.nvars])
        self.sites = 0
        self.fresh = 0

    # ---- expressions / simple statements ----
    def var(self):
        return self.r.choice(self.vars)

    def operand(self, allow_cast=True):
        r = self.r.random()
        if self.c.constants and r < 0.15:
            return str(self.r.randrange(0, 9))
        v = self.var()
        if self.c.sugar and allow_cast and r > 0.93:
            return "(int)" + v
        return v

    def binop(self):
        if self.sites >= self.c.max_sites:
            return self.simple_nosite()
        self.sites += 1
        x = self.var()
        op = self.r.choice(["+", "+", "-", "*", "*"])
        a, b = self.operand(), self.operand()
        if a.isdigit() and b.isdigit():      # both constants: no site is consumed by the tool
            self.sites -= 1
        rhs = f"{a} {op} {b}"
        if self.c.sugar and self.r.random() < 0.06:
            rhs = f"(int)({rhs})"
        return ("s", f"{x} = {rhs};")

    def simple_nosite(self):
        r = self.r.random()
        x, y = self.var(), self.var()
        if r < 0.5:
            return ("s", f"{x} = {y};")
        if self.c.constants and r < 0.8:
            return ("s", f"{x} = {self.r.randrange(0, 9)};")
        return ("s", f"{x} = {y};")

    def sugar_stmt(self):
        x, y = self.var(), self.var()
        forms = [f"{x} = -{y};", f"{x} = +{y};", f"{x} = !{y};", f"{x} = sizeof({y});", f"{x} = (int){y};",
                 f"{x} = -3;", f"{x} = (int)7;", f"+{x};", f"-{x};", f"!{x};"]
        site_forms = [f"{x}++;", f"++{x};", f"{x}--;", f"--{x};", f"{x} = {y}++;", f"{x} = ++{y};", f"{x} = {y}--;", f"{x} = --{y};",
                      f"{x} = -{y};"]
        if self.sites < self.c.max_sites and self.r.random() < 0.6:
            s = self.r.choice(site_forms)
            self.sites += 1
            return ("s", s)
        return ("s", self.r.choice(forms))

    def skip_stmt(self):
        self.fresh += 1
        # declarations: usually a fresh name; sometimes one used before (another block) or the name of a parameter (shadowing)
        decl = self.r.choice([f"int t{self.fresh};", f"int t{self.fresh};", "int t0;", f"int {self.var()};"])
        return ("s", self.r.choice([";", "return;", f"return {self.var()};", decl, "assert(1);", ";"]))

    def cond(self):
        a, b = self.var(), self.operand(False)
        return f"{a} {self.r.choice(['>', '<', '!=', '=='])} {b}"

    # ---- compound statements ----
    def stmt(self, depth):
        r = self.r.random()
        can_nest = depth < self.c.max_depth
        if can_nest and self.c.loops and r < 0.17:
            return self.loop(depth)
        if can_nest and r < 0.30:
            return self.if_(depth)
        if can_nest and self.c.fors and self.c.loops and r < 0.38:
            return self.for_(depth)
        if can_nest and r < 0.42:
            return ("block", self.stmts(depth + 1, self.r.randrange(0, 3)))
        if self.c.sugar and r < 0.52:
            return self.sugar_stmt()
        if self.c.skips and r < 0.57:
            return self.skip_stmt()
        if r < 0.70:
            return self.simple_nosite()
        return self.binop()

    def stmts(self, depth, n):
        return [self.stmt(depth) for _ in range(n)]

    def body(self, depth, braces=None):
        n = self.r.randrange(1, 3)
        ss = self.stmts(depth + 1, n)
        if braces is None:
            braces = not (n == 1 and self.r.random() < 0.2)
        if not braces and ss[0][0] == "s" and ss[0][1].startswith("int "):
            braces = True     # a declaration cannot be the un-braced body of a statement
        return ("block", ss) if braces else ss[0]

    def loop(self, depth):
        kind = "dowhile" if self.r.random() < 0.2 else "while"
        return (kind, self.cond(), self.body(depth))

    def if_(self, depth):
        els = self.body(depth) if self.r.random() < 0.6 else None
        thn = self.body(depth)
        if self.r.random() < 0.1:
            # one branch is the empty block `{ }` (the other one is present): the sum with the identity must not be lost
            if els is None:
                els = thn
                thn = ("block", [])
            elif self.r.random() < 0.5:
                els = ("block", [])
            else:
                thn = ("block", [])
        return ("if", self.cond(), thn, els)

    def for_(self, depth):
        self.fresh += 1
        it = f"i{self.fresh}"
        r = self.r.random()
        if r < 0.75:
            guard = f"n{self.fresh}"      # a guard variable that does not occur in the body
        else:
            guard = self.var()            # may occur in the body: then not an mwp loop
        decl = self.r.random() < 0.3
        init = f"int {it} = 0" if decl else f"{it} = 0"
        body = self.body(depth)
        others = [v for v in self.vars if v != guard]
        if guard in self.vars and others and self.r.random() < 0.5:
            # the guard occurs in the body ONLY inside a brace-less branch / an else-if ladder (the places a variable scan can overlook)
            o1, o2 = self.r.choice(others), self.r.choice(others)
            use = ("s", self.r.choice([f"{o1} = {o1} + {guard};", f"{guard} = {guard} + {o1};", f"{o1} = {guard};", f"{guard} = {o2};"]))
            plain = ("s", f"{o1} = {o2};")
            c1, c2 = f"{o1} > {o2}", f"{o2} > 0"
            shape = self.r.randrange(4)
            if shape == 0:
                iff = ("if", c1, use, None)
            elif shape == 1:
                iff = ("if", c1, plain, use)
            elif shape == 2:
                iff = ("if", c1, plain, ("if", c2, plain, use))
            else:
                iff = ("if", c1, ("block", [plain]), ("if", c2, use, None))
            body = ("block", [plain, iff] if self.r.random() < 0.5 else [iff])
        return ("for", init, f"{it} < {guard}", f"{it}++", body, it, guard, decl)

    def chain_loop(self):
        """a loop whose body closes a dependency chain / rotation of the variables, backwards or forwards, mixing copies,
        binary operations and if/else alternatives (shapes on which the closure needs many iterations)"""
        vs = list(self.vars)
        self.r.shuffle(vs)
        k = len(vs)
        shape = self.r.choice(["rotate", "backward", "forward"])
        if shape == "rotate":
            pairs = [(vs[i], vs[i - 1]) for i in range(k - 1, 0, -1)] + [(vs[0], vs[k - 1])]
        elif shape == "backward":
            pairs = [(vs[i], vs[i - 1]) for i in range(k - 1, 0, -1)]
        else:
            pairs = [(vs[i], vs[i - 1]) for i in range(1, k)]
        body = []
        for x, y in pairs:
            r = self.r.random()
            def heavy():
                if self.sites >= self.c.max_sites:
                    return ("s", f"{x} = {y};")
                self.sites += 1
                z = self.r.choice([y] + vs)
                return ("s", f"{x} = {y} {self.r.choice(['+', '*'])} {z};")
            if r < 0.35:
                body.append(("s", f"{x} = {y};"))
            elif r < 0.7:
                body.append(heavy())
            else:
                body.append(("if", self.cond(), ("block", [heavy()]), ("block", [("s", f"{x} = {self.r.choice(vs)};")])))
        if self.r.random() < 0.5 and self.c.fors:
            self.fresh += 1
            it, guard = f"i{self.fresh}", f"n{self.fresh}"
            return ("for", f"{it} = 0", f"{it} < {guard}", f"{it}++", ("block", body), it, guard, False)
        return ("while", self.cond(), ("block", body))

    def for_accumulate(self):
        """a counted for loop (fresh guard) whose body feeds one or two choice-bearing operations into a loop-carried
        accumulation: cells with several p-monomials that differ in their deltas, so the L rule matters at every choice"""
        vs = list(self.vars)
        self.r.shuffle(vs)
        acc = vs[0]
        others = vs[1:] or vs
        body = []
        n = self.r.choice([1, 2, 2])
        tmp = None
        for k in range(n):
            if self.sites >= self.c.max_sites - 1:
                break
            self.sites += 1
            tmp = self.r.choice(others)
            a, b = self.r.choice(vs), self.r.choice(others)
            body.append(("s", f"{tmp} = {a} {self.r.choice(['+', '+', '*'])} {b};"))
        self.sites += 1
        src = tmp if tmp is not None else self.r.choice(others)
        body.append(("s", f"{acc} = {acc} + {src};" if self.r.random() < 0.6 else f"{acc} = {src} + {acc};"))
        if self.r.random() < 0.3:
            body.append(("s", f"{self.r.choice(others)} = {acc};"))
        self.fresh += 1
        it, guard = f"i{self.fresh}", f"n{self.fresh}"
        return ("for", f"{it} = 0", f"{it} < {guard}", f"{it}++", ("block", body), it, guard, False)

    def accum_stmts(self, vs):
        """one loop-carried accumulation: each shape leaves a different set of admissible choices under a loop rule"""
        r = self.r
        acc = r.choice(vs)
        others = [v for v in vs if v != acc] or vs
        k = r.randrange(4)
        self.sites += 1
        if k == 0:
            return [("s", f"{acc} = {acc} + {r.choice(others)};")]
        if k == 1:
            return [("s", f"{acc} = {r.choice(others)} + {acc};")]
        t = r.choice(others)
        u = r.choice(vs)
        if k == 2:
            return [("s", f"{acc} = {u} + {t};"), ("s", f"{t} = {acc};")]
        return [("s", f"{acc} = {t} {r.choice(['+', '*'])} {u};"), ("s", f"{u} = {acc};")]

    def branch_accumulate(self):
        """a loop whose body is an if/else with loop-carried accumulations in BOTH branches: the branches' derivations are chosen
        independently, and the loop's side condition usually leaves different admissible choices for each of them"""
        vs = list(self.vars)
        self.r.shuffle(vs)
        half = max(1, len(vs) // 2)
        va, vb = (vs[:half], vs[half:] or vs) if self.r.random() < 0.6 else (vs, vs)
        th, el = [], []
        for _ in range(self.r.choice([1, 1, 2])):
            if self.sites < self.c.max_sites:
                th += self.accum_stmts(va)
        for _ in range(self.r.choice([1, 1, 2])):
            if self.sites < self.c.max_sites:
                el += self.accum_stmts(vb)
        def wrap(ss):
            if self.r.random() < 0.25:
                return ("block", [("while", self.cond(), ("block", ss))])
            return ("block", ss)
        # one branch that does nothing (the identity is NOT neutral for the sum of the two branches)
        noop = lambda: self.r.choice([[("s", ";")], [], [("s", f"{vs[0]} = {vs[0]};")], [("s", "break;")]])
        k = self.r.random()
        if k < 0.2 and el:
            th = noop()
        elif k < 0.3 and th:
            el = noop()
        body = [("if", self.cond(), wrap(th or [("s", ";")]) if th else ("block", []), wrap(el) if el else None)]
        if self.r.random() < 0.3:
            body.append(self.simple_nosite())
        if self.r.random() < 0.25 and len(vs) >= 3 and self.sites < self.c.max_sites:
            # a flow that only ONE branch kills: `a = b . b; if (c) <nothing> else a = d; b = a;` -- the cycle b -> a -> b exists
            # because the old value of a may survive the conditional
            a, b, d = vs[0], vs[1], vs[2]
            self.sites += 1
            kill = [("s", f"{a} = {d};")]
            keep = noop()
            t_, e_ = (keep, kill) if self.r.random() < 0.5 else (kill, keep)
            body = [("s", f"{a} = {b} {self.r.choice(['*', '+'])} {self.r.choice([b, d])};"),
                    ("if", self.cond(), ("block", t_), ("block", e_) if (e_ or self.r.random() < 0.5) else None),
                    ("s", f"{b} = {a};")]
        if self.r.random() < 0.6:
            self.fresh += 1
            it, guard = f"i{self.fresh}", f"n{self.fresh}"
            return ("for", f"{it} = 0", f"{it} < {guard}", f"{it}++", ("block", body), it, guard, False)
        return ("while", self.cond(), ("block", body))

    def pair_cycle(self):
        """constants, a loop that fails for SOME alternatives of one statement, then a loop whose two statements feed each other
        (its failure depends on a PAIR of choices, so whole cliques of failing delta sequences are fused in the delta graph),
        possibly followed by an overwrite: the shapes on which infinities recorded early must survive later compositions"""
        r = self.r
        vs = list(self.vars)
        r.shuffle(vs)
        a, b = vs[0], vs[1 % len(vs)]
        c = vs[2 % len(vs)]
        out = []
        # a constant (zero-column) variable erases, in the composition, every infinity the later loops put in its row
        # (b is the only variable live at the entry of the cycle `a = b . c; b = a . c`: all its diagonal infinities sit in row b)
        consts = r.choice([[a, b], [b], [b], [b, c], [b, c], [a, b, c], [a], [v for v in vs if r.random() < 0.5][:2]])
        r.shuffle(consts)
        for v in consts:
            out.append(("s", f"{v} = {r.randrange(1, 9)};"))
        if r.random() < 0.7 and self.sites < self.c.max_sites:
            self.sites += 1
            t = r.choice([a, b])
            pool = consts if (consts and r.random() < 0.7) else vs
            pool = [v for v in pool if v != t] or [v for v in vs if v != t] or vs     # t among its own operands: no derivation at all
            x, y = r.choice(pool), r.choice(pool)
            out.append(("while", self.cond(), ("block", [("s", f"{t} = {x} {r.choice(['+', '+', '+', '*'])} {y};")])))
            if consts and r.random() < 0.6:
                c = r.choice(consts)
        body = []
        self.sites += 2
        o1, o2 = r.choice(["+"] * 6 + ["*"]), r.choice(["+"] * 6 + ["*"])      # a product in the cycle leaves no derivation at all
        s1 = f"{a} = {b} {o1} {c};" if r.random() < 0.5 else f"{a} = {c} {o1} {b};"
        s2 = f"{b} = {a} {o2} {c};" if r.random() < 0.5 else f"{b} = {c} {o2} {a};"
        body = [("s", s1), ("s", s2)]
        if r.random() < 0.85:        # only rule L (counted loop) leaves derivations for an additive cycle; under rule W it has none
            self.fresh += 1
            it, guard = f"i{self.fresh}", f"n{self.fresh}"
            out.append(("for", f"{it} = 0", f"{it} < {guard}", f"{it}++", ("block", body), it, guard, False))
        else:
            out.append(("while", self.cond(), ("block", body)))
        if r.random() < 0.4:
            out.append(("s", f"{r.choice([a, b])} = {r.choice(vs)};"))
        return out

    def tight_cycle(self):
        """a loop whose 2-3 assignments multiply/add a small set of variables in a cycle: often no derivation at all,
        and frequently in a way the delta graph does not detect (the verdict then comes from the choice evaluation)"""
        vs = self.vars[: self.r.choice([2, 2, 3])]
        body = []
        for _ in range(self.r.choice([2, 2, 3])):
            if self.sites >= self.c.max_sites:
                break
            self.sites += 1
            body.append(("s", f"{self.r.choice(vs)} = {self.r.choice(vs)} {self.r.choice(['*', '*', '+'])} {self.r.choice(vs)};"))
        loop = ("while", self.cond(), ("block", body or [("s", ";")]))
        out = []
        if self.r.random() < 0.3 and self.sites < self.c.max_sites:
            self.sites += 1
            out.append(("s", f"{self.r.choice(vs)} = {self.r.choice(vs)} + {self.r.choice(vs)};"))
        if self.r.random() < 0.3:
            loop = ("if", self.cond(), ("block", [loop]), ("block", [("s", f"{vs[0]} = {vs[-1]};")]))
        out.append(loop)
        if self.r.random() < 0.3:
            out.append(("s", f"{self.r.choice(vs)} = {self.r.choice(vs)};"))
        return out

    def program(self):
        n = self.r.randrange(1, self.c.max_stmts + 1)
        b = self.c.bias
        ss = []
        if b == "overwrite-loop":
            ss += [self.simple_nosite() for _ in range(self.r.randrange(1, 3))]
            ss += [self.loop(0), self.loop(0)]
        elif b == "two-loops":
            ss += [self.loop(0), self.stmt(0), self.loop(0)]
        elif b == "chain-loop":
            ss += [self.chain_loop()]
        elif b == "tight-cycle":
            ss += self.tight_cycle()
        elif b == "for-accumulate":
            loop = self.for_accumulate()
            if self.r.random() < 0.4:
                # nested in a loop that overwrites a source of the accumulation first: only what rule L propagated to the
                # guard's row carries the flow outwards
                vs_ = list(self.vars)
                pre_ = [("s", f"{self.r.choice(vs_)} = {self.r.choice(['0', '1', self.r.choice(vs_)])};")]
                loop = (self.r.choice(["while", "while", "dowhile"]), self.cond(), ("block", pre_ + [loop]))
            ss += [loop]
        elif b == "pair-cycle":
            ss += self.pair_cycle()
        elif b == "branch-accumulate":
            ss += [self.branch_accumulate()]
        elif b == "loops-in-branches":
            ss += [("if", self.cond(), ("block", [self.stmt(1), self.loop(1)]), ("block", [self.loop(1), self.stmt(1)]))]
            ss += [self.loop(0)]
        ss += self.stmts(0, n)
        if self.c.skips and len(ss) >= 2 and self.r.random() < 0.08:
            # a top-level return that is NOT the last statement: what follows is analysed all the same (in every mode)
            ss.insert(self.r.randrange(1, len(ss)), ("s", self.r.choice(["return;", f"return {self.var()};"])))
        return ss


def render_stmt(s, ind=1):
    pad = "  " * ind
    k = s[0]
    if k == "s":
        return pad + s[1] + "\n"
    if k == "block":
        return pad + "{\n" + "".join(render_stmt(x, ind + 1) for x in s[1]) + pad + "}\n"
    if k == "while":
        return pad + f"while ({s[1]})\n" + render_stmt(s[2], ind + 1)
    if k == "dowhile":
        return pad + "do\n" + render_stmt(s[2], ind + 1) + pad + f"while ({s[1]});\n"
    if k == "if":
        out = pad + f"if ({s[1]})\n" + render_stmt(s[2], ind + 1)
        if s[3] is not None:
            out += pad + "else\n" + render_stmt(s[3], ind + 1)
        return out
    if k == "for":
        return pad + f"for ({s[1]}; {s[2]}; {s[3]})\n" + render_stmt(s[4], ind + 1)
    raise ValueError(k)


def collect_for_vars(ss, acc):
    for s in ss:
        k = s[0]
        if k == "for":
            if not s[7]:
                acc.add(s[5])
            acc.add(s[6])
            collect_for_vars([s[4]], acc)
        elif k == "block":
            collect_for_vars(s[1], acc)
        elif k in ("while", "dowhile"):
            collect_for_vars([s[2]], acc)
        elif k == "if":
            collect_for_vars([s[2]], acc)
            if s[3] is not None:
                collect_for_vars([s[3]], acc)
    return acc


def render(ss, vars_, fname="f"):
    extra = sorted(collect_for_vars(ss, set()) - set(vars_))
    params = ", ".join("int " + v for v in list(vars_) + extra)
    return f"int {fname}({params})\n{{\n" + "".join(render_stmt(s) for s in ss) + "}\n"


def gen_function(rng, cfg=None, fname="f"):
    cfg = cfg or Cfg()
    g = Gen(rng, cfg)
    ss = g.program()
    return render(ss, g.vars, fname), ss, g.vars
