"""C16: semiring laws. Search = exhaustive laws on the real functions; correspondence = the real
functions against the GENERATED tables evaluated inside Coq (validates the translator)."""
import itertools
import vlib

ID = "C16"
LEVEL = "proof"
TRANSLATORS = ["semiring"]
MODEL_TARGETS = ["theories/Semiring.vo"]
EXPLANATION = ("Laws proved by finite case analysis over the tables generated from semiring.py on this run; "
               "non-key clause is a general lemma about the guard; real prod_mwp/sum_mwp compared with the generated "
               "lookups on all 25 pairs + junk arguments; laws re-checked exhaustively on the real functions.")
ASSUMPTIONS = ["translator reads the dict literals and the guard shape of prod_mwp/sum_mwp faithfully (validated by the 25+25+junk comparison)"]

JUNK = (["", "O", "M", "0", "x", " i", "i ", "inf", "P", "W", "I", "None", "∞", "omw", "mwp", "omwpi", "mo ", "o m"] +
        [a + b for a in "omwpi" for b in "omwpi"])      # every two-letter string over the coefficients (concatenated-key slips)
NONSTR = [None, 0, 1, 2.5, ("o",), True]
UNHASH = [["o"], {"o": 1}]


def call(f, a, b):
    try:
        r = f(a, b)
        return ("ok", r)
    except Exception as e:
        return ("raise", type(e).__name__)


def run(ctx):
    vlib.import_pymwp()
    from pymwp import semiring as S
    K = ["o", "m", "w", "p", "i"]
    failing, mism = [], []
    ev = 0
    samples = []

    def fail(what, inp, exp, obs):
        failing.append({"what": what, "sig": ["C16", what.split(":")[0]], "input": inp, "expected": exp, "observed": obs})

    P = lambda a, b: call(S.prod_mwp, a, b)
    A = lambda a, b: call(S.sum_mwp, a, b)
    order = {k: n for n, k in enumerate(K)}
    if list(S.KEYS) != K:
        fail("order: KEYS is not o<m<w<p<i", {"KEYS": list(S.KEYS)}, K, list(S.KEYS))
    pairs_before = {}
    for a, b in itertools.product(K, K):
        ev += 1
        pa, pb, sa, sb = P(a, b), P(b, a), A(a, b), A(b, a)
        pairs_before[("prod", a, b)], pairs_before[("sum", a, b)] = pa, sa
        for nm, r in (("prod", pa), ("sum", sa)):
            if r[0] != "ok" or r[1] not in K:
                fail(f"total: {nm}({a},{b}) does not return a coefficient", {"op": nm, "args": [a, b]}, "a key", r)
        if pa != pb:
            fail("comm: product not commutative", {"op": "prod", "args": [a, b]}, pb, pa)
        if sa != sb:
            fail("comm: sum not commutative", {"op": "sum", "args": [a, b]}, sb, sa)
        if sa[0] == "ok" and sa[1] in order and order[sa[1]] != max(order[a], order[b]):
            fail("max: sum is not the maximum", {"op": "sum", "args": [a, b]}, K[max(order[a], order[b])], sa)
    for a in K:
        if A(a, a) != ("ok", a):
            fail("idem: sum not idempotent", {"op": "sum", "args": [a, a]}, a, A(a, a))
        if P("m", a) != ("ok", a) or P(a, "m") != ("ok", a):
            fail("unit: m not neutral for product", {"op": "prod", "args": ["m", a]}, a, [P("m", a), P(a, "m")])
        if A("o", a) != ("ok", a) or A(a, "o") != ("ok", a):
            fail("unit: o not neutral for sum", {"op": "sum", "args": ["o", a]}, a, [A("o", a), A(a, "o")])
        for nm, f in (("prod", P), ("sum", A)):
            if f("i", a) != ("ok", "i") or f(a, "i") != ("ok", "i"):
                fail(f"absorb: infinity does not absorb {nm}", {"op": nm, "args": ["i", a]}, "i", [f("i", a), f(a, "i")])
        if a != "i" and (P("o", a) != ("ok", "o") or P(a, "o") != ("ok", "o")):
            fail("annihilate: 0 does not annihilate a finite coefficient", {"op": "prod", "args": ["o", a]}, "o", [P("o", a), P(a, "o")])
    for a, b, c in itertools.product(K, K, K):
        ev += 1
        try:
            if S.prod_mwp(a, S.prod_mwp(b, c)) != S.prod_mwp(S.prod_mwp(a, b), c):
                fail("assoc: product not associative", {"args": [a, b, c]}, None, None)
            if S.sum_mwp(a, S.sum_mwp(b, c)) != S.sum_mwp(S.sum_mwp(a, b), c):
                fail("assoc: sum not associative", {"args": [a, b, c]}, None, None)
            if S.prod_mwp(a, S.sum_mwp(b, c)) != S.sum_mwp(S.prod_mwp(a, b), S.prod_mwp(a, c)):
                fail("distr: product does not distribute over sum (left)", {"args": [a, b, c]}, None, None)
            if S.prod_mwp(S.sum_mwp(a, b), c) != S.sum_mwp(S.prod_mwp(a, c), S.prod_mwp(b, c)):
                fail("distr: product does not distribute over sum (right)", {"args": [a, b, c]}, None, None)
        except Exception as e:
            fail("total: law evaluation raised", {"args": [a, b, c]}, "no exception", repr(e))
    # junk arguments must raise
    junk_all = JUNK + NONSTR + UNHASH
    nj = 0
    for j in junk_all:
        for k in K + [j]:
            for (x, y) in ((j, k), (k, j)):
                for nm, f in (("prod", P), ("sum", A)):
                    ev += 1; nj += 1
                    r = f(x, y)
                    if r[0] != "raise":
                        fail(f"nonkey: {nm} returns a value for a non-coefficient argument", {"op": nm, "args": [repr(x), repr(y)]}, "raise", r)
    # objects that merely LOOK like a coefficient: equal to one under a permissive __eq__, or carrying one inside
    # (an object that both compares equal to a coefficient AND hashes like it is that coefficient as far as a Python dict can tell:
    #  outside the claimed domain; the objects below are equal to a key under == only, or not equal to any)
    class Named:
        def __init__(self, n): self.n = n
        def __eq__(self, o): return o == self.n
        __hash__ = None
    objs = [Named("m"), Named("p")]
    try:
        from unittest import mock
        objs.append(mock.ANY)
    except Exception:
        pass
    try:
        from pymwp import Monomial, Polynomial
        objs += [Monomial("m"), Monomial("w"), Monomial("o"), Polynomial("m")]
    except Exception:
        pass
    for j in objs:
        for k in K + [j]:
            for (x, y) in ((j, k), (k, j)):
                for nm, f in (("prod", P), ("sum", A)):
                    ev += 1; nj += 1
                    r = f(x, y)
                    if r[0] != "raise":
                        fail(f"nonkey: {nm} returns a value for an argument that is not a coefficient (an object of class {type(j).__name__})",
                             {"op": nm, "args": [type(x).__name__ if not isinstance(x, str) else x, type(y).__name__ if not isinstance(y, str) else y]}, "raise", str(r)[:80])
    # arity: exactly two operands
    for nm, fn in (("prod", S.prod_mwp), ("sum", S.sum_mwp)):
        for args in (("m",), ("x",), (), ("m", "w", "p"), (["m", "w"],), ("mw",)):
            ev += 1; nj += 1
            try:
                r = fn(*args)
                fail(f"nonkey: {nm} returns a value when called with {len(args)} operand(s)", {"op": nm, "args": [repr(a) for a in args]}, "raise", repr(r)[:60])
            except Exception:
                pass
        try:
            if fn(scalar1="m", scalar2="w") != fn("m", "w"):
                fail(f"total: {nm} called with its documented parameter names differs", {"op": nm, "kwargs": True}, fn("m", "w"), None)
        except Exception as e:
            fail(f"total: {nm}(scalar1=, scalar2=) raises", {"op": nm, "kwargs": True}, "a coefficient", repr(e)[:80])
    # junk x junk (two different non-coefficients)
    for x, y in itertools.product(JUNK + NONSTR, JUNK + NONSTR):
        for nm, f in (("prod", P), ("sum", A)):
            ev += 1; nj += 1
            r = f(x, y)
            if r[0] != "raise":
                fail(f"nonkey: {nm} returns a value for a non-coefficient argument", {"op": nm, "args": [repr(x), repr(y)]}, "raise", r)
    # history: the laws hold whatever else of the module was called before (nothing the other public functions do may
    # change the tables or the key list)
    import inspect
    others = [(n, f) for n, f in vars(S).items() if callable(f) and not n.startswith("_") and getattr(f, "__module__", None) == S.__name__
              and n not in ("prod_mwp", "sum_mwp")]
    hist_args = [(["w", "m", "w"],), (["p"],), ([],), (["i", "o"],), (["m", "m"],), (list(K),), (list(reversed(K)),), ("wm",), (("o", "p"),)]
    ncalls = 0
    for n_, f_ in others:
        for args in hist_args:
            ncalls += 1
            try:
                f_(*[list(a) if isinstance(a, list) else a for a in args])
            except Exception:
                pass
    if list(S.KEYS) != K:
        fail("history: KEYS changed after calls to the module's other public functions", {"calls": [n for n, _ in others]}, K, list(S.KEYS))
    for a, b in itertools.product(K, K):
        ev += 1
        for nm, f, ref in (("prod", P, pairs_before[("prod", a, b)]), ("sum", A, pairs_before[("sum", a, b)])):
            r = f(a, b)
            if r != ref:
                fail(f"history: {nm}({a},{b}) changes after calls to the module's other public functions", {"op": nm, "args": [a, b], "calls": [n for n, _ in others]}, ref, r)
    samples.append({"pair": ["w", "p"], "prod": P("w", "p"), "sum": A("w", "p")})
    samples.append({"junk": ["oo", "m"], "prod": P("oo", "m")})

    # correspondence: generated lookups (Coq) vs real functions on strings
    ncorr = 0
    if ctx.coq_ok:
        strs = K + ["", "O", "M", "0", "mm", "x", " i", "i ", "inf", "oo", "P", "W", "I", "None", "om"]     # (a 4600-case literal takes minutes to type-check)
        strs = [s for s in strs if all(32 <= ord(c) < 127 for c in s)]
        cases = []
        for a, b in itertools.product(strs, strs):
            for nm, f in (("prod_src", P), ("sum_src", A)):
                r = f(a, b)
                exp = f"(Some {vlib.cq_str(r[1])})" if r[0] == "ok" and isinstance(r[1], str) else "None"
                cases.append(f"({nm}, {vlib.cq_str(a)}, {vlib.cq_str(b)}, {exp})")
        ncorr = len(cases)
        text = ("From Coq Require Import String List.\nFrom PM Require Import Semiring.\nImport ListNotations.\nOpen Scope string_scope.\n"
                "Definition opt_eqb (a b : option string) := match a, b with Some x, Some y => String.eqb x y | None, None => true | _, _ => false end.\n"
                "Definition cases : list ((string -> string -> option string) * string * string * option string) :=\n " + vlib.cq_list(cases) + ".\n"
                "Fixpoint bad (n : nat) (l : list ((string -> string -> option string) * string * string * option string)) : list nat :=\n"
                "  match l with [] => [] | (f, a, b, e) :: t => if opt_eqb (f a b) e then bad (S n) t else n :: bad (S n) t end.\n"
                "Eval vm_compute in bad 0 cases.\n")
        ok, out = vlib.coq_eval("c16_cases", text)
        vals = vlib.parse_eval_results(out)
        if not ok or not vals:
            mism.append("c16_cases.v did not evaluate: " + out[-400:])
        elif vals[0] != "[]":
            mism.append(f"generated tables disagree with real prod_mwp/sum_mwp at case indices {vals[0]}")
    else:
        mism.append("model not built: generated-table correspondence not run")
    stats = {"evaluations": ev + ncorr, "distinct_nontrivial": 25 + 125 + nj,
             "rule": "exhaustive: 25 pairs, 125 triples on the real prod_mwp/sum_mwp; junk args (strings, None, ints, unhashables) x keys both positions; "
                     "non-trivial = every case (finite domain enumerated completely)",
             "samples": samples, "exhaustive": True, "correspondence_cases": ncorr, "history_calls": ncalls, "other_public_functions": [n for n, _ in others]}
    return {"failing": failing, "corr_mismatch": mism, "stats": stats}


def replay(ctx, data):
    r = run(ctx)
    return r["failing"][0] if r["failing"] else None

LEVEL_TEXT = ("Machine-checked proof (finite case analysis, complete) of every law in the property over the tables regenerated from semiring.py on each run, "
              "plus a general lemma for non-coefficient arguments; the generated tables are compared with the real functions on all pairs.")
LEVEL_NOTE = "Trusted: Coq kernel, the semiring translator (validated against the real functions on every run). No axioms."
TECHNIQUE = "Coq proof by exhaustive case analysis over translator-generated tables + exhaustive differential run"
