"""C03: strict-mode bounds hold for every concrete execution (constant-free code).

search = the real tool in strict mode (Analysis.run(ast, strict=True)) on generated constant-free programs; for every
valid choice vector the matrix Relation.apply_choice(*c) and the bound triple Bound().calculate(...) read from it are
checked, column by column, against the exact final values computed by an independent symbolic executor
(tools/symexec.py) on every path (branch outcomes x iteration counts 0..K); a for-loop whose guard occurs in its body
must make strict mode refuse the function and, in non-strict mode, must leave the result of the program without that loop.
correspondence = coq/theories/Exec.v (vm_compute) against tools/symexec.py on the same (program, path) pairs, and
coq/theories/Analysis.v against the real analysis on the same programs."""
import itertools
import re
import vlib
import e2e
import cread
import gen_prog
import symexec as SX

ID = "C03"
LEVEL = "proof"
MODEL_TARGETS = ["theories/Exec.vo", "theories/Analysis.vo"]
TRANSLATORS = ["semiring", "rules"]
LEVEL_TEXT = ("Theorems in coq/props/C03.v: for every function, every choice vector with a derivation of the flow calculus (Calculus.v, built on the "
              "rule table regenerated from analysis.py on every run) and every execution path of the exact path-wise semantics (Exec.v: expanded "
              "polynomials, any branch outcomes and iteration counts), the final value of each variable has the shape its matrix column allows "
              "(C03_shape, all statement forms, no size bound); counted-loop guard lemmas; C03_reported / C03_reported_closed transfer this to the "
              "matrix the analysis model reports at every accepted vector (once with C01's finite_result statement as an explicit premise, once with "
              "it discharged by the closed theorem An_closed.finite_result). The real tool is tied in by a search: every valid vector's "
              "matrix column and bound triple against an independent symbolic executor on all paths up to K iterations, and by correspondence runs "
              "(Exec.v = the executor's semantics; Analysis.v = the real analysis on the same programs).")
LEVEL_NOTE = ("Trusted: Coq kernel; Exec.v as the specification of C executions of the fragment (no subtraction: '-' read as '+', as the calculus does; "
              "loop counts arbitrary; for-headers not executed); translators rules/semiring; the reader tools/cread.py; generators. The theorems are the "
              "property's shape clause, not the paper's quantitative soundness; the search additionally runs concrete executions (for-loop count = "
              "value of the guard) and requires every input a final value strictly grows with to be listed in its bound.")
TECHNIQUE = "Coq proof (induction along derivations over an exact path semantics) + symbolic-execution oracle search on the real tool + vm_compute correspondence"
EXPLANATION = "see LEVEL_TEXT"
ASSUMPTIONS = ["functions of the constant-free fragment (copies, + - * of variables, if/else, while/do-while, counted for-loops whose guard is not in the body)",
               "search: iteration counts 0..K (K=2 quick, 3 thorough), at most `cap` paths per program (all paths when fewer), k <= 6 sites"]

CORPUS = [
    ("paper-3.1", "int f(int X1,int X2,int X3){ X1 = X2 + X3; X1 = X1 + X1; }"),
    ("for-L-rule", "int f(int x,int y,int n,int i){ for(i=0;i<n;i++){ x = x + y; } }"),
    ("for-guard-in-body", "int f(int x,int y,int i){ for(i=0;i<x;i++){ x = x + y; } }"),
    ("for-guard-in-nested-body", "int f(int x,int y,int n,int i){ for(i=0;i<n;i++){ while(y>x){ n = x + y; } } }"),
    ("nested", "int f(int x,int y,int z){ while(x>0){ while(y>0){ z = z + x; } x = y + y; } }"),
    ("mul-then-add", "int f(int x,int y,int z){ x = y * z; y = x + z; if (x > y) { z = x; } else { z = y - x; } }"),
    ("for-nested-while", "int f(int x,int y,int z,int n,int i){ for(i=0;i<n;i++){ x = x + y; while(z>0){ y = y + z; } } }"),
    ("D7b-lost-infinity", "int f(int x,int y){ while(x>0){x=y+y;} if(x>0){x=y+y; while(x>0){x=y+y;} while(x>0){y=x+x;}} else {x=y*y;} }"),
    ("skips", "int f(int x,int y){ ; x = y + x; { } int t; y = x; }"),
    ("swap-second-operand", "int f(int a,int b){ b = a - b; while(a>0){ a = b + b; } }"),
]

# outside the fragment: the executor must answer "no execution" (both in Python and in Coq)
NEGATIVE = [
    ("constant", "int f(int x,int y){ x = 3; y = x + y; }"),
    ("constant-operand", "int f(int x,int y){ y = x + 1; }"),
    ("unary", "int f(int x,int y){ x = -y; }"),
    ("incr", "int f(int x,int y){ x++; }"),
]


def cfg_for(rng, max_sites):
    return gen_prog.Cfg(nvars=rng.choice([2, 3, 3, 4]), max_sites=rng.choice([2, 3, 4, max_sites]),
                        bias=rng.choice([None, None, None, None, "two-loops", "loops-in-branches", "for-accumulate", "for-accumulate", "chain-loop"]),
                        constants=False, sugar=False, skips=False,
                        max_depth=rng.choice([1, 2, 2, 3]), max_stmts=rng.choice([2, 3, 4, 5]))


def read_typed(src):
    """typed reading of the source as written (before the tool touches the AST)"""
    from pycparser import c_ast
    ast = e2e.parse(src)
    for ext in ast.ext:
        if isinstance(ext, c_ast.FuncDef):
            return cread.read_func(ext)
    return None


def triple_col(triple):
    col = {}
    for lst, s in zip(triple, "mwp"):
        for u in lst:
            col[u] = s
    return col


def examine(src, K, cap, rng, max_vecs=243):
    """everything C03 says about one program.  Returns dict: status, failing [...], counts, and the data the
    correspondence needs (typed function, variables, paths, final stores)."""
    out = {"src": src, "status": None, "failing": [], "paths": 0, "vectors": 0, "checks": 0, "exhaustive": False,
           "typed": None, "vs": None, "runs": [], "rec": None, "toobig": 0, "growth_pairs": 0, "growth_checks": 0}
    try:
        typed0 = read_typed(src)
    except cread.OutsideFragment:
        out["status"] = "unreadable"
        return out
    gfors = [s for st in typed0[2] for s in SX.fors(st) if SX.for_guard(s)[1]]
    r = e2e.run_real(src, False, True)
    if r["exc"]:
        out["status"] = "exc"
        if r["exc"][0] not in ("ParseError", "Timeout"):      # the 30 s limit is a harness safety net; termination is property C06
            out["failing"].append({"what": f"raise: Analysis.run(strict=True) raised {r['exc']}", "sig": ["C03", "raise", r["exc"][0], r["exc"][1]],
                                   "input": {"src": src}, "expected": "a result", "observed": r["exc"]})
        return out
    d = r["funcs"].get("f")
    if gfors:
        out["status"] = "guard-in-body"
        if d is not None:
            out["failing"].append({"what": "guard-in-body: strict mode analysed a function containing a for-loop whose guard variable occurs in its body",
                                   "sig": ["C03", "guard-in-body", "strict-accepted"], "input": {"src": src},
                                   "expected": "function refused", "observed": "function analysed"})
        return out
    if d is None:
        out["status"] = "refused"
        return out
    f = d["typed"]
    if f is None or not all(SX.in_fragment(s) for s in f[2]):
        out["status"] = "outside"
        return out
    out["typed"], out["rec"] = f, d
    vs = list(d["variables"])
    out["vs"] = vs
    # a function without derivation has nothing to compare its executions with: only a few short paths are run (material for the
    # executor correspondence); the symbolic values of such functions grow doubly exponentially with the iteration counts
    if d["infinite"]:
        paths, exh = SX.func_paths(f, 1, 4, rng)
    else:
        paths, exh = SX.func_paths(f, K, cap, rng)
    out["exhaustive"] = exh
    runs = []
    for p in paths:
        try:
            st = SX.exec_func(p, f, vs)
        except SX.TooBig:
            out["toobig"] += 1
            continue
        if st is None:
            out["failing"].append({"what": "executor: a generated path does not fit the program (harness)", "sig": ["C03", "harness"],
                                   "input": {"src": src, "path": repr(p)}, "expected": "a store", "observed": None})
            continue
        runs.append((p, st, {v: SX.summary(st[v]) for v in vs}))
    out["runs"] = runs
    out["paths"] = len(runs)
    if d["infinite"]:
        out["status"] = "infinite"
        return out
    grows = SX.growth(f, vs)
    out["growth_pairs"] = len(grows)
    out["status"] = "ok"
    k = d["index"]
    rel = d.get("apply")
    if rel is None or d["valid"] is None:
        out["status"] = "big"
        return out
    from pymwp.bound import Bound
    vecs = [c for c, ok in zip(itertools.product((0, 1, 2), repeat=k), d["valid"]) if ok]
    if len(vecs) > max_vecs:
        rng.shuffle(vecs)
        vecs = vecs[:max_vecs]
    out["vectors"] = len(vecs)
    for c in vecs:
        sr = rel.apply_choice(*c)
        mat, mv = sr.matrix, list(sr.variables)
        bd = Bound().calculate(sr).bound_dict
        for j, v in enumerate(mv):
            col = {u: mat[i][j] for i, u in enumerate(mv)}
            bcol = triple_col(bd[v].bound_triple)
            if {u: s for u, s in col.items() if s in "mwp"} != bcol:
                out["failing"].append({"what": f"bound-triple: bound of {v} at choice {list(c)} is not its matrix column", "sig": ["C03", "bound-triple"],
                                       "input": {"src": src, "choice": list(c), "var": v}, "expected": col, "observed": bcol})
                return out
            for (u, v2), wit in grows.items():
                if v2 != v:
                    continue
                out["growth_checks"] += 1
                if bcol.get(u, "o") == "o":
                    out["failing"].append({
                        "what": f"growth: the final value of {v} strictly grows with the input {u} (from {wit['final_values'][0]} to {wit['final_values'][1]} when {u} "
                                f"goes from {wit['values_of_input'][0]} to {wit['values_of_input'][1]}, other inputs 2) but {u} is not in the bound {bcol} of {v} "
                                f"at choice {list(c)}",
                        "sig": ["C03", "growth", "input-not-listed"],
                        "input": {"src": src, "choice": list(c), "var": v, "run": wit},
                        "expected": f"{u} listed in the bound of {v}", "observed": bcol})
                    return out
            for (p, st, summ) in runs:
                if v not in summ:
                    continue
                out["checks"] += 1
                for name, cc in (("matrix-column", col), ("bound-triple", bcol)):
                    bad = SX.shape_violations(cc, summ[v])
                    if bad:
                        out["failing"].append({
                            "what": f"shape: final value of {v} = {SX.show_val(st[v])} breaks its bound ({name} {cc}) at choice {list(c)}: {', '.join(bad)}",
                            "sig": ["C03", "shape", bad[0]],
                            "input": {"src": src, "choice": list(c), "var": v, "path": repr(p)},
                            "expected": f"value of shape allowed by {cc}", "observed": SX.show_val(st[v], 40)})
                        return out
    return out


# ---------------- non-strict: a guard-in-body loop contributes nothing ----------------

def drop_guard_fors(ss):
    """copy of a generated tree with every for-loop whose guard name occurs in the text of its body replaced by ';'
    (nonstrict_check re-reads the rendered text and makes sure no such loop is left)"""
    out = []
    for s in ss:
        k = s[0]
        if k == "for":
            body = [s[4]]
            txt = gen_prog.render_stmt(s[4])
            if re.search(r"\b%s\b" % re.escape(s[6]), txt):
                out.append(("s", ";"))
            else:
                out.append(s[:4] + (drop_guard_fors(body)[0],) + s[5:])
        elif k == "block":
            out.append(("block", drop_guard_fors(s[1])))
        elif k in ("while", "dowhile"):
            out.append((k, s[1], drop_guard_fors([s[2]])[0]))
        elif k == "if":
            out.append(("if", s[1], drop_guard_fors([s[2]])[0], drop_guard_fors([s[3]])[0] if s[3] is not None else None))
        else:
            out.append(s)
    return out


def nonstrict_check(src, ss, vars_):
    """non-strict mode: the result equals the result of the program with the guard-in-body loops deleted"""
    extra = sorted(gen_prog.collect_for_vars(ss, set()) - set(vars_))
    src2 = gen_prog.render(drop_guard_fors(ss), list(vars_) + extra)
    try:
        t2 = read_typed(src2)
    except cread.OutsideFragment:
        return None
    if any(SX.for_guard(s)[1] for st in t2[2] for s in SX.fors(st)):
        return None     # the textual test missed one (cannot happen for generated names); skip
    a = e2e.run_real(src, False, False)
    b = e2e.run_real(src2, False, False)
    if a["exc"] or b["exc"]:
        return None
    da, db = a["funcs"].get("f"), b["funcs"].get("f")
    if da is None or db is None:
        return None
    def obs(d):
        o = {"infinite": d["infinite"], "index": d["index"], "variables": d["variables"], "valid": d["valid"], "bound": d["bound"]}
        rel = d.get("apply")
        if rel is not None and d["valid"] is not None and not d["infinite"]:
            o["matrices"] = [rel.apply_choice(*c).matrix
                             for c, ok in zip(itertools.product((0, 1, 2), repeat=d["index"]), d["valid"]) if ok]
        return o
    oa, ob = obs(da), obs(db)
    if oa != ob:
        diff = [k for k in oa if oa[k] != ob.get(k)]
        return {"what": "guard-in-body: non-strict result (verdict, degree, variables, valid vectors, their matrices, bound) differs from the result "
                        f"without the for-loop whose guard occurs in its body (fields {diff})", "sig": ["C03", "guard-in-body", "nonstrict-counted"],
                "input": {"src": src, "without_loop": src2}, "expected": "equal results", "observed": diff}
    return True


# ---------------- shrinking ----------------

def variants(ss):
    """smaller versions of a generated statement list"""
    for i, s in enumerate(ss):
        yield ss[:i] + ss[i + 1:]
        k = s[0]
        subs = []
        if k == "block":
            subs = [("block", v) for v in variants(s[1])] + [x for x in s[1][:1]]
        elif k in ("while", "dowhile"):
            subs = [s[2]] + [(k, s[1], v[0]) for v in variants([s[2]]) if len(v) == 1]
        elif k == "if":
            subs = [s[2]]
            if s[3] is not None:
                subs += [s[3], ("if", s[1], s[2], None)]
                subs += [("if", s[1], s[2], v[0]) for v in variants([s[3]]) if len(v) == 1]
            subs += [("if", s[1], v[0], s[3]) for v in variants([s[2]]) if len(v) == 1]
        elif k == "for":
            subs = [s[4]] + [s[:4] + (v[0],) + s[5:] for v in variants([s[4]]) if len(v) == 1]
        for sub in subs:
            yield ss[:i] + [sub] + ss[i + 1:]


def shrink(ss, vars_, sig, K, cap, rng, budget=60):
    extra = sorted(gen_prog.collect_for_vars(ss, set()) - set(vars_))
    params = list(vars_) + extra
    best, best_f = ss, None
    progress = True
    while progress and budget > 0:
        progress = False
        for cand in variants(best):
            if budget <= 0:
                break
            budget -= 1
            try:
                src = gen_prog.render(cand, params)
                ex = examine(src, K, cap, rng, max_vecs=81)
            except Exception:
                continue
            hit = [f for f in ex["failing"] if f["sig"][:2] == sig[:2]]
            if hit:
                best, best_f, progress = cand, hit[0], True
                break
    return best_f


# ---------------- Coq side: Exec.v against symexec.py ----------------

EXEC_HEADER = ("From Coq Require Import String List Bool Arith.\nFrom PM Require Import Semiring Poly Rel Analysis Exec.\n"
               "Import ListNotations.\nOpen Scope string_scope.\nOpen Scope list_scope.\n"
               "(* a value as a multiset: monomials compared up to the order of their variables *)\n"
               "Definition count_mono (k : list string) (val : poly_n) : nat :=\n"
               "  length (filter (fun m => list_eqb String.eqb (sort_str m) k) val).\n"
               "Definition chk_val (val : poly_n) (e : list (list string * nat)) : bool :=\n"
               "  Nat.eqb (length val) (fold_right (fun kn a => snd kn + a) 0 e) &&\n"
               "  forallb (fun kn => Nat.eqb (count_mono (fst kn) val) (snd kn)) e.\n"
               "Definition case := (func_src * path * option (list (string * list (list string * nat))))%type.\n"
               "Definition chk (c : case) : bool :=\n"
               "  let '(f, p, e) := c in\n"
               "  match exec_func p f, e with\n"
               "  | Some st, Some vs => forallb (fun ve => chk_val (st (fst ve)) (snd ve)) vs\n"
               "  | None, None => true\n"
               "  | _, _ => false\n"
               "  end.\n"
               "Fixpoint bad (n : nat) (l : list case) : list nat :=\n"
               "  match l with [] => [] | c :: t => if chk c then bad (S n) t else n :: bad (S n) t end.\n")


def cq_expected(st, vs):
    if st is None:
        return "None"
    items = []
    for v in vs:
        ms = vlib.cq_list(["(%s, %d)" % (cread.ql(list(m)), c) for m, c in sorted(st[v].items())])
        items.append("(%s, %s)" % (cread.q(v), ms))
    return "(Some %s)" % vlib.cq_list(items)


def coq_exec_compare(tag, cases, shard=200):
    """cases: list of (label, typed func, path, store|None, vars)"""
    jobs, mism = [], []
    shards = [cases[i:i + shard] for i in range(0, len(cases), shard)]
    for si, sh in enumerate(shards):
        lits = ["(%s, %s, %s)" % (cread.cq_func(f), SX.cq_path(p), cq_expected(st, vs)) for (_, f, p, st, vs) in sh]
        text = EXEC_HEADER + "Definition cases : list case :=\n " + vlib.cq_list(lits) + ".\nEval vm_compute in bad 0 cases.\n"
        jobs.append((f"{tag}_exec_s{si}", text))
    outs = vlib.coq_eval_many(jobs, timeout=900)
    for si, sh in enumerate(shards):
        ok, out = outs[f"{tag}_exec_s{si}"]
        vals = vlib.parse_eval_results(out)
        if not ok or not vals:
            mism.append(f"stream {tag}-exec shard {si}: coqc failed: {out[-400:]}")
        elif vals[0] != "[]":
            idx = [int(x) for x in vals[0].strip("[]").split(";") if x.strip()]
            lab, f, p, st, vs = sh[idx[0]]
            mism.append(f"stream {tag}-exec shard {si}: Exec.v and tools/symexec.py differ on {len(idx)} (program, path) pairs; first: {lab!r} path {SX.cq_path(p)}")
    return mism


# ---------------- entry points ----------------

def store_size(st):
    """number of variable occurrences in the expanded values (what the Coq side has to build)"""
    return sum(c * (len(m) + 1) for v in st.values() for m, c in v.items())


def _ss_worker(args):
    """everything C03 says about one small-scope program"""
    import random
    label, src, extra = args
    K, cap = extra
    ex = examine(src, K, cap, random.Random(label))
    fl = []
    for f in ex["failing"]:
        f = dict(f)
        f["what"] = "[small scope] " + str(f.get("what"))
        fl.append(f)
    return fl, {str(ex["status"]): 1, "paths": ex["paths"], "checks": ex["checks"]}


def run(ctx):
    vlib.import_pymwp()
    K = ctx.n(2, 3)
    cap = ctx.n(120, 300)
    n = ctx.n(700, 2000)
    max_sites = ctx.n(5, 6)
    progs = [(lab, src, None, None) for lab, src in CORPUS]
    for i in range(n):
        src, ss, vars_ = gen_prog.gen_function(ctx.rng, cfg_for(ctx.rng, max_sites))
        progs.append((f"gen{i}", src, ss, vars_))
    failing, mism = [], []
    import time
    t0 = time.time()
    status = {}
    tot = {"paths": 0, "vectors": 0, "checks": 0, "exhaustive": 0, "toobig": 0, "nonstrict_guard_checks": 0, "growth_pairs": 0, "growth_checks": 0}
    exec_cases, model_cases, recs, samples = [], [], [], []
    kinds = {"while": 0, "for": 0, "if": 0, "mul": 0}
    nshrunk = 0
    for lab, src, ss, vars_ in progs:
        if len(failing) >= 12:
            break       # enough witnesses; the first ones are shrunk
        ex = examine(src, K, cap, ctx.rng)
        status[ex["status"]] = status.get(ex["status"], 0) + 1
        for fl in ex["failing"]:
            if ss is not None and nshrunk < 3 and fl["sig"][1] in ("shape", "guard-in-body", "bound-triple", "growth"):
                nshrunk += 1
                small = shrink(ss, vars_, fl["sig"], K, cap, ctx.rng)
                if small:
                    small["shrunk_from"] = src
                    fl = small
            failing.append(fl)
        if ex["status"] == "guard-in-body" and ss is not None:
            r = nonstrict_check(src, ss, vars_)
            if r is True:
                tot["nonstrict_guard_checks"] += 1
            elif r:
                failing.append(r)
        for kk in ("paths", "vectors", "checks", "toobig", "growth_pairs", "growth_checks"):
            tot[kk] += ex[kk]
        if ex["typed"] is not None:
            tot["exhaustive"] += 1 if ex["exhaustive"] else 0
            recs.append(ex["rec"])
            txt = repr(ex["typed"])
            for kk, pat in (("while", "'while'"), ("for", "'for'"), ("if", "'if'"), ("mul", "'*'")):
                kinds[kk] += 1 if pat in txt else 0
            # correspondence material: the longest path and one random path of this program
            runs = [r for r in ex["runs"] if store_size(r[1]) <= 1000]
            if runs:
                pick = [max(runs, key=lambda r: len(repr(r[0])))]
                pick.append(ctx.rng.choice(runs))
                for (p, st, _) in pick[:2] if len(runs) > 1 else pick[:1]:
                    exec_cases.append((lab, ex["typed"], p, st, ex["vs"]))
            d = ex["rec"]
            if d["index"] <= 5 and d["valid"] is not None and len(model_cases) < ctx.n(60, 400):
                model_cases.append((f"{lab}\n{src}", d, True))
            if len(samples) < 3 and ex["status"] == "ok" and ex["vectors"] and "'while'" in txt:
                samples.append({"src": src, "paths": ex["paths"], "valid_vectors": ex["vectors"]})
    import streams
    ssf, ssinfo = streams.small_scope_map(ctx, _ss_worker, 2500, extra=(K, cap))
    # the closure every bound of a loop is read from (unit level: chain / rotation bodies against the scalar closure)
    import unitcorr
    try:
        unitcorr.rel_chain_fix(ctx, ctx.n(60, 600), failing, "C03")
    except Exception as e:
        mism.append(f"chain-fixpoint stream: harness error {type(e).__name__}: {e}")
    failing += ssf
    tot["small_scope"] = ssinfo
    # cases outside the fragment / ill-fitting paths: "no execution" on both sides
    for lab, src in NEGATIVE:
        f = read_typed(src)
        p = ("seq", [("leaf",) for _ in f[2]])
        vs = sorted(set(f[1]) | set().union(*[SX.body_vars(s) for s in f[2]]))
        exec_cases.append((lab, f, p, SX.exec_func(p, f, vs), vs))
    for (lab, f, p, st, vs) in list(exec_cases[:10]):
        bad_p = ("seq", p[1] + [("leaf",)])
        exec_cases.append((lab + "/long-path", f, bad_p, SX.exec_func(bad_p, f, vs), vs))
    lim = ctx.n(200, 600)
    if len(exec_cases) > lim:
        head = exec_cases[:len(CORPUS)]
        rest = exec_cases[len(CORPUS):]
        ctx.rng.shuffle(rest)
        exec_cases = head + rest[:lim - len(head)]
    t1 = time.time()
    if ctx.coq_ok:
        mism += coq_exec_compare("c03", exec_cases)
        t2 = time.time()
        mism += e2e.coq_compare("c03", model_cases)
        t3 = time.time()
        vlib.log(f"C03 timings: search {t1-t0:.1f}s, exec correspondence {t2-t1:.1f}s, model correspondence {t3-t2:.1f}s")
    else:
        mism.append("model not built: Exec.v / Analysis.v correspondence not run")
    analysed = status.get("ok", 0) + status.get("infinite", 0)
    if analysed and (status.get("ok", 0) < 0.3 * len(progs) or tot["checks"] == 0 or kinds["while"] + kinds["for"] == 0):
        mism.append(f"generator degenerate: {status} {kinds}")
    distinct = len({repr(d["typed"]) for d in recs if d and not d["infinite"] and d["index"] >= 1 and
                    any(t in repr(d["typed"]) for t in ("'while'", "'for'", "'if'"))})
    stats = {"evaluations": tot["checks"] + tot["small_scope"]["outcomes"].get("checks", 0), "distinct_nontrivial": distinct,
             "rule": f"generated constant-free C functions (copies, + - *, if/else, while/do-while, for with guard outside / inside the body, nested) "
                     f"in strict mode; every valid choice vector x every path (iteration counts 0..{K}; all paths when <= {cap}, else {cap} random) x every "
                     "variable: matrix column and bound triple against the exact final value; evaluations = (vector, path, variable) shape checks; "
                     "non-trivial = distinct analysed, not infinite typed function with >= 1 site and a loop or branch",
             "samples": samples, "programs": len(progs), "status": status, "paths": tot["paths"], "valid_vectors": tot["vectors"],
             "programs_with_all_paths": tot["exhaustive"], "paths_skipped_value_too_big": tot["toobig"],
             "nonstrict_guard_in_body_checks": tot["nonstrict_guard_checks"],
             "growth_pairs": tot["growth_pairs"], "growth_checks": tot["growth_checks"], "statement_kinds": kinds,
             "coq_exec_cases": len(exec_cases), "coq_model_cases": len(model_cases), "K": K, "cap": cap, "small_scope": tot["small_scope"]}
    return {"failing": failing, "corr_mismatch": mism, "stats": stats}


def replay(ctx, data):
    vlib.import_pymwp()
    inp = data.get("input", data)
    if "src" not in inp:
        import unitcorr
        return unitcorr.replay_unit(inp, "C03")
    ex = examine(inp["src"], ctx.n(2, 3), ctx.n(120, 300), ctx.rng)
    return ex["failing"][0] if ex["failing"] else None

