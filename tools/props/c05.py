"""C05: strict mode never silently ignores a statement that changes a variable.

Search (real pymwp): C functions from a grammar biased to the edge of the supported list (labels, comma
expressions, nested unary operators, casts, effects inside conditions / return / assert, expression
statements ...), parsed with pycparser.  When Coverage(f).full:
  * no "Unsupported syntax" warning may come out of the analysis of f (logger pymwp.analysis, observed
    per compute_relation call);
  * every EFFECT SITE of f (an assignment, a ++/--, a call other than assert/assume; operands of sizeof
    excepted) must be a node the analysis dispatched a rule on: an Assignment / ++/-- statement handed to
    compute_relation without warning, or the ++/-- that is the whole right side of such an assignment;
    sites in if/while/do-while/for CONDITIONS get their own kind;
  * an independent grammar of what the analysis can model (spec_modelable) must agree with the above.
Signatures are computed from the shrunk witness: (kind, container, site kind).
Correspondence (Coq model vs real code, compared in Coq): Coverage omit paths, the sequence of
compute_relation calls with their unsupported flag (dispatch_events), the spec verdict c05_bad.
"""
from copy import deepcopy

import vlib
import pyc_dump as D
import syntax_common as S

ID = "C05"
LEVEL = "proof"
TRANSLATORS = ["syntax", "pycschema"]
MODEL_TARGETS = ["theories/Syntax.vo", "theories/FileIO.vo"]
COQ_TARGETS = ["theories/FileIO.vo"]      # imported by the shared correspondence header (syntax_common.COQ_HEADER)
EXPLANATION = ("Theorems over all trees about the executable model of the gate (Coverage) and of the dispatch of Analysis.compute_relation: "
               "on the unchanged tree the full-strength statements are refuted by vm_compute witnesses that replay on the real code; "
               "the model is tied to /repo by generated dispatch tables and correspondence of omit paths and compute_relation call sequences.")
ASSUMPTIONS = ["only the DISPATCH of the analysis is modelled here (which rule a statement reaches); the relation algebra is modelled elsewhere",
               "the early exit taken when the delta graph proves infinity is not modelled: correspondence cases in which it fires are skipped and counted",
               "effects in for-loop init / next expressions are the loop's iteration header and are not counted as ignored effects"]
LEVEL_TEXT = ("Machine-checked theorems about an executable Coq model of the syntax gate and of the analysis dispatch over all generic trees; "
              "an accepted counted loop has one source of iteration and its guard does not occur in the body (C05_accepted_*); "
              "model tied to the code by generated tables, pinned method bodies + differential correspondence; real-code search with independent oracles.")
LEVEL_NOTE = "Trusted: Coq kernel, translators, pyc_dump, harness. No axioms."
TECHNIQUE = "Coq proof over a generic AST + grammar-based search with an independent oracle + model/code correspondence"

INCDEC = {"++", "--", "p++", "p--"}


# ---------------------------------------------------------------------------
# independent oracle
# ---------------------------------------------------------------------------

def cls(n):
    return type(n).__name__


def is_noop_call(n):
    return cls(n) == "FuncCall" and cls(n.name) == "ID" and n.name.name in ("assert", "assume")


def site_kind(n):
    c = cls(n)
    if c == "Assignment":
        return "Assignment"
    if c == "UnaryOp" and n.op in INCDEC:
        return "IncDec"
    if c == "FuncCall" and not is_noop_call(n):
        return "Call"
    return None


def effect_sites(n, pre=(), out=None):
    """[(path, node)] of effect sites below/at n; operands of sizeof are not evaluated"""
    out = [] if out is None else out
    if site_kind(n):
        out.append((list(pre), n))
    if cls(n) == "UnaryOp" and n.op == "sizeof":
        return out
    for s, i, c in D.children(n):
        effect_sites(c, pre + ((s, i),), out)
    return out


def effect_free(n):
    return n is None or not effect_sites(n)


def strip_casts(n):
    while n is not None and cls(n) == "Cast":
        n = n.expr
    return n


def is_atom(n):
    return n is not None and cls(n) in ("ID", "Constant")


def spec_stmt(n, counted):
    """can the analysis give this statement its flow (None = a missing else branch)"""
    if n is None:
        return True
    c = cls(n)
    if c in ("Break", "Continue", "EmptyStatement"):
        return True
    if c == "Decl":
        return n.init is None
    if c == "Return":
        return effect_free(n.expr)
    if c == "Compound":
        return all(spec_stmt(x, counted) for x in (n.block_items or []))
    if c == "If":
        return effect_free(n.cond) and spec_stmt(n.iftrue, counted) and spec_stmt(n.iffalse, counted)
    if c in ("While", "DoWhile"):
        return effect_free(n.cond) and spec_stmt(n.stmt, counted)
    if c == "For":
        return counted(n) and effect_free(n.cond) and spec_stmt(n.stmt, counted)
    if c == "FuncCall":
        return is_noop_call(n) and effect_free(n.args)
    if c == "UnaryOp":
        if n.op in INCDEC:
            return cls(strip_casts(n.expr)) == "ID"
        return effect_free(n.expr)           # an expression statement without effect: nothing to model
    if c == "Assignment":
        if n.op != "=" or cls(n.lvalue) != "ID":
            return False
        r = n.rvalue.expr if cls(n.rvalue) == "Cast" else n.rvalue
        if is_atom(r):
            return True
        if cls(r) == "BinaryOp":
            return r.op in ("+", "-", "*") and is_atom(strip_casts(r.left)) and is_atom(strip_casts(r.right))
        if cls(r) == "UnaryOp":
            if r.op == "sizeof":
                return True
            if r.op == "!":
                return effect_free(r.expr)
            if r.op in INCDEC | {"+", "-"}:
                return is_atom(r.expr)
        return False
    # any other expression statement: harmless only without an effect
    return False


def describe(n, container=False):
    """class-level description used in signatures (operators folded into families)"""
    c = cls(n)
    if c == "UnaryOp":
        return "ExprStmt(UnaryOp)" if container else f"UnaryOp({'++/--' if n.op in INCDEC else n.op})"
    if c == "FuncCall":
        return "Assert/Assume" if is_noop_call(n) else "FuncCall"
    if c == "Assignment":
        r = n.rvalue.expr if cls(n.rvalue) == "Cast" else n.rvalue
        if r is not None and cls(r) == "UnaryOp":
            fam = "++/--" if r.op in INCDEC else ("sign" if r.op in ("+", "-") else r.op)
            return f"Assignment=UnaryOp({fam})/{cls(r.expr)}"
        return f"Assignment{n.op}{cls(r)}" if n.op == "=" else f"Assignment({n.op})"
    return c


COND_OWNERS = ("If", "While", "DoWhile", "For")


def check_func(src):
    """Returns (failing list, info) for the LAST function of src; info None when src does not parse."""
    from pymwp import Coverage
    try:
        ast = S.parse(src)
    except Exception:
        return [], None
    f = ast.ext[-1]
    info = {"full": None, "exc": None, "sites": 0, "early_exit": False, "warnings": 0, "spec": None, "header_effects": 0}
    fails = []

    def fail(what, sig, exp, obs):
        fails.append({"what": what, "sig": ["C05"] + sig, "input": {"src": src}, "expected": exp, "observed": obs})
    try:
        full = Coverage(deepcopy(f)).full
    except Exception as e:
        info["exc"] = vlib.exc_sig(e)
        return fails, info
    info["full"] = full
    if not full:
        return fails, info

    def counted(n):
        return Coverage.loop_compat(n)[0]
    body = f.body
    try:
        info["spec"] = spec_stmt(body, counted)
    except Exception as e:          # loop_compat raises on some for-headers (init_vars): not this property's business
        info["spec"] = None
        info["exc"] = vlib.exc_sig(e)
    try:
        visits, dinfo = vlib.with_timeout(S.observe_dispatch, 10, f)
    except vlib.CaseTimeout:
        info["exc"] = ["timeout", None]
        return fails, info
    info["early_exit"] = dinfo["early_exit"]
    info["warnings"] = len(dinfo["warnings"])
    if dinfo["exc"]:
        info["exc"] = dinfo["exc"]
    node_at = lambda p: _node_at(f, p)
    warned = [v[0] for v in visits if v[1] and v[0] is not None]
    # a statement is given its flow when a flow rule ran for it (binary_op / constant / id), without warning
    ok_paths = {tuple(map(tuple, v[0])) for v in visits if not v[1] and v[2] and v[0] is not None}
    all_visited = {tuple(map(tuple, v[0])) for v in visits if v[0] is not None}
    sites = effect_sites(f.body, (("body", 0),))
    info["sites"] = len(sites)
    # 1. warnings
    for p in warned:
        n = node_at(p)
        has_eff = bool(effect_sites(n))
        kind = "covered-but-skipped" if has_eff else "covered-but-skipped-noeffect"
        fail(f"{kind}: the gate accepts the function but the analysis skips `{_c(n)}` with an 'Unsupported syntax' warning",
             [kind, describe(n)], "no 'Unsupported syntax' warning for an accepted function", dinfo["warnings"][:3])
    # 2. effect sites
    warned_t = [tuple(map(tuple, p)) for p in warned]
    for p, e in sites:
        tp = tuple(map(tuple, p))
        if any(tp[:len(w)] == w for w in warned_t):
            continue                               # inside a statement already reported as skipped
        # in a condition / for header?
        owner = None
        for k in range(len(tp) - 1, -1, -1):
            s = tp[k][0]
            par = node_at([list(x) for x in tp[:k]])
            if s == "cond" and cls(par) in COND_OWNERS:
                owner = ("cond", par)
                break
            if s in ("init", "next") and cls(par) == "For":
                owner = ("header", par)
                break
        if owner and owner[0] == "header":
            info["header_effects"] += 1
            continue
        if owner:
            # only conditions of statements the analysis actually entered
            ptp = _path_of(f, owner[1])
            if ptp in all_visited or dinfo["early_exit"] is False:
                fail(f"effect-in-condition: `{_c(e)}` in the condition of a {cls(owner[1])} is accepted by the gate and never analysed",
                     ["effect-in-condition", site_kind(e)], "condition without effect, or function not fully supported", _c(owner[1].cond))
            continue
        accounted = False
        k = site_kind(e)
        if k == "Assignment" and tp in ok_paths:
            accounted = True
        elif k == "IncDec":
            if tp in ok_paths and cls(strip_casts(e.expr)) == "ID":
                accounted = True
            else:
                # the whole (possibly once-cast) right side of a dispatched assignment, operand an ID
                for up in (1, 2):
                    if len(tp) >= up:
                        par = node_at([list(x) for x in tp[:-up]])
                        if cls(par) == "Assignment" and tp[:-up] in ok_paths and cls(e.expr) == "ID":
                            r = par.rvalue.expr if cls(par.rvalue) == "Cast" else par.rvalue
                            if r is e:
                                accounted = True
        if accounted:
            continue
        if dinfo["early_exit"] or dinfo["exc"]:
            continue                               # statements after an exit / a crash are not visited at all
        # nearest dispatched ancestor
        cont = None
        for kk in range(len(tp), -1, -1):
            if tp[:kk] in all_visited:
                cont = node_at([list(x) for x in tp[:kk]])
                break
        cd = describe(cont, container=True) if cont is not None else "none"
        fail(f"effect-ignored: `{_c(e)}` inside `{_c(cont) if cont is not None else '?'}` is accepted by the gate and given no flow (no warning)",
             ["effect-ignored", cd, k], "every effect site dispatched to a rule", "no rule applied")
    # 2a. every loop / conditional the analysis can reach is itself handed to a rule (a loop whose body is analysed as
    #     straight-line code, without the loop rule, has not been given its flow)
    if not dinfo["early_exit"] and not dinfo["exc"]:
        def ctls(n, pre, out):
            if cls(n) in COND_OWNERS:
                out.append((pre, n))
            for s_, i_, c_ in D.children(n):
                if s_ in ("cond", "init", "next"):
                    continue
                ctls(c_, pre + ((s_, i_),), out)
            return out
        for tp, cn in ctls(f.body, (("body", 0),), []):
            if any(tp[:len(w)] == w for w in warned_t) or tp in all_visited:
                continue
            if any(cls(node_at([list(x) for x in tp[:k]])) in ("Switch", "Label", "Case", "Default") for k in range(1, len(tp))):
                continue
            fail(f"control-not-dispatched: the {cls(cn)} statement `{_c(cn)[:80]}` of an accepted function is never handed to its rule (no warning)",
                 ["control-not-dispatched", cls(cn)], "every loop / conditional dispatched", "not dispatched")
    # 2b. for headers: a variable copied into the loop header by ANY initialiser is either the guard X or an iterator
    #     (an initialiser whose source is dropped from the guard computation is an ignored effect `j = y`)
    def fors(n, out):
        if cls(n) == "For":
            out.append(n)
        for _, _, c in D.children(n):
            fors(c, out)
        return out
    for fn in fors(f.body, []):
        try:
            okc, xvar = Coverage.loop_compat(fn)
        except Exception:
            continue
        if not okc:
            continue
        init = fn.init
        items = [] if init is None else (init.decls if cls(init) == "DeclList" else (init.exprs if cls(init) == "ExprList" else [init]))
        lv, srcs = set(), set()
        for it in items:
            if cls(it) == "Decl":
                lv.add(it.name)
                if it.init is not None and cls(it.init) == "ID":
                    srcs.add(it.init.name)
            elif cls(it) == "Assignment":
                if cls(it.lvalue) == "ID":
                    lv.add(it.lvalue.name)
                if cls(it.rvalue) == "ID":
                    srcs.add(it.rvalue.name)
        nxt = set()

        def ids(n):
            if n is None:
                return
            if cls(n) == "ID":
                nxt.add(n.name)
            for _, _, c in D.children(n):
                ids(c)
        ids(fn.next)
        # the guard of an accepted counted loop is not read or written by an assignment / ++ / -- of the body (independent scan;
        # props/C05.v: C05_accepted_guard_not_in_body is the model-side statement)
        def uses(n, acc, live):
            c_ = cls(n)
            if c_ == "UnaryOp" and n.op == "sizeof":
                return
            if c_ == "FuncCall" and is_noop_call(n):
                return
            if c_ == "Label":
                return      # the analysis skips a labelled statement as a whole (open finding covered-but-skipped Label)
            here = live or c_ == "Assignment" or (c_ == "UnaryOp" and n.op in INCDEC)
            if c_ == "ID" and here:
                acc.add(n.name)
            for s_, _, ch in D.children(n):
                if s_ == "cond" and c_ in COND_OWNERS:
                    continue      # an effect in a condition is reported as effect-in-condition (open finding), not here
                uses(ch, acc, here)
        used = set()
        if fn.stmt is not None:
            uses(fn.stmt, used, False)
        if xvar in used:
            fail(f"guard-in-body-accepted: for-loop accepted as `loop {xvar}` although an assignment / ++ / -- in its body reads or writes {xvar}",
                 ["guard-in-body-accepted"], "a counted loop whose guard does not occur in the body", _c(fn)[:200])
        dropped = sorted(srcs - lv - nxt - {xvar})
        if dropped:
            fail(f"header-source-dropped: for-loop accepted as `loop {xvar}` although its header also copies {dropped} into an iterator; that flow is ignored",
                 ["header-source-dropped"], "a for header with one guard variable", _c(fn.init))
    # 3. the independent grammar must tell the same story (effect-free skipped statements aside)
    hard = [x for x in fails if x["sig"][1] != "covered-but-skipped-noeffect"]
    if not dinfo["early_exit"] and not dinfo["exc"] and info["spec"] is not None:
        if info["spec"] and hard:
            fail("oracle: spec grammar calls the function modelable but the analysis skipped / ignored something", ["oracle-disagreement", "spec-modelable"],
                 "agreement", [x["sig"] for x in hard][:3])
        if not info["spec"] and not fails:
            fail("oracle: spec grammar calls the function NOT modelable, the gate accepts it, and no skip / ignored effect was observed",
                 ["oracle-disagreement", "spec-not-modelable"], "agreement", "nothing observed")
    return fails, info


def _c(n):
    try:
        return " ".join(D.to_c(n).split())[:80]
    except Exception:
        return cls(n)


def _node_at(f, p):
    n = f
    for s, i in p:
        v = getattr(n, s)
        n = v[i] if isinstance(v, list) else v
    return n


def _path_of(f, target):
    idx = D.path_index(f)
    return tuple(map(tuple, idx.get(id(target), [])))


def shrink(src, sig):
    def bad(s):
        try:
            fs, info = check_func(s)
        except Exception:
            return False
        return any(x["sig"] == sig for x in fs)
    return S.shrink_source(src, bad, budget=250)


# ---------------------------------------------------------------------------
# correspondence helpers
# ---------------------------------------------------------------------------

def bad_list_file(items):
    """items: [(tree, [[kind, path]])] -- the spec verdict of the Coq side against the Python oracle"""
    def build():
        rows = []
        for tree, bl in items:
            rows.append("(" + D.cq_tree(tree) + ",\n  " +
                        D._fold([f"({D.cq_str(k)}, {D.cq_path(p)})" for k, p in bl], "cons", "nil") + ")")
        t = "Definition cases : list (node * list (string * path)) :=\n [" + ";\n ".join(rows) + "].\n"
        t += ("Fixpoint sp_eqb (a b : list (string * path)) : bool := match a, b with [], [] => true | (k, p) :: a', (l, q) :: b' => String.eqb k l && path_eqb p q && sp_eqb a' b' | _, _ => false end.\n"
              "Eval vm_compute in bad (fun c => let '(t, e) := c in sp_eqb (c05_bad t) e) 0 cases.\n")
        return t
    return S._with_interning(build)


def run(ctx):
    vlib.import_pymwp()
    from pymwp import Coverage
    rng = ctx.rng
    failing, mism, seen = [], [], set()
    stats = {"evaluations": 0, "samples": []}
    dist = {"generated": 0, "parse_ok": 0, "gate_full": 0, "gate_raises": 0, "full_with_effect_sites": 0, "early_exit": 0,
            "analysis_raises": 0, "spec_modelable_and_full": 0, "header_effects": 0}
    n = ctx.n(1400, 15000)
    corpus = [c["src"] for c in vlib.corpus("C05")]
    nontriv = 0
    for k in range(n):
        if k < len(corpus):
            src = corpus[k]
        else:
            g = S.Gen(rng, edge=rng.choice([0.15, 0.3, 0.5]), maxdepth=rng.choice([1, 2, 3]))
            # few statements per function: the gate must accept ALL of them for the function to be checked
            src = g.func(lo=1, hi=rng.choice([1, 2, 3, 4]))
        dist["generated"] += 1
        fs, info = check_func(src)
        if info is None:
            continue
        dist["parse_ok"] += 1
        stats["evaluations"] += 1
        if info["exc"] and info["full"] is None:
            dist["gate_raises"] += 1
            continue
        if not info["full"]:
            continue
        dist["gate_full"] += 1
        dist["full_with_effect_sites"] += info["sites"] > 0
        dist["early_exit"] += info["early_exit"]
        dist["analysis_raises"] += bool(info["exc"])
        dist["spec_modelable_and_full"] += bool(info["spec"])
        dist["header_effects"] += info["header_effects"]
        nontriv += info["sites"] > 0
        if len(stats["samples"]) < 3 and info["sites"] >= 2 and not fs:
            stats["samples"].append({"src": src, "effect_sites": info["sites"]})
        for f in fs:
            key = tuple(f["sig"])
            if key in seen:
                continue
            seen.add(key)
            small = shrink(src, f["sig"])
            fs2, _ = check_func(small)
            g2 = next((x for x in fs2 if x["sig"] == f["sig"]), f)
            g2["shrunk_from"] = src
            failing.append(g2)
    stats["distribution"] = dist
    if dist["gate_full"] < 0.1 * max(1, dist["parse_ok"]):
        mism.append(f"generator degenerate: only {dist['gate_full']} of {dist['parse_ok']} functions pass the gate")
    # ---- correspondence ------------------------------------------------------------------------
    ncorr = 0
    if ctx.coq_ok:
        items = []
        for _ in range(ctx.n(240, 1500)):
            src, ast = S.gen_parsed(rng, edge=rng.choice([0.1, 0.3, 0.5, 0.7]))
            f = ast.ext[-1]
            items.append((D.dump(f), S.observe_walkers(f), src))
        bad, errs = S.run_sharded("c05_w", [(t, o) for t, o, _ in items], S.walker_file, 5, per=120)
        mism += errs
        for nm, b in zip(("coverage omit paths", "tree after ast_mod", "vars", "find_loops", "wf_pyc"), bad):
            if nm in ("coverage omit paths", "wf_pyc") and b:
                mism.append(f"walkers/{nm}: model differs from the real code on {len(b)} of {len(items)} functions, e.g. {items[b[0]][2]!r}")
        ncorr += len(items)
        # dispatch: default-mode tree (after ast_mod) and accepted functions as they are
        ditems, skipped = [], {"early_exit": 0, "raises": 0, "gate_raises": 0, "timeout": 0}
        bitems = []
        for k in range(ctx.n(420, 3000)):
            g = S.Gen(rng, edge=rng.choice([0.1, 0.3, 0.5]), maxdepth=rng.choice([1, 2, 3]))
            src = g.func(lo=1, hi=rng.choice([1, 2, 3, 5]))
            try:
                f = S.parse(src).ext[-1]
                c = Coverage(f)
                was_full = c.full
                c.ast_mod()
                tree = D.dump(f)
            except Exception:
                skipped["gate_raises"] += 1
                continue
            try:
                vis, info = vlib.with_timeout(S.observe_dispatch, 8, f)
            except vlib.CaseTimeout:
                skipped["timeout"] += 1
                continue
            if info["exc"]:
                skipped["raises"] += 1
                continue
            if info["early_exit"]:
                skipped["early_exit"] += 1
                continue
            if any(v[0] is None for v in vis):
                mism.append(f"dispatch: _unsupported called outside any compute_relation call on {src!r}")
                continue
            ditems.append((tree, vis, src))
            if was_full and len(bitems) < ctx.n(200, 1200):
                bitems.append((tree, py_bad_list(f), src))
        bad, errs = S.run_sharded("c05_d", [(t, v) for t, v, _ in ditems], S.dispatch_file, 1, per=120)
        mism += errs
        if bad[0]:
            mism.append(f"dispatch: model's compute_relation call sequence differs on {len(bad[0])} of {len(ditems)} functions, e.g. {ditems[bad[0][0]][2]!r}")
        ncorr += len(ditems)
        stats["dispatch_cases"] = len(ditems)
        stats["dispatch_cases_with_unsupported"] = sum(1 for _, v, _ in ditems if any(x[1] for x in v))
        stats["dispatch_skipped"] = skipped
        bad, errs = S.run_sharded("c05_b", [(t, b) for t, b, _ in bitems], bad_list_file, 1, per=100)
        mism += errs
        if bad[0]:
            i = bad[0][0]
            mism.append(f"spec verdict: Coq c05_bad differs from the Python oracle on {len(bad[0])} of {len(bitems)} accepted functions, e.g. {bitems[i][2]!r} oracle={bitems[i][1]}")
        ncorr += len(bitems)
        stats["verdict_cases"] = len(bitems)
        stats["verdict_cases_bad"] = sum(1 for _, b, _ in bitems if b)
    else:
        mism.append("model not built: correspondence not run")
    stats["evaluations"] += ncorr
    stats["correspondence_cases"] = ncorr
    stats["distinct_nontrivial"] = nontriv
    stats["rule"] = ("generated functions of 1-4 top-level statements (nesting <= 3) with 15-50 % edge constructs; only functions the gate accepts are "
                     "checked (the rest is the converse direction: rejected); non-trivial = accepted functions holding at least one effect site")
    return {"failing": failing, "corr_mismatch": mism, "stats": stats}


def py_bad_list(f):
    """The Python twin of Coq's c05_bad on a function node: ordered list of (kind, path) where the
    dispatch of the analysis (oracle re-implementation, NOT the real code) loses something.
    kinds: unsupported | cond | dropped.  Used only to validate the Coq SPEC against an independent
    reading; the real code is compared through the dispatch stream."""
    out = []

    def eff(n):
        return not effect_free(n)

    def stmt(n, p):
        from pymwp import Coverage
        c = cls(n)
        if c in ("Break", "Continue", "EmptyStatement", "Decl"):
            return
        if c == "Return":
            if n.expr is not None and eff(n.expr):
                out.append(("dropped", p + [("expr", 0)]))
            return
        if c == "Assignment" and cls(n.lvalue) == "ID":
            cast = cls(n.rvalue) == "Cast"
            r = n.rvalue.expr if cast else n.rvalue
            rp = p + ([("rvalue", 0), ("expr", 0)] if cast else [("rvalue", 0)])
            rc = cls(r)
            if rc in ("BinaryOp", "Constant", "ID"):
                return
            if rc == "UnaryOp":
                if r.op == "sizeof":
                    return
                if r.op == "!":
                    if eff(r.expr):
                        out.append(("dropped", rp + [("expr", 0)]))
                    return
                if cls(r.expr) == "Constant":
                    return
                if cls(r.expr) == "ID" and r.op in INCDEC | {"+", "-"}:
                    return
                out.append(("unsupported", p))
                return
            out.append(("unsupported", p))
            return
        if c == "UnaryOp":
            if n.op in INCDEC and cls(strip_casts(n.expr)) == "ID":
                return
            if eff(n):
                out.append(("dropped", p))
            return
        if c == "If":
            if eff(n.cond):
                out.append(("cond", p + [("cond", 0)]))
            for s in ("iftrue", "iffalse"):
                b = getattr(n, s)
                if b is None:
                    continue
                if cls(b) == "Compound":
                    for i, x in enumerate(b.block_items or []):
                        stmt(x, p + [(s, 0), ("block_items", i)])
                else:
                    stmt(b, p + [(s, 0)])
            return
        if c in ("While", "DoWhile"):
            if eff(n.cond):
                out.append(("cond", p + [("cond", 0)]))
            stmt(n.stmt, p + [("stmt", 0)])
            return
        if c == "For":
            if not Coverage.loop_compat(n)[0]:
                out.append(("unsupported", p))
                return
            if n.cond is not None and eff(n.cond):
                out.append(("cond", p + [("cond", 0)]))
            stmt(n.stmt, p + [("stmt", 0)])
            return
        if c == "Compound":
            for i, x in enumerate(n.block_items or []):
                stmt(x, p + [("block_items", i)])
            return
        if is_noop_call(n):
            if n.args is not None and eff(n.args):
                out.append(("dropped", p + [("args", 0)]))
            return
        out.append(("unsupported", p))
    for i, x in enumerate(f.body.block_items or []):
        stmt(x, [("body", 0), ("block_items", i)])
    return out


def replay(ctx, data):
    vlib.import_pymwp()
    inp = data.get("input", data)
    fs, _ = check_func(inp["src"])
    want = data.get("sig")
    for f in fs:
        if want is None or f["sig"] == want:
            return f
    return fs[0] if fs else None
