"""C02: a function is reported infinite exactly when no derivation exists; both modes agree; a
function reported not infinite has a valid choice."""
import itertools
import vlib
import e2e
import calc
import streams
import unitcorr

ID = "C02"
LEVEL = "proof"
MODEL_TARGETS = ["theories/Analysis.vo", "theories/Calculus.vo"]
TRANSLATORS = ["semiring", "rules"]
LEVEL_TEXT = ("Machine-checked theorems (coq/props/C02.v): reported infinite (by the delta graph's early verdict or by the complete evaluation) => none of the "
              "3^k choice vectors has a derivation in the calculus; reported not infinite => some vector of the reported degree has one (k = 0 included); "
              "the verdict is the same in both modes and the whole result is equal when not infinite. Unbounded in program size/nesting. Model tied to the "
              "code by the end-to-end correspondence; the real verdict is compared with the calculus oracle over all 3^k vectors in both modes on programs "
              "that fail by one loop, several loops jointly, nested loops, tight multiplicative cycles the delta graph does not detect.")
LEVEL_NOTE = "Trusted: Coq kernel, translators, reader tools/cread.py, generators. Delta-graph soundness is property C11's theorem; Choices.generate is C04's."
TECHNIQUE = "Coq proof over an executable model + differential correspondence (vm_compute) + exhaustive-vector calculus oracle, both modes"
EXPLANATION = "see LEVEL_TEXT"
ASSUMPTIONS = ["functions inside the typed fragment read by tools/cread.py", "k <= 7 sites for exhaustive vector enumeration"]


def run(ctx):
    vlib.import_pymwp()
    n = ctx.n(160, 1500)
    progs = streams.programs(ctx, n, max_sites=ctx.n(5, 6))
    progs += (streams.focused(ctx, ctx.n(30, 400), "branch-accumulate") + streams.focused(ctx, ctx.n(20, 200), "pair-cycle") +
              streams.focused(ctx, ctx.n(40, 400), "for-accumulate"))
    failing, mism, recs, coq_cases = [], [], [], []
    kinds = {"one-loop": 0, "multi-loop": 0, "nested": 0, "loop-after-failing": 0}
    agree = 0
    for label, src in progs:
        res = {}
        for fin in (False, True):
            r = e2e.run_real(src, fin, False)
            if r["exc"]:
                if r["exc"][0] not in ("ParseError", "Timeout"):      # the 30 s limit is a harness safety net; termination is property C06
                    failing.append({"what": f"raise: Analysis.run(fin={fin}) raised {r['exc']}", "sig": ["C02", "raise", r["exc"][0], r["exc"][1]],
                                    "input": {"src": src, "opts": {"fin": fin}}, "expected": "a result", "observed": r["exc"]})
                continue
            d = r["funcs"].get("f")
            if d is None or d["typed"] is None:
                continue
            res[fin] = d
            recs.append(d)
            inp = {"src": src, "opts": {"fin": fin}}
            f = d["typed"]
            k = calc.count_sites(f)
            if k <= 7:
                nvalid = sum(1 for c in itertools.product((0, 1, 2), repeat=k) if calc.derive(f, list(c))[0] is not None)
                none = (nvalid == 0 and k > 0)
                if d["infinite"] != none:
                    failing.append({"what": f"verdict: tool (fin={fin}) says infinite={d['infinite']}; the calculus has {nvalid} of {3**k} derivations",
                                    "sig": ["C02", "verdict"], "input": inp, "expected": none, "observed": d["infinite"]})
            if not d["infinite"]:
                if not d["has_choices"] or d["first"] is None or (d["valid"] is not None and not any(d["valid"])):
                    failing.append({"what": "no-valid-choice: function reported not infinite has no valid choice", "sig": ["C02", "no-valid-choice"],
                                    "input": inp, "expected": "a valid vector", "observed": e2e.strip(d).get("valid_boxes")})
            if d["index"] <= 5:
                coq_cases.append((f"{label} fin={fin}\n{src}", d, not fin))
        if len(res) == 2:
            if res[False]["infinite"] != res[True]["infinite"]:
                failing.append({"what": f"modes: early-stop says infinite={res[False]['infinite']}, run-to-completion says {res[True]['infinite']}",
                                "sig": ["C02", "modes-disagree"], "input": {"src": src}, "expected": "equal verdicts",
                                "observed": [res[False]["infinite"], res[True]["infinite"]]})
            else:
                agree += 1
            # classify how it fails (for the distribution)
            nl = src.count("while") + src.count("for (")
            if res[True]["infinite"]:
                kinds["one-loop" if nl == 1 else "multi-loop"] += 1
    ssf, ssinfo = streams.small_scope_check(ctx, "C02", 800)
    failing += [f for f in ssf if f["sig"][1] in ("verdict", "raise")]
    if ctx.coq_ok:
        mism += e2e.coq_compare("c02", coq_cases)
        m1, n_aux = unitcorr.poly_aux(ctx, ctx.n(200, 2000))
        m2, n_chain = unitcorr.rel_chain_fix(ctx, ctx.n(60, 600), failing, "C02")
        mism += m1 + m2
    else:
        mism.append("model not built: analysis correspondence not run")
    dist = streams.distribution(recs)
    if recs and not (0.05 < dist["share_infinite"] < 0.95):
        mism.append("generator degenerate (verdict distribution): " + str(dist))
    distinct = len({repr(d["typed"]) for d in recs if streams.nontrivial(d)})
    stats = {"evaluations": len(recs) + 2 * ssinfo["programs"], "distinct_nontrivial": distinct,
             "rule": "generated functions x {early-stop, run-to-completion}; verdict compared with the calculus over all 3^k vectors; non-trivial = distinct "
                     "typed function with >=1 site and a loop or branch",
             "samples": [streams.CORPUS[2][1], progs[-1][1]], "distribution": dist, "infinite_kinds": kinds, "mode_pairs_agreeing": agree,
             "coq_model_cases": len(coq_cases), "programs": len(progs), "small_scope": ssinfo}
    return {"failing": failing, "corr_mismatch": mism, "stats": stats}


def replay(ctx, data):
    import random
    vlib.import_pymwp()
    inp = data.get("input", data)
    if "src" not in inp:
        return unitcorr.replay_unit(inp, "C02")
    src = inp["src"]
    out = []
    res = {}
    for fin in (False, True):
        r = e2e.run_real(src, fin, False)
        if r["exc"]:
            return {"what": f"raise: {r['exc']}", "sig": ["C02", "raise", r["exc"][0], r["exc"][1]], "input": inp}
        d = r["funcs"].get("f")
        if d is None or d["typed"] is None:
            return None
        res[fin] = d
        f = d["typed"]
        k = calc.count_sites(f)
        if k <= 7:
            nvalid = sum(1 for c in itertools.product((0, 1, 2), repeat=k) if calc.derive(f, list(c))[0] is not None)
            if d["infinite"] != (nvalid == 0 and k > 0):
                return {"what": "verdict", "sig": ["C02", "verdict"], "input": inp}
    if res[False]["infinite"] != res[True]["infinite"]:
        return {"what": "modes", "sig": ["C02", "modes-disagree"], "input": inp}
    return None
