"""C20: the printed bound expression denotes the computed bound.

search         real MwpBound/Bound code against (i) an independent evaluator of the printed text
               (tokenizer + recursive descent, written here) and the max/+/x formula, (ii) the
               sequence round trip parse(bound_str), (iii) an independent statement of the
               `significant` filter.  Triples are enumerated smallest first, so the first failing
               input of each kind is minimal.
correspondence string equality, computed inside Coq, between coq/theories/Bound.v and the real
               bound_poly (both forms), bound_str, parse, MwpBound(...), Bound(...).show/to_dict and
               Bound.calculate on scalar matrices (well-formed and malformed)."""
import itertools
import types

import vlib

ID = "C20"
LEVEL = "proof"
TRANSLATORS = ["semiring"]
MODEL_TARGETS = ["theories/Bound.vo"]
TECHNIQUE = ("Coq proofs over an executable model of bound.py (strings as byte lists, unbounded lists, all valuations) "
             "+ exhaustive/sampled string-equality correspondence with the real code + independent evaluator search")
LEVEL_TEXT = ("Machine-checked proofs that the text printed by the model of MwpBound.bound_poly (normal and compact), read by an "
              "independently defined tokenizer/recursive-descent reader, evaluates to max(max x, sum y) + prod z for every "
              "triple of identifier lists and every valuation; that parse(bound_str) is the identity; that the significant "
              "filter omits exactly the self-only bounds; that Bound.calculate reads columns. The model is compared "
              "character for character with the real code on every run.")
LEVEL_NOTE = ("Trusted: Coq kernel; that the hand-written model Bound.v is bound.py (validated by the string-equality "
              "correspondence on every run, exhaustive for <= 3 names per list over a 6-name alphabet in the thorough tier); "
              "Python str ordering = UTF-8 byte order. No axioms.")
EXPLANATION = ("Theorems are about coq/theories/Bound.v (code-shaped model of HonestPoly/MwpBound/Bound). The reader of the "
               "concrete syntax (Bound_syntax.v) is defined without reference to bound_poly. Search runs the real code "
               "against a separate Python evaluator of the printed string; correspondence compares model and real strings.")
ASSUMPTIONS = [
    "variable names are identifiers: non-empty, none of ( ) , + * ; and not the literal 0 (C identifiers satisfy this)",
    "HonestPoly.var_fmt is None (never assigned anywhere in pymwp)",
    "Python's sorted() on str = byte-lexicographic order of the UTF-8 encoding",
]

# ---------------------------------------------------------------------------------------------
# independent evaluator of the printed text
# ---------------------------------------------------------------------------------------------

PUNCT = "(),+*×"


class EvalError(Exception):
    pass


def tokenize(s):
    out, cur = [], ""
    for ch in s:
        if ch in PUNCT:
            if cur:
                out.append(("id", cur)); cur = ""
            out.append((ch, ch))
        elif ch.isspace():
            if cur:
                out.append(("id", cur)); cur = ""
        else:
            cur += ch
    if cur:
        out.append(("id", cur))
    return out


def eval_text(s, rho):
    """Value of an expression over max(..), +, * (or ×), parentheses, names and decimal literals."""
    ts = tokenize(s)
    pos = [0]

    def peek():
        return ts[pos[0]][0] if pos[0] < len(ts) else None

    def take(kind=None):
        if pos[0] >= len(ts) or (kind is not None and ts[pos[0]][0] != kind):
            raise EvalError(f"expected {kind} at token {pos[0]} of {s!r}")
        t = ts[pos[0]]; pos[0] += 1
        return t

    def e_sum():
        v = e_prod()
        while peek() == "+":
            take(); v = v + e_prod()
        return v

    def e_prod():
        v = e_fac()
        while peek() in ("*", "×"):
            take(); v = v * e_fac()
        return v

    def e_fac():
        k = peek()
        if k == "(":
            take(); v = e_sum(); take(")")
            return v
        if k == "id":
            name = take()[1]
            if name == "max" and peek() == "(":
                take(); args = [e_sum()]
                while peek() == ",":
                    take(); args.append(e_sum())
                take(")")
                return max(args)
            if name.isdigit():
                return int(name)
            if name not in rho:
                raise EvalError(f"unknown name {name!r} in {s!r}")
            return rho[name]
        raise EvalError(f"unexpected token {k!r} in {s!r}")

    v = e_sum()
    if pos[0] != len(ts):
        raise EvalError(f"trailing text in {s!r}")
    return v


def formula(x, y, z, rho):
    xs = [rho[v] for v in set(x)]
    ys = [rho[v] for v in set(y)]
    zs = [rho[v] for v in set(z)]
    prod = 1
    for v in zs:
        prod *= v
    return max(max(xs, default=0), sum(ys)) + (prod if zs else 0)


def only_self(k, x, y, z):
    """the bound of k lists nothing but k itself"""
    return set(x) | set(y) | set(z) == {k} and len(x) + len(y) + len(z) == 1


# ---------------------------------------------------------------------------------------------
# inputs
# ---------------------------------------------------------------------------------------------

ALPHA = ["a", "b", "X1", "X10", "max", "_t"]
ALPHA_WIDE = ["a", "b", "X1", "X10", "max", "_t", "n0", "zz", "X2", "a$b", "len$", "$", "__n", "ab", "aX1"]     # pycparser accepts `$` in identifiers


def triples(alpha, cap):
    """all (x, y, z) of pairwise disjoint lists over alpha, each of <= cap names, smallest first"""
    out = []
    for lab in itertools.product(range(4), repeat=len(alpha)):
        x = [a for a, l in zip(alpha, lab) if l == 1]
        y = [a for a, l in zip(alpha, lab) if l == 2]
        z = [a for a, l in zip(alpha, lab) if l == 3]
        if max(len(x), len(y), len(z)) <= cap:
            out.append((x, y, z))
    out.sort(key=lambda t: (len(t[0]) + len(t[1]) + len(t[2]), t))
    return out


def valuations(names, rng, n):
    vs = [{v: 0 for v in names}, {v: 1 for v in names}, {v: 2 for v in names}]
    primes = [2, 3, 5, 7, 11, 13, 17, 19, 23, 29, 31, 37]
    vs.append({v: primes[i % len(primes)] for i, v in enumerate(names)})
    vs.append({v: primes[-1 - (i % len(primes))] for i, v in enumerate(names)})
    for i, v in enumerate(names):      # one variable large, the others 0 / 1
        vs.append({w: (50 if w == v else 0) for w in names})
        vs.append({w: (50 if w == v else 1) for w in names})
    while len(vs) < n:
        kind = rng.randrange(4)
        if kind == 0:
            vs.append({v: rng.randrange(2) for v in names})
        elif kind == 1:
            vs.append({v: rng.randrange(4) for v in names})
        elif kind == 2:
            vs.append({v: rng.randrange(1, 30) for v in names})
        else:
            vs.append({v: rng.choice([0, 1, 1, 2, 7, 100, 10 ** 6]) for v in names})
    return vs[:max(n, 5 + 2 * len(names))]


def build(MwpBound, x, y, z):
    b = MwpBound()
    for v in x:
        b.append("m", v)
    for v in y:
        b.append("w", v)
    for v in z:
        b.append("p", v)
    return b


def seqs(t):
    return [list(c) for c in t]


# ---------------------------------------------------------------------------------------------
# Coq case files
# ---------------------------------------------------------------------------------------------

HEADER = r"""From Coq Require Import String Ascii List Bool.
From PM Require Import Bound.
Import ListNotations.
Open Scope string_scope.
Definition LL := map L.
Definition seqb (a : str) (b : string) := String.eqb (to_string a) b.
Fixpoint lseqb (a : list str) (b : list string) : bool :=
  match a, b with [], [] => true | u :: a', v :: b' => seqb u v && lseqb a' b' | _, _ => false end.
Fixpoint llseqb (a : list (list str)) (b : list (list string)) : bool :=
  match a, b with [], [] => true | u :: a', v :: b' => lseqb u v && llseqb a' b' | _, _ => false end.
Fixpoint dseqb (a : list (str * str)) (b : list (string * string)) : bool :=
  match a, b with [] , [] => true
  | (k, v) :: a', (k', v') :: b' => seqb k k' && seqb v v' && dseqb a' b' | _, _ => false end.
Definition oseqb (a : option str) (b : option string) : bool :=
  match a, b with Some u, Some v => seqb u v | None, None => true | _, _ => false end.
Fixpoint bad {C : Type} (chk : C -> bool) (n : nat) (l : list C) : list nat :=
  match l with [] => [] | c :: t => if chk c then bad chk (S n) t else n :: bad chk (S n) t end.

(* stream mb: lists given in insertion order *)
Definition chk_mb (c : list string * list string * list string * (string * string * string)) : bool :=
  let '(x, y, z, (pn, pc, bs)) := c in
  let b := mb_of_lists (LL x) (LL y) (LL z) in
  seqb (bound_poly b false) pn && seqb (bound_poly b true) pc && seqb (bound_str b) bs
  && (negb (forallb truthy (LL (x ++ y ++ z)%list))
      || seqb (render (bound_expr b false)) pn && seqb (render (bound_expr b true)) pc)
  && seqb (mb_poly b (L "k") true) ("k′≤" ++ pc) && seqb (mb_poly b (L "k") false) ("k′ ≤ " ++ pn).

(* stream parse: any text; expected components; bound_str of MwpBound(text) or None if it raises *)
Definition chk_parse (c : option string * list (list string) * option string) : bool :=
  let '(inp, comps, bs) := c in
  let v := option_map L inp in
  llseqb (parse v) comps && oseqb (option_map bound_str (mb_init v)) bs.

(* stream show: Bound(dict).show(compact, significant, variables) and to_dict; None if Bound(dict) raises *)
Definition chk_show (c : list (string * string) * bool * bool * list string * option (string * list (string * string))) : bool :=
  let '(d, cp, sg, vs, e) := c in
  match bound_init (map (fun kv => (L (fst kv), L (snd kv))) d), e with
  | Some bd, Some (s, td) => seqb (show bd cp sg (LL vs)) s && dseqb (to_dict bd) td
  | None, None => true
  | _, _ => false
  end.

(* stream calc: Bound().calculate(vars, matrix): to_dict and show(True, True); None if it raises *)
Definition chk_calc (c : list string * list (list string) * option (list (string * string) * string)) : bool :=
  let '(vs, m, e) := c in
  match calculate [] (LL vs) m, e with
  | Some bd, Some (td, s) => dseqb (to_dict bd) td && seqb (show bd true true []) s
  | None, None => true
  | _, _ => false
  end.
"""


def q(s):
    return vlib.cq_str(s)


def ql(xs):
    return vlib.cq_list([q(s) for s in xs])


def qll(xss):
    return vlib.cq_list([ql(xs) for xs in xss])


def qd(d):
    return vlib.cq_list([f"({q(k)}, {q(v)})" for k, v in d])


def coq_ok_text(s):
    # Coq string literals carry raw bytes; NUL and isolated surrogates are avoided by the generators
    return isinstance(s, str) and "\x00" not in s


class Stream:
    def __init__(self, name, ctype, chk):
        self.name, self.ctype, self.chk, self.cases, self.descr = name, ctype, chk, [], []

    def add(self, lit, descr):
        self.cases.append(lit)
        self.descr.append(descr)

    def jobs(self):
        out = []
        for i in range(0, len(self.cases), 400):
            chunk = self.cases[i:i + 400]
            text = (HEADER + f"Definition cases : list ({self.ctype}) :=\n " + "[" + ";\n  ".join(chunk) + "]"
                    + f".\nEval vm_compute in bad {self.chk} 0 cases.\n")
            out.append((f"c20_{self.name}_{i // 400}", text, i))
        return out


def run_streams(streams, mism):
    jobs, where = [], {}
    for st in streams:
        for name, text, off in st.jobs():
            jobs.append((name, text))
            where[name] = (st, off)
    res = vlib.coq_eval_many(jobs, timeout=600)
    n = 0
    for name, (ok, out) in res.items():
        st, off = where[name]
        vals = vlib.parse_eval_results(out)
        if not ok or not vals:
            mism.append(f"{name}.v did not evaluate: " + out[-400:])
            continue
        body = vals[0].strip()
        if body != "[]":
            idx = [int(t) for t in body.strip("[]").replace(";", " ").split()]
            first = st.descr[off + idx[0]]
            mism.append(f"stream {st.name}: model and real code differ on {len(idx)} case(s); first: {first}")
    for st in streams:
        n += len(st.cases)
    return n


# ---------------------------------------------------------------------------------------------
# run
# ---------------------------------------------------------------------------------------------

def search(ctx, B, failing, stats):
    MwpBound, Bound = B.MwpBound, B.Bound
    rng = ctx.rng
    ev = 0
    nontrivial = set()
    samples = []

    def fail(kind, what, inp, exp, obs):
        if sum(1 for f in failing if f["sig"] == ["C20", kind]) < 3:
            failing.append({"what": what, "sig": ["C20", kind], "input": inp, "expected": exp, "observed": obs})

    if ctx.thorough:
        ts = triples(ALPHA, 3)
    else:
        ts = triples(ALPHA, 2)
        t3 = [t for t in triples(ALPHA, 3) if max(map(len, t)) == 3]
        ts += rng.sample(t3, min(len(t3), 150))
        ts.sort(key=lambda t: (len(t[0]) + len(t[1]) + len(t[2]), t))
    # wider alphabet / all nine names / longer lists: sampled
    extra = []
    for _ in range(ctx.n(150, 1500)):
        names = ALPHA_WIDE + [f"v{i}" for i in range(rng.randrange(0, 12))]
        rng.shuffle(names)
        k1, k2, k3 = (rng.choice([0, 1, 2, 3, 4, 7]) for _ in range(3))
        extra.append((names[:k1], names[k1:k1 + k2], names[k1 + k2:k1 + k2 + k3]))
    nval = ctx.n(24, 30)
    sizes = {}
    want_shapes = {(0, 0, 0), (1, 0, 1), (0, 2, 0), (2, 1, 2), (0, 1, 2), (3, 2, 1)}
    for (x, y, z) in ts + extra:
        xs, ys, zs = list(x), list(y), list(z)
        rng.shuffle(xs); rng.shuffle(ys); rng.shuffle(zs)     # sets: insertion order must not matter
        inp = {"x": xs, "y": ys, "z": zs}
        sizes[(len(x), len(y), len(z))] = sizes.get((len(x), len(y), len(z)), 0) + 1
        try:
            b = build(MwpBound, xs, ys, zs)
            texts = {"normal": MwpBound.bound_poly(b, False), "compact": MwpBound.bound_poly(b, True)}
            if str(b) != texts["normal"]:
                fail("str", "str(MwpBound) is not the normal form", inp, texts["normal"], str(b))
            names = sorted(set(x) | set(y) | set(z))
            vals = valuations(names, rng, nval)
            for form, text in texts.items():
                nontrivial.add((form, text))
                for rho in vals:
                    ev += 1
                    want = formula(x, y, z, rho)
                    try:
                        got = eval_text(text, rho)
                    except EvalError as e:
                        got = f"unreadable: {e}"
                    if got != want:
                        fail("denotes", f"denotes: {form} text {text!r} does not evaluate to max(max x, sum y) + prod z",
                             dict(inp, form=form, rho=rho), want, {"text": text, "value": got})
                        break
            if (len(x), len(y), len(z)) in want_shapes:
                want_shapes.discard((len(x), len(y), len(z)))
                samples.append({"x": xs, "y": ys, "z": zs, "normal": texts["normal"], "compact": texts["compact"],
                                "bound_str": b.bound_str})
            # text form round trip, as sequences
            ev += 1
            bs = b.bound_str
            want_t = [sorted(set(x)), sorted(set(y)), sorted(set(z))]
            if seqs(b.bound_triple) != want_t:
                fail("triple", "bound_triple is not the sorted lists", inp, want_t, seqs(b.bound_triple))
            back = seqs(MwpBound.parse(bs))
            if back != want_t:
                fail("parse", f"parse(bound_str) differs from the triple (text {bs!r})", inp, want_t, back)
            b2 = MwpBound(bs)
            if not (b2 == b) or seqs(b2.bound_triple) != want_t or b2.bound_str != bs:
                fail("parse", f"MwpBound(bound_str) is a different bound (text {bs!r})", inp, want_t, seqs(b2.bound_triple))
            # the same bound reached through another history: reads in between, variables added directly to the three lists
            ev += 1
            b3 = MwpBound()
            todo3 = [("x", v) for v in xs] + [("y", v) for v in ys] + [("z", v) for v in zs]
            rng.shuffle(todo3)
            for which, v in todo3:
                _ = (b3.bound_str, b3.bound_triple, MwpBound.bound_poly(b3, True), str(b3), b3.to_dict() if hasattr(b3, "to_dict") else None)   # a read must not freeze anything
                if rng.random() < 0.5:
                    getattr(b3, which).add(v)
                else:
                    b3.append({"x": "m", "y": "w", "z": "p"}[which], v)
            if seqs(b3.bound_triple) != want_t or b3.bound_str != bs or MwpBound.bound_poly(b3, False) != texts["normal"] or not (b3 == b) or str(b3) != texts["normal"]:
                fail("history", "history: a bound built with reads in between / by adding to the lists directly differs from the same bound built by append",
                     dict(inp, order=[list(t) for t in todo3]), {"triple": want_t, "text": bs, "poly": texts["normal"]},
                     {"triple": seqs(b3.bound_triple), "text": b3.bound_str, "poly": MwpBound.bound_poly(b3, False)})
            # significant filter: keys k over the names, names that extend / are a prefix of them, + one outsider
            glue = [u + v for u, v in ((xs[:1] + [""])[:1] and [((xs[:1] or [""])[0], (ys[:1] or [""])[0]), ((xs[:1] or [""])[0], (zs[:1] or [""])[0]),
                                                                           ((ys[:1] or [""])[0], (zs[:1] or [""])[0])])]
            glue.append("".join((l[:1] or [""])[0] for l in (xs, ys, zs)))
            keys = list(dict.fromkeys(names[:3] + [n + "0" for n in names[:2]] + [n[:-1] for n in names[:2] if len(n) > 1] +
                                      [g for g in glue if g] + ["q"]))      # names glued across the three lists, too
            bd = Bound({k: bs for k in keys})
            for compact in (False, True):
                ev += 1
                shown = bd.show(compact=compact, significant=True)
                got_keys = [e.split("′")[0] for e in shown.split(" ∧ ")] if shown else []
                want_keys = [k for k in keys if not only_self(k, x, y, z)]
                if got_keys != want_keys:
                    fail("significant", "significant: show(significant=True) does not omit exactly the self-only bounds",
                         dict(inp, keys=keys, compact=compact), want_keys, {"text": shown, "keys": got_keys})
                full = bd.show(compact=compact)
                want_full = " ∧ ".join(f"{k}′{'≤' if compact else ' ≤ '}{texts['compact' if compact else 'normal']}" for k in keys)
                if full != want_full:
                    fail("show", "show: entries are not `k′ ≤ bound_poly` joined by ∧", dict(inp, keys=keys, compact=compact),
                         want_full, full)
        except Exception as e:   # the real code raised on an identifier triple
            fail("raise", f"raise: {type(e).__name__} on an identifier triple", inp, "no exception", vlib.exc_sig(e))
    # what a user reads: FuncResult.__str__ ends with show(True, True)
    try:
        from pymwp.result import FuncResult
        bd = Bound({"X0": "X0;X1;X2", "X1": "X1;;", "X2": ";;X2", "X3": ";;"})
        txt = str(FuncResult("f", variables=["X0", "X1", "X2", "X3"], bound=bd))
        ev += 1
        if txt.split("\n")[-1] != "X0′≤max(X0,X1)+X2 ∧ X3′≤0":
            fail("display", "display: FuncResult.__str__ does not end with the compact significant bound",
                 {"bound": bd.to_dict()}, "X0′≤max(X0,X1)+X2 ∧ X3′≤0", txt.split("\n")[-1])
    except Exception as e:
        fail("raise", f"raise: {type(e).__name__} in FuncResult.__str__", {}, "no exception", vlib.exc_sig(e))
    # Bound.calculate against an independent column reading (well-formed scalar matrices)
    ncalc = 0
    for n in sorted(rng.choice([1, 2, 3, 3, 4, 5, 8]) for _ in range(ctx.n(300, 3000))):   # smallest first
        vs = [f"X{i}" for i in range(n)]
        rng.shuffle(vs)
        m = [[rng.choice("ommwwppi") for _ in range(n)] for _ in range(n)]
        want = {}
        for j, name in enumerate(vs):
            col = [(m[i][j], vs[i]) for i in range(n)]
            want[name] = ";".join(",".join(sorted(v for c, v in col if c == s)) for s in "mwp")
        ev += 1; ncalc += 1
        try:
            got = Bound().calculate(types.SimpleNamespace(variables=vs, matrix=m)).to_dict()
        except Exception as e:
            got = vlib.exc_sig(e)
        if got != want or (isinstance(got, dict) and list(got) != vs):
            fail("calculate", "calculate: the bound of variable j is not column j split by scalar",
                 {"variables": vs, "matrix": m}, want, got)
    stats["search_calculate_matrices"] = ncalc
    stats["evaluations"] += ev
    stats["search_triples"] = len(ts) + len(extra)
    stats["search_exhaustive_cap"] = 3 if ctx.thorough else 2
    stats["distinct_printed_texts"] = len(nontrivial)
    stats["valuations_per_text"] = nval
    stats["shape_histogram"] = {f"{k[0]}/{k[1]}/{k[2]}": v for k, v in sorted(sizes.items())[:40]}
    stats["samples"] = samples
    return len(nontrivial)


def rand_name(rng):
    first = "abcxyzXYZ_mn"
    rest = first + "0123456789"
    n = rng.choice([1, 1, 2, 3, 6, 12])
    return rng.choice(first) + "".join(rng.choice(rest) for _ in range(n - 1))


def correspondence(ctx, B, mism, stats):
    MwpBound, Bound = B.MwpBound, B.Bound
    rng = ctx.rng
    mb = Stream("mb", "list string * list string * list string * (string * string * string)", "chk_mb")
    ps = Stream("parse", "option string * list (list string) * option string", "chk_parse")
    sh = Stream("show", "list (string * string) * bool * bool * list string * option (string * list (string * string))", "chk_show")
    ca = Stream("calc", "list string * list (list string) * option (list (string * string) * string)", "chk_calc")

    def add_mb(x, y, z):
        b = build(MwpBound, x, y, z)
        pn, pc, bs = MwpBound.bound_poly(b, False), MwpBound.bound_poly(b, True), b.bound_str
        mb.add(f"({ql(x)}, {ql(y)}, {ql(z)}, ({q(pn)}, {q(pc)}, {q(bs)}))", {"x": x, "y": y, "z": z})

    ts = triples(ALPHA, 3) if ctx.thorough else triples(ALPHA[:5], 3)
    for (x, y, z) in ts:
        xs, ys, zs = list(x), list(y), list(z)
        rng.shuffle(xs); rng.shuffle(ys); rng.shuffle(zs)
        add_mb(xs, ys, zs)
    for _ in range(ctx.n(300, 3000)):          # longer lists, multi-character names, overlaps, duplicates, odd names
        pool = [rand_name(rng) for _ in range(rng.randrange(1, 14))]
        if rng.random() < 0.25:
            pool += rng.sample(["", "0", "max", "a b", "é", "x′", "-1", "A", "a", "aa", "a0", "Z9", "x.y", "p[0]", "µ"], 3)
        pick = lambda: [rng.choice(pool) for _ in range(rng.choice([0, 1, 1, 2, 3, 5, 9]))]
        add_mb(pick(), pick(), pick())

    def add_parse(text):
        try:
            comps = seqs(MwpBound.parse(text))
        except Exception:
            return
        try:
            bs = MwpBound(text).bound_str
        except Exception:
            bs = None
        ps.add(f"({vlib.cq_opt(text, q)}, {qll(comps)}, {vlib.cq_opt(bs, q)})", {"text": text})

    for t in [None, "", ";", ";;", ";;;", "a", "a;b", "a;b;c", "a;b;c;d", ",", ",;,;,", "a,,b;;", ";a;", "a,b;c,d;e,f", " ; ; ",
              "b,a,b;;a", "X10,X2;X1;", ";;X1,X0", "a,;;", ",a;;", "a;;b,", "0;0;0"]:
        add_parse(t)
    for _ in range(ctx.n(250, 2500)):
        n = rng.randrange(0, 12)
        add_parse("".join(rng.choice("ab;,;,X1 ") for _ in range(n)))

    def add_show(d, cp, sg, vs):
        try:
            bd = Bound(dict(d))
            e = f"(Some ({q(bd.show(cp, sg, tuple(vs) if vs is not None else None))}, {qd(list(bd.to_dict().items()))}))"
        except Exception:
            e = "None"
        sh.add(f"({qd(d)}, {vlib.cq_bool(cp)}, {vlib.cq_bool(sg)}, {ql(vs or [])}, {e})", {"dict": d, "compact": cp, "significant": sg, "variables": vs})

    def rand_triple_text(names, k):
        r = rng.random()
        if r < 0.3:      # self only, in one of the lists
            i = rng.randrange(3)
            return ";".join(k if j == i else "" for j in range(3))
        if r < 0.35:
            return ";;"
        if r < 0.4:
            return rng.choice(["a;b", "a;b;c;d", "", f"{k},{k};;", f"{k};{k};", f"{k},;;"])
        return ";".join(",".join(rng.sample(names, rng.choice([0, 0, 1, 1, 2, 3]))) for _ in range(3))

    for _ in range(ctx.n(350, 3000)):
        names = [rand_name(rng) for _ in range(rng.randrange(1, 6))] + ["X0", "X1"]
        keys = list(dict.fromkeys(rng.sample(names, rng.randrange(0, len(names) + 1))))
        d = [(k, rand_triple_text(names, k)) for k in keys]
        vs = rng.choice([None, None, [], rng.sample(names, rng.randrange(0, len(names)))])
        add_show(d, rng.random() < 0.5, rng.random() < 0.6, vs)

    def add_calc(vs, m):
        try:
            bd = Bound().calculate(types.SimpleNamespace(variables=vs, matrix=m))
            e = f"(Some ({qd(list(bd.to_dict().items()))}, {q(bd.show(True, True))}))"
        except Exception:
            e = "None"
        ca.add(f"({ql(vs)}, {qll(m)}, {e})", {"variables": vs, "matrix": m})

    from pymwp.relation import SimpleRelation
    kinds = {"square": 0, "malformed": 0, "dup_names": 0}
    for _ in range(ctx.n(350, 3000)):
        n = rng.choice([0, 1, 2, 2, 3, 3, 4, 5, 7])
        vs = [f"X{i}" for i in range(n)] if rng.random() < 0.5 else list(dict.fromkeys(rand_name(rng) for _ in range(n)))
        n = len(vs)
        m = [[rng.choice("ommwwppi") for _ in range(n)] for _ in range(n)]
        r = rng.random()
        if r < 0.12 and n:      # malformed: short / long rows, missing / extra rows, unknown scalars
            k = rng.randrange(5)
            if k == 0:
                m[rng.randrange(n)].pop()
            elif k == 1:
                m.pop()
            elif k == 2:
                m.append(["m"] * n)
            elif k == 3:
                m[rng.randrange(n)].append("p")
            else:
                m[rng.randrange(n)][rng.randrange(n)] = rng.choice(["", "M", "mw", "0"])
            kinds["malformed"] += 1
        elif r < 0.18 and n > 1:
            vs[rng.randrange(n)] = vs[rng.randrange(n)]
            kinds["dup_names"] += 1
        else:
            kinds["square"] += 1
            # the real entry point for well-formed input is a SimpleRelation: same answer as the duck-typed call
            if n and Bound().calculate(SimpleRelation(list(vs), [row[:] for row in m])).to_dict() != \
                    Bound().calculate(types.SimpleNamespace(variables=vs, matrix=m)).to_dict():
                mism.append(f"harness: SimpleRelation and plain (variables, matrix) give different bounds on {vs} {m}")
        add_calc(vs, m)

    streams = [mb, ps, sh, ca]
    for st in streams:
        keep = [(c, d) for c, d in zip(st.cases, st.descr) if coq_ok_text(c)]
        st.cases, st.descr = [c for c, _ in keep], [d for _, d in keep]
    n = run_streams(streams, mism)
    stats["evaluations"] += n
    stats["correspondence_cases"] = {st.name: len(st.cases) for st in streams}
    stats["calc_kinds"] = kinds
    return n


def run(ctx):
    vlib.import_pymwp()
    from pymwp import bound as B
    failing, mism = [], []
    stats = {"evaluations": 0}
    nt = search(ctx, B, failing, stats)
    if ctx.coq_ok:
        nc = correspondence(ctx, B, mism, stats)
    else:
        nc = 0
        mism.append("model not built: Bound.v correspondence not run")
    stats["distinct_nontrivial"] = nt + nc
    stats["rule"] = ("search: every (form, printed text) pair is distinct-nontrivial, each evaluated under valuations_per_text valuations "
                     "(all-0, all-1, all-2, two prime assignments, one-hot 50 over 0s and over 1s, random 0/1, small, large); "
                     "triples of disjoint lists over a 6-name alphabet (incl. 'max', 'X1' < 'X10', '_t'), exhaustive up to "
                     "search_exhaustive_cap names per list (+ sample of 3 in quick) + random wider/longer lists; "
                     "correspondence: every generated case counted once (streams mb/parse/show/calc)")
    return {"failing": failing, "corr_mismatch": mism, "stats": stats}


def replay(ctx, data):
    vlib.import_pymwp()
    from pymwp import bound as B
    inp = data.get("input", data)
    if not isinstance(inp, dict) or "x" not in inp:
        r = run(ctx)
        return r["failing"][0] if r["failing"] else None
    x, y, z = inp["x"], inp["y"], inp["z"]
    b = build(B.MwpBound, x, y, z)
    names = sorted(set(x) | set(y) | set(z))
    rhos = [inp["rho"]] if "rho" in inp else valuations(names, ctx.rng, 24)
    for form in ([inp["form"]] if "form" in inp else ["normal", "compact"]):
        text = B.MwpBound.bound_poly(b, form == "compact")
        for rho in rhos:
            try:
                got = eval_text(text, rho)
            except EvalError as e:
                got = f"unreadable: {e}"
            if got != formula(x, y, z, rho):
                return {"what": f"denotes: {form} text {text!r}", "sig": ["C20", "denotes"], "input": inp,
                        "expected": formula(x, y, z, rho), "observed": got}
    want_t = [sorted(set(x)), sorted(set(y)), sorted(set(z))]
    if seqs(B.MwpBound.parse(b.bound_str)) != want_t:
        return {"what": "parse(bound_str) differs", "sig": ["C20", "parse"], "input": inp, "expected": want_t,
                "observed": seqs(B.MwpBound.parse(b.bound_str))}
    keys = inp.get("keys", (names + ["q"])[:5])
    shown = B.Bound({k: b.bound_str for k in keys}).show(compact=bool(inp.get("compact")), significant=True)
    got_keys = [e.split("′")[0] for e in shown.split(" ∧ ")] if shown else []
    want_keys = [k for k in keys if not only_self(k, x, y, z)]
    if got_keys != want_keys:
        return {"what": "significant filter", "sig": ["C20", "significant"], "input": inp, "expected": want_keys, "observed": got_keys}
    return None
