"""C10: relation operations mean matrix operations at every choice.
correspondence: random relation expressions (leaves shaped like the analysis' assignments over random,
differently ordered, overlapping variable lists; composition / sum / fixpoint / W and L corrections)
evaluated by the real Relation class and by the Coq model Rel.v, compared structurally;
search: brute force over all choice vectors of the real results against plain scalar matrix algebra, infinity
persistence, and the split property of statement sequences."""
import itertools
import vlib
import polylib as PL
import e2e
import calc
import streams
import unitcorr

ID = "C10"
LEVEL = "proof"
MODEL_TARGETS = ["theories/Rel.vo"]
COQ_TARGETS = ["theories/Rel_ops_closed.vo", "theories/Rel_fix_closed.vo"]
TRANSLATORS = ["semiring", "rules"]
LEVEL_TEXT = ("Machine-checked theorems (coq/props/C10.v) about the Coq model of matrix.py/relation.py: homogenisation preserves the meaning of both "
              "operands over arbitrary, differently ordered, overlapping variable lists; sum is pointwise at EVERY choice; composition has an exact formula "
              "at every choice and is the plain matrix product wherever the operands are free of infinity; fixpoint, when it returns, is the least solution "
              "of X = 1 + X.R (reflexive-transitive closure) at every infinity-free choice, and it terminates; splitting a statement list and composing the "
              "parts gives the analysis of the whole; the empty relation is the identity (not zero) for sum and composition; unbounded in the number of "
              "variables, their order and overlap. "
              "Tied to the code by structural comparison of random relation expressions; real results brute-forced against scalar matrix algebra.")
LEVEL_NOTE = ("Trusted: Coq kernel, translators rules/semiring, harness. Open finding: an infinity of an operand can be lost by composition "
              "(zero polynomial x partially failing entry) -- the persistence clause is refuted with a witness, see known_findings.json.")
TECHNIQUE = "Coq proof (homogenisation / sum / product / closure semantics) + differential correspondence on relation expressions + brute-force scalar algebra oracle"
EXPLANATION = "see LEVEL_TEXT"
ASSUMPTIONS = ["relations are well formed (distinct non-empty variable names, square matrix)"]

HEADER = ("From Coq Require Import String List Bool Arith.\nFrom PM Require Import Semiring Poly Rel.\nImport ListNotations.\n"
          "Open Scope string_scope.\nOpen Scope list_scope.\n"
          "Inductive rex := REmpty | RLeaf (vars : list string) (x : string) (vec : list poly) | RComp (a b : rex) | RSum (a b : rex) | RFix (a : rex) | RW (a : rex) | RL (a : rex) (x : string).\n"
          "Fixpoint ev (e : rex) : option rel :=\n"
          "  match e with\n"
          "  | REmpty => Some rel_empty\n"
          "  | RLeaf vars x vec => replace_column (rel_identity vars) vec x\n"
          "  | RComp a b => match ev a, ev b with Some p, Some q => Some (rel_comp p q) | _, _ => None end\n"
          "  | RSum a b => match ev a, ev b with Some p, Some q => Some (rel_sum p q) | _, _ => None end\n"
          "  | RFix a => match ev a with Some p => rel_fixpoint 100 p | None => None end\n"
          "  | RW a => match ev a with Some p => Some (fst (while_correction p)) | None => None end\n"
          "  | RL a x => match ev a with Some p => option_map fst (loop_correction p x) | None => None end\n"
          "  end.\n"
          "Definition rel_eqb (a b : rel) : bool := list_eqb String.eqb (rvars a) (rvars b) && list_eqb (list_eqb poly_eqb) (rmat a) (rmat b).\n"
          "Definition chk (c : rex * option rel) : bool := match ev (fst c), snd c with Some a, Some b => rel_eqb a b | None, None => true | _, _ => false end.\n"
          "Fixpoint bad (n : nat) (l : list (rex * option rel)) : list nat := match l with [] => [] | c :: t => if chk c then bad (S n) t else n :: bad (S n) t end.\n")

NAMES = ["a", "b", "c", "d", "e"]

# the refutation witness of coq/theories/Rel_persist.v, as a relation expression (state of the analysis of
# x=5;y=5;while(z>0){x=y+y;} composed with the relation of while(z>0){z=x+x;}); evaluated first
_I0 = [("i", [(0, 0)]), ("i", [(1, 0)])]
_WA = ("comp", ("comp", ("leaf", ["x", "y", "z"], "x", [_I0, _I0, _I0]), ("leaf", ["x", "y", "z"], "y", [[("o", [])], [("o", [])], [("o", [])]])),
       ("leaf", ["x", "y", "z"], "y", [[("o", [])], [("o", [])], [("o", [])]]))
WITNESSES = [("comp", ("leaf", ["x", "y", "z"], "x", [_I0, _I0, _I0]),
              ("leaf", ["z", "x"], "z", [[("m", [])], [("i", [(0, 1)]), ("i", [(1, 1)]), ("w", [(2, 1)])]]))]


class DG:   # minimal stand-in for the delta graph argument of the corrections
    def from_monomial(self, m):
        pass


def gen_leaf(rng, site):
    nv = rng.choice([1, 2, 2, 3])
    vs = rng.sample(NAMES, nv)
    x = vs[0]
    rng.shuffle(vs)
    kind = rng.random()
    if kind < 0.15:
        vec = [[("o", [])] for _ in range(len(vs))] if rng.random() < 0.5 else [[("o", [])]]
    else:
        tr = rng.choice(PL.LEAVES)
        cells = []
        for i in range(len(vs)):
            r = rng.random()
            if r < 0.25:
                cells.append([("o", [])])
            elif r < 0.4:
                cells.append([("m", [])])
            else:
                t = rng.choice(PL.LEAVES)
                cells.append([(s, [(n, site[0])]) for n, s in enumerate(t)])
        vec = cells
        site[0] += 1
    return ("leaf", vs, x, vec)


def gen_rex(rng, depth, site):
    if depth == 0 or rng.random() < 0.2:
        if rng.random() < 0.1:
            return ("empty",)          # Relation(): no variables; stands for skip, i.e. the identity, in sums and compositions alike
        return gen_leaf(rng, site)
    r = rng.random()
    if r < 0.45:
        return ("comp", gen_rex(rng, depth - 1, site), gen_rex(rng, depth - 1, site))
    if r < 0.65:
        return ("sum", gen_rex(rng, depth - 1, site), gen_rex(rng, depth - 1, site))
    if r < 0.8:
        return ("fix", gen_rex(rng, depth - 1, site))
    if r < 0.92:
        return ("wc", ("fix", gen_rex(rng, depth - 1, site)))
    return ("lc", ("fix", gen_rex(rng, depth - 1, site)), None)


def ev_real(e):
    from pymwp import Relation
    k = e[0]
    if k == "empty":
        return Relation()
    if k == "leaf":
        _, vs, x, vec = e
        return Relation.identity(list(vs)).replace_column([PL.from_data(p) for p in vec], x)
    if k == "comp":
        return ev_real(e[1]) * ev_real(e[2])
    if k == "sum":
        return ev_real(e[1]) + ev_real(e[2])
    if k == "fix":
        return ev_real(e[1]).fixpoint()
    if k == "wc":
        r = ev_real(e[1])
        r.while_correction(DG())
        return r
    if k == "lc":
        r = ev_real(e[1])
        x = e[2] if e[2] is not None else (r.variables[0] if r.variables else None)
        if x is None:
            raise KeyError("no variable")
        r.loop_correction(x, DG())
        return r
    raise ValueError(k)


def fill_lc(e):
    """choose the loop variable of every lc node from the real relation's variables (deterministic: first)"""
    k = e[0]
    if k in ("leaf", "empty"):
        return e
    if k in ("comp", "sum"):
        return (k, fill_lc(e[1]), fill_lc(e[2]))
    if k in ("fix", "wc"):
        return (k, fill_lc(e[1]))
    inner = fill_lc(e[1])
    try:
        r = ev_real(inner)
        x = r.variables[0] if r.variables else "zz"
    except Exception:
        x = "zz"
    return ("lc", inner, x)


def cq_rex(e):
    k = e[0]
    if k == "empty":
        return "REmpty"
    if k == "leaf":
        return "(RLeaf %s %s %s)" % (vlib.cq_list([vlib.cq_str(v) for v in e[1]]), vlib.cq_str(e[2]), vlib.cq_list([PL.cq_poly(p) for p in e[3]]))
    if k == "comp":
        return "(RComp %s %s)" % (cq_rex(e[1]), cq_rex(e[2]))
    if k == "sum":
        return "(RSum %s %s)" % (cq_rex(e[1]), cq_rex(e[2]))
    if k == "fix":
        return "(RFix %s)" % cq_rex(e[1])
    if k == "wc":
        return "(RW %s)" % cq_rex(e[1])
    return "(RL %s %s)" % (cq_rex(e[1]), vlib.cq_str(e[2]))


def rel_data(r):
    return {"vars": list(r.variables), "matrix": [[PL.to_data(p) for p in row] for row in r.matrix]}


def value(r, c, x, y):
    """scalar value of relation data r at choice c for the pair (x, y), identity outside the variables"""
    vs = r["vars"]
    if x in vs and y in vs:
        return PL.smax(PL.poly_terms(r["matrix"][vs.index(x)][vs.index(y)], c))
    return "m" if x == y else "o"


def smul_full(a, b):
    if a == "i" or b == "i":
        return "i"
    return PL.sprod(a, b)


def semantic_check(e, failing, memo):
    """operands vs result at all vectors (top-level operator of e only)"""
    k = e[0]
    if k in ("leaf", "empty"):
        return
    try:
        ops = [rel_data(ev_real(x)) for x in e[1:] if isinstance(x, tuple)]
        res = rel_data(ev_real(e))
    except Exception:
        return
    sites = PL.max_index(*[p for r in ops + [res] for row in r["matrix"] for p in row])
    if sites > 5:
        return
    V = list(dict.fromkeys([v for r in ops for v in r["vars"]]))
    inp = {"rex": repr(e)}
    if set(res["vars"]) != set(V):
        failing.append({"what": f"vars: result variables of {k} are not the union", "sig": ["C10", "vars", k], "input": inp, "expected": V, "observed": res["vars"]})
        return
    for c in PL.all_choices(sites):
        A = {(x, y): value(ops[0], c, x, y) for x in V for y in V}
        B = {(x, y): value(ops[1], c, x, y) for x in V for y in V} if len(ops) > 1 else None
        R = {(x, y): value(res, c, x, y) for x in V for y in V}
        infA = any(v == "i" for v in A.values())
        infB = B is not None and any(v == "i" for v in B.values())
        infR = any(v == "i" for v in R.values())
        if k == "comp":
            # an infinity facing an operand entry that HAS a term at c (or is the zero polynomial) must survive
            def has_term(r, x, y):
                vs = r["vars"]
                if x in vs and y in vs:
                    return bool(PL.poly_terms(r["matrix"][vs.index(x)][vs.index(y)], c))
                return True
            for x in V:
                for y in V:
                    live = any((A[(x, z)] == "i" and has_term(ops[1], z, y)) or (B[(z, y)] == "i" and has_term(ops[0], x, z)) for z in V)
                    if live and R[(x, y)] != "i":
                        failing.append({"what": f"infinity-dropped: composition drops an infinity at choice {list(c)}, entry ({x},{y}), although the facing operand entry has a term there",
                                        "sig": ["C10", "infinity-dropped-live", k], "input": dict(inp, choice=list(c)), "expected": "i", "observed": R[(x, y)]})
                        return
        if k in ("comp", "sum", "fix") and (infA or infB) and not infR:
            sig = ["C10", "infinity-lost", k]
            failing.append({"what": f"infinity-lost: an operand of {k} has an infinity at choice {list(c)} but the result has none"
                            + (" (every infinity faces an entry with no term at this choice: zero polynomial x partially failing entry)" if k == "comp" else ""),
                            "sig": sig, "input": dict(inp, choice=list(c)), "expected": "an infinity", "observed": "none"})
            return
        if infA or infB:
            continue
        if k == "sum":
            exp = {p: PL.smax([A[p], B[p]]) for p in A}
        elif k == "comp":
            exp = {(x, y): PL.smax([PL.sprod(A[(x, z)], B[(z, y)]) for z in V]) for x in V for y in V}
        elif k == "fix":
            cur = {(x, y): ("m" if x == y else "o") for x in V for y in V}
            while True:
                nxt = {(x, y): PL.smax([("m" if x == y else "o")] + [PL.sprod(cur[(x, z)], A[(z, y)]) for z in V]) for x in V for y in V}
                if nxt == cur:
                    break
                cur = nxt
            exp = cur
        else:
            continue
        if exp != R:
            bad = [p for p in exp if exp[p] != R[p]][0]
            failing.append({"what": f"value: result of {k} at choice {list(c)} differs from the matrix {k} at entry {bad}: {R[bad]} vs {exp[bad]}",
                            "sig": ["C10", "value", k], "input": dict(inp, choice=list(c)), "expected": exp[bad], "observed": R[bad]})
            return


def split_check(ctx, failing, n):
    """analysing a statement sequence equals composing the analyses of any split of it"""
    from pymwp import Analysis, RelationList, Variables
    from pycparser import c_ast
    done = 0
    for label, src in streams.programs(ctx, n, max_sites=4):
        try:
            ast = e2e.parse(src)
        except Exception:
            continue
        fn = [x for x in ast.ext if isinstance(x, c_ast.FuncDef)][0]
        if not Analysis.syntax_check(fn, False):
            continue
        body = fn.body.block_items or []
        if len(body) < 2:
            continue
        vs = Variables(fn).vars
        try:
            full = RelationList.identity(variables=vs)
            di, k = Analysis.cmds(full, 0, body, stop=False)
            if di or k > 5:
                continue
            for cut in range(1, len(body)):
                r1 = RelationList.identity(variables=vs)
                d1, k1 = Analysis.cmds(r1, 0, body[:cut], stop=False)
                r2 = RelationList.identity(variables=vs)
                d2, k2 = Analysis.cmds(r2, k1, body[cut:], stop=False)
                if d1 or d2 or k2 != k:
                    continue
                comp = r1.first * r2.first
                done += 1
                for c in itertools.product((0, 1, 2), repeat=k):
                    a = full.first.apply_choice(*c).matrix
                    b = comp.apply_choice(*c).matrix
                    ia = any("i" in row for row in a)
                    ib = any("i" in row for row in b)
                    if ia != ib:
                        failing.append({"what": f"split-infinity: whole-sequence analysis and composition of the split at {cut} disagree on infinity at choice {list(c)}",
                                        "sig": ["C10", "split-infinity"], "input": {"src": src, "cut": cut, "choice": list(c)}, "expected": ia, "observed": ib})
                        break
                    if not ia and a != b:
                        failing.append({"what": f"split: analysis of the sequence differs from the composition of the split at {cut} at choice {list(c)}",
                                        "sig": ["C10", "split"], "input": {"src": src, "cut": cut, "choice": list(c)}, "expected": a, "observed": b})
                        break
        except Exception as ex:
            failing.append({"what": f"raise: split analysis raised {vlib.exc_sig(ex)}", "sig": ["C10", "raise"] + vlib.exc_sig(ex), "input": {"src": src}})
    return done


def run(ctx):
    vlib.import_pymwp()
    n = ctx.n(500, 5000)
    failing, mism, cases = [], [], []
    ops_hist = {}
    nexc = 0
    for i in range(n + len(WITNESSES)):
        site = [0]
        e = WITNESSES[i] if i < len(WITNESSES) else fill_lc(gen_rex(ctx.rng, ctx.rng.choice([1, 2, 2, 3]), site))
        ops_hist[e[0]] = ops_hist.get(e[0], 0) + 1
        try:
            r = vlib.with_timeout(lambda: ev_real(e), 20)
            exp = rel_data(r)
        except vlib.CaseTimeout:
            failing.append({"what": "timeout: relation expression did not terminate in 20 s", "sig": ["C10", "timeout"], "input": {"rex": repr(e)}})
            continue
        except Exception as ex:
            exp = None
            nexc += 1
        cases.append((e, exp))
        if exp is not None and i < ctx.n(250, 2000):
            semantic_check(e, failing, None)
    nsplit = split_check(ctx, failing, ctx.n(40, 400))
    m1, n_aux = unitcorr.poly_aux(ctx, ctx.n(300, 2000))
    m2, n_chain = unitcorr.rel_chain_fix(ctx, ctx.n(120, 1200), failing, "C10")
    mism += m1 + m2
    if ctx.coq_ok:
        jobs = []
        shards = [cases[i:i + 250] for i in range(0, len(cases), 250)]
        for si, sh in enumerate(shards):
            lits = ["(%s, %s)" % (cq_rex(e), e2e.cq_rel(x)) for e, x in sh]
            jobs.append((f"c10_s{si}", HEADER + "Definition cases : list (rex * option rel) :=\n " + vlib.cq_list(lits) + ".\nEval vm_compute in bad 0 cases.\n"))
        outs = vlib.coq_eval_many(jobs, timeout=1200)
        for si, sh in enumerate(shards):
            ok, out = outs[f"c10_s{si}"]
            vals = vlib.parse_eval_results(out)
            if not ok or not vals:
                mism.append(f"stream relation-expressions shard {si}: coqc failed: {out[-300:]}")
            elif vals[0] != "[]":
                idx = [int(x) for x in vals[0].strip("[]").split(";") if x.strip()]
                mism.append(f"stream relation-expressions shard {si}: model and code differ on {len(idx)} cases; first: {sh[idx[0]][0]!r}")
    else:
        mism.append("model not built: relation correspondence not run")
    distinct = len({repr(e) for e, _ in cases if e[0] not in ("leaf", "empty")})
    stats = {"evaluations": len(cases) + nsplit, "distinct_nontrivial": distinct,
             "rule": "random relation expressions: leaves = identity over a random ordered variable list with one column replaced by analysis-shaped polynomials; "
                     "operators composition/sum/fixpoint/W-correction/L-correction, depth <= 3; non-trivial = distinct expression with at least one operator; plus split checks of statement sequences",
             "samples": [repr(cases[0][0])[:400]], "top_operator_histogram": ops_hist, "raised_in_real_code": nexc, "split_checks": nsplit,
             "poly_aux_cases": n_aux, "chain_fixpoint_cases": n_chain}
    return {"failing": failing, "corr_mismatch": mism, "stats": stats}


def replay(ctx, data):
    vlib.import_pymwp()
    inp = data.get("input", data)
    failing = []
    if "rex" in inp:
        e = eval(inp["rex"], {"__builtins__": {}})
        semantic_check(e, failing, None)
    elif "src" in inp:
        class C:
            pass
        # re-run the split check on this program only
        import random
        saved = streams.programs
        try:
            streams.programs = lambda ctx_, n, max_sites=4, corpus=True: [("replay", inp["src"])]
            split_check(ctx, failing, 1)
        finally:
            streams.programs = saved
    want = data.get("sig")
    for f in failing:
        if want is None or f["sig"] == want:
            return f
    return failing[0] if failing else None
